package inputroot

// TestGallery: one scenario per kind of malformed Directory message (every
// invalid name in each of the three lists, a duplicate name within each
// list and across each pair of lists, every kind of unparsable digest in
// both lists that carry digests, a message that is not stored, bytes that
// are not a Directory message). The malformed message M is
//
//   - the child "bad" of a well-formed root (next to a well-formed sibling
//     "ok"), explored through every look-up and listing API, and the
//     target of local modifications that need its contents,
//   - the input root of a second action,
//   - a child inside a Tree object that is the input root of a third one.
//
// The random generator of gen_test.go produces the same kinds, but rarely
// (a given kind may not be reachable in any scenario of a run); this driver
// makes every one of them certain. The configuration of the stack (cache,
// handle allocator, sorter, suspending decorators) is still drawn per
// scenario. Nothing is judged here.

import (
	"fmt"
	"testing"

	remoteexecution "github.com/bazelbuild/remote-apis/build/bazel/remote/execution/v2"
	"github.com/buildbarn/bb-storage/pkg/digest"

	"google.golang.org/protobuf/proto"

	"verif/harness/common"
)

// addDir stores (or only names) a Directory message given as bytes.
func (w *world) addDirBytes(data []byte, stored, malformed bool) dirInfo {
	d := digestOf(w.df, data)
	w.ids.id(d)
	if stored {
		w.cas.store(d, data)
	}
	di := dirInfo{d: d, data: data, malformed: malformed, stored: stored}
	w.dirs = append(w.dirs, di)
	return di
}

func (w *world) addDir(m *remoteexecution.Directory, stored, malformed bool) dirInfo {
	data, err := proto.MarshalOptions{Deterministic: true}.Marshal(m)
	if err != nil {
		panic(err)
	}
	return w.addDirBytes(data, stored, malformed)
}

func (w *world) badDigestKind(k int) *remoteexecution.Digest {
	h := w.blobs[0].d.GetHashString()
	switch k {
	case 0:
		return nil
	case 1:
		return &remoteexecution.Digest{Hash: "abc", SizeBytes: 3}
	case 2:
		return &remoteexecution.Digest{Hash: "zz" + h[2:], SizeBytes: 1}
	}
	return &remoteexecution.Digest{Hash: h, SizeBytes: -1}
}

type galleryCase struct {
	name   string
	mutate func(w *world, m *remoteexecution.Directory)
	absent bool // the message is not stored
	junk   bool // the stored bytes are not a Directory message
}

func galleryCases() []galleryCase {
	var cs []galleryCase
	for _, bad := range invalidNames {
		bad := bad
		cs = append(cs,
			galleryCase{name: fmt.Sprintf("invalid-name-dir-%q", bad), mutate: func(w *world, m *remoteexecution.Directory) {
				m.Directories = append(m.Directories, &remoteexecution.DirectoryNode{Name: bad, Digest: w.emptyDirDigest().GetProto()})
			}},
			galleryCase{name: fmt.Sprintf("invalid-name-file-%q", bad), mutate: func(w *world, m *remoteexecution.Directory) {
				m.Files = append(m.Files, &remoteexecution.FileNode{Name: bad, Digest: w.blobs[1].d.GetProto()})
			}},
			galleryCase{name: fmt.Sprintf("invalid-name-symlink-%q", bad), mutate: func(w *world, m *remoteexecution.Directory) {
				m.Symlinks = append(m.Symlinks, &remoteexecution.SymlinkNode{Name: bad, Target: "t"})
			}},
		)
	}
	addDirNode := func(name string) func(w *world, m *remoteexecution.Directory) {
		return func(w *world, m *remoteexecution.Directory) {
			m.Directories = append(m.Directories, &remoteexecution.DirectoryNode{Name: name, Digest: w.emptyDirDigest().GetProto()})
		}
	}
	addFileNode := func(name string) func(w *world, m *remoteexecution.Directory) {
		return func(w *world, m *remoteexecution.Directory) {
			m.Files = append(m.Files, &remoteexecution.FileNode{Name: name, Digest: w.blobs[2].d.GetProto(), IsExecutable: true})
		}
	}
	addSymlinkNode := func(name string) func(w *world, m *remoteexecution.Directory) {
		return func(w *world, m *remoteexecution.Directory) {
			m.Symlinks = append(m.Symlinks, &remoteexecution.SymlinkNode{Name: name, Target: "other"})
		}
	}
	// the well-formed base has directory "sub", files "f" and "g", symlink "l"
	cs = append(cs,
		galleryCase{name: "duplicate-dir-dir", mutate: addDirNode("sub")},
		galleryCase{name: "duplicate-file-file", mutate: addFileNode("f")},
		galleryCase{name: "duplicate-symlink-symlink", mutate: addSymlinkNode("l")},
		galleryCase{name: "duplicate-dir-named-as-file", mutate: addDirNode("f")},
		galleryCase{name: "duplicate-dir-named-as-symlink", mutate: addDirNode("l")},
		galleryCase{name: "duplicate-file-named-as-dir", mutate: addFileNode("sub")},
		galleryCase{name: "duplicate-file-named-as-symlink", mutate: addFileNode("l")},
		galleryCase{name: "duplicate-symlink-named-as-dir", mutate: addSymlinkNode("sub")},
		galleryCase{name: "duplicate-symlink-named-as-file", mutate: addSymlinkNode("f")},
	)
	for k := 0; k < 4; k++ {
		k := k
		cs = append(cs,
			galleryCase{name: fmt.Sprintf("bad-digest-dir-%d", k), mutate: func(w *world, m *remoteexecution.Directory) {
				m.Directories = append(m.Directories, &remoteexecution.DirectoryNode{Name: "bd", Digest: w.badDigestKind(k)})
			}},
			galleryCase{name: fmt.Sprintf("bad-digest-file-%d", k), mutate: func(w *world, m *remoteexecution.Directory) {
				m.Files = append(m.Files, &remoteexecution.FileNode{Name: "bf", Digest: w.badDigestKind(k)})
			}},
		)
	}
	cs = append(cs,
		galleryCase{name: "absent", absent: true, mutate: func(w *world, m *remoteexecution.Directory) {
			m.Files = append(m.Files, &remoteexecution.FileNode{Name: "never", Digest: w.blobs[0].d.GetProto()})
		}},
		galleryCase{name: "junk", junk: true},
	)
	return cs
}

func (w *world) galleryBase() *remoteexecution.Directory {
	return &remoteexecution.Directory{
		Directories: []*remoteexecution.DirectoryNode{{Name: "sub", Digest: w.emptyDirDigest().GetProto()}},
		Files: []*remoteexecution.FileNode{
			{Name: "f", Digest: w.blobs[1].d.GetProto(), IsExecutable: true},
			{Name: "g", Digest: w.blobs[2].d.GetProto()},
		},
		Symlinks: []*remoteexecution.SymlinkNode{{Name: "l", Target: "t"}},
	}
}

func runGalleryCase(t *testing.T, tr *common.Trace, idx int, c galleryCase) {
	r := common.Rand(int64(5000 + idx))
	s := newScenario(t, tr, r, 0)
	s.pFault = 0
	s.info["gallery"] = c.name
	w := s.w

	good := w.addDir(w.galleryBase(), true, false)
	var bad dirInfo
	if c.junk {
		bad = w.addDirBytes([]byte{0xff, 0xff, 0xff, byte(idx)}, true, true)
	} else {
		m := w.galleryBase()
		c.mutate(w, m)
		bad = w.addDir(m, !c.absent, true)
	}
	root := w.addDir(&remoteexecution.Directory{
		Directories: []*remoteexecution.DirectoryNode{
			{Name: "ok", Digest: good.d.GetProto()},
			{Name: "bad", Digest: bad.d.GetProto()},
		},
		Files: []*remoteexecution.FileNode{{Name: "top", Digest: w.blobs[1].d.GetProto()}},
	}, true, false)
	root.depth = 2
	tree := w.genTree(root, false)
	s.describe([]digest.Digest{root.d, bad.d}, []digest.Digest{tree})

	a0, a1, a2 := s.actions[0], s.actions[1], s.actions[2]
	badDir := []string{"bad"}

	// the malformed message as a child directory of a well-formed root
	s.startAction(a0, "dir", root.d)
	s.fullWalk(a0, []string{}, 0)
	for which := 0; which < 3 && !s.dead; which++ {
		s.listAt(a0, badDir, which)
	}
	for _, n := range []string{"sub", "f", "l", "bd", "bf", "never", "zz"} {
		if s.dead {
			return
		}
		if d, ok := s.kdir(a0, badDir); ok {
			s.klookup(a0, d, badDir, n)
		}
		s.pdir(a0, []string{"bad", n})
	}
	if s.dead {
		return
	}
	// local modifications that need the contents of the malformed directory
	s.touch(a0)
	s.mkdirAt(a0, badDir, "n1", false)
	s.mkdirAt(a0, badDir, "n2", true)
	s.touch(a0)
	s.removeAt(a0, []string{}, "bad", false, func() (bool, bool) { return true, true })
	s.touch(a0)
	s.removeAt(a0, []string{}, "bad", true, nil)
	// the well-formed sibling and the root are what they were
	s.fullWalk(a0, []string{}, 0)
	if s.dead {
		return
	}

	// the malformed message as the input root itself
	s.startAction(a1, "dir", bad.d)
	s.listAt(a1, []string{}, 2)
	s.listAt(a1, []string{}, 0)
	if s.dead {
		return
	}

	// the malformed message inside a Tree object
	s.startAction(a2, "tree", tree)
	s.fullWalk(a2, []string{}, 0)
	s.listAt(a2, badDir, 2)
	if d, ok := s.kdir(a2, badDir); ok && !s.dead {
		s.klookup(a2, d, badDir, "f")
	}
	if !s.dead {
		s.finalScan()
	}
}

func TestGallery(t *testing.T) {
	tr := common.NewTrace("trace.ndjson")
	defer tr.Close()
	cases := galleryCases()
	names := []string{}
	for i, c := range cases {
		runGalleryCase(t, tr, i, c)
		names = append(names, c.name)
	}
	common.WriteJSON("meta.json", map[string]any{"scenarios": len(cases), "steps": 0, "events": tr.Len(), "cases": names})
}
