-------------------------------- MODULE Sched --------------------------------
(***************************************************************************)
(* Design model of the in-memory build queue                               *)
(* (pkg/scheduler/in_memory_build_queue.go) at the granularity of its      *)
(* critical sections: every action below is what one goroutine does        *)
(* between bq.enter() and bq.leave(), or one step it takes outside the     *)
(* lock (Send on the client stream, blocking in a select).                 *)
(*                                                                         *)
(* One platform queue with one size class; the queue is created by the     *)
(* first worker (or predeclared) and removed when it has been without      *)
(* workers for its time-out.  Time is abstract: a cleanup that has been    *)
(* armed may run at the start of any later section (the real code runs it  *)
(* when the clock has passed its timestamp); timers of blocked calls fire  *)
(* nondeterministically.  The order in which queued tasks are handed out   *)
(* (C04) is left open here (any queued task may be chosen); it is pinned   *)
(* down by the reference operators of SchedTrace.tla.                      *)
(*                                                                         *)
(* Properties C01, C02, C03, C05 (drains), C06 are stated on the snapshot  *)
(* built by Snap, with the same operators (SchedPreds.tla) that are        *)
(* evaluated on snapshots recorded from the real code.                     *)
(***************************************************************************)
EXTENDS SchedPreds, SequencesExt

CONSTANTS Workers, Clients, Digests, NoCache,   \* NoCache \subseteq Digests: do_not_cache actions
          Invs,                                  \* invocation keys (one level)
          MaxTasks, MaxOps, RetryLimit,
          Predeclared,                           \* BOOLEAN: queue exists from the start and is never removed
          AllowRequeue,                          \* BOOLEAN: analyzer may ask for a retry (fall back to QUEUED)
          Features                               \* which optional behaviours of the environment a configuration explores:
                                                 \* subset of {"wait","cancel","sendfail","kill","drain","terminate","wrong","preferidle","fail"}

VARIABLES
  task,     \* [1..MaxTasks -> record]; task[t].stage = "N" means not created
  op,       \* [1..MaxOps -> record]; op[o].alive
  dedup,    \* [Digests -> task id or 0]
  wk,       \* [Workers -> record]
  queue,    \* [exists, cleanupArmed]
  drained,  \* set of workers matched by an active drain
  cl,       \* [Clients -> stream/call state]
  sy,       \* [Workers -> Synchronize call state]
  sent,     \* [Clients -> sequence of messages delivered]  (history)
  told      \* [Workers -> sequence of execute instructions] (history)

vars == <<task, op, dedup, wk, queue, drained, cl, sy, sent, told>>

TaskId == 1 .. MaxTasks
OpId == 1 .. MaxOps

NoTask == [stage |-> "N", digest |-> "", dnc |-> FALSE, worker |-> "", retry |-> 0, resp |-> "", ver |-> 0, requeued |-> FALSE]
NoOp == [alive |-> FALSE, task |-> 0, inv |-> "", waiters |-> 0, armed |-> FALSE]
NoWorker == [known |-> FALSE, task |-> 0, terminating |-> FALSE, parked |-> "no", armed |-> FALSE, last |-> ""]
IdleClient == [pc |-> "idle", op |-> 0, ver |-> 0, cancelled |-> FALSE, msg |-> [stage |-> "", done |-> FALSE, resp |-> ""]]
NoSync == [pc |-> "none", reply |-> ""]

Init ==
  /\ task = [t \in TaskId |-> NoTask]
  /\ op = [o \in OpId |-> NoOp]
  /\ dedup = [d \in Digests |-> 0]
  /\ wk = [w \in Workers |-> NoWorker]
  /\ queue = [exists |-> Predeclared, armed |-> FALSE]
  /\ drained = {}
  /\ cl = [c \in Clients |-> IdleClient]
  /\ sy = [w \in Workers |-> NoSync]
  /\ sent = [c \in Clients |-> <<>>]
  /\ told = [w \in Workers |-> <<>>]

-----------------------------------------------------------------------------
Created == {t \in TaskId : task[t].stage # "N"}
Alive == {o \in OpId : op[o].alive}
OpsOf(t) == {o \in Alive : op[o].task = t}
QueuedTasks == {t \in Created : task[t].stage = "Q"}
IsDrained(w) == w \in drained \/ wk[w].terminating
IdleParked == {w \in Workers : wk[w].known /\ wk[w].parked = "idle"}

FreshTask == CHOOSE t \in TaskId : task[t].stage = "N" /\ \A u \in TaskId : task[u].stage = "N" => t <= u
FreshOp == CHOOSE o \in OpId : ~op[o].alive /\ op[o].task = 0 /\ \A u \in OpId : (~op[u].alive /\ op[u].task = 0) => o <= u
HaveFreshTask == \E t \in TaskId : task[t].stage = "N"
HaveFreshOp == \E o \in OpId : ~op[o].alive /\ op[o].task = 0

\* --- helpers that compute the effect of sub-steps on (task, op, dedup, wk) --

\* Result of completing task t (task.complete with a final result).
\* Returns the new <<task, dedup, wk>>.
CompleteTask(tk, dd, ww, t, resp) ==
  LET w == tk[t].worker IN
  <<[tk EXCEPT ![t].stage = "C", ![t].worker = "", ![t].resp = resp, ![t].ver = @ + 1],
    [d \in Digests |-> IF dd[d] = t THEN 0 ELSE dd[d]],
    IF w = "" THEN ww ELSE [ww EXCEPT ![w].task = 0]>>

\* Result of assigning queued/new task t to worker w.
AssignTask(tk, ww, t, w) ==
  <<[tk EXCEPT ![t].stage = "E", ![t].worker = w, ![t].retry = 0, ![t].ver = @ + 1],
    [ww EXCEPT ![w].task = t, ![w].parked = "no"]>>

-----------------------------------------------------------------------------
(* Client side: Execute / WaitExecution streams.                           *)

MsgOf(tk, t) == [stage |-> tk[t].stage, done |-> tk[t].stage = "C", resp |-> tk[t].resp]

\* Execute(): one critical section.  Either attaches to an in-flight task
\* for the same cacheable action or creates a task and schedules it.
Execute(c, d, i) ==
  /\ cl[c].pc = "idle"
  /\ IF ~queue.exists /\ ~(d \notin NoCache /\ dedup[d] # 0)
     THEN \* no workers: rejected, nothing created
          /\ cl' = [cl EXCEPT ![c].pc = "done"]
          /\ UNCHANGED <<task, op, dedup, wk, queue, drained, sy, sent, told>>
     ELSE IF d \notin NoCache /\ dedup[d] # 0
     THEN LET t == dedup[d]
              same == {o \in OpsOf(t) : op[o].inv = i}
          IN IF same # {}
             THEN LET o == CHOOSE o \in same : TRUE IN
                  /\ op' = [op EXCEPT ![o].waiters = @ + 1, ![o].armed = FALSE]
                  /\ cl' = [cl EXCEPT ![c] = [pc |-> "send", op |-> o, ver |-> task[t].ver, cancelled |-> FALSE, msg |-> MsgOf(task, t)]]
                  /\ UNCHANGED <<task, dedup, wk, queue, drained, sy, sent, told>>
             ELSE /\ HaveFreshOp
                  /\ LET o == FreshOp IN
                     /\ op' = [op EXCEPT ![o] = [alive |-> TRUE, task |-> t, inv |-> i, waiters |-> 1, armed |-> FALSE]]
                     /\ cl' = [cl EXCEPT ![c] = [pc |-> "send", op |-> o, ver |-> task[t].ver, cancelled |-> FALSE, msg |-> MsgOf(task, t)]]
                  /\ UNCHANGED <<task, dedup, wk, queue, drained, sy, sent, told>>
     ELSE /\ HaveFreshTask /\ HaveFreshOp
          /\ LET t == FreshTask
                 o == FreshOp
                 t0 == [task EXCEPT ![t] = [stage |-> "Q", digest |-> d, dnc |-> d \in NoCache, worker |-> "", retry |-> 0, resp |-> "", ver |-> 0, requeued |-> FALSE]]
             IN
             /\ op' = [op EXCEPT ![o] = [alive |-> TRUE, task |-> t, inv |-> i, waiters |-> 1, armed |-> FALSE]]
             /\ dedup' = IF d \in NoCache THEN dedup ELSE [dedup EXCEPT ![d] = t]
             /\ \/ \* hand the task straight to a worker that is blocked waiting
                   \E w \in IdleParked :
                     LET r == AssignTask(t0, wk, t, w) IN
                     /\ task' = r[1] /\ wk' = r[2]
                     /\ cl' = [cl EXCEPT ![c] = [pc |-> "send", op |-> o, ver |-> r[1][t].ver, cancelled |-> FALSE, msg |-> MsgOf(r[1], t)]]
                \/ /\ IdleParked = {}
                   /\ task' = t0 /\ wk' = wk
                   /\ cl' = [cl EXCEPT ![c] = [pc |-> "send", op |-> o, ver |-> 0, cancelled |-> FALSE, msg |-> MsgOf(t0, t)]]
          /\ UNCHANGED <<queue, drained, sy, sent, told>>

\* WaitExecution(): attach to an existing operation by name.
WaitExecution(c, o) ==
  /\ cl[c].pc = "idle"
  /\ op[o].alive
  /\ op' = [op EXCEPT ![o].waiters = @ + 1, ![o].armed = FALSE]
  /\ cl' = [cl EXCEPT ![c] = [pc |-> "send", op |-> o, ver |-> task[op[o].task].ver, cancelled |-> FALSE, msg |-> MsgOf(task, op[o].task)]]
  /\ UNCHANGED <<task, dedup, wk, queue, drained, sy, sent, told>>

\* out.Send() outside the lock.
StreamSend(c) ==
  /\ cl[c].pc = "send"
  /\ sent' = [sent EXCEPT ![c] = Append(@, cl[c].msg)]
  /\ cl' = [cl EXCEPT ![c].pc = IF cl[c].msg.done THEN "fin" ELSE "wait"]
  /\ UNCHANGED <<task, op, dedup, wk, queue, drained, sy, told>>

\* Send fails (client went away): the call returns through its last section.
StreamSendFails(c) ==
  /\ cl[c].pc = "send"
  /\ cl' = [cl EXCEPT ![c].pc = "fin", ![c].cancelled = TRUE]
  /\ UNCHANGED <<task, op, dedup, wk, queue, drained, sy, sent, told>>

ClientCancel(c) ==
  /\ cl[c].pc \in {"send", "wait"} /\ ~cl[c].cancelled
  /\ cl' = [cl EXCEPT ![c].cancelled = TRUE]
  /\ UNCHANGED <<task, op, dedup, wk, queue, drained, sy, sent, told>>

\* The select in waitExecution returns (stage change, update timer, or
\* cancellation) and the stream re-enters the lock.
StreamWake(c) ==
  /\ cl[c].pc = "wait"
  /\ IF cl[c].cancelled
     THEN cl' = [cl EXCEPT ![c].pc = "fin"]
     ELSE LET t == op[cl[c].op].task IN
          cl' = [cl EXCEPT ![c].pc = "send", ![c].ver = task[t].ver, ![c].msg = MsgOf(task, t)]
  /\ UNCHANGED <<task, op, dedup, wk, queue, drained, sy, sent, told>>

\* Last section of a stream: waiters--, arm the no-waiter cleanup.
StreamFin(c) ==
  /\ cl[c].pc = "fin"
  /\ LET o == cl[c].op IN
       op' = [op EXCEPT ![o].waiters = @ - 1, ![o].armed = (op[o].waiters = 1)]
  /\ cl' = [cl EXCEPT ![c].pc = "done"]
  /\ UNCHANGED <<task, dedup, wk, queue, drained, sy, sent, told>>

-----------------------------------------------------------------------------
(* Worker side: Synchronize.                                               *)

\* getNextTask without blocking part: returns <<task', wk', reply>> for
\* worker w that has no task; the choice among queued tasks is open.
NextChoices(tk, ww, w) ==
  IF IsDrained(w) \/ {t \in TaskId : tk[t].stage = "Q"} = {}
  THEN {<<tk, ww, "park">>}
  ELSE {<<AssignTask(tk, ww, t, w)[1], AssignTask(tk, ww, t, w)[2], "execute">> : t \in {t \in TaskId : tk[t].stage = "Q"}}

\* First section of a Synchronize call.  kind \in {"idle","executing","completed","wrong"}
\* ("wrong": reports a digest it is not supposed to run).
SyncEnter(w, kind, preferIdle, good) ==
  /\ sy[w].pc = "none"
  /\ queue.exists \/ ~Predeclared
  /\ LET w0 == IF wk[w].known THEN [wk EXCEPT ![w].armed = FALSE]
               ELSE [wk EXCEPT ![w] = [known |-> TRUE, task |-> 0, terminating |-> FALSE, parked |-> "no", armed |-> FALSE, last |-> ""]]
         has == w0[w].task # 0
         t == w0[w].task
         resp == IF good THEN "ok" ELSE "fail"
     IN
     /\ queue' = [exists |-> TRUE, armed |-> FALSE]
     /\ kind \in {"executing", "completed"} => has
     /\ \/ \* worker is doing what it should: no change
           /\ kind = "executing" /\ has
           /\ task' = task /\ dedup' = dedup /\ wk' = [w0 EXCEPT ![w].armed = TRUE]
           /\ sy' = [sy EXCEPT ![w] = [pc |-> "none", reply |-> "continue"]]
           /\ told' = told
        \/ \* worker lost its task or reports another one: re-issue or give up
           /\ kind \in {"idle", "wrong"} /\ has
           /\ IF task[t].retry < RetryLimit
              THEN /\ task' = [task EXCEPT ![t].retry = @ + 1]
                   /\ dedup' = dedup /\ wk' = [w0 EXCEPT ![w].armed = TRUE]
                   /\ sy' = [sy EXCEPT ![w] = [pc |-> "none", reply |-> "execute"]]
                   /\ told' = [told EXCEPT ![w] = Append(@, t)]
              ELSE LET r == CompleteTask(task, dedup, w0, t, "internal") IN
                   \E n \in NextChoices(r[1], r[3], w) :
                     /\ dedup' = r[2]
                     /\ IF n[3] = "execute" \/ kind = "wrong" \/ preferIdle
                        THEN /\ task' = IF n[3] = "execute" /\ ~preferIdle THEN n[1] ELSE r[1]
                             /\ wk' = IF n[3] = "execute" /\ ~preferIdle THEN [n[2] EXCEPT ![w].armed = TRUE] ELSE [r[3] EXCEPT ![w].armed = TRUE]
                             /\ sy' = [sy EXCEPT ![w] = [pc |-> "none", reply |-> IF n[3] = "execute" /\ ~preferIdle THEN "execute" ELSE "idle"]]
                             /\ told' = IF n[3] = "execute" /\ ~preferIdle THEN [told EXCEPT ![w] = Append(@, n[2][w].task)] ELSE told
                        ELSE /\ task' = r[1]
                             /\ wk' = [r[3] EXCEPT ![w].parked = IF IsDrained(w) THEN "drained" ELSE "idle"]
                             /\ sy' = [sy EXCEPT ![w] = [pc |-> "parked", reply |-> ""]]
                             /\ told' = told
        \/ \* completion of the assigned task, or an idle worker asking for work
           /\ (kind = "completed" /\ has) \/ (kind \in {"idle", "wrong"} /\ ~has)
           /\ \E requeue \in (IF kind = "completed" /\ ~good /\ AllowRequeue /\ ~task[t].requeued THEN {TRUE, FALSE} ELSE {FALSE}) :
              LET r == IF kind # "completed" THEN <<task, dedup, w0>>
                       ELSE IF requeue
                            THEN <<[task EXCEPT ![t].stage = "Q", ![t].worker = "", ![t].ver = @ + 1, ![t].requeued = TRUE], dedup, [w0 EXCEPT ![w].task = 0]>>
                            ELSE CompleteTask(task, dedup, w0, t, resp)
                  \* a requeued task goes to a blocked worker if there is one
                  r2 == IF kind = "completed" /\ requeue /\ (IdleParked \ {w}) # {}
                        THEN LET w2 == CHOOSE x \in IdleParked \ {w} : TRUE
                                 a == AssignTask(r[1], r[3], t, w2)
                             IN <<a[1], r[2], a[2]>>
                        ELSE r
              IN
              \E n \in NextChoices(r2[1], r2[3], w) :
                /\ dedup' = r2[2]
                /\ IF preferIdle \/ (kind = "wrong" /\ n[3] # "execute")
                   THEN /\ task' = r2[1] /\ wk' = [r2[3] EXCEPT ![w].armed = TRUE]
                        /\ sy' = [sy EXCEPT ![w] = [pc |-> "none", reply |-> "idle"]]
                        /\ told' = told
                   ELSE IF n[3] = "execute"
                   THEN /\ task' = n[1] /\ wk' = [n[2] EXCEPT ![w].armed = TRUE]
                        /\ sy' = [sy EXCEPT ![w] = [pc |-> "none", reply |-> "execute"]]
                        /\ told' = [told EXCEPT ![w] = Append(@, n[2][w].task)]
                   ELSE /\ task' = r2[1]
                        /\ wk' = [r2[3] EXCEPT ![w].parked = IF IsDrained(w) THEN "drained" ELSE "idle"]
                        /\ sy' = [sy EXCEPT ![w] = [pc |-> "parked", reply |-> ""]]
                        /\ told' = told
  /\ UNCHANGED <<op, drained, cl, sent>>

\* A blocked Synchronize call wakes up: a task was assigned to it, it was
\* (un)drained, its timer fired or the worker cancelled the call.
SyncWake(w, reason) ==
  /\ sy[w].pc = "parked"
  /\ reason \in {"assigned", "drainchange", "timeout"}
  /\ reason = "assigned" => wk[w].task # 0
  /\ reason = "drainchange" => (wk[w].parked = "no" /\ wk[w].task = 0) \/ (wk[w].parked = "drained" /\ ~IsDrained(w))
  /\ IF wk[w].task # 0
     THEN /\ wk' = [wk EXCEPT ![w].armed = TRUE, ![w].parked = "no"]
          /\ sy' = [sy EXCEPT ![w] = [pc |-> "none", reply |-> "execute"]]
          /\ told' = [told EXCEPT ![w] = Append(@, wk[w].task)]
          /\ task' = task
     ELSE IF reason = "timeout"
     THEN /\ wk' = [wk EXCEPT ![w].armed = TRUE, ![w].parked = "no"]
          /\ sy' = [sy EXCEPT ![w] = [pc |-> "none", reply |-> "idle"]]
          /\ told' = told /\ task' = task
     ELSE \* re-evaluate: take a queued task or block again
          \E n \in NextChoices(task, [wk EXCEPT ![w].parked = "no"], w) :
            IF n[3] = "execute"
            THEN /\ task' = n[1] /\ wk' = [n[2] EXCEPT ![w].armed = TRUE]
                 /\ sy' = [sy EXCEPT ![w] = [pc |-> "none", reply |-> "execute"]]
                 /\ told' = [told EXCEPT ![w] = Append(@, n[2][w].task)]
            ELSE /\ task' = task
                 /\ wk' = [wk EXCEPT ![w].parked = IF IsDrained(w) THEN "drained" ELSE "idle"]
                 /\ sy' = sy /\ told' = told
  /\ UNCHANGED <<op, dedup, queue, drained, cl, sent>>

-----------------------------------------------------------------------------
(* Operator calls.                                                          *)

KillOperation(o) ==
  /\ op[o].alive /\ task[op[o].task].stage \in {"Q", "E"}
  /\ LET r == CompleteTask(task, dedup, wk, op[o].task, "killed") IN
       task' = r[1] /\ dedup' = r[2] /\ wk' = r[3]
  /\ UNCHANGED <<op, queue, drained, cl, sy, sent, told>>

\* AddDrain wakes the matching workers that are blocked waiting for work.
AddDrain(w) ==
  /\ w \notin drained
  /\ drained' = drained \cup {w}
  /\ wk' = IF wk[w].parked = "idle" THEN [wk EXCEPT ![w].parked = "no"] ELSE wk
  /\ UNCHANGED <<task, op, dedup, queue, cl, sy, sent, told>>

RemoveDrain(w) ==
  /\ w \in drained
  /\ drained' = drained \ {w}
  /\ UNCHANGED <<task, op, dedup, wk, queue, cl, sy, sent, told>>

TerminateWorker(w) ==
  /\ wk[w].known /\ ~wk[w].terminating
  /\ wk' = [wk EXCEPT ![w].terminating = TRUE, ![w].parked = IF wk[w].parked = "idle" THEN "no" ELSE @]
  /\ UNCHANGED <<task, op, dedup, queue, drained, cl, sy, sent, told>>

-----------------------------------------------------------------------------
(* Cleanups (run at the start of a later critical section).                *)

RemoveStaleWorker(w) ==
  /\ wk[w].known /\ wk[w].armed /\ sy[w].pc = "none"
  /\ LET r == IF wk[w].task # 0 THEN CompleteTask(task, dedup, wk, wk[w].task, "vanished") ELSE <<task, dedup, wk>> IN
     /\ task' = r[1] /\ dedup' = r[2]
     /\ wk' = [r[3] EXCEPT ![w] = NoWorker]
     /\ queue' = IF ~Predeclared /\ \A x \in Workers \ {w} : ~wk[x].known THEN [queue EXCEPT !.armed = TRUE] ELSE queue
  /\ UNCHANGED <<op, drained, cl, sy, sent, told>>

RemoveOperation(o) ==
  /\ op[o].alive /\ op[o].armed /\ op[o].waiters = 0
  /\ LET t == op[o].task
         last == OpsOf(t) = {o}
         r == IF last /\ task[t].stage # "C" THEN CompleteTask(task, dedup, wk, t, "nowaiters") ELSE <<task, dedup, wk>>
     IN /\ task' = r[1] /\ dedup' = r[2] /\ wk' = r[3]
        /\ op' = [op EXCEPT ![o].alive = FALSE, ![o].armed = FALSE]
  /\ UNCHANGED <<queue, drained, cl, sy, sent, told>>

RECURSIVE FailAll(_, _, _, _)
FailAll(tk, dd, ww, ts) ==
  IF ts = {} THEN <<tk, dd, ww>>
  ELSE LET t == CHOOSE t \in ts : TRUE
           r == CompleteTask(tk, dd, ww, t, "queuegone")
       IN FailAll(r[1], r[2], r[3], ts \ {t})

RemoveQueue ==
  /\ queue.exists /\ queue.armed /\ \A w \in Workers : ~wk[w].known
  /\ LET r == FailAll(task, dedup, wk, QueuedTasks) IN
       task' = r[1] /\ dedup' = r[2] /\ wk' = r[3]
  /\ queue' = [exists |-> FALSE, armed |-> FALSE]
  /\ UNCHANGED <<op, drained, cl, sy, sent, told>>

-----------------------------------------------------------------------------
F(x) == x \in Features

Next ==
  \/ \E c \in Clients, d \in Digests, i \in Invs : Execute(c, d, i)
  \/ F("wait") /\ \E c \in Clients, o \in OpId : WaitExecution(c, o)
  \/ \E c \in Clients : StreamSend(c) \/ StreamWake(c) \/ StreamFin(c)
  \/ F("cancel") /\ \E c \in Clients : ClientCancel(c)
  \/ F("sendfail") /\ \E c \in Clients : StreamSendFails(c)
  \/ \E w \in Workers,
        k \in {"idle", "executing", "completed"} \cup (IF F("wrong") THEN {"wrong"} ELSE {}),
        p \in (IF F("preferidle") THEN BOOLEAN ELSE {FALSE}),
        g \in (IF F("fail") THEN BOOLEAN ELSE {TRUE}) : SyncEnter(w, k, p, g)
  \/ \E w \in Workers, r \in {"assigned", "drainchange", "timeout"} : SyncWake(w, r)
  \/ ~F("nocleanup") /\ \E o \in OpId : RemoveOperation(o)
  \/ F("kill") /\ \E o \in OpId : KillOperation(o)
  \/ F("drain") /\ \E w \in Workers : AddDrain(w) \/ RemoveDrain(w)
  \/ F("terminate") /\ \E w \in Workers : TerminateWorker(w)
  \/ ~F("nocleanup") /\ \E w \in Workers : RemoveStaleWorker(w)
  \/ ~F("nocleanup") /\ RemoveQueue

Internal ==
  \/ \E c \in Clients : StreamSend(c) \/ StreamWake(c) \/ StreamFin(c)
  \/ \E w \in Workers : SyncWake(w, "assigned") \/ SyncWake(w, "drainchange") \/ SyncWake(w, "timeout")

Spec == Init /\ [][Next]_vars
FairSpec ==
  /\ Spec
  /\ \A c \in Clients : WF_vars(StreamSend(c) \/ StreamWake(c) \/ StreamFin(c))
  /\ \A w \in Workers : WF_vars(SyncWake(w, "assigned") \/ SyncWake(w, "drainchange") \/ SyncWake(w, "timeout"))

-----------------------------------------------------------------------------
(* Snapshot in the shape of SchedPreds.                                     *)

TaskSeq == SetToSortSeq(Created, <)
OpSeq == SetToSortSeq(Alive, <)
OpName(o) == "o" \o ToString(o)

InvPaths == {<<>>} \cup {<<op[o].inv>> : o \in Alive}

SnapInv(p) ==
  [path |-> p,
   qops |-> IF p = <<>> THEN <<>> ELSE [k \in 1 .. Cardinality({o \in Alive : op[o].inv = p[1] /\ task[op[o].task].stage = "Q"}) |->
                 OpName(SetToSortSeq({o \in Alive : op[o].inv = p[1] /\ task[op[o].task].stage = "Q"}, <)[k])],
   qidx |-> <<>>, qchidx |-> <<>>, iswidx |-> <<>>, parent_ok |-> TRUE]

Snap ==
  [now |-> 0,
   queues |-> IF queue.exists
              THEN << [prefix |-> "", platform |-> "p1", size_class |-> 0, may_be_removed |-> ~Predeclared, cleanup_at |-> -1,
                       drains |-> <<>>, max_bg |-> 0,
                       workers |-> [k \in 1 .. Cardinality({w \in Workers : wk[w].known}) |->
                                      LET w == SetToSeq({w \in Workers : wk[w].known})[k] IN
                                      [id |-> ToString(w), task |-> wk[w].task, terminating |-> wk[w].terminating,
                                       parked |-> wk[w].parked = "idle", drained |-> IsDrained(w), cleanup_at |-> -1]],
                       invs |-> [k \in 1 .. Cardinality(InvPaths) |-> SnapInv(SetToSeq(InvPaths)[k])]] >>
              ELSE <<>>,
   ops |-> [k \in 1 .. Len(OpSeq) |->
              LET o == OpSeq[k] IN
              [name |-> OpName(o), task |-> op[o].task, prio |-> 0, queue |-> 0, inv |-> <<op[o].inv>>, waiters |-> op[o].waiters,
               may_exist |-> FALSE, cleanup_at |-> IF op[o].armed THEN 0 ELSE -1, in_task_map |-> TRUE]],
   tasks |-> [k \in 1 .. Len(TaskSeq) |->
              LET t == TaskSeq[k] IN
              [id |-> t, digest |-> ToString(task[t].digest), dnc |-> task[t].dnc, stage |-> task[t].stage,
               worker |-> IF task[t].worker = "" THEN "" ELSE ToString(task[t].worker), worker_queue |-> 0, retry |-> task[t].retry,
               ops |-> [j \in 1 .. Cardinality(OpsOf(t)) |-> OpName(SetToSortSeq(OpsOf(t), <)[j])],
               resp |-> task[t].resp, in_dedup |-> task[t].digest \in Digests /\ dedup[task[t].digest] = t]],
   dedup |-> <<>>, cleanup |-> <<>>, cleanup_ok |-> TRUE]

-----------------------------------------------------------------------------
(* Properties.                                                              *)

TypeOK ==
  /\ \A t \in TaskId : task[t].stage \in {"N", "Q", "E", "C"}
  /\ \A o \in OpId : op[o].waiters >= 0

\* A queued task whose queue disappeared cannot exist (RemoveQueue fails them).
C01_Design == queue.exists => C01_Inv(Snap)
C01_NoQueueNoTasks == ~queue.exists => \A t \in Created : task[t].stage = "C"
C03_Design == C03_Inv(Snap)
C04_Design == queue.exists => C04_NoIdleWhileQueued(Snap)

\* Execute instructions only name the task assigned to the worker, and a
\* completed task is never handed out again.
C01_Told ==
  [][\A w \in Workers :
       told'[w] # told[w] =>
         LET t == told'[w][Len(told'[w])] IN wk'[w].task = t /\ task'[t].stage = "E" /\ task[t].stage # "C"]_vars

StageRankD(s) == CASE s = "Q" -> 1 [] s = "E" -> 2 [] s = "C" -> 3 [] OTHER -> 0

\* C02 on the history of delivered messages.
C02_Messages ==
  \A c \in Clients :
    LET m == sent[c] IN
    /\ \A k \in 1 .. Len(m) - 1 : ~m[k].done
    /\ \A k \in 1 .. Len(m) - 1 :
         StageRankD(m[k + 1].stage) >= StageRankD(m[k].stage) \/ (AllowRequeue /\ m[k].stage = "E" /\ m[k + 1].stage = "Q")
    /\ \A k \in 1 .. Len(m) : m[k].done <=> m[k].stage = "C"
    /\ \A k \in 1 .. Len(m) : m[k].done => m[k].resp \in {"ok", "fail", "internal", "killed", "vanished", "nowaiters", "queuegone"}

\* All clients attached to one task see the same final response.
C03_SameFinal ==
  \A c1, c2 \in Clients :
    (cl[c1].op # 0 /\ cl[c2].op # 0 /\ op[cl[c1].op].task = op[cl[c2].op].task) =>
      \A k1 \in DOMAIN sent[c1], k2 \in DOMAIN sent[c2] :
        (sent[c1][k1].done /\ sent[c2][k2].done) => sent[c1][k1].resp = sent[c2][k2].resp

\* Drained or terminating workers are never handed a new task.
C05_Drains ==
  [][\A w \in Workers : (wk'[w].task # wk[w].task /\ wk'[w].task # 0) => ~(w \in drained \/ wk[w].terminating)]_vars

\* A stream that is neither cancelled nor failed and whose task completed
\* eventually delivers the final message (no lost wake-up).
C02_Delivery ==
  \A c \in Clients :
    (cl[c].pc = "wait" /\ ~cl[c].cancelled /\ task[op[cl[c].op].task].stage = "C") ~> (cl[c].pc \in {"fin", "done"})

\* A worker blocked in Synchronize with a task assigned eventually returns.
C06_WorkerWoken ==
  \A w \in Workers : (sy[w].pc = "parked" /\ wk[w].task # 0) ~> (sy[w].pc = "none")

\* When everybody is gone and every armed cleanup has run, nothing remains.
Quiet ==
  /\ \A c \in Clients : cl[c].pc \in {"idle", "done"}
  /\ \A w \in Workers : sy[w].pc = "none" /\ ~wk[w].known
  /\ \A o \in OpId : ~(op[o].alive /\ op[o].armed)
  /\ ~queue.armed
C06_Final == Quiet => (Alive = {} /\ \A d \in Digests : dedup[d] = 0) /\ \A t \in Created : task[t].stage = "C"

View == <<task, op, dedup, wk, queue, drained, cl, sy>>
Symm == Permutations(Clients) \cup Permutations(Workers)
=============================================================================
