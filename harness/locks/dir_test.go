package locks

// Lock balance of the real in-memory directory: every public method,
// every outcome class, on live, deleted and lazily initialised
// directories. After every call every lock the driver knows of is probed.

import (
	"bytes"
	"fmt"
	"io"
	"math/rand"
	"sort"
	"testing"

	"github.com/buildbarn/bb-remote-execution/pkg/filesystem/pool"
	"github.com/buildbarn/bb-remote-execution/pkg/filesystem/virtual"
	"github.com/buildbarn/bb-storage/pkg/clock"
	"github.com/buildbarn/bb-storage/pkg/filesystem"
	"github.com/buildbarn/bb-storage/pkg/filesystem/path"

	"verif/harness/common"
)

const (
	maskLocked   = virtual.AttributesMaskChangeID | virtual.AttributesMaskLastDataModificationTime | virtual.AttributesMaskFileType | virtual.AttributesMaskHasNamedAttributes | virtual.AttributesMaskSizeBytes | virtual.AttributesMaskLinkCount
	maskUnlocked = virtual.AttributesMaskFileType | virtual.AttributesMaskInodeNumber | virtual.AttributesMaskFileHandle
)

// Names by class. The same names are used in every populated directory.
var nameClasses = []struct{ class, name string }{
	{"absent", "gone"},
	{"file", "f"},
	{"symlink", "s"},
	{"fifo", "fifo"},
	{"hidden", ".hid1"},
	{"emptydir", "e"},
	{"nonemptydir", "n"},
	{"hiddenonlydir", "h"},
	{"lazyok", "lz"},
	{"lazyfail", "lf"},
}

func (e *env) newLeafFile() virtual.LinkableLeaf {
	l, err := e.fileAllocator.NewFile(pool.ZeroHoleSource, false, 0, 0)
	if err != nil {
		panic(err)
	}
	e.addLeaf(l)
	return l
}

func (e *env) newSymlink() virtual.LinkableLeaf {
	l, err := e.symlinkFactory.LookupSymlink(path.UNIXFormat.NewParser("target"))
	if err != nil {
		panic(err)
	}
	return l
}

// okFetcher returns a fetcher that succeeds. The children are built
// right away, so that fetching does not depend on the injected faults.
func (e *env) okFetcher(children func() map[path.Component]virtual.InitialChild) virtual.InitialContentsFetcher {
	if children == nil {
		return &fetcher{}
	}
	m := children()
	return &fetcher{children: func() map[path.Component]virtual.InitialChild { return m }}
}

func (e *env) failingFetcher() virtual.InitialContentsFetcher {
	return &fetcher{fail: e.fetchFail}
}

func dirChild(f virtual.InitialContentsFetcher) virtual.InitialChild {
	return virtual.InitialChild{}.FromDirectory(f)
}

func leafChild(l virtual.LinkableLeaf) virtual.InitialChild {
	return virtual.InitialChild{}.FromLeaf(l)
}

// stdChildren is the standard population, as lazily fetched contents.
func (e *env) stdChildren() map[path.Component]virtual.InitialChild {
	return map[path.Component]virtual.InitialChild{
		comp("f"):     leafChild(e.newLeafFile()),
		comp("s"):     leafChild(e.newSymlink()),
		comp("fifo"):  leafChild(e.handleAllocator.New().AsLinkableLeaf(virtual.NewSpecialFile(filesystem.FileTypeFIFO, nil))),
		comp(".hid1"): leafChild(e.newLeafFile()),
		comp("e"):     dirChild(e.okFetcher(nil)),
		comp("n"): dirChild(e.okFetcher(func() map[path.Component]virtual.InitialChild {
			return map[path.Component]virtual.InitialChild{
				comp("x"): leafChild(e.newLeafFile()),
				comp("y"): dirChild(e.okFetcher(nil)),
			}
		})),
		comp("h"): dirChild(e.okFetcher(func() map[path.Component]virtual.InitialChild {
			return map[path.Component]virtual.InitialChild{comp(".hid2"): leafChild(e.newLeafFile())}
		})),
		comp("lz"): dirChild(e.okFetcher(func() map[path.Component]virtual.InitialChild {
			return map[path.Component]virtual.InitialChild{
				comp("a"): leafChild(e.newLeafFile()),
				comp("b"): dirChild(e.okFetcher(nil)),
			}
		})),
		comp("lf"): dirChild(e.failingFetcher()),
	}
}

func must(s virtual.Status, what string) {
	if s != virtual.StatusOK {
		panic(fmt.Sprintf("fixture: %s: %s", what, st(s)))
	}
}

func mustErr(err error, what string) {
	if err != nil {
		panic(fmt.Sprintf("fixture: %s: %v", what, err))
	}
}

func (e *env) mkdir(d virtual.PrepopulatedDirectory, name string) virtual.PrepopulatedDirectory {
	var out virtual.Attributes
	c, _, s := d.VirtualMkdir(ctxBG, comp(name), &virtual.Attributes{}, 0, &out)
	must(s, "mkdir "+name)
	return e.addDirectory(c)
}

func (e *env) mkfile(d virtual.PrepopulatedDirectory, name string) virtual.Leaf {
	var out virtual.Attributes
	l, _, _, s := d.VirtualOpenChild(ctxBG, comp(name), 0, &virtual.Attributes{}, nil, 0, &out)
	must(s, "create "+name)
	e.addLeaf(l)
	return l
}

// populate creates the standard children in a live directory through the
// real API.
func (e *env) populate(d virtual.PrepopulatedDirectory) {
	var out virtual.Attributes
	e.mkfile(d, "f")
	e.mkfile(d, ".hid1")
	_, _, s := d.VirtualMknod(ctxBG, comp("s"), (&virtual.Attributes{}).SetFileType(filesystem.FileTypeSymlink).SetSymlinkTarget(path.UNIXFormat.NewParser("target")), 0, &out)
	must(s, "symlink")
	_, _, s = d.VirtualMknod(ctxBG, comp("fifo"), (&virtual.Attributes{}).SetFileType(filesystem.FileTypeFIFO), 0, &out)
	must(s, "fifo")
	e.mkdir(d, "e")
	n := e.mkdir(d, "n")
	e.mkfile(n, "x")
	e.mkdir(n, "y")
	h := e.mkdir(d, "h")
	e.mkfile(h, ".hid2")
	mustErr(d.CreateChildren(map[path.Component]virtual.InitialChild{
		comp("lz"): dirChild(e.okFetcher(func() map[path.Component]virtual.InitialChild {
			return map[path.Component]virtual.InitialChild{
				comp("a"): leafChild(e.newLeafFile()),
				comp("b"): dirChild(e.okFetcher(nil)),
			}
		})),
		comp("lf"): dirChild(e.failingFetcher()),
	}, false), "create lazy children")
	e.discover()
}

func (e *env) lookupDir(d virtual.PrepopulatedDirectory, name string) virtual.PrepopulatedDirectory {
	c, err := d.LookupChild(comp(name))
	mustErr(err, "lookup "+name)
	dir, _ := c.GetPair()
	if dir == nil {
		panic("fixture: " + name + " is not a directory")
	}
	e.addDir(dir)
	return dir
}

// makeDir creates a directory of the given state class under the root.
func (e *env) makeDir(class, name string) virtual.Directory {
	switch class {
	case "live":
		d := e.mkdir(e.root, name)
		e.populate(d)
		return d
	case "deleted":
		d := e.mkdir(e.root, name)
		mustErr(e.root.Remove(comp(name)), "remove "+name)
		return d
	case "purged":
		d := e.mkdir(e.root, name)
		e.populate(d)
		mustErr(d.RemoveAllChildren(true), "purge "+name)
		return d
	case "lazy":
		mustErr(e.root.CreateChildren(map[path.Component]virtual.InitialChild{
			comp(name): dirChild(e.okFetcher(e.stdChildren)),
		}, false), "create lazy "+name)
		return e.lookupDir(e.root, name)
	case "lazyfail":
		mustErr(e.root.CreateChildren(map[path.Component]virtual.InitialChild{
			comp(name): dirChild(e.failingFetcher()),
		}, false), "create lazyfail "+name)
		return e.lookupDir(e.root, name)
	case "nattr":
		// The named attribute directory of a fresh directory: an
		// in-memory directory of another file system.
		owner := e.mkdir(e.root, name)
		var out virtual.Attributes
		nd, s := owner.VirtualOpenNamedAttributes(ctxBG, true, 0, &out)
		must(s, "openattr")
		d := e.addDirectory(nd)
		e.populate(d)
		return d
	case "foreign":
		return virtual.NewStaticDirectory(virtual.CaseSensitiveComponentNormalizer, map[path.Component]virtual.DirectoryChild{})
	}
	panic("unknown directory class " + class)
}

var receiverClasses = []string{"live", "deleted", "purged", "lazy", "lazyfail", "nattr"}

// Second directory of VirtualRename.
var secondClasses = []string{"same", "parent", "child", "live", "deleted", "purged", "lazy", "lazyfail", "nattr", "foreign"}

type reporter struct {
	stopAfter int
	n         int
	dirs      []virtual.Directory
	leaves    []virtual.Leaf
}

func (r *reporter) ReportEntry(nextCookie uint64, name path.Component, child virtual.DirectoryChild, attributes *virtual.Attributes) bool {
	d, l := child.GetPair()
	if d != nil {
		r.dirs = append(r.dirs, d)
	} else {
		r.leaves = append(r.leaves, l)
	}
	r.n++
	return r.stopAfter <= 0 || r.n < r.stopAfter
}

type op struct {
	call    string
	variant string
	f       func() string
}

// object is the component of the outcome class of a call.
func (o op) object() string {
	if o.call == "ResolveHandle" {
		return "handle"
	}
	return "dir"
}

// singleOps lists the calls that take one directory and one name.
func (e *env) singleOps(w virtual.PrepopulatedDirectory, nm string) []op {
	name := comp(nm)
	ops := []op{
		{"LookupChild", "", func() string {
			c, err := w.LookupChild(name)
			if err == nil {
				if d, l := c.GetPair(); d != nil {
					e.addDir(d)
				} else {
					e.addLeaf(l)
				}
			}
			return errClass(err)
		}},
		{"LookupAllChildren", "", func() string {
			ds, ls, err := w.LookupAllChildren()
			for _, d := range ds {
				e.addDir(d.Child)
			}
			for _, l := range ls {
				e.addLeaf(l.Child)
			}
			return errClass(err)
		}},
		{"ReadDir", "", func() string {
			_, err := w.ReadDir()
			return errClass(err)
		}},
		{"Remove", "", func() string { return errClass(w.Remove(name)) }},
		{"RemoveAll", "", func() string { return errClass(w.RemoveAll(name)) }},
		{"RemoveAllChildren", "keep", func() string { return errClass(w.RemoveAllChildren(false)) }},
		{"RemoveAllChildren", "forbid", func() string { return errClass(w.RemoveAllChildren(true)) }},
		{"InstallHooks", "", func() string {
			w.InstallHooks(e.fileAllocator, e.symlinkFactory, e.errorLogger, defaultAttributesSetter, e.nattrFactory)
			return "ok"
		}},
		{"InstallHooks", "no-nattr", func() string {
			w.InstallHooks(e.fileAllocator, e.symlinkFactory, e.errorLogger, defaultAttributesSetter, virtual.NoNamedAttributesFactory)
			return "ok"
		}},
		{"CreateChildren", "leaf", func() string {
			return errClass(w.CreateChildren(map[path.Component]virtual.InitialChild{name: leafChild(e.newLeafFile())}, false))
		}},
		{"CreateChildren", "leaf,overwrite", func() string {
			return errClass(w.CreateChildren(map[path.Component]virtual.InitialChild{name: leafChild(e.newLeafFile())}, true))
		}},
		{"CreateChildren", "dir+leaf", func() string {
			return errClass(w.CreateChildren(map[path.Component]virtual.InitialChild{
				name:         dirChild(e.okFetcher(nil)),
				comp("new1"): leafChild(e.newLeafFile()),
			}, false))
		}},
		{"CreateChildren", "dir+leaf,overwrite", func() string {
			return errClass(w.CreateChildren(map[path.Component]virtual.InitialChild{
				name:         dirChild(e.failingFetcher()),
				comp("n"):    dirChild(e.okFetcher(nil)),
				comp("new1"): leafChild(e.newSymlink()),
			}, true))
		}},
		{"CreateChildren", "none", func() string {
			return errClass(w.CreateChildren(map[path.Component]virtual.InitialChild{}, false))
		}},
		{"CreateAndEnterPrepopulatedDirectory", "", func() string {
			d, err := w.CreateAndEnterPrepopulatedDirectory(name)
			if err == nil {
				e.addDir(d)
			}
			return errClass(err)
		}},
		{"FilterChildren", "visit", func() string {
			return errClass(w.FilterChildren(func(node virtual.InitialChild, remove virtual.ChildRemover) bool { return true }))
		}},
		{"FilterChildren", "remove-all", func() string {
			return errClass(w.FilterChildren(func(node virtual.InitialChild, remove virtual.ChildRemover) bool {
				remove()
				return true
			}))
		}},
		{"FilterChildren", "stop", func() string {
			return errClass(w.FilterChildren(func(node virtual.InitialChild, remove virtual.ChildRemover) bool { return false }))
		}},
		{"FilterChildren", "remove-later", func() string {
			var removers []virtual.ChildRemover
			err := w.FilterChildren(func(node virtual.InitialChild, remove virtual.ChildRemover) bool {
				removers = append(removers, remove)
				return true
			})
			for _, r := range removers {
				r()
			}
			return errClass(err)
		}},
	}
	openChild := func(variant string, share virtual.ShareMask, create bool, existing *virtual.OpenExistingOptions, failNew bool, mask virtual.AttributesMask) op {
		return op{"VirtualOpenChild", variant, func() string {
			var createAttributes *virtual.Attributes
			if create {
				createAttributes = (&virtual.Attributes{}).SetPermissions(virtual.PermissionsRead | virtual.PermissionsExecute).SetSizeBytes(5)
			}
			e.faults.newFile.Store(failNew)
			var out virtual.Attributes
			l, _, _, s := w.VirtualOpenChild(ctxBG, name, share, createAttributes, existing, mask, &out)
			if s == virtual.StatusOK {
				e.addLeaf(l)
				if share != 0 {
					l.VirtualClose(share)
				}
			}
			return st(s)
		}}
	}
	ops = append(ops,
		openChild("create-only", virtual.ShareMaskWrite, true, nil, false, maskLocked),
		openChild("existing-only", virtual.ShareMaskRead, false, &virtual.OpenExistingOptions{}, false, maskLocked),
		openChild("existing-truncate", virtual.ShareMaskRead|virtual.ShareMaskWrite, false, &virtual.OpenExistingOptions{Truncate: true}, false, maskUnlocked),
		openChild("create-or-existing", virtual.ShareMaskRead, true, &virtual.OpenExistingOptions{}, false, maskLocked),
		openChild("create,pool-fails", virtual.ShareMaskWrite, true, nil, true, maskLocked),
		op{"VirtualOpenChild", "existing-truncate,truncate-fails", func() string {
			e.faults.truncate.Store(true)
			var out virtual.Attributes
			l, _, _, s := w.VirtualOpenChild(ctxBG, name, virtual.ShareMaskWrite, nil, &virtual.OpenExistingOptions{Truncate: true}, maskLocked, &out)
			if s == virtual.StatusOK {
				l.VirtualClose(virtual.ShareMaskWrite)
			}
			return st(s)
		}},
	)
	link := func(variant string, leaf func() virtual.Leaf, mask virtual.AttributesMask) op {
		return op{"VirtualLink", variant, func() string {
			var out virtual.Attributes
			_, s := w.VirtualLink(ctxBG, name, leaf(), mask, &out)
			return st(s)
		}}
	}
	ops = append(ops,
		link("fresh-file", func() virtual.Leaf { return e.newLeafFile() }, maskLocked),
		link("symlink", func() virtual.Leaf { return e.newSymlink() }, maskUnlocked),
		link("unlinked-file", func() virtual.Leaf {
			l := e.newLeafFile()
			l.Unlink()
			return l
		}, maskLocked),
		link("not-linkable", func() virtual.Leaf { return plainLeaf{} }, maskLocked),
	)
	for _, m := range []struct {
		variant string
		mask    virtual.AttributesMask
	}{{"locked-attrs", maskLocked}, {"unlocked-attrs", maskUnlocked}} {
		mask := m.mask
		ops = append(ops,
			op{"VirtualLookup", m.variant, func() string {
				var out virtual.Attributes
				c, s := w.VirtualLookup(ctxBG, name, mask, &out)
				if s == virtual.StatusOK {
					if d, l := c.GetPair(); d != nil {
						e.addDirectory(d)
					} else {
						e.addLeaf(l)
					}
				}
				return st(s)
			}},
			op{"VirtualReadDir", m.variant, func() string {
				r := &reporter{}
				s := w.VirtualReadDir(ctxBG, 0, mask, r)
				e.registerReported(r)
				return st(s)
			}},
			op{"VirtualReadDir", m.variant + ",stop-at-2", func() string {
				r := &reporter{stopAfter: 2}
				s := w.VirtualReadDir(ctxBG, 1, mask, r)
				e.registerReported(r)
				return st(s)
			}},
			op{"VirtualGetAttributes", m.variant, func() string {
				var out virtual.Attributes
				w.VirtualGetAttributes(ctxBG, mask, &out)
				return "ok"
			}},
			op{"VirtualMkdir", m.variant, func() string {
				var out virtual.Attributes
				d, _, s := w.VirtualMkdir(ctxBG, name, &virtual.Attributes{}, mask, &out)
				if s == virtual.StatusOK {
					e.addDirectory(d)
				}
				return st(s)
			}},
		)
	}
	ops = append(ops, op{"VirtualReadDir", "past-the-end", func() string {
		return st(w.VirtualReadDir(ctxBG, 1<<40, maskLocked, &reporter{}))
	}})
	mknod := func(variant string, attrs func() *virtual.Attributes, failSymlink bool) op {
		return op{"VirtualMknod", variant, func() string {
			e.faults.symlink.Store(failSymlink)
			var out virtual.Attributes
			l, _, s := w.VirtualMknod(ctxBG, name, attrs(), maskLocked, &out)
			if s == virtual.StatusOK {
				e.addLeaf(l)
			}
			return st(s)
		}}
	}
	symlinkAttrs := func() *virtual.Attributes {
		return (&virtual.Attributes{}).SetFileType(filesystem.FileTypeSymlink).SetSymlinkTarget(path.UNIXFormat.NewParser("../t"))
	}
	ops = append(ops,
		mknod("fifo", func() *virtual.Attributes { return (&virtual.Attributes{}).SetFileType(filesystem.FileTypeFIFO) }, false),
		mknod("socket", func() *virtual.Attributes { return (&virtual.Attributes{}).SetFileType(filesystem.FileTypeSocket) }, false),
		mknod("symlink", symlinkAttrs, false),
		mknod("symlink,factory-fails", symlinkAttrs, true),
		mknod("blockdev", func() *virtual.Attributes {
			return (&virtual.Attributes{}).SetFileType(filesystem.FileTypeBlockDevice)
		}, false),
	)
	for _, v := range []struct {
		variant   string
		dir, leaf bool
	}{{"any", true, true}, {"rmdir", true, false}, {"unlink", false, true}} {
		rd, rl := v.dir, v.leaf
		ops = append(ops, op{"VirtualRemove", v.variant, func() string {
			_, s := w.VirtualRemove(ctxBG, name, rd, rl)
			return st(s)
		}})
	}
	setattr := func(variant string, in func() *virtual.Attributes) op {
		return op{"VirtualSetAttributes", variant, func() string {
			var out virtual.Attributes
			return st(w.VirtualSetAttributes(ctxBG, in(), maskLocked, &out))
		}}
	}
	ops = append(ops,
		setattr("none", func() *virtual.Attributes { return &virtual.Attributes{} }),
		setattr("size", func() *virtual.Attributes { return (&virtual.Attributes{}).SetSizeBytes(3) }),
		setattr("uid", func() *virtual.Attributes { return (&virtual.Attributes{}).SetOwnerUserID(1) }),
		setattr("gid", func() *virtual.Attributes { return (&virtual.Attributes{}).SetOwnerGroupID(1) }),
		setattr("permissions", func() *virtual.Attributes { return (&virtual.Attributes{}).SetPermissions(virtual.PermissionsRead) }),
		op{"VirtualApply", "", func() string {
			if w.VirtualApply(&virtual.ApplyGetContainingDigests{Context: ctxBG}) {
				return "intercepted"
			}
			return "not-intercepted"
		}},
		op{"VirtualOpenNamedAttributes", "lookup", func() string {
			var out virtual.Attributes
			d, s := w.VirtualOpenNamedAttributes(ctxBG, false, maskLocked, &out)
			if s == virtual.StatusOK {
				e.addDirectory(d)
			}
			return st(s)
		}},
		op{"VirtualOpenNamedAttributes", "create", func() string {
			var out virtual.Attributes
			d, s := w.VirtualOpenNamedAttributes(ctxBG, true, maskLocked, &out)
			if s == virtual.StatusOK {
				e.addDirectory(d)
			}
			return st(s)
		}},
	)
	ops = append(ops, e.resolveOps(w, name)...)
	return ops
}

// fileHandleOf returns the NFS file handle of a node.
func fileHandleOf(get func(mask virtual.AttributesMask, out *virtual.Attributes)) []byte {
	var out virtual.Attributes
	get(virtual.AttributesMaskFileHandle, &out)
	return append([]byte(nil), out.GetFileHandle()...)
}

// resolveOps lists the calls of NFSStatefulHandleAllocator.ResolveHandle,
// one per return path: directory, stateful leaf, stateless leaf, handle
// of a resolvable allocator (resolver succeeds / fails), stale handles
// (removed file, released directory, unknown inode) and a short handle.
// They need the NFS handle allocator.
func (e *env) resolveOps(w virtual.PrepopulatedDirectory, name path.Component) []op {
	resolve := func(variant string, handle func() []byte) op {
		return op{call: "ResolveHandle", variant: variant, f: func() string {
			if e.nfsAllocator == nil {
				panic("ResolveHandle needs the NFS handle allocator")
			}
			h := handle()
			c, s := e.nfsAllocator.ResolveHandle(bytes.NewReader(h))
			if s == virtual.StatusOK {
				if d, l := c.GetPair(); d != nil {
					e.addDirectory(d)
				} else {
					e.addLeaf(l)
				}
			}
			return st(s)
		}}
	}
	return []op{
		resolve("of-receiver", func() []byte {
			return fileHandleOf(func(m virtual.AttributesMask, out *virtual.Attributes) { w.VirtualGetAttributes(ctxBG, m, out) })
		}),
		resolve("of-child", func() []byte {
			var out virtual.Attributes
			if _, s := w.VirtualLookup(ctxBG, name, virtual.AttributesMaskFileHandle, &out); s != virtual.StatusOK {
				return []byte{1, 2, 3, 4, 5, 6, 7, 8, 9}
			}
			return append([]byte(nil), out.GetFileHandle()...)
		}),
		resolve("of-symlink", func() []byte {
			l := e.newSymlink()
			return fileHandleOf(func(m virtual.AttributesMask, out *virtual.Attributes) { l.VirtualGetAttributes(ctxBG, m, out) })
		}),
		resolve("of-removed-file", func() []byte {
			l := e.newLeafFile()
			h := fileHandleOf(func(m virtual.AttributesMask, out *virtual.Attributes) { l.VirtualGetAttributes(ctxBG, m, out) })
			l.Unlink()
			return h
		}),
		resolve("of-removed-directory", func() []byte {
			// (a directory of its own file system: the root of this one
			// may have been removed by an earlier call)
			other := virtual.NewInMemoryPrepopulatedDirectory(
				e.fileAllocator, e.symlinkFactory, e.errorLogger, e.handleAllocator,
				sort.Sort, hiddenMatcher, clock.SystemClock, virtual.CaseSensitiveComponentNormalizer,
				defaultAttributesSetter, e.nattrFactory)
			e.addDir(other)
			d := e.mkdir(other, "resolve-tmp")
			h := fileHandleOf(func(m virtual.AttributesMask, out *virtual.Attributes) { d.VirtualGetAttributes(ctxBG, m, out) })
			mustErr(other.Remove(comp("resolve-tmp")), "remove resolve-tmp")
			return h
		}),
		resolve("unknown-inode", func() []byte { return []byte{0xde, 0xad, 0xbe, 0xef, 1, 2, 3, 4} }),
		resolve("short", func() []byte { return []byte{1, 2, 3} }),
		resolve("resolvable;resolver-ok", func() []byte { return e.resolvableHandle(false) }),
		resolve("resolvable;resolver-fails", func() []byte { return e.resolvableHandle(true) }),
	}
}

type handleIdentifier []byte

func (h handleIdentifier) WriteTo(w io.Writer) (int64, error) {
	n, err := w.Write(h)
	return int64(n), err
}

// resolvableHandle returns the file handle of a leaf of a resolvable
// handle allocator whose resolver succeeds or fails.
func (e *env) resolvableHandle(fail bool) []byte {
	if e.resolvable == nil {
		e.resolvable = e.nfsAllocator.New().AsResolvableAllocator(func(r io.ByteReader) (virtual.DirectoryChild, virtual.Status) {
			if e.resolverFails.Load() {
				return virtual.DirectoryChild{}, virtual.StatusErrStale
			}
			return virtual.DirectoryChild{}.FromLeaf(plainLeaf{}), virtual.StatusOK
		})
	}
	e.resolverFails.Store(fail)
	l := e.resolvable.New(handleIdentifier("id")).AsLeaf(plainLeaf{})
	return fileHandleOf(func(m virtual.AttributesMask, out *virtual.Attributes) { l.VirtualGetAttributes(ctxBG, m, out) })
}

func (e *env) registerReported(r *reporter) {
	for _, d := range r.dirs {
		e.addDirectory(d)
	}
	for _, l := range r.leaves {
		e.addLeaf(l)
	}
}

// wouldCreateCycle reports whether moving child `name` of `from` into
// `to` would put a directory inside itself. The operating system never
// issues such renames (the VFS layer rejects them), and the directory
// does not check for them.
func wouldCreateCycle(from virtual.PrepopulatedDirectory, name string, to virtual.Directory) bool {
	toDir, ok := to.(virtual.PrepopulatedDirectory)
	if !ok {
		return false
	}
	_, _, _, children := virtual.VerifLockProbeDirectoryState(from)
	moved := children[name]
	if moved == nil {
		return false
	}
	seen := map[virtual.PrepopulatedDirectory]bool{}
	var reach func(d virtual.PrepopulatedDirectory) bool
	reach = func(d virtual.PrepopulatedDirectory) bool {
		if d == toDir {
			return true
		}
		if seen[d] {
			return false
		}
		seen[d] = true
		for _, c := range virtual.VerifLockProbeSubdirectories(d) {
			if reach(c) {
				return true
			}
		}
		return false
	}
	return reach(moved)
}

func (e *env) renameOp(w virtual.PrepopulatedDirectory, oldName string, to virtual.Directory, newName, variant string) op {
	return op{"VirtualRename", variant, func() string {
		_, _, s := w.VirtualRename(ctxBG, comp(oldName), to, comp(newName))
		return st(s)
	}}
}

// ---------------------------------------------------------------------------
// Systematic sweep: every call x receiver state x name class, each on a
// fresh file system.

type sweepCase struct {
	receiver string
	name     string
	opIndex  int
}

func outcomeKey(o op, receiver, nameClass string) string {
	v := o.variant
	if v != "" {
		v += ";"
	}
	return fmt.Sprintf("%son=%s;name=%s", v, receiver, nameClass)
}

// fuseSweepCalls are the calls of the directory that end in
// StatefulDirectoryHandle.NotifyRemoval(), the only place where the FUSE
// handle allocator takes its lock.
var fuseSweepCalls = map[string]bool{
	"Remove": true, "RemoveAll": true, "RemoveAllChildren": true, "CreateChildren": true,
	"CreateAndEnterPrepopulatedDirectory": true, "FilterChildren": true,
}

func TestDirSweep(t *testing.T) {
	tr := common.NewTrace("trace.ndjson")
	defer tr.Close()
	trace := 0
	calls := 0
	// Single-directory calls.
	template := newEnv(tr).singleOps(nil, "x")
	nOps := len(template)
	// Once with the NFS handle allocator (all calls), once with the FUSE
	// handle allocator (the calls that reach its removal notification).
	for _, fuse := range []bool{false, true} {
		for _, rc := range receiverClasses {
			for _, nc := range nameClasses {
				for i := 0; i < nOps && hangCount.Load() < maxHangs; i++ {
					if fuse && !fuseSweepCalls[template[i].call] {
						continue
					}
					e := newEnvWith(tr, envOptions{fuse: fuse})
					tr.Emit(common.Ev{"ev": "reset", "trace": trace, "mode": "sweep", "fuse": fuse})
					trace++
					w := e.makeDir(rc, "w").(virtual.PrepopulatedDirectory)
					// The calls that built the fixture (removals among
					// them) are calls too: the lock of the FUSE handle
					// allocator is probed before the call under test.
					if fuse && !e.record("dir", "fixture", "on="+rc, func() string { return "ok" }) {
						continue
					}
					o := e.singleOps(w, nc.name)[i]
					calls++
					if !e.record(o.object(), o.call, outcomeKey(o, rc, nc.class), o.f) {
						continue
					}
					// A second, different call on the same objects: a lock
					// that leaked on an object the probes do not know
					// would show up as a hang.
					j := (i + 7) % nOps
					for fuse && !fuseSweepCalls[template[j].call] {
						j = (j + 1) % nOps
					}
					o2 := e.singleOps(w, nc.name)[j]
					e.record(o2.object(), o2.call, outcomeKey(o2, rc, nc.class)+";second", o2.f)
					calls++
				}
			}
		}
	}
	// VirtualRename: receiver x old name x second directory x new name.
	newNames := append([]struct{ class, name string }{{"parentname", "w"}}, nameClasses...)
	for _, rc := range receiverClasses {
		for _, oc := range nameClasses {
			for _, sc := range secondClasses {
				if (sc == "child" || sc == "parent") && rc != "live" && rc != "lazy" {
					continue
				}
				for _, nc := range newNames {
					if nc.class == "parentname" && sc != "parent" {
						continue
					}
					if hangCount.Load() >= maxHangs {
						continue
					}
					e := newEnv(tr)
					w := e.makeDir(rc, "w").(virtual.PrepopulatedDirectory)
					var to virtual.Directory
					switch sc {
					case "same":
						to = w
					case "parent":
						to = e.root
					case "child":
						if rc == "lazy" {
							// Initialise the receiver first.
							w.LookupAllChildren()
						}
						to = e.lookupDir(w, "n")
					default:
						to = e.makeDir(sc, "v")
					}
					if wouldCreateCycle(w, oc.name, to) {
						continue
					}
					variant := fmt.Sprintf("on=%s;old=%s;to=%s;new=%s", rc, oc.class, sc, nc.class)
					tr.Emit(common.Ev{"ev": "reset", "trace": trace, "mode": "sweep-rename"})
					trace++
					o := e.renameOp(w, oc.name, to, nc.name, variant)
					calls++
					if !e.record("dir", o.call, o.variant, o.f) {
						continue
					}
					// And the way back (the other direction).
					if toDir, ok := to.(virtual.PrepopulatedDirectory); ok && !wouldCreateCycle(toDir, nc.name, w) {
						o := e.renameOp(toDir, nc.name, w, oc.name, variant+";back")
						e.record("dir", o.call, o.variant, o.f)
						calls++
					}
				}
			}
		}
	}
	common.WriteJSON("meta.json", map[string]any{"traces": trace, "calls": calls})
}

// ---------------------------------------------------------------------------
// Seeded random call sequences on one long-lived tree, including calls
// on directories that were removed earlier.

var randomNames = []string{"gone", "f", "s", "fifo", ".hid1", "e", "n", "h", "lz", "lf", "w", "v", "x", "y", "a", "b", "new1"}

func (e *env) randomDir(rng *rand.Rand) virtual.PrepopulatedDirectory {
	dirs := e.snapshotDirs()
	return dirs[rng.Intn(len(dirs))]
}

func dirClassOf(d virtual.PrepopulatedDirectory) string {
	_, deleted, uninit, _ := virtual.VerifLockProbeDirectoryState(d)
	switch {
	case deleted:
		return "deleted"
	case uninit:
		return "uninitialized"
	}
	return "live"
}

func nameClassOf(d virtual.PrepopulatedDirectory, name string) string {
	_, _, uninit, children := virtual.VerifLockProbeDirectoryState(d)
	if uninit {
		return "unknown"
	}
	c, ok := children[name]
	switch {
	case !ok:
		return "absent"
	case c == nil:
		return "leaf"
	}
	return "dir:" + dirClassOf(c)
}

func TestDirRandom(t *testing.T) {
	traces := common.EnvInt("VERIF_N", 40)
	steps := common.EnvInt("VERIF_STEPS", 120)
	tr := common.NewTrace("trace.ndjson")
	defer tr.Close()
	calls := 0
	for i := 0; i < traces && hangCount.Load() < maxHangs; i++ {
		rng := common.Rand(int64(5000 + i))
		fuse := i%3 == 2
		e := newEnvWith(tr, envOptions{fuse: fuse})
		tr.Emit(common.Ev{"ev": "reset", "trace": i, "mode": "random", "fuse": fuse})
		e.populate(e.root)
		for _, c := range []string{"live", "lazy", "lazyfail", "deleted", "purged", "nattr"} {
			if rng.Intn(3) > 0 {
				e.makeDir(c, "w"+c)
			}
		}
		foreign := e.makeDir("foreign", "")
		if fuse && !e.record("dir", "fixture", "random", func() string { return "ok" }) {
			continue
		}
		for j := 0; j < steps; j++ {
			w := e.randomDir(rng)
			nm := randomNames[rng.Intn(len(randomNames))]
			// The failing fetchers occasionally start to work.
			e.fetchFail.Store(rng.Intn(10) != 0)
			var o op
			if rng.Intn(4) == 0 {
				var to virtual.Directory = e.randomDir(rng)
				if rng.Intn(20) == 0 {
					to = foreign
				}
				nm2 := randomNames[rng.Intn(len(randomNames))]
				if wouldCreateCycle(w, nm, to) {
					continue
				}
				toClass := "foreign"
				if td, ok := to.(virtual.PrepopulatedDirectory); ok {
					toClass = dirClassOf(td) + ";new=" + nameClassOf(td, nm2)
					if td == w {
						toClass += ";same-dir"
					}
				}
				o = e.renameOp(w, nm, to, nm2, fmt.Sprintf("on=%s;old=%s;to=%s", dirClassOf(w), nameClassOf(w, nm), toClass))
			} else {
				ops := e.singleOps(w, nm)
				o = ops[rng.Intn(len(ops))]
				if fuse && o.call == "ResolveHandle" {
					continue
				}
				o.variant = outcomeKey(o, dirClassOf(w), nameClassOf(w, nm))
			}
			calls++
			if !e.record(o.object(), o.call, o.variant, o.f) {
				break
			}
		}
	}
	common.WriteJSON("meta.json", map[string]any{"traces": traces, "calls": calls})
}
