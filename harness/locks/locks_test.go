// Package locks holds the conformance drivers of property C14 ("no call
// leaves a lock behind and concurrent calls never deadlock").
//
//   - locks_test.go: the real re_sync.LockPile over gated, instrumented
//     TryLocker fakes; every primitive operation is an event and a
//     scheduling point (validated by specs/LockPileTrace.tla).
//   - dir_test.go: lock balance of every public method of the real
//     in-memory directory, every outcome class (specs/LockBalanceTrace.tla).
//   - misc_test.go: lock balance of pool-backed files, OpenedFilesPool,
//     IdleInvoker and the bitmap sector allocator.
//   - conc_test.go: concurrent calls on a real directory tree; deadlocks
//     are read off consistent goroutine snapshots.
//   - gated_test.go: lock-order scenarios on the real directory tree: two
//     directory locks are kept held through the normalizer the directory
//     calls under its locks, two multi-lock calls are started, the holders
//     are released one after the other.
//
// The drivers only record what the real code did; TLC judges.
package locks

import (
	"fmt"
	"math/rand"
	"testing"

	re_sync "github.com/buildbarn/bb-remote-execution/pkg/sync"

	"verif/harness/common"
)

// ---------------------------------------------------------------------------
// Gated TryLocker fakes and the step-by-step scheduler.

// lpMsg is what a worker goroutine tells the scheduler: the primitive
// operation it is about to perform, or that its call returned.
type lpMsg struct {
	kind string // "try" | "lock" | "unlock" | "ret" | "panic"
	l    int
	val  bool   // return value of LockPile.Lock()
	msg  string // panic message
}

// lpCall is a call of the LockPile API.
type lpCall struct {
	op string // "lock" | "unlock" | "unlockall"
	ls []int
}

type lpThread struct {
	id      int
	post    chan lpMsg  // worker -> scheduler
	grant   chan bool   // scheduler -> worker: result of the primitive
	cmd     chan lpCall // scheduler -> worker: next call
	locks   []*lpLock   // this thread's view of the shared locks
	pending *lpMsg      // primitive waiting to be granted (nil: idle)
	inCall  bool
	curOp   string
	// Driver-side bookkeeping for preconditions: number of times every
	// lock was added to the pile and not yet removed.
	count []int
	// Remaining program (structured scenarios).
	program []lpCall
}

// lpLock is one thread's handle on a shared lock. LockPile compares
// TryLockers for identity, so a thread always passes the same handle.
type lpLock struct {
	s *lpSched
	t *lpThread
	l int
}

func (k *lpLock) prim(kind string) bool {
	k.t.post <- lpMsg{kind: kind, l: k.l}
	return <-k.t.grant
}
func (k *lpLock) TryLock() bool { return k.prim("try") }
func (k *lpLock) Lock()         { k.prim("lock") }
func (k *lpLock) Unlock()       { k.prim("unlock") }

var _ re_sync.TryLocker = (*lpLock)(nil)

type lpSched struct {
	tr      *common.Trace
	threads []*lpThread
	owner   []int // -1: free
	steps   int
}

func tname(t int) string { return fmt.Sprintf("t%d", t+1) }
func lname(l int) string { return fmt.Sprintf("l%d", l+1) }
func lnames(ls []int) []string {
	out := []string{}
	for _, l := range ls {
		out = append(out, lname(l))
	}
	return out
}

func newLPSched(tr *common.Trace, nt, nl int) *lpSched {
	s := &lpSched{tr: tr}
	for l := 0; l < nl; l++ {
		s.owner = append(s.owner, -1)
	}
	for t := 0; t < nt; t++ {
		th := &lpThread{id: t, post: make(chan lpMsg), grant: make(chan bool), cmd: make(chan lpCall), count: make([]int, nl)}
		for l := 0; l < nl; l++ {
			th.locks = append(th.locks, &lpLock{s: s, t: th, l: l})
		}
		s.threads = append(s.threads, th)
		go th.run()
	}
	return s
}

// run executes calls on this thread's real LockPile.
func (th *lpThread) run() {
	var pile re_sync.LockPile
	for c := range th.cmd {
		func() {
			defer func() {
				if r := recover(); r != nil {
					th.post <- lpMsg{kind: "panic", msg: fmt.Sprint(r)}
				}
			}()
			switch c.op {
			case "lock":
				ls := make([]re_sync.TryLocker, 0, len(c.ls))
				for _, l := range c.ls {
					ls = append(ls, th.locks[l])
				}
				v := pile.Lock(ls...)
				th.post <- lpMsg{kind: "ret", val: v}
			case "unlock":
				pile.Unlock(th.locks[c.ls[0]])
				th.post <- lpMsg{kind: "ret", val: true}
			case "unlockall":
				pile.UnlockAll()
				th.post <- lpMsg{kind: "ret", val: true}
			}
		}()
	}
}

// receive waits for the next message of a thread that was just allowed
// to run and records what does not need a scheduling decision.
func (s *lpSched) receive(th *lpThread) {
	m := <-th.post
	switch m.kind {
	case "ret":
		s.tr.Emit(common.Ev{"ev": "ret", "t": tname(th.id), "op": th.curOp, "val": m.val})
		th.inCall = false
		th.pending = nil
	case "panic":
		s.tr.Emit(common.Ev{"ev": "panic", "t": tname(th.id), "op": th.curOp, "msg": m.msg})
		th.inCall = false
		th.pending = nil
	case "lock":
		s.tr.Emit(common.Ev{"ev": "lock_start", "t": tname(th.id), "l": lname(m.l)})
		th.pending = &m
	default:
		th.pending = &m
	}
}

// call starts a call on an idle thread.
func (s *lpSched) call(th *lpThread, c lpCall) {
	s.tr.Emit(common.Ev{"ev": "call", "t": tname(th.id), "op": c.op, "ls": lnames(c.ls)})
	switch c.op {
	case "lock":
		for _, l := range c.ls {
			th.count[l]++
		}
	case "unlock":
		th.count[c.ls[0]]--
	case "unlockall":
		for l := range th.count {
			th.count[l] = 0
		}
	}
	th.inCall = true
	th.curOp = c.op
	th.cmd <- c
	s.receive(th)
}

// runnable reports whether the pending primitive of a thread can be
// performed now.
func (s *lpSched) runnable(th *lpThread) bool {
	if th.pending == nil {
		return false
	}
	if th.pending.kind == "lock" {
		return s.owner[th.pending.l] == -1
	}
	return true
}

// step performs the pending primitive of a thread.
func (s *lpSched) step(th *lpThread) {
	m := th.pending
	th.pending = nil
	res := true
	switch m.kind {
	case "try":
		res = s.owner[m.l] == -1
		if res {
			s.owner[m.l] = th.id
		}
		s.tr.Emit(common.Ev{"ev": "try", "t": tname(th.id), "l": lname(m.l), "ok": res})
	case "lock":
		s.owner[m.l] = th.id
		s.tr.Emit(common.Ev{"ev": "lock_acq", "t": tname(th.id), "l": lname(m.l)})
	case "unlock":
		s.owner[m.l] = -1
		s.tr.Emit(common.Ev{"ev": "unlock", "t": tname(th.id), "l": lname(m.l)})
	}
	s.steps++
	th.grant <- res
	s.receive(th)
}

// stuck records that no thread can make progress although calls are
// in flight. The blocked goroutines are abandoned.
func (s *lpSched) stuck() {
	waiting := []string{}
	for _, th := range s.threads {
		if th.pending != nil {
			waiting = append(waiting, fmt.Sprintf("%s:%s:%s", tname(th.id), th.pending.kind, lname(th.pending.l)))
		}
	}
	s.tr.Emit(common.Ev{"ev": "stuck", "waiting": waiting})
}

func (s *lpSched) close() {
	for _, th := range s.threads {
		if !th.inCall {
			close(th.cmd)
		}
	}
}

// option is one scheduling decision: advance the pending primitive of a
// thread, or let an idle thread make its next call.
type lpOption struct {
	th   *lpThread
	call *lpCall
}

// ---------------------------------------------------------------------------
// Seeded random schedules and random call sequences.

func randomCall(rng *rand.Rand, th *lpThread, nl int, allowLock bool) *lpCall {
	held := []int{}
	for l, c := range th.count {
		if c > 0 {
			held = append(held, l)
		}
	}
	for {
		switch k := rng.Intn(10); {
		case k < 5 && allowLock:
			n := 1 + rng.Intn(2)
			if rng.Intn(8) == 0 {
				n = 3
			}
			if n > nl {
				n = nl
			}
			perm := rng.Perm(nl)[:n]
			ok := true
			for _, l := range perm {
				if th.count[l] >= 2 { // recursion count at most 1 (MaxRec of the trace cfg is larger)
					ok = false
				}
			}
			if ok {
				return &lpCall{op: "lock", ls: perm}
			}
		case k < 8 && len(held) > 0:
			return &lpCall{op: "unlock", ls: []int{held[rng.Intn(len(held))]}}
		case len(held) > 0:
			return &lpCall{op: "unlockall"}
		case !allowLock:
			return nil
		}
	}
}

// runRandom executes one randomly scheduled trace.
func runRandom(tr *common.Trace, rng *rand.Rand, trace, nt, nl, maxSteps int) {
	tr.Emit(common.Ev{"ev": "reset", "trace": trace, "mode": "random", "nt": nt, "nl": nl})
	s := newLPSched(tr, nt, nl)
	defer s.close()
	events := 0
	for {
		finishing := events >= maxSteps
		opts := []lpOption{}
		for _, th := range s.threads {
			if th.inCall {
				if s.runnable(th) {
					opts = append(opts, lpOption{th: th})
				}
			} else if c := randomCall(rng, th, nl, !finishing); c != nil {
				opts = append(opts, lpOption{th: th, call: c})
			}
		}
		if len(opts) == 0 {
			for _, th := range s.threads {
				if th.inCall {
					s.stuck()
					return
				}
			}
			return // everything released, nothing left to do
		}
		var o lpOption
		if finishing {
			o = opts[0] // run threads to completion one after the other
		} else {
			o = opts[rng.Intn(len(opts))]
		}
		if o.call != nil {
			if finishing {
				o.call = &lpCall{op: "unlockall"}
			}
			s.call(o.th, *o.call)
		} else {
			s.step(o.th)
		}
		events++
		if events > maxSteps+400 {
			tr.Emit(common.Ev{"ev": "cut", "why": "step bound"})
			return
		}
	}
}

// TestLockPileRandom: seeded random call sequences under seeded random
// schedules.
func TestLockPileRandom(t *testing.T) {
	n := common.EnvInt("VERIF_N", 300)
	steps := common.EnvInt("VERIF_STEPS", 60)
	tr := common.NewTrace("trace.ndjson")
	defer tr.Close()
	for i := 0; i < n; i++ {
		rng := common.Rand(int64(1000 + i))
		nt := 2 + rng.Intn(2)
		nl := 2 + rng.Intn(2)
		runRandom(tr, rng, i, nt, nl, steps)
	}
	common.WriteJSON("meta.json", map[string]any{"traces": n, "events": tr.Len()})
}

// ---------------------------------------------------------------------------
// Systematic exploration of the schedules of small scenarios.

type lpScenario struct {
	name     string
	nl       int
	programs [][]lpCall
}

func lk(ls ...int) lpCall { return lpCall{op: "lock", ls: ls} }
func ul(l int) lpCall     { return lpCall{op: "unlock", ls: []int{l}} }

var ua = lpCall{op: "unlockall"}

var lpScenarios = []lpScenario{
	{"opposite", 2, [][]lpCall{{lk(0, 1), ua}, {lk(1, 0), ua}}},
	{"extend", 2, [][]lpCall{{lk(0), lk(1), ua}, {lk(1), lk(0), ua}}},
	{"ring", 3, [][]lpCall{{lk(0, 1), ua}, {lk(1, 2), ua}, {lk(2, 0), ua}}},
	{"recursion", 2, [][]lpCall{{lk(0), lk(1), ul(1), lk(0, 1), ul(0), ul(0), ua}, {lk(1, 0), ul(1), ua}}},
	{"three", 3, [][]lpCall{{lk(0), lk(1, 2), ul(0), ua}, {lk(2, 1, 0), ua}}},
	{"parentchild", 3, [][]lpCall{{lk(0, 1), lk(2), ul(2), ua}, {lk(2), lk(0), ua}, {lk(1), ua}}},
}

// runScheduled runs a scenario following the given choices, then always
// the first option; it returns the choices made and the number of
// options that were available at every decision. The first option is
// always "continue the thread that ran last" (if it can run); choosing
// another one while it could have continued is a preemption, and at most
// maxPre preemptions are explored per schedule (context bounding).
func runScheduled(tr *common.Trace, sc lpScenario, trace int, prefix []int, maxDepth, maxPre int) (path, factors []int) {
	tr.Emit(common.Ev{"ev": "reset", "trace": trace, "mode": "dfs:" + sc.name, "nt": len(sc.programs), "nl": sc.nl})
	s := newLPSched(tr, len(sc.programs), sc.nl)
	defer s.close()
	for i, th := range s.threads {
		th.program = append([]lpCall(nil), sc.programs[i]...)
	}
	var last *lpThread
	preemptions := 0
	for depth := 0; ; depth++ {
		opts := []lpOption{}
		lastCanRun := false
		for _, th := range s.threads {
			var o *lpOption
			if th.inCall {
				if s.runnable(th) {
					o = &lpOption{th: th}
				}
			} else if len(th.program) > 0 {
				o = &lpOption{th: th, call: &th.program[0]}
			}
			if o == nil {
				continue
			}
			if th == last {
				opts = append([]lpOption{*o}, opts...)
				lastCanRun = true
			} else {
				opts = append(opts, *o)
			}
		}
		if len(opts) == 0 {
			for _, th := range s.threads {
				if th.inCall {
					s.stuck()
					break
				}
			}
			return
		}
		n := len(opts)
		if lastCanRun && preemptions >= maxPre {
			n = 1
		}
		choice := 0
		if depth < len(prefix) && prefix[depth] < n {
			choice = prefix[depth]
		}
		if depth < maxDepth {
			path = append(path, choice)
			factors = append(factors, n)
		} else if depth > maxDepth+400 {
			tr.Emit(common.Ev{"ev": "cut", "why": "step bound"})
			return
		} else {
			choice = 0
		}
		if lastCanRun && choice != 0 {
			preemptions++
		}
		o := opts[choice]
		last = o.th
		if o.call != nil {
			c := *o.call
			o.th.program = o.th.program[1:]
			s.call(o.th, c)
		} else {
			s.step(o.th)
		}
	}
}

// TestLockPileSchedules: depth-first enumeration of the interleavings of
// the scenarios (every primitive operation is a scheduling point) with at
// most VERIF_PREEMPTIONS preemptions, up to VERIF_SCHEDULES schedules per
// scenario and VERIF_DEPTH decisions; past that depth the threads run
// without further preemption.
func TestLockPileSchedules(t *testing.T) {
	maxSchedules := common.EnvInt("VERIF_SCHEDULES", 300)
	maxDepth := common.EnvInt("VERIF_DEPTH", 60)
	maxPre := common.EnvInt("VERIF_PREEMPTIONS", 2)
	tr := common.NewTrace("trace.ndjson")
	defer tr.Close()
	meta := map[string]any{}
	trace := 0
	for _, sc := range lpScenarios {
		prefix := []int{}
		n := 0
		exhausted := false
		for n < maxSchedules {
			path, factors := runScheduled(tr, sc, trace, prefix, maxDepth, maxPre)
			trace++
			n++
			i := len(path) - 1
			for i >= 0 && path[i]+1 >= factors[i] {
				i--
			}
			if i < 0 {
				exhausted = true
				break
			}
			prefix = append(append([]int(nil), path[:i]...), path[i]+1)
		}
		meta[sc.name] = map[string]any{"schedules": n, "exhausted": exhausted}
	}
	meta["events"] = tr.Len()
	meta["preemptions"] = maxPre
	common.WriteJSON("meta.json", meta)
}
