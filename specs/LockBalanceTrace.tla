------------------------- MODULE LockBalanceTrace -------------------------
(***************************************************************************)
(* Validates the lock balance traces of harness/locks (dir_test.go,        *)
(* misc_test.go, conc_test.go): after every call of the real code the      *)
(* driver probed every lock it knows of (TryLock/Unlock hooks) and logged  *)
(* locks_free.  C14_Balance must hold at every such call boundary.  A call *)
(* that can never return because it waits for a mutex ("hang") and a set   *)
(* of concurrent calls that all wait for mutexes ("deadlock") are failures *)
(* of the same property.  The drivers log these two events only from one   *)
(* consistent snapshot of all goroutines in which every goroutine that     *)
(* executes code of the real packages waits (for a mutex, or for a channel *)
(* that only such a goroutine would signal): nobody is left to unlock.     *)
(* How long anything took plays no role; a run that is neither finished    *)
(* nor blocked ends as an infrastructure failure.  A call that waits by design for another call is     *)
(* logged as "park" when it is observed waiting in a channel operation;    *)
(* the calls that wake it are made while it is in flight, and it is logged *)
(* as "resumed" when it returned.  While calls are in flight the locks     *)
(* cannot be probed (such a call may hold them legitimately for a moment), *)
(* so the driver probes after the last of them returned and logs the calls *)
(* of the episode then; a call of the episode that cannot return because   *)
(* it waits for a mutex is a "hang".  The outcome classes reached are      *)
(* collected and written to exercised.json.                                *)
(***************************************************************************)
EXTENDS LockBalance, Json, TLC, TLCExt, Integers

TraceLog == ndJsonDeserialize("trace.ndjson")

VARIABLES l,         \* next line of TraceLog
          verdict,   \* "ok" or "<PID>:<reason>"
          seen,      \* outcome classes reached so far
          ncalls     \* number of call returns judged

tvars == <<phase, held, parked, cb, l, verdict, seen, ncalls>>

Line == TraceLog[l]
IsEvent(e) == l <= Len(TraceLog) /\ Line.ev = e /\ l' = l + 1

Key(ln) == ln.obj \o "/" \o ln.call \o "/" \o ln.outcome
BusySet(ln) == {ln.busy[i] : i \in 1 .. Len(ln.busy)}

TInit == BInit /\ l = 1 /\ verdict = "ok" /\ seen = {} /\ ncalls = 0

\* A new file system instance: nothing is held.
TReset ==
  /\ IsEvent("reset")
  /\ phase' = "idle" /\ held' = {} /\ parked' = 0 /\ cb' = NoLock
  /\ verdict' = "ok" /\ UNCHANGED <<seen, ncalls>>

\* A call returned and the locks were probed: the call boundary.
TCall ==
  /\ IsEvent("call")
  /\ phase' = "idle"
  /\ held' = BusySet(Line)
  /\ verdict' = BalanceVerdict(Line.call, Line.outcome, Line.locks_free /\ BusySet(Line) = {})
  /\ seen' = seen \cup {Key(Line)}
  /\ ncalls' = ncalls + 1
  /\ UNCHANGED <<parked, cb>>

\* The call in progress announced a removal to its environment (the model
\* of the FUSE kernel in the driver), and the environment's step, a LOOKUP
\* in the directory the notification is about, finished: Callback and
\* EnvStep of LockBalance in one observation (the mutex of the directory
\* was free).  An environment step that cannot finish never produces this
\* event; the call is then reported as a "hang".
TNotify ==
  /\ IsEvent("notify")
  /\ phase' = "running" /\ UNCHANGED <<held, parked, cb>>
  /\ verdict' = "ok"
  /\ seen' = seen \cup {"env/removal-notification/delivered"}
  /\ UNCHANGED ncalls

\* A call was observed waiting, by design, for another call.
TPark ==
  /\ IsEvent("park")
  /\ phase' = "idle" /\ parked' = parked + 1 /\ UNCHANGED <<held, cb>>
  /\ verdict' = "ok"
  /\ UNCHANGED <<seen, ncalls>>

\* The parked call returned (after the calls that woke it); the locks were
\* probed when nothing was in flight any more.
TResumed ==
  /\ IsEvent("resumed")
  /\ phase' = "idle" /\ parked' = IF parked > 0 THEN parked - 1 ELSE 0
  /\ held' = BusySet(Line) /\ UNCHANGED cb
  /\ verdict' = IF parked = 0 THEN "NC:driver-resumed-without-park"
                ELSE BalanceVerdict(Line.call, Line.outcome, Line.locks_free /\ BusySet(Line) = {})
  /\ seen' = seen \cup {Key(Line)}
  /\ ncalls' = ncalls + 1

\* The calls that should wake the parked call returned, yet it still waits
\* in its channel operation: a lost wake-up.  Not a lock that was left
\* behind (property C16 speaks about wake-ups): non-conformance.
TStuck ==
  /\ IsEvent("stuck")
  /\ phase' = "idle" /\ parked' = 0 /\ UNCHANGED <<held, cb>>
  /\ verdict' = "NC:parked-call-not-woken:" \o Line.call
  /\ UNCHANGED <<seen, ncalls>>

\* A call did not return and its goroutine is parked waiting for a mutex:
\* some earlier call left that mutex locked.
THang ==
  /\ IsEvent("hang")
  /\ phase' = "running" /\ UNCHANGED <<held, parked, cb>>
  /\ verdict' = "C14:hang:" \o Line.call
  /\ UNCHANGED <<seen, ncalls>>

\* The real code panicked although the calling conventions were respected.
\* By itself that is not a lock balance failure (reported as a
\* non-conformance), unless it left a lock behind.
TPanic ==
  /\ IsEvent("panic")
  /\ phase' = "idle" /\ held' = BusySet(Line) /\ parked' = 0 /\ UNCHANGED cb
  /\ verdict' = IF Line.locks_free THEN "NC:panic:" \o Line.call
                ELSE "C14:lock-leaked-after:" \o Line.call \o ":panic"
  /\ UNCHANGED <<seen, ncalls>>

\* Every unfinished worker of the concurrent driver is parked in a mutex
\* and no call returned for a long time.
TDeadlock ==
  /\ IsEvent("deadlock")
  /\ phase' = "running" /\ UNCHANGED <<held, parked, cb>>
  /\ verdict' = "C14:deadlock"
  /\ UNCHANGED <<seen, ncalls>>

TNext == TReset \/ TCall \/ TNotify \/ TPark \/ TResumed \/ TStuck \/ THang \/ TPanic \/ TDeadlock

TraceSpec == TInit /\ [][TNext]_tvars

-----------------------------------------------------------------------------
VerdictOK == verdict = "ok"

Accepted ==
  /\ TLCGet("stats").diameter - 1 = Len(TraceLog)
  /\ PrintT(<<"TRACE_ACCEPTED", Len(TraceLog)>>)

SetToSeq(S) == CHOOSE s \in [1 .. Cardinality(S) -> S] : \A i, j \in DOMAIN s : i # j => s[i] # s[j]

\* At the end of the log: which outcome classes were reached.
Report ==
  (l <= Len(TraceLog)) \/
  JsonSerialize("exercised.json",
    [calls |-> ncalls,
     exercised |-> seen \cap Expected,
     unexercised |-> Expected \ seen,
     unexpected |-> seen \ Expected])
=============================================================================
