-------------------------- MODULE BuildClientTrace --------------------------
(***************************************************************************)
(* Validates traces recorded from the real builder.BuildClient (driven by  *)
(* harness/buildclient) against BuildClient.tla, property C08.             *)
(*                                                                         *)
(* Only what the fakes of the harness observed is used: the                *)
(* SynchronizeRequests the scheduler received and the replies it gave, the *)
(* entry / progress / cancellation / return of Execute(), readiness        *)
(* checks, the clock, the shutdown instant, Run()'s return values and the  *)
(* termination of the loop around it.  The variables of BuildClient.tla    *)
(* that can be observed (execs, req, reply, clock, shutdown) or computed   *)
(* from observations by the rules the specification gives (B, ns,          *)
(* needReady) are maintained; the predicates of the specification are      *)
(* evaluated on them.  The code's internal variables (cur, ch, M, ...) are *)
(* not observable and stay pinned to their initial values.                 *)
(*                                                                         *)
(* Every line is consumed.  `verdict` is "ok" or "<PID>:<reason>".         *)
(***************************************************************************)
EXTENDS BuildClient, Json, TLC, TLCExt

TraceLog == ndJsonDeserialize("trace.ndjson")

VARIABLES l,         \* next line of TraceLog
          verdict,   \* "ok" or why the last consumed line is wrong
          nonconf,   \* lines the model did not predict (no predicate failed)
          stopN,     \* executions 1..stopN were told to stop by the last reply
          stopOpen,  \* ... and the worker thread has not been seen since
          toldIdle,  \* the last accepted desired state was "idle"
          waitOpen,  \* a timer was armed and has not fired
          rep        \* what was last reported [n, kind, phase]

tvars == <<vars, l, verdict, nonconf, stopN, stopOpen, toldIdle, waitOpen, rep>>

Line == TraceLog[l]
IsEvent(e) == l <= Len(TraceLog) /\ Line.ev = e /\ l' = l + 1

\* Variables of the specification that cannot be observed.
Pinned == UNCHANGED <<cur, ch, closed, hasExec, cancelled, M, pending, retv, execAtReq, act>>

TInit ==
  /\ Init
  /\ l = 1 /\ verdict = "ok" /\ nonconf = 0
  /\ stopN = 0 /\ stopOpen = FALSE /\ toldIdle = FALSE /\ waitOpen = FALSE
  /\ rep = NoReport

\* The first of the reasons whose condition holds.
First(cs) ==
  LET hit == {i \in 1 .. Len(cs) : cs[i][1]} IN
    IF hit = {} THEN "ok"
    ELSE cs[CHOOSE i \in hit : \A j \in hit : i <= j][2]

\* The worker thread shows up again after a reply that made it stop
\* executions 1..stopN: all of them must have returned by now.
StopLeak == stopOpen /\ \E i \in 1 .. stopN : ~Stopped(execs[i])
StopLeakReason == "C08:proceeded-before-executor-stopped"

\* An executor that is being waited for must have been cancelled.
Uncancelled(id, c) == stopOpen /\ id <= stopN /\ ~c
UncancelledReason == "C08:waits-for-executor-without-cancelling-it"

ValidId(id) == id \in 1 .. Len(execs)

Bit(b) == IF b THEN 1 ELSE 0

-----------------------------------------------------------------------------
TReset ==
  /\ IsEvent("reset")
  /\ pc' = "top" /\ execs' = <<>> /\ ns' = Line.clock /\ clock' = Line.clock
  /\ shutdown' = FALSE
  /\ req' = NoReq /\ reply' = [kind |-> "nochange", d |-> "", delta |-> 0]
  /\ B' = NoTime /\ needReady' = FALSE
  /\ verdict' = "ok"
  /\ stopN' = 0 /\ stopOpen' = FALSE /\ toldIdle' = FALSE /\ waitOpen' = FALSE
  /\ rep' = NoReport
  /\ UNCHANGED nonconf /\ Pinned

TTick ==
  /\ IsEvent("tick")
  /\ clock' = Line.clock
  /\ verdict' = "ok"
  /\ nonconf' = nonconf + Bit(Line.clock < clock)
  /\ UNCHANGED <<pc, execs, ns, shutdown, req, reply, B, needReady,
                 stopN, stopOpen, toldIdle, waitOpen, rep>> /\ Pinned

TShutdown ==
  /\ IsEvent("shutdown")
  /\ shutdown' = TRUE
  /\ verdict' = "ok"
  /\ UNCHANGED <<pc, execs, ns, clock, req, reply, B, needReady,
                 nonconf, stopN, stopOpen, toldIdle, waitOpen, rep>> /\ Pinned

\* CheckReadiness returned.
TReady ==
  /\ IsEvent("ready")
  /\ needReady' = IF Line.ok THEN FALSE ELSE needReady
  /\ verdict' = First(<< <<StopLeak, StopLeakReason>> >>)
  \* The code checks readiness only while the scheduler cannot think that
  \* the worker is executing; anything else is merely unexpected.
  /\ nonconf' = nonconf + Bit(B # NoTime)
  /\ stopOpen' = FALSE
  /\ UNCHANGED <<pc, execs, ns, clock, shutdown, req, reply, B,
                 stopN, toldIdle, waitOpen, rep>> /\ Pinned

TTimerNew ==
  /\ IsEvent("timer_new")
  /\ waitOpen' = TRUE
  /\ verdict' = First(<< <<StopLeak, StopLeakReason>> >>)
  /\ nonconf' = nonconf + Bit(Line.d # ns - clock)
  /\ stopOpen' = FALSE
  /\ UNCHANGED <<pc, execs, ns, clock, shutdown, req, reply, B, needReady,
                 stopN, toldIdle, rep>> /\ Pinned

TTimerFire ==
  /\ IsEvent("timer_fire")
  /\ waitOpen' = FALSE
  /\ verdict' = "ok"
  /\ UNCHANGED <<pc, execs, ns, clock, shutdown, req, reply, B, needReady,
                 nonconf, stopN, stopOpen, toldIdle, rep>> /\ Pinned

\* The scheduler received a SynchronizeRequest.
TSyncReq ==
  /\ IsEvent("sync_req")
  /\ LET st == [kind |-> Line.kind, d |-> Line.d, phase |-> Line.phase,
                rid |-> Line.rid, ok |-> Line.ok]
         r  == [st |-> st, prefer |-> Line.prefer, sd |-> shutdown]
         n  == Len(execs)
         known == st.kind \in StateKinds
     IN
       /\ verdict' = First(<<
            <<StopLeak, StopLeakReason>>,
            <<~known, "C08:report-of-unknown-state">>,
            <<known /\ toldIdle /\ st.kind # "idle", "C08:not-idle-after-being-told-to-go-idle">>,
            <<st.kind = "idle" /\ ~HonestState(st, execs), "C08:reports-idle-while-executor-running">>,
            <<st.kind = "executing" /\ (n = 0 \/ st.d # execs[n].d),
                "C08:reports-other-action-than-the-one-running">>,
            <<st.kind = "executing" /\ ~HonestState(st, execs), "C08:reports-progress-never-made">>,
            <<st.kind = "completed" /\ (n = 0 \/ st.d # execs[n].d \/ st.rid # n),
                "C08:completion-with-another-actions-response">>,
            <<st.kind = "completed" /\ n > 0 /\ ~Stopped(execs[n]), "C08:completion-before-executor-returned">>,
            <<st.kind = "completed" /\ ~HonestState(st, execs), "C08:completion-status-differs-from-executor-response">>,
            <<known /\ ~Monotone(rep, st, execs), "C08:report-goes-backwards">>,
            <<st.kind = "completed" /\ ~st.ok /\ ~r.prefer, "C08:no-prefer-idle-after-failure">>,
            <<known /\ ~PreferOK(r, needReady), "C08:solicits-work-before-readiness-recheck">>,
            <<r.sd /\ ~r.prefer, "C08:solicits-work-after-shutdown">> >>)
       /\ req' = r
       /\ rep' = IF known THEN ReportOf(st, execs) ELSE rep
       /\ needReady' = (needReady \/ (st.kind = "completed" /\ ~st.ok))
  /\ pc' = "sync"
  \* woken by an update rather than by the timer: the code pulls the next
  \* synchronization time forward to now
  /\ ns' = IF waitOpen THEN Min(ns, clock) ELSE ns
  /\ waitOpen' = FALSE
  /\ stopOpen' = FALSE
  \* a request while the previous one is unanswered is merely unexpected
  /\ nonconf' = nonconf + Bit(pc = "sync")
  /\ UNCHANGED <<execs, clock, shutdown, reply, B, stopN, toldIdle>> /\ Pinned

\* ... and answered it.
TSyncReply ==
  /\ IsEvent("sync_reply")
  /\ LET k == Line.kind IN
       /\ verdict' = "ok"
       /\ nonconf' = nonconf + Bit(pc # "sync" \/ k \notin ReplyKinds)
       /\ reply' = [kind |-> k, d |-> Line.d, delta |-> 0]
       /\ B' = IF k \in ReplyKinds THEN BeliefAfter(B, ns, req.st.kind, k, Line.ns) ELSE B
       /\ ns' = IF ValidTimestamp(k) THEN Line.ns ELSE ns
       /\ execs' = IF k = "exec" THEN Append(execs, NewExec(Line.d)) ELSE execs
       /\ needReady' = IF k = "exec" THEN FALSE ELSE needReady
       /\ stopN' = IF k \in {"exec", "idle"} THEN Len(execs) ELSE stopN
       /\ stopOpen' = (k \in {"exec", "idle"})
       /\ toldIdle' = IF k = "exec" THEN FALSE ELSE IF k = "idle" THEN TRUE ELSE toldIdle
  /\ pc' = "top"
  /\ UNCHANGED <<clock, shutdown, req, waitOpen, rep>> /\ Pinned

\* Run() returned.
TRunRet ==
  /\ IsEvent("run_ret")
  /\ verdict' = First(<<
       <<StopLeak, StopLeakReason>>,
       <<Line.may /\ Line.shutdown /\ ~SafeToTerminate(B, clock),
           "C08:may-terminate-while-scheduler-may-think-executing">> >>)
  /\ nonconf' = nonconf + Bit(pc = "sync")
  /\ stopOpen' = FALSE
  /\ pc' = "top"
  /\ UNCHANGED <<execs, ns, clock, shutdown, req, reply, B, needReady,
                 stopN, toldIdle, waitOpen, rep>> /\ Pinned

\* The loop around Run() (LaunchWorkerThread) ended.
TTerminate ==
  /\ IsEvent("terminate")
  /\ verdict' = First(<<
       <<StopLeak, StopLeakReason>>,
       <<shutdown /\ ~SafeToTerminate(B, clock), "C08:terminated-while-scheduler-may-think-executing">> >>)
  \* a loop that ends although nobody asked for it is broken, but the
  \* property only speaks about termination on shutdown
  /\ nonconf' = nonconf + Bit(~shutdown)
  /\ stopOpen' = FALSE
  /\ pc' = IF shutdown THEN "terminated" ELSE "top"
  /\ UNCHANGED <<execs, ns, clock, shutdown, req, reply, B, needReady,
                 stopN, toldIdle, waitOpen, rep>> /\ Pinned

ExecUnchanged(unknownId) ==
  /\ nonconf' = nonconf + Bit(unknownId)
  /\ UNCHANGED <<pc, ns, clock, shutdown, req, reply, B, needReady,
                 stopN, stopOpen, toldIdle, waitOpen, rep>> /\ Pinned

\* Execute() was entered.
TExecEnter ==
  /\ IsEvent("exec_enter")
  /\ LET id == Line.id
         requested == ValidId(id) /\ execs[id].st = "spawned" /\ execs[id].d = Line.d
     IN
       /\ verdict' = First(<<
            <<~requested, "C08:execution-started-that-was-not-requested">>,
            <<requested /\ (\/ \E i \in 1 .. Len(execs) : i # id /\ execs[i].st = "running"
                            \/ ~OneAtATime(SubSeq(execs, 1, id))
                            \/ Line.active # 1),
                "C08:two-actions-at-once">> >>)
       /\ execs' = IF requested THEN [execs EXCEPT ![id].st = "running"] ELSE execs
  /\ ExecUnchanged(FALSE)

\* The executor is about to queue a progress update.
TExecUpdate ==
  /\ IsEvent("exec_update")
  /\ LET id == Line.id IN
       /\ verdict' = First(<<
            <<Uncancelled(id, Line.cancelled), UncancelledReason>> >>)
       /\ execs' = IF ValidId(id) THEN [execs EXCEPT ![id].sent = Line.phase] ELSE execs
  /\ ExecUnchanged(~ValidId(Line.id))

\* The executor looked at its context.
TExecCancel ==
  /\ IsEvent("exec_cancel")
  /\ LET id == Line.id IN
       /\ verdict' = First(<<
            <<Uncancelled(id, Line.cancelled), UncancelledReason>> >>)
       /\ execs' = IF ValidId(id)
                     THEN [execs EXCEPT ![id].cancelSeen = (@ \/ Line.cancelled)]
                     ELSE execs
  /\ ExecUnchanged(~ValidId(Line.id))

\* Execute() is about to return.
TExecExit ==
  /\ IsEvent("exec_exit")
  /\ LET id == Line.id IN
       /\ verdict' = First(<<
            <<Uncancelled(id, Line.cancelled), UncancelledReason>> >>)
       /\ execs' = IF ValidId(id)
                     THEN [execs EXCEPT ![id].st = "returned", ![id].ok = Line.ok]
                     ELSE execs
  /\ ExecUnchanged(~ValidId(Line.id))

\* The harness found the worker thread blocked for good / spinning / dead.
TTrouble ==
  /\ l <= Len(TraceLog) /\ Line.ev \in {"hang", "spin", "panic"} /\ l' = l + 1
  /\ verdict' = IF Line.ev = "hang" /\ stopOpen /\ ~StopLeak
                  THEN "C08:stuck-although-executor-stopped"
                  ELSE "NC:worker-thread-" \o Line.ev
  /\ UNCHANGED <<pc, execs, ns, clock, shutdown, req, reply, B, needReady,
                 nonconf, stopN, stopOpen, toldIdle, waitOpen, rep>> /\ Pinned

TNext ==
  \/ TReset \/ TTick \/ TShutdown \/ TReady \/ TTimerNew \/ TTimerFire
  \/ TSyncReq \/ TSyncReply \/ TRunRet \/ TTerminate
  \/ TExecEnter \/ TExecUpdate \/ TExecCancel \/ TExecExit \/ TTrouble

TraceSpec == TInit /\ [][TNext]_tvars

-----------------------------------------------------------------------------
VerdictOK == verdict = "ok"

\* The predicates of BuildClient.tla that speak about observable variables
\* only are checked as they stand (C08_Honest, C08_NoSolicit, C08_Shutdown);
\* the observable part of C08_OneAtATime is:
C08_OneAtATimeObserved ==
  \A i, j \in 1 .. Len(execs) : (i # j /\ execs[i].st = "running") => execs[j].st # "running"

Accepted ==
  /\ TLCGet("stats").diameter - 1 = Len(TraceLog)
  /\ PrintT(<<"TRACE_ACCEPTED", Len(TraceLog)>>)

NonconfReport == (l <= Len(TraceLog)) \/ PrintT(<<"NONCONF", nonconf>>)
=============================================================================
