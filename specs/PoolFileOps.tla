---------------------------- MODULE PoolFileOps ----------------------------
(***************************************************************************)
(* Pure operators shared by PoolFile.tla (design model of                  *)
(* pkg/filesystem/virtual/pool_backed_file_allocator.go behind the         *)
(* FUSE/NFS stateful handle allocators) and PoolFileTrace.tla (validation  *)
(* of traces recorded from the real code).  Property C16.                  *)
(*                                                                         *)
(* The C16 clauses are written here once, as predicates over plain values, *)
(* so that the design model (TLC, all interleavings) and the trace         *)
(* validator (observations of the real code) evaluate the same formulas.   *)
(***************************************************************************)
EXTENDS Integers, Sequences, FiniteSets

\* Share masks of open descriptors.  "" is "no access" (a file created
\* without opening it).
Masks == {"r", "w", "rw"}

\* ShareMask.Count(): a read-write descriptor holds two references.
MaskCount(m) == IF m = "rw" THEN 2 ELSE IF m \in {"r", "w"} THEN 1 ELSE 0
HasW(m) == m \in {"w", "rw"}
HasR(m) == m \in {"r", "rw"}

\* A bag of descriptors: how many are open per mask.
NoDescr == [r |-> 0, w |-> 0, rw |-> 0]
DescrOpen(d) == d.r + d.w + d.rw              \* number of descriptors
DescrRefs(d) == d.r + d.w + 2 * d.rw          \* references they hold
DescrWriters(d) == d.w + d.rw                 \* writable descriptors
DescrAdd(d, m) ==
  IF m = "r" THEN [d EXCEPT !.r = @ + 1]
  ELSE IF m = "w" THEN [d EXCEPT !.w = @ + 1]
  ELSE IF m = "rw" THEN [d EXCEPT !.rw = @ + 1] ELSE d
DescrHas(d, m) ==
  IF m = "r" THEN d.r > 0 ELSE IF m = "w" THEN d.w > 0
  ELSE IF m = "rw" THEN d.rw > 0 ELSE TRUE
DescrDel(d, m) ==
  IF m = "r" THEN [d EXCEPT !.r = @ - 1]
  ELSE IF m = "w" THEN [d EXCEPT !.w = @ - 1]
  ELSE IF m = "rw" THEN [d EXCEPT !.rw = @ - 1] ELSE d

-----------------------------------------------------------------------------
(* C16, clause by clause.                                                  *)

\* The reference count kept by the implementation is the number of things
\* that keep the file alive: one for "has at least one directory entry"
\* (the handle allocator in front forwards only the last Unlink), the
\* references of the open descriptors, and one per frozen reader (upload in
\* its read phase, ApplyOpenReadFrozen reader, output service stat).
RefsExpected(links, descrRefs, frozen) ==
  (IF links > 0 THEN 1 ELSE 0) + descrRefs + frozen
RefsOK(refCount, links, descrRefs, frozen) ==
  refCount = RefsExpected(links, descrRefs, frozen)

\* The backing pool file is closed at most once, and it is closed exactly
\* while nothing references the file any more.
CloseOnceOK(closedPool, referenced) ==
  closedPool = IF referenced THEN 0 ELSE 1

\* Replies that mean "this file is gone".
StaleReplies == {"ESTALE", "NOTFOUND"}
\* An operation on a file whose storage was released fails cleanly.
StaleOK(wasDead, st) == wasDead => st \in StaleReplies

\* The digest reported for an upload is the digest of the bytes the CAS
\* received: here contents stand for their own digests, so the content that
\* was hashed must be the content both halves of the transfer were read
\* from.
DigestOK(hashed, half1, half2) == half1 = hashed /\ half2 = hashed
\* A memoised digest may only exist for the current contents.
CacheOK(cachedFor, content, none) == cachedFor = none \/ cachedFor = content

\* Nobody stays parked while the condition it waits for holds: an upload
\* waits only while writable descriptors exist and the maximum delay has
\* not expired; a writer waits only while frozen readers exist.
UploadMayWait(writers, expired) == writers > 0 /\ ~expired
WriterMayWait(frozen) == frozen > 0

-----------------------------------------------------------------------------
(* Small sequence helpers used by the trace validator.                     *)
Min(a, b) == IF a < b THEN a ELSE b
Slice(c, off, n) == SubSeq(c, off + 1, Min(off + n, Len(c)))
=============================================================================
