from checks.nfs import run, replay  # noqa: F401
