package nfs40

import (
	"context"
	"encoding/binary"
	"fmt"
	"hash/fnv"
	"math"
	"runtime"
	"runtime/debug"
	"sort"
	"strings"
	"time"

	"github.com/buildbarn/bb-remote-execution/pkg/filesystem/virtual"
	nfsv4impl "github.com/buildbarn/bb-remote-execution/pkg/filesystem/virtual/nfsv4"
	"github.com/buildbarn/bb-storage/pkg/clock"
	"github.com/buildbarn/bb-storage/pkg/filesystem/path"
	"github.com/buildbarn/bb-storage/pkg/util"
	"github.com/buildbarn/go-xdr/pkg/protocols/nfsv4"
	"github.com/buildbarn/go-xdr/pkg/protocols/rpcv2"
	"google.golang.org/grpc/codes"
	"google.golang.org/grpc/status"

	"verif/harness/common"
)

const (
	nPos       = 6  // byte positions 0..nPos; nPos stands for 2^64-1 (must match NB in Trace_NFS40.cfg)
	leaseTicks = 10 // enforced lease time in clock ticks (seconds); must match Lease in Trace_NFS40.cfg
)

var (
	_ clock.Clock = (*fakeClock)(nil)

	stateIDPrefix = [4]byte{0x5a, 0x11, 0xc3, 0x7e}
	stalePrefix   = [4]byte{0x99, 0x88, 0x77, 0x66}
)

// Req is an abstract request: one COMPOUND consisting of an optional
// PUTFH/PUTROOTFH, the operation under test and (for OPEN) a GETFH.
// All identifiers are small tokens; the executor translates them to the
// real client ids, verifiers, state ids and file handles.
type Req struct {
	Op    string `json:"op"`
	Fh    int    `json:"fh"`    // -1 no file handle, 0 root directory, k>0 file k
	Cid   int    `json:"cid"`   // token of the client id (0 = never issued)
	Verf  int    `json:"verf"`  // token of the SETCLIENTID confirm verifier
	Cl    int    `json:"cl"`    // client long id (SETCLIENTID)
	Cv    int    `json:"cv"`    // client verifier (SETCLIENTID)
	Ok    string `json:"ok"`    // open-owner key
	Lk    string `json:"lk"`    // lock-owner key
	Seq   int    `json:"seq"`   // open-owner seqid; negative = 2^32 + seq (-1 = 2^32-1: the value before the wrap to 1)
	Lseq  int    `json:"lseq"`  // lock-owner seqid (same encoding)
	Sk    string `json:"sk"`    // state id kind: none, reg, anon, byp, anonbad, bypbad, stale
	St    int    `json:"st"`    // state id token
	Sq    int    `json:"sq"`    // state id seqid
	Share int    `json:"share"` // share_access wire value
	Deny  int    `json:"deny"`  // share_deny wire value
	How   string `json:"how"`   // NOCREATE, UNCHECKED, UNCHECKED0, GUARDED, EXCLUSIVE
	Claim string `json:"claim"` // NULL, PREV, PREVDELEG, DCUR, DPREV
	Name  string `json:"name"`
	Name2 string `json:"name2"`
	Lt    string `json:"lt"`   // R, W, RW (READW), WW (WRITEW), BAD
	S     int    `json:"s"`    // start position; nPos = offset 2^64-1 (the last byte)
	E     int    `json:"e"`    // end position (exclusive); nPos = offset 2^64-1
	Lenk  string `json:"lenk"` // norm, zero, eof (length all ones), ovf, one (length 1)
	NewLo bool   `json:"newlo"`
	Gate  bool   `json:"gate"` // hold the operation inside the leaf (I/O in flight)
}

func blankReq(op string) Req {
	return Req{Op: op, Fh: -1, Ok: "", Lk: "", Sk: "none", How: "NOCREATE", Claim: "NULL", Lt: "R", Lenk: "norm"}
}

// Den is the conflicting lock reported by a denied LOCK/LOCKT.
type Den struct {
	S   int    `json:"s"`
	E   int    `json:"e"` // exclusive; nPos+1 = reported as "through end of file"
	Lt  string `json:"lt"`
	Cid int    `json:"cid"`
	Lk  string `json:"lk"`
}

// Rep is a reduced reply.
type Rep struct {
	Pre  string `json:"pre"`  // status of the operations preceding the main one
	St   string `json:"st"`   // status of the main operation (NONE if not executed)
	T    int    `json:"t"`    // state id token
	Q    int    `json:"q"`    // state id seqid
	Conf bool   `json:"conf"` // OPEN4_RESULT_CONFIRM
	Cid  int    `json:"cid"`  // SETCLIENTID: token of the client id
	Verf int    `json:"verf"` // SETCLIENTID: token of the confirm verifier
	Fh   int    `json:"fh"`   // OPEN: file of the resulting current file handle
	Den  Den    `json:"den"`
	H    string `json:"h"` // hash of the XDR encoded result of the main operation
}

type confVals struct {
	shortID  uint64
	verifier [8]byte
}

type env struct {
	tr      *common.Trace
	clk     *fakeClock
	prog    nfsv4.Nfs4Program
	pool    *nfsv4impl.OpenedFilesPool
	alloc   *instrAllocator
	root    virtual.PrepopulatedDirectory
	nextIO  int
	pending map[int]*pendingOp // in flight: held at a gate
	parked  map[int]*pendingOp // waiting for the in-flight OPEN of their open-owner

	cidTok    map[uint64]int
	verfTok   map[[8]byte]int
	confByTok map[int]confVals
	sidTok    map[[12]byte]int
	sidByTok  map[int][12]byte
	handleTok map[string]int
	handles   map[int][]byte
	ptrTok    map[uintptr]int
	dead      bool
}

type pendingOp struct {
	id   int
	req  Req
	g    *gate
	done chan opResult
	npre int
}

type opResult struct {
	res      *nfsv4.Compound4res
	panicMsg string
	stack    string
}

type quietLogger struct{}

func (quietLogger) Log(err error) {}

func newEnv(tr *common.Trace, trace int, seed int64) *env {
	e := &env{
		tr:        tr,
		clk:       &fakeClock{},
		pending:   map[int]*pendingOp{},
		parked:    map[int]*pendingOp{},
		cidTok:    map[uint64]int{},
		verfTok:   map[[8]byte]int{},
		confByTok: map[int]confVals{},
		sidTok:    map[[12]byte]int{},
		sidByTok:  map[int][12]byte{},
		handleTok: map[string]int{},
		handles:   map[int][]byte{},
		ptrTok:    map[uintptr]int{},
	}
	handleAllocator := virtual.NewNFSHandleAllocator(newDetRand(seed*7919 + 1))
	defaultAttributesSetter := func(requested virtual.AttributesMask, attributes *virtual.Attributes) {}
	e.alloc = &instrAllocator{
		base: virtual.NewPoolBackedFileAllocator(memFilePool{}, quietLogger{}, defaultAttributesSetter, virtual.NoNamedAttributesFactory),
	}
	e.root = virtual.NewInMemoryPrepopulatedDirectory(
		virtual.NewHandleAllocatingFileAllocator(e.alloc, handleAllocator),
		virtual.NewErrorSymlinkFactory(status.Error(codes.PermissionDenied, "no symlinks")),
		quietLogger{},
		handleAllocator,
		sort.Sort,
		func(string) bool { return false },
		e.clk,
		virtual.CaseSensitiveComponentNormalizer,
		defaultAttributesSetter,
		virtual.NoNamedAttributesFactory,
	)
	e.pool = nfsv4impl.NewOpenedFilesPool(handleAllocator.ResolveHandle)
	e.prog = nfsv4impl.NewNFS40Program(
		e.root,
		e.pool,
		newDetRand(seed*7919+2),
		nfsv4.Verifier4{1, 2, 3, 4, 5, 6, 7, 8},
		stateIDPrefix,
		e.clk,
		leaseTicks*time.Second,
		leaseTicks*time.Second,
		path.UNIXFormat,
		[]nfsv4.Secinfo4{&nfsv4.Secinfo4_default{Flavor: rpcv2.AUTH_NONE}},
	)
	tr.Emit(common.Ev{"ev": "reset", "trace": trace, "lease": leaseTicks, "nb": nPos})
	return e
}

var _ util.ErrorLogger = quietLogger{}

// ---------------------------------------------------------------------------
// Token translation.

func pos(p int) uint64 {
	if p >= nPos {
		return math.MaxUint64
	}
	return uint64(p) * 10
}

func unpos(v uint64) int {
	if v == math.MaxUint64 {
		return nPos
	}
	if v%10 != 0 || v/10 > nPos {
		return -1
	}
	return int(v / 10)
}

func (e *env) clientID(tok int) uint64 {
	if c, ok := e.confByTok[tok]; ok {
		return c.shortID
	}
	return 0xdead000000000000 + uint64(tok)
}

func (e *env) confirmVerifier(tok int) (v [8]byte) {
	if c, ok := e.confByTok[tok]; ok {
		return c.verifier
	}
	binary.BigEndian.PutUint64(v[:], 0xbad0000000000000+uint64(tok))
	return v
}

func (e *env) stateID(r *Req) nfsv4.Stateid4 {
	switch r.Sk {
	case "anon":
		return nfsv4.Stateid4{}
	case "anonbad":
		return nfsv4.Stateid4{Seqid: 7}
	case "byp":
		return nfsv4.Stateid4{Seqid: 0xffffffff, Other: [12]byte{0xff, 0xff, 0xff, 0xff, 0xff, 0xff, 0xff, 0xff, 0xff, 0xff, 0xff, 0xff}}
	case "bypbad":
		return nfsv4.Stateid4{Seqid: 5, Other: [12]byte{0xff, 0xff, 0xff, 0xff, 0xff, 0xff, 0xff, 0xff, 0xff, 0xff, 0xff, 0xff}}
	}
	sid := nfsv4.Stateid4{Seqid: uint32(r.Sq)}
	if other, ok := e.sidByTok[r.St]; ok {
		sid.Other = other
	} else {
		copy(sid.Other[:], stateIDPrefix[:])
		binary.BigEndian.PutUint64(sid.Other[4:], 0xb0b0000000000000+uint64(r.St))
	}
	if r.Sk == "stale" {
		copy(sid.Other[:], stalePrefix[:])
	}
	return sid
}

func (e *env) sidToken(sid *nfsv4.Stateid4, assign bool) int {
	if t, ok := e.sidTok[sid.Other]; ok {
		return t
	}
	if !assign {
		return -1
	}
	t := len(e.sidTok) + 1
	e.sidTok[sid.Other] = t
	e.sidByTok[t] = sid.Other
	return t
}

func (e *env) fileOfHandle(h []byte) int {
	if t, ok := e.handleTok[string(h)]; ok {
		return t
	}
	return -1
}

func lockType(lt string) nfsv4.NfsLockType4 {
	switch lt {
	case "R":
		return nfsv4.READ_LT
	case "W":
		return nfsv4.WRITE_LT
	case "RW":
		return nfsv4.READW_LT
	case "WW":
		return nfsv4.WRITEW_LT
	}
	return nfsv4.NfsLockType4(9)
}

func offsetLength(r *Req) (uint64, uint64) {
	off := pos(r.S)
	switch r.Lenk {
	case "zero":
		return off, 0
	case "eof":
		return off, math.MaxUint64
	case "ovf":
		// offset + length exceeds 2^64-1, length not all ones.
		return off, math.MaxUint64 - 1
	case "one":
		return off, 1
	}
	return off, pos(r.E) - off
}

func statusName(st nfsv4.Nfsstat4) string {
	n, ok := nfsv4.Nfsstat4_name[st]
	if !ok {
		return fmt.Sprintf("ERR%d", int32(st))
	}
	if n == "NFS4_OK" {
		return "OK"
	}
	return strings.TrimPrefix(n, "NFS4ERR_")
}

func clientLongID(cl int) []byte    { return []byte(fmt.Sprintf("client-%d", cl)) }
func clientVerifier(cv int) [8]byte { return [8]byte{0xc1, 0, 0, 0, 0, 0, 0, byte(cv)} }

// ---------------------------------------------------------------------------
// Building and running one COMPOUND.

func sizeAttr(size uint64) nfsv4.Fattr4 {
	var b [8]byte
	binary.BigEndian.PutUint64(b[:], size)
	return nfsv4.Fattr4{Attrmask: []uint32{1 << nfsv4.FATTR4_SIZE}, AttrVals: b[:]}
}

func (e *env) build(r *Req) (ops []nfsv4.NfsArgop4, npre int) {
	switch {
	case r.Op == "RENAME":
		ops = append(ops, &nfsv4.NfsArgop4_OP_PUTROOTFH{}, &nfsv4.NfsArgop4_OP_SAVEFH{})
	case r.Fh == 0:
		ops = append(ops, &nfsv4.NfsArgop4_OP_PUTROOTFH{})
	case r.Fh > 0:
		h, ok := e.handles[r.Fh]
		if !ok {
			h = []byte{0, 0, 0, 0, 0, 0, 0, byte(r.Fh)}
		}
		ops = append(ops, &nfsv4.NfsArgop4_OP_PUTFH{Opputfh: nfsv4.Putfh4args{Object: h}})
	}
	npre = len(ops)
	switch r.Op {
	case "PUTFH":
		// The prefix is the operation under test; report it through GETFH.
		ops = append(ops, &nfsv4.NfsArgop4_OP_GETFH{})
	case "SETCLIENTID":
		ops = append(ops, &nfsv4.NfsArgop4_OP_SETCLIENTID{Opsetclientid: nfsv4.Setclientid4args{
			Client:   nfsv4.NfsClientId4{Verifier: clientVerifier(r.Cv), Id: clientLongID(r.Cl)},
			Callback: nfsv4.CbClient4{CbProgram: 1, CbLocation: nfsv4.Netaddr4{NaRNetid: "tcp", NaRAddr: "127.0.0.1.0.0"}},
		}})
	case "SETCLIENTID_CONFIRM":
		ops = append(ops, &nfsv4.NfsArgop4_OP_SETCLIENTID_CONFIRM{OpsetclientidConfirm: nfsv4.SetclientidConfirm4args{
			Clientid: e.clientID(r.Cid), SetclientidConfirm: e.confirmVerifier(r.Verf),
		}})
	case "RENEW":
		ops = append(ops, &nfsv4.NfsArgop4_OP_RENEW{Oprenew: nfsv4.Renew4args{Clientid: e.clientID(r.Cid)}})
	case "OPEN":
		a := nfsv4.Open4args{
			Seqid:       uint32(r.Seq),
			ShareAccess: uint32(r.Share),
			ShareDeny:   uint32(r.Deny),
			Owner:       nfsv4.OpenOwner4{Clientid: e.clientID(r.Cid), Owner: []byte(r.Ok)},
		}
		switch r.How {
		case "UNCHECKED":
			a.Openhow = &nfsv4.Openflag4_OPEN4_CREATE{How: &nfsv4.Createhow4_UNCHECKED4{}}
		case "UNCHECKED0":
			a.Openhow = &nfsv4.Openflag4_OPEN4_CREATE{How: &nfsv4.Createhow4_UNCHECKED4{Createattrs: sizeAttr(0)}}
		case "GUARDED":
			a.Openhow = &nfsv4.Openflag4_OPEN4_CREATE{How: &nfsv4.Createhow4_GUARDED4{}}
		case "EXCLUSIVE":
			a.Openhow = &nfsv4.Openflag4_OPEN4_CREATE{How: &nfsv4.Createhow4_EXCLUSIVE4{Createverf: [8]byte{9, 9, 9, 9, 9, 9, 9, 9}}}
		default:
			a.Openhow = &nfsv4.Openflag4_default{Opentype: nfsv4.OPEN4_NOCREATE}
		}
		switch r.Claim {
		case "PREV":
			a.Claim = &nfsv4.OpenClaim4_CLAIM_PREVIOUS{DelegateType: nfsv4.OPEN_DELEGATE_NONE}
		case "PREVDELEG":
			a.Claim = &nfsv4.OpenClaim4_CLAIM_PREVIOUS{DelegateType: nfsv4.OPEN_DELEGATE_READ}
		case "DCUR":
			a.Claim = &nfsv4.OpenClaim4_CLAIM_DELEGATE_CUR{}
		case "DPREV":
			a.Claim = &nfsv4.OpenClaim4_CLAIM_DELEGATE_PREV{FileDelegatePrev: r.Name}
		default:
			a.Claim = &nfsv4.OpenClaim4_CLAIM_NULL{File: r.Name}
		}
		ops = append(ops, &nfsv4.NfsArgop4_OP_OPEN{Opopen: a}, &nfsv4.NfsArgop4_OP_GETFH{})
	case "OPEN_CONFIRM":
		ops = append(ops, &nfsv4.NfsArgop4_OP_OPEN_CONFIRM{OpopenConfirm: nfsv4.OpenConfirm4args{OpenStateid: e.stateID(r), Seqid: uint32(r.Seq)}})
	case "OPEN_DOWNGRADE":
		ops = append(ops, &nfsv4.NfsArgop4_OP_OPEN_DOWNGRADE{OpopenDowngrade: nfsv4.OpenDowngrade4args{
			OpenStateid: e.stateID(r), Seqid: uint32(r.Seq), ShareAccess: uint32(r.Share), ShareDeny: uint32(r.Deny),
		}})
	case "CLOSE":
		ops = append(ops, &nfsv4.NfsArgop4_OP_CLOSE{Opclose: nfsv4.Close4args{Seqid: uint32(r.Seq), OpenStateid: e.stateID(r)}})
	case "LOCK":
		off, length := offsetLength(r)
		a := nfsv4.Lock4args{Locktype: lockType(r.Lt), Offset: off, Length: length}
		if r.NewLo {
			a.Locker = &nfsv4.Locker4_TRUE{OpenOwner: nfsv4.OpenToLockOwner4{
				OpenSeqid:   uint32(r.Seq),
				OpenStateid: e.stateID(r),
				LockSeqid:   uint32(r.Lseq),
				LockOwner:   nfsv4.LockOwner4{Clientid: e.clientID(r.Cid), Owner: []byte(r.Lk)},
			}}
		} else {
			a.Locker = &nfsv4.Locker4_FALSE{LockOwner: nfsv4.ExistLockOwner4{LockStateid: e.stateID(r), LockSeqid: uint32(r.Lseq)}}
		}
		ops = append(ops, &nfsv4.NfsArgop4_OP_LOCK{Oplock: a})
	case "LOCKT":
		off, length := offsetLength(r)
		ops = append(ops, &nfsv4.NfsArgop4_OP_LOCKT{Oplockt: nfsv4.Lockt4args{
			Locktype: lockType(r.Lt), Offset: off, Length: length,
			Owner: nfsv4.LockOwner4{Clientid: e.clientID(r.Cid), Owner: []byte(r.Lk)},
		}})
	case "LOCKU":
		off, length := offsetLength(r)
		ops = append(ops, &nfsv4.NfsArgop4_OP_LOCKU{Oplocku: nfsv4.Locku4args{
			Locktype: lockType(r.Lt), Seqid: uint32(r.Lseq), LockStateid: e.stateID(r), Offset: off, Length: length,
		}})
	case "RELEASE_LOCKOWNER":
		ops = append(ops, &nfsv4.NfsArgop4_OP_RELEASE_LOCKOWNER{OpreleaseLockowner: nfsv4.ReleaseLockowner4args{
			LockOwner: nfsv4.LockOwner4{Clientid: e.clientID(r.Cid), Owner: []byte(r.Lk)},
		}})
	case "READ":
		ops = append(ops, &nfsv4.NfsArgop4_OP_READ{Opread: nfsv4.Read4args{Stateid: e.stateID(r), Offset: 0, Count: 4}})
	case "WRITE":
		ops = append(ops, &nfsv4.NfsArgop4_OP_WRITE{Opwrite: nfsv4.Write4args{Stateid: e.stateID(r), Offset: 0, Stable: nfsv4.FILE_SYNC4, Data: []byte("x")}})
	case "SETATTR":
		ops = append(ops, &nfsv4.NfsArgop4_OP_SETATTR{Opsetattr: nfsv4.Setattr4args{Stateid: e.stateID(r), ObjAttributes: sizeAttr(2)}})
	case "REMOVE":
		ops = append(ops, &nfsv4.NfsArgop4_OP_REMOVE{Opremove: nfsv4.Remove4args{Target: r.Name}})
	case "RENAME":
		ops = append(ops, &nfsv4.NfsArgop4_OP_RENAME{Oprename: nfsv4.Rename4args{Oldname: r.Name, Newname: r.Name2}})
	default:
		panic("unknown abstract operation " + r.Op)
	}
	return ops, npre
}

func resStatus(res nfsv4.NfsResop4) nfsv4.Nfsstat4 {
	switch r := res.(type) {
	case *nfsv4.NfsResop4_OP_PUTFH:
		return r.Opputfh.Status
	case *nfsv4.NfsResop4_OP_PUTROOTFH:
		return r.Opputrootfh.Status
	case *nfsv4.NfsResop4_OP_SAVEFH:
		return r.Opsavefh.Status
	case *nfsv4.NfsResop4_OP_GETFH:
		return r.Opgetfh.GetStatus()
	case *nfsv4.NfsResop4_OP_SETCLIENTID:
		return r.Opsetclientid.GetStatus()
	case *nfsv4.NfsResop4_OP_SETCLIENTID_CONFIRM:
		return r.OpsetclientidConfirm.Status
	case *nfsv4.NfsResop4_OP_RENEW:
		return r.Oprenew.Status
	case *nfsv4.NfsResop4_OP_OPEN:
		return r.Opopen.GetStatus()
	case *nfsv4.NfsResop4_OP_OPEN_CONFIRM:
		return r.OpopenConfirm.GetStatus()
	case *nfsv4.NfsResop4_OP_OPEN_DOWNGRADE:
		return r.OpopenDowngrade.GetStatus()
	case *nfsv4.NfsResop4_OP_CLOSE:
		return r.Opclose.GetStatus()
	case *nfsv4.NfsResop4_OP_LOCK:
		return r.Oplock.GetStatus()
	case *nfsv4.NfsResop4_OP_LOCKT:
		return r.Oplockt.GetStatus()
	case *nfsv4.NfsResop4_OP_LOCKU:
		return r.Oplocku.GetStatus()
	case *nfsv4.NfsResop4_OP_RELEASE_LOCKOWNER:
		return r.OpreleaseLockowner.Status
	case *nfsv4.NfsResop4_OP_READ:
		return r.Opread.GetStatus()
	case *nfsv4.NfsResop4_OP_WRITE:
		return r.Opwrite.GetStatus()
	case *nfsv4.NfsResop4_OP_SETATTR:
		return r.Opsetattr.Status
	case *nfsv4.NfsResop4_OP_REMOVE:
		return r.Opremove.GetStatus()
	case *nfsv4.NfsResop4_OP_RENAME:
		return r.Oprename.GetStatus()
	}
	return nfsv4.Nfsstat4(-1)
}

func (e *env) denied(d *nfsv4.Lock4denied) Den {
	out := Den{S: unpos(d.Offset), E: -1, Lt: "?", Cid: -1, Lk: string(d.Owner.Owner)}
	if d.Length == math.MaxUint64 {
		out.E = nPos + 1
	} else {
		out.E = unpos(d.Offset + d.Length)
	}
	switch d.Locktype {
	case nfsv4.READ_LT:
		out.Lt = "R"
	case nfsv4.WRITE_LT:
		out.Lt = "W"
	}
	if t, ok := e.cidTok[d.Owner.Clientid]; ok {
		out.Cid = t
	}
	return out
}

// reduce turns a COMPOUND result into a Rep and learns new tokens.
func (e *env) reduce(r *Req, npre int, createdBefore int, res *nfsv4.Compound4res) Rep {
	rep := Rep{Pre: "OK", St: "NONE", Den: Den{Lt: "", Lk: ""}, H: ""}
	arr := res.Resarray
	for i := 0; i < npre && i < len(arr); i++ {
		if st := resStatus(arr[i]); st != nfsv4.NFS4_OK {
			rep.Pre = statusName(st)
			return rep
		}
	}
	if len(arr) <= npre {
		return rep
	}
	main := arr[npre]
	rep.St = statusName(resStatus(main))
	hasher := fnv.New64a()
	main.WriteTo(hasher)
	rep.H = fmt.Sprintf("%016x", hasher.Sum64())
	sid := func(s *nfsv4.Stateid4) {
		rep.T = e.sidToken(s, true)
		rep.Q = int(s.Seqid)
	}
	switch m := main.(type) {
	case *nfsv4.NfsResop4_OP_SETCLIENTID:
		if ok, is := m.Opsetclientid.(*nfsv4.Setclientid4res_NFS4_OK); is {
			cid, verf := ok.Resok4.Clientid, ok.Resok4.SetclientidConfirm
			if _, seen := e.cidTok[cid]; !seen {
				t := len(e.cidTok) + 1
				e.cidTok[cid] = t
			}
			if _, seen := e.verfTok[verf]; !seen {
				t := len(e.verfTok) + 1
				e.verfTok[verf] = t
			}
			rep.Cid, rep.Verf = e.cidTok[cid], e.verfTok[verf]
			if rep.Cid == rep.Verf {
				e.confByTok[rep.Cid] = confVals{shortID: cid, verifier: verf}
			}
		}
	case *nfsv4.NfsResop4_OP_OPEN:
		if ok, is := m.Opopen.(*nfsv4.Open4res_NFS4_OK); is {
			sid(&ok.Resok4.Stateid)
			rep.Conf = ok.Resok4.Rflags&nfsv4.OPEN4_RESULT_CONFIRM != 0
			if len(arr) > npre+1 {
				if g, is := arr[npre+1].(*nfsv4.NfsResop4_OP_GETFH); is {
					if gok, is := g.Opgetfh.(*nfsv4.Getfh4res_NFS4_OK); is {
						h := gok.Resok4.Object
						if _, known := e.handleTok[string(h)]; !known {
							// A handle never seen before belongs to the leaf
							// created by this very operation.
							if created := e.alloc.created(); created == createdBefore+1 {
								e.handleTok[string(h)] = created
								e.handles[created] = append([]byte(nil), h...)
							}
						}
						rep.Fh = e.fileOfHandle(h)
					}
				}
			}
		}
	case *nfsv4.NfsResop4_OP_OPEN_CONFIRM:
		if ok, is := m.OpopenConfirm.(*nfsv4.OpenConfirm4res_NFS4_OK); is {
			sid(&ok.Resok4.OpenStateid)
		}
	case *nfsv4.NfsResop4_OP_OPEN_DOWNGRADE:
		if ok, is := m.OpopenDowngrade.(*nfsv4.OpenDowngrade4res_NFS4_OK); is {
			sid(&ok.Resok4.OpenStateid)
		}
	case *nfsv4.NfsResop4_OP_CLOSE:
		if ok, is := m.Opclose.(*nfsv4.Close4res_NFS4_OK); is {
			sid(&ok.OpenStateid)
		}
	case *nfsv4.NfsResop4_OP_LOCK:
		switch l := m.Oplock.(type) {
		case *nfsv4.Lock4res_NFS4_OK:
			sid(&l.Resok4.LockStateid)
		case *nfsv4.Lock4res_NFS4ERR_DENIED:
			rep.Den = e.denied(&l.Denied)
		}
	case *nfsv4.NfsResop4_OP_LOCKT:
		if l, is := m.Oplockt.(*nfsv4.Lockt4res_NFS4ERR_DENIED); is {
			rep.Den = e.denied(&l.Denied)
		}
	case *nfsv4.NfsResop4_OP_LOCKU:
		if ok, is := m.Oplocku.(*nfsv4.Locku4res_NFS4_OK); is {
			sid(&ok.LockStateid)
		}
	case *nfsv4.NfsResop4_OP_GETFH:
		// PUTFH under test.
		if gok, is := m.Opgetfh.(*nfsv4.Getfh4res_NFS4_OK); is {
			rep.Fh = e.fileOfHandle(gok.Resok4.Object)
		}
	}
	return rep
}

// start runs a request in its own goroutine. It returns when the
// request has completed (res != nil), is held at its gate ("gate") or,
// while an OPEN is in flight, waits for that OPEN's open-owner
// transaction ("parked").
func (e *env) start(r Req) (p *pendingOp, res *opResult, state string) {
	ops, npre := e.build(&r)
	p = &pendingOp{req: r, npre: npre, done: make(chan opResult, 1)}
	ctx := context.Background()
	if r.Gate {
		where := "io"
		if r.Op == "OPEN" {
			where = "open"
		}
		p.g = &gate{arrived: make(chan struct{}), release: make(chan struct{}), where: where}
		ctx = context.WithValue(ctx, gateKey{}, p.g)
	}
	go func() {
		var out opResult
		defer func() {
			if x := recover(); x != nil {
				out.panicMsg = fmt.Sprint(x)
				out.stack = string(debug.Stack())
			}
			p.done <- out
		}()
		res, err := e.prog.NfsV4Nfsproc4Compound(ctx, &nfsv4.Compound4args{Tag: "v", Minorversion: 0, Argarray: ops})
		if err != nil {
			out.panicMsg = "compound returned error: " + err.Error()
			return
		}
		out.res = res
	}()
	var arrived chan struct{}
	if p.g != nil {
		arrived = p.g.arrived
	}
	if e.openInFlight() == 0 {
		// Nothing the request could have to wait for.
		select {
		case o := <-p.done:
			return p, &o, "done"
		case <-arrived:
			return p, nil, "gate"
		}
	}
	deadline := time.Now().Add(120 * time.Second)
	for {
		select {
		case o := <-p.done:
			return p, &o, "done"
		case <-arrived:
			return p, nil, "gate"
		default:
		}
		if parkedGoroutines() == leakedParked+len(e.parked)+1 {
			return p, nil, "parked"
		}
		if time.Now().After(deadline) {
			panic("request neither completed nor parked: " + fmt.Sprintf("%+v", r))
		}
		time.Sleep(200 * time.Microsecond)
	}
}

// openInFlight returns the number of OPEN requests held at their gate.
func (e *env) openInFlight() int {
	n := 0
	for _, p := range e.pending {
		if p.req.Op == "OPEN" {
			n++
		}
	}
	return n
}

// leakedParked counts goroutines of earlier histories that never woke up
// (only with a defective server).
var leakedParked int

// parkedGoroutines counts the goroutines that wait, durably, for the
// completion of an open-owner transaction (channel receive inside
// waitForCurrentTransactionCompletion).
func parkedGoroutines() int {
	buf := make([]byte, 4<<20)
	buf = buf[:runtime.Stack(buf, true)]
	n := 0
	for _, g := range strings.Split(string(buf), "\n\n") {
		head, _, _ := strings.Cut(g, "\n")
		if strings.HasPrefix(head, "goroutine ") && strings.Contains(head, "[chan receive") && strings.Contains(g, "waitForCurrentTransactionCompletion") {
			n++
		}
	}
	return n
}

// ---------------------------------------------------------------------------
// Observation: leaf counters and the hook snapshot, in tokens.

func parseIdx(b []byte, prefix string) int {
	var n int
	if _, err := fmt.Sscanf(string(b), prefix+"%d", &n); err != nil {
		return -1
	}
	return n
}

func (e *env) hook() map[string]any {
	snap, ok := nfsv4impl.VerifNFS40State(e.prog)
	if !ok {
		panic("program is not an NFSv4.0 program")
	}
	tokOf := func(shortID uint64) int {
		if t, ok := e.cidTok[shortID]; ok {
			return t
		}
		return -1
	}
	sidOf := func(other [12]byte) int {
		if t, ok := e.sidTok[other]; ok {
			return t
		}
		return -1
	}
	confs := []map[string]any{}
	for _, c := range snap.Confirmations {
		confs = append(confs, map[string]any{
			"t": tokOf(c.ShortClientID), "cl": parseIdx([]byte(c.LongID), "client-"), "cv": int(c.ClientVerifier[7]),
			"confirmed": c.Confirmed, "hold": c.HoldCount, "idle": c.Idle,
		})
	}
	sort.Slice(confs, func(i, j int) bool { return confs[i]["t"].(int) < confs[j]["t"].(int) })
	oos := []map[string]any{}
	for _, o := range snap.OpenOwners {
		oos = append(oos, map[string]any{
			"cid": tokOf(o.ShortClientID), "ok": o.Key, "confirmed": o.Confirmed, "lastseq": int(int32(o.LastSeqID)),
			"hasresp": o.HasLastResponse, "closedresp": o.LastResponseClosedFile, "files": o.Files,
			"unused": o.Unused, "intxn": o.InTransaction,
		})
	}
	sort.Slice(oos, func(i, j int) bool {
		return fmt.Sprint(oos[i]["cid"], oos[i]["ok"]) < fmt.Sprint(oos[j]["cid"], oos[j]["ok"])
	})
	oofs := []map[string]any{}
	for _, o := range snap.OpenOwnerFiles {
		oofs = append(oofs, map[string]any{
			"t": sidOf(o.Other), "q": int(o.SeqID), "cid": tokOf(o.ShortClientID), "ok": o.OpenOwner,
			"f": e.fileOfHandle(o.Handle), "share": int(o.ShareAccess), "r": o.Readers, "w": o.Writers,
		})
	}
	sort.Slice(oofs, func(i, j int) bool { return oofs[i]["t"].(int) < oofs[j]["t"].(int) })
	los := []map[string]any{}
	for _, l := range snap.LockOwners {
		los = append(los, map[string]any{
			"cid": tokOf(l.ShortClientID), "lk": l.Key, "lastseq": int(int32(l.LastSeqID)), "hasresp": l.HasLastResponse, "files": l.Files,
		})
	}
	sort.Slice(los, func(i, j int) bool {
		return fmt.Sprint(los[i]["cid"], los[i]["lk"]) < fmt.Sprint(los[j]["cid"], los[j]["lk"])
	})
	lofs := []map[string]any{}
	for _, l := range snap.LockOwnerFiles {
		lofs = append(lofs, map[string]any{
			"t": sidOf(l.Other), "q": int(l.SeqID), "cid": tokOf(l.ShortClientID), "lk": l.LockOwner,
			"ot": sidOf(l.OpenOther), "f": e.fileOfHandle(l.Handle), "share": int(l.ShareAccess), "lc": l.LockCount,
		})
	}
	sort.Slice(lofs, func(i, j int) bool { return lofs[i]["t"].(int) < lofs[j]["t"].(int) })
	poolEntries := []map[string]any{}
	for _, pe := range nfsv4impl.VerifNFS40PoolState(e.pool) {
		locks := []map[string]any{}
		for _, l := range pe.Locks {
			lt := "?"
			switch l.Type {
			case virtual.ByteRangeLockTypeLockedShared:
				lt = "R"
			case virtual.ByteRangeLockTypeLockedExclusive:
				lt = "W"
			}
			if _, ok := e.ptrTok[l.OwnerPointer]; !ok {
				e.ptrTok[l.OwnerPointer] = len(e.ptrTok) + 1
			}
			locks = append(locks, map[string]any{
				"s": unpos(l.Start), "e": unpos(l.End), "lt": lt, "cid": tokOf(l.OwnerClientID), "lk": l.OwnerKey, "ptr": e.ptrTok[l.OwnerPointer],
			})
		}
		poolEntries = append(poolEntries, map[string]any{"f": e.fileOfHandle(pe.Handle), "use": pe.UseCount, "locks": locks})
	}
	sort.Slice(poolEntries, func(i, j int) bool { return poolEntries[i]["f"].(int) < poolEntries[j]["f"].(int) })
	return map[string]any{
		"nclients": snap.Clients, "nidle": snap.IdleListLength, "nunused": snap.UnusedListLength,
		"nbyother": snap.OpenOwnerFilesByOther, "nlbyother": snap.LockOwnerFilesByOther,
		"nbykey": snap.ConfirmationsByKey, "nbyshort": snap.ConfirmationsByShort,
		"confs": confs, "oos": oos, "oofs": oofs, "los": los, "lofs": lofs, "pool": poolEntries,
	}
}

// lockFree probes the program lock. It is only called when no request
// is executing inside the server: every request that was started has
// completed, is held inside a leaf (READ/WRITE/SETATTR/OPEN: the server
// lock is not held there) or waits for the transaction of its open-owner
// (it has left the server for that). So the lock must be free; if it is
// not, a request has returned without releasing it.
func (e *env) lockFree() bool {
	return nfsv4impl.VerifNFS40LockFree(e.prog)
}

// lockHeld ends the history: the server cannot be entered any more (the
// snapshot hook would block as well). Requests held at a gate are let go
// (they will wait for the lock forever); nothing else is sent.
func (e *env) lockHeld(after Req, rep any) {
	e.dead = true
	if after.Op == "" {
		after = blankReq("NONE")
	}
	if rep == nil {
		rep = Rep{Pre: "NONE", St: "NONE"}
	}
	e.tr.Emit(common.Ev{"ev": "lockheld", "after": after, "rep": rep, "leaf": e.alloc.snapshot()})
	for id, p := range e.pending {
		close(p.g.release)
		delete(e.pending, id)
	}
}

// observe logs an event together with the leaf counters and the hook
// snapshot; ev must carry the request it follows as "req". It returns
// false if the history had to be ended because the server lock was left
// held.
func (e *env) observe(ev common.Ev) bool {
	if !e.lockFree() {
		req, _ := ev["req"].(Req)
		e.lockHeld(req, ev["rep"])
		return false
	}
	ev["leaf"] = e.alloc.snapshot()
	ev["hook"] = e.hook()
	e.tr.Emit(ev)
	return true
}

// ---------------------------------------------------------------------------
// The operations the drivers use.

// do executes a request to completion, or until it is held at its gate,
// and logs it. The returned id is > 0 if the request is in flight.
func (e *env) do(r Req) (Rep, int) {
	if e.dead {
		return Rep{Pre: "DEAD", St: "DEAD"}, 0
	}
	if !e.lockFree() {
		e.lockHeld(blankReq("NONE"), Rep{Pre: "NONE", St: "NONE"})
		return Rep{Pre: "DEAD", St: "DEAD"}, 0
	}
	if r.Gate && r.Op == "OPEN" && e.openInFlight() > 0 {
		r.Gate = false // one OPEN in flight at a time
	}
	created := e.alloc.created()
	p, res, state := e.start(r)
	if state == "gate" {
		e.nextIO++
		p.id = e.nextIO
		e.pending[p.id] = p
		e.observe(common.Ev{"ev": "iostart", "id": p.id, "req": r})
		return Rep{Pre: "OK", St: "INFLIGHT"}, p.id
	}
	if state == "parked" {
		e.nextIO++
		p.id = e.nextIO
		e.parked[p.id] = p
		e.observe(common.Ev{"ev": "blocked", "id": p.id, "req": r})
		return Rep{Pre: "OK", St: "PARKED"}, p.id
	}
	if res.panicMsg != "" {
		e.dead = true
		e.tr.Emit(common.Ev{"ev": "panic", "msg": res.panicMsg, "pk": panicKind(res.panicMsg), "stack": res.stack, "req": r, "leaf": e.alloc.snapshot()})
		return Rep{Pre: "PANIC", St: "PANIC"}, 0
	}
	rep := e.reduce(&r, p.npre, created, res.res)
	if !e.observe(common.Ev{"ev": "op", "req": r, "rep": rep}) {
		return Rep{Pre: "DEAD", St: "DEAD"}, 0
	}
	return rep, 0
}

// finish releases an in-flight request and logs its completion.
func (e *env) finish(id int) Rep {
	p, ok := e.pending[id]
	if !ok || e.dead {
		return Rep{Pre: "DEAD", St: "DEAD"}
	}
	delete(e.pending, id)
	created := e.alloc.created()
	close(p.g.release)
	o := <-p.done
	// The requests that waited for this OPEN run now, concurrently with
	// each other and with this goroutine: wait until they are through
	// before anything is observed.
	var outs []parkedOutcome
	if p.req.Op == "OPEN" {
		outs = e.collectParked()
	}
	if o.panicMsg != "" {
		e.dead = true
		e.tr.Emit(common.Ev{"ev": "panic", "msg": o.panicMsg, "pk": panicKind(o.panicMsg), "stack": o.stack, "req": p.req, "leaf": e.alloc.snapshot()})
		return Rep{Pre: "PANIC", St: "PANIC"}
	}
	rep := e.reduce(&p.req, p.npre, created, o.res)
	// One observation for the whole group (the OPEN and the requests
	// that waited for it): "grp" = number of events of the group that
	// follow, "grpn" = size of the group (0 = not part of a group). The
	// observation is that of the state after the whole group; the trace
	// specification judges it at the last event of the group.
	done := 0
	for _, out := range outs {
		if out.got && out.o.panicMsg == "" {
			done++
		}
	}
	grpn := 0
	if done > 0 {
		grpn = done + 1
	}
	if !e.lockFree() {
		e.lockHeld(p.req, rep)
		return rep
	}
	leaf, hook := e.alloc.snapshot(), e.hook()
	e.tr.Emit(common.Ev{"ev": "ioend", "id": id, "req": p.req, "rep": rep, "leaf": leaf, "hook": hook, "grp": done, "grpn": grpn})
	left := done
	for _, out := range outs {
		q := out.p
		if !out.got {
			e.dead = true
			e.tr.Emit(common.Ev{"ev": "hang", "id": q.id, "req": q.req})
			break
		}
		if out.o.panicMsg != "" {
			e.dead = true
			e.tr.Emit(common.Ev{"ev": "panic", "msg": out.o.panicMsg, "pk": panicKind(out.o.panicMsg), "stack": out.o.stack, "req": q.req, "leaf": e.alloc.snapshot()})
			break
		}
		left--
		qrep := e.reduce(&q.req, q.npre, out.created, out.o.res)
		e.tr.Emit(common.Ev{"ev": "op", "req": q.req, "rep": qrep, "leaf": leaf, "hook": hook, "grp": left, "grpn": grpn})
	}
	return rep
}

type parkedOutcome struct {
	p       *pendingOp
	o       opResult
	got     bool
	created int
}

// collectParked waits for the requests that waited for the OPEN that has
// just completed: each must complete now (it is logged like a request
// sent at this moment). One that is still parked on the channel of the
// completed transaction never will. Completed requests come first in the
// result, in the order in which they were sent (at most one of them is
// not a retransmission of the OPEN, so their order does not matter).
func (e *env) collectParked() []parkedOutcome {
	ids := []int{}
	for id := range e.parked {
		ids = append(ids, id)
	}
	sort.Ints(ids)
	outs, hung := []parkedOutcome{}, []parkedOutcome{}
	for _, id := range ids {
		p := e.parked[id]
		delete(e.parked, id)
		out := parkedOutcome{p: p, created: e.alloc.created()}
		still := 0
		deadline := time.Now().Add(120 * time.Second)
		for !out.got {
			select {
			case out.o = <-p.done:
				out.got = true
				continue
			default:
			}
			// Parked although the transaction it waited for is over
			// (seen on several consecutive looks, so that a goroutine
			// that is just being woken is not mistaken for one).
			if parkedGoroutines() >= leakedParked+1 {
				still++
			} else {
				still = 0
			}
			if still >= 50 {
				break
			}
			if time.Now().After(deadline) {
				panic("parked request neither completed nor parked")
			}
			time.Sleep(2 * time.Millisecond)
		}
		if out.got {
			outs = append(outs, out)
		} else {
			leakedParked++
			hung = append(hung, out)
		}
	}
	return append(outs, hung...)
}

func (e *env) tick(d int) {
	if e.dead {
		return
	}
	e.clk.advance(d)
	e.tr.Emit(common.Ev{"ev": "tick", "d": d})
}

// end finishes a history: in-flight I/O completes, all clients vanish,
// the clock moves past the lease (and thereby past the expiry of unused
// open-owners), one more request triggers the cleanup, and the final
// state is logged.
func (e *env) end() {
	ids := []int{}
	for id := range e.pending {
		ids = append(ids, id)
	}
	sort.Ints(ids)
	for _, id := range ids {
		e.finish(id)
	}
	if e.dead {
		return
	}
	e.tr.Emit(common.Ev{"ev": "vanish"})
	e.tick(leaseTicks + 1)
	r := blankReq("RENEW")
	r.Cid = 0
	e.do(r)
	if e.dead {
		return
	}
	e.observe(common.Ev{"ev": "final"})
}

// panicKind tags a panic message with the bookkeeping it complains about
// (lock counts or everything else); the trace specification decides what
// that means.
func panicKind(msg string) string {
	m := strings.ToLower(msg)
	if strings.Contains(m, "lock count") || strings.Contains(m, "release locks") || strings.Contains(m, "acquire lock") {
		return "lock"
	}
	return "state"
}
