// Executor level of property C12: the real localBuildExecutor
// (pkg/builder/local_build_executor.go) on top of the worker's
// Shared(Clean(Root(virtual build directory))) creator chain, with a fake
// runner whose command lasts as long as the harness wants. The action ends
// normally, by an error of the runner, by an error before the command is
// run (input root or command missing from the CAS), by failures of the
// directory operations of the chain, or because the worker cancels it; on
// every path the build directory must have been closed (removed, invoker
// released) when Execute returns.
//
// Events in addition to those of the chain client: ExecEnd {t, code}
// (Execute returned).
package idleinv

import (
	"context"
	"fmt"
	"os"
	"sort"
	"strings"
	"sync"
	"sync/atomic"
	"syscall"
	"time"

	remoteexecution "github.com/bazelbuild/remote-apis/build/bazel/remote/execution/v2"
	"github.com/buildbarn/bb-remote-execution/pkg/builder"
	"github.com/buildbarn/bb-remote-execution/pkg/cas"
	"github.com/buildbarn/bb-remote-execution/pkg/filesystem/pool"
	"github.com/buildbarn/bb-remote-execution/pkg/filesystem/virtual"
	"github.com/buildbarn/bb-remote-execution/pkg/proto/remoteworker"
	runner_pb "github.com/buildbarn/bb-remote-execution/pkg/proto/runner"
	"github.com/buildbarn/bb-storage/pkg/blobstore/buffer"
	"github.com/buildbarn/bb-storage/pkg/blobstore/slicing"
	"github.com/buildbarn/bb-storage/pkg/clock"
	"github.com/buildbarn/bb-storage/pkg/digest"
	"github.com/buildbarn/bb-storage/pkg/filesystem/path"
	"github.com/buildbarn/bb-storage/pkg/random"
	"github.com/buildbarn/bb-storage/pkg/util"

	"google.golang.org/grpc"
	"google.golang.org/grpc/codes"
	"google.golang.org/grpc/status"
	"google.golang.org/protobuf/proto"
	"google.golang.org/protobuf/types/known/durationpb"
	"google.golang.org/protobuf/types/known/emptypb"

	"verif/harness/common"
)

// memCAS is a plain in-memory Content Addressable Storage.
type memCAS struct {
	mu    sync.Mutex
	blobs map[string][]byte
}

func (c *memCAS) digestOf(df digest.Function, data []byte) digest.Digest {
	g := df.NewGenerator(int64(len(data)))
	g.Write(data)
	return g.Sum()
}

func (c *memCAS) put(df digest.Function, data []byte) digest.Digest {
	d := c.digestOf(df, data)
	c.mu.Lock()
	c.blobs[d.GetKey(digest.KeyWithoutInstance)] = data
	c.mu.Unlock()
	return d
}

func (c *memCAS) Get(ctx context.Context, d digest.Digest) buffer.Buffer {
	c.mu.Lock()
	defer c.mu.Unlock()
	if b, ok := c.blobs[d.GetKey(digest.KeyWithoutInstance)]; ok {
		return buffer.NewValidatedBufferFromByteSlice(append([]byte(nil), b...))
	}
	return buffer.NewBufferFromError(status.Errorf(codes.NotFound, "blob %s not found", d))
}

func (c *memCAS) GetFromComposite(ctx context.Context, parent, child digest.Digest, slicer slicing.BlobSlicer) buffer.Buffer {
	return buffer.NewBufferFromError(status.Error(codes.Unimplemented, "GetFromComposite"))
}

func (c *memCAS) Put(ctx context.Context, d digest.Digest, b buffer.Buffer) error {
	data, err := b.ToByteSlice(1 << 20)
	if err != nil {
		return err
	}
	c.mu.Lock()
	c.blobs[d.GetKey(digest.KeyWithoutInstance)] = data
	c.mu.Unlock()
	return nil
}

func (c *memCAS) FindMissing(ctx context.Context, digests digest.Set) (digest.Set, error) {
	return digest.EmptySet, nil
}

func (c *memCAS) GetCapabilities(ctx context.Context, instanceName digest.InstanceName) (*remoteexecution.ServerCapabilities, error) {
	return &remoteexecution.ServerCapabilities{CacheCapabilities: &remoteexecution.CacheCapabilities{}}, nil
}

type memBlockDevice struct {
	mu   sync.Mutex
	data []byte
}

func (d *memBlockDevice) ReadAt(p []byte, off int64) (int, error) {
	d.mu.Lock()
	defer d.mu.Unlock()
	if off < 0 || off+int64(len(p)) > int64(len(d.data)) {
		return 0, syscall.EIO
	}
	return copy(p, d.data[off:]), nil
}

func (d *memBlockDevice) WriteAt(p []byte, off int64) (int, error) {
	d.mu.Lock()
	defer d.mu.Unlock()
	if off < 0 || off+int64(len(p)) > int64(len(d.data)) {
		return 0, syscall.ENOSPC
	}
	return copy(d.data[off:], p), nil
}

func (d *memBlockDevice) Sync() error  { return nil }
func (d *memBlockDevice) Close() error { return nil }

// execClient: every thread is a worker thread that executes actions with
// the real executor; the creator chain, the in-memory directory, the
// IdleInvoker and the name counter are those of chainClient.
type execClient struct {
	e        *engine
	rootPD   virtual.PrepopulatedDirectory
	chains   []builder.BuildDirectoryCreator
	wraps    []*wrapDir
	held     [][]virtual.PrepopulatedDirectory
	names    []string
	gates    []chan string
	executor builder.BuildExecutor
	filePool pool.FilePool
	df       digest.Function
	store    *memCAS
	command  digest.Digest
	root     digest.Digest
	missing  digest.Digest
}

func newExecClient(e *engine, rng func(int) int) *execClient {
	handleAllocator := virtual.NewFUSEHandleAllocator(random.FastThreadSafeGenerator)
	defaultAttributesSetter := func(requested virtual.AttributesMask, attributes *virtual.Attributes) {}
	symlinkFactory := virtual.NewBaseSymlinkFactory(defaultAttributesSetter)
	rootPD := virtual.NewInMemoryPrepopulatedDirectory(
		virtual.NewHandleAllocatingFileAllocator(
			virtual.NewPoolBackedFileAllocator(pool.EmptyFilePool, util.DefaultErrorLogger, defaultAttributesSetter, virtual.NoNamedAttributesFactory),
			handleAllocator),
		symlinkFactory,
		util.DefaultErrorLogger,
		handleAllocator,
		sort.Sort,
		func(s string) bool { return false },
		clock.SystemClock,
		virtual.CaseSensitiveComponentNormalizer,
		defaultAttributesSetter,
		virtual.NoNamedAttributesFactory,
	)
	characterDeviceFactory := virtual.NewHandleAllocatingCharacterDeviceFactory(virtual.BaseCharacterDeviceFactory, handleAllocator.New())
	c := &execClient{
		e: e, rootPD: rootPD,
		chains: make([]builder.BuildDirectoryCreator, e.n), wraps: make([]*wrapDir, e.n),
		held: make([][]virtual.PrepopulatedDirectory, e.n), names: make([]string, e.n),
		gates: make([]chan string, e.n),
		df:    digest.MustNewFunction("verif", remoteexecution.DigestFunction_SHA256),
		store: &memCAS{blobs: map[string][]byte{}},
	}
	commandData, _ := proto.Marshal(&remoteexecution.Command{Arguments: []string{"true"}})
	rootData, _ := proto.Marshal(&remoteexecution.Directory{})
	c.command = c.store.put(c.df, commandData)
	c.root = c.store.put(c.df, rootData)
	c.missing = c.store.digestOf(c.df, []byte("verif: not in the CAS"))
	directoryFetcher := cas.NewBlobAccessDirectoryFetcher(c.store, 1<<20, 1<<20)
	var nextParallelActionID atomic.Uint64
	for tid := 0; tid < e.n; tid++ {
		c.gates[tid] = make(chan string, 1)
		vbd := builder.NewVirtualBuildDirectory(rootPD, directoryFetcher, c.store, symlinkFactory, characterDeviceFactory, handleAllocator, defaultAttributesSetter, clock.SystemClock)
		w := &wrapDir{BuildDirectory: vbd, e: e, tid: tid}
		c.wraps[tid] = w
		c.chains[tid] = builder.NewSharedBuildDirectoryCreator(
			builder.NewCleanBuildDirectoryCreator(builder.NewRootBuildDirectoryCreator(w), e.inv),
			&nextParallelActionID)
	}
	const sectorSize, sectorCount = 32, 1024
	c.filePool = pool.NewBlockDeviceBackedFilePool(
		&memBlockDevice{data: make([]byte, sectorSize*sectorCount)},
		pool.NewBitmapSectorAllocator(sectorCount), sectorSize)
	c.executor = builder.NewLocalBuildExecutor(
		c.store,
		loggingCreator{c},
		execRunner{c},
		clock.SystemClock,
		/* maximumWritableFileUploadDelay = */ time.Hour,
		/* inputRootCharacterDevices = */ nil,
		/* maximumMessageSizeBytes = */ 1<<20,
		/* environmentVariables = */ map[string]string{},
		/* forceUploadTreesAndDirectories = */ false,
	)
	e.rootList = func() []string { return listNames(rootPD) }
	e.realClean = func() error { return rootPD.RemoveAllChildren(false) }
	return c
}

func (c *execClient) digestName(o opts) string {
	if o.digest == 0 {
		return ""
	}
	return digestOf(o.digest).GetHashString()[:16]
}

// loggingCreator is what the executor is given as its build directory
// creator: the chain of the calling thread, with the events the chain
// client logs around GetBuildDirectory and Close.
type loggingCreator struct{ c *execClient }

func (lc loggingCreator) GetBuildDirectory(ctx context.Context, dg *digest.Digest) (builder.BuildDirectory, *path.Trace, error) {
	c := lc.c
	e := c.e
	tid := e.tidHere()
	if tid < 0 {
		panic("verif: build directory requested from unknown goroutine")
	}
	w := c.wraps[tid]
	d, p, err := c.chains[tid].GetBuildDirectory(ctx, dg)
	w.fault = ""
	if err != nil {
		if w.acquired {
			e.relStartIfNot(tid)
			e.relEnd(tid, "any")
		} else {
			e.acqEnd(tid, classifyAcq(err))
		}
		e.tr.Emit(common.Ev{"ev": "GetEnd", "t": tn(tid), "res": "fail", "name": "", "entries": []string{}, "root": e.rootList(), "err": err.Error()})
		return nil, nil, err
	}
	name := p.GetUNIXString()
	if i := strings.LastIndexByte(name, '/'); i >= 0 {
		name = name[i+1:]
	}
	c.names[tid] = name
	e.tr.Emit(common.Ev{"ev": "GetEnd", "t": tn(tid), "res": "ok", "name": name, "entries": listNames(d), "root": e.rootList(), "err": ""})
	c.held[tid] = nil
	if child, err := c.rootPD.LookupChild(path.MustNewComponent(name)); err == nil {
		if pd, _ := child.GetPair(); pd != nil {
			c.held[tid] = append(c.held[tid], pd)
		}
	}
	return &execDir{BuildDirectory: d, c: c, tid: tid}, p, nil
}

type execDir struct {
	builder.BuildDirectory
	c   *execClient
	tid int
}

func (d *execDir) Close() error {
	c, e, tid := d.c, d.c.e, d.tid
	w := c.wraps[tid]
	e.tr.Emit(common.Ev{"ev": "CloseStart", "t": tn(tid), "fault": w.fault})
	err := d.BuildDirectory.Close()
	w.fault = ""
	e.relStartIfNot(tid)
	e.relEnd(tid, "any")
	detached := 0
	for _, pd := range c.held[tid] {
		detached += len(listNames(pd))
	}
	e.tr.Emit(common.Ev{"ev": "CloseEnd", "t": tn(tid), "res": resOf(err), "root": e.rootList(), "detached": detached})
	return err
}

// execRunner stands for bb_runner.
type execRunner struct{ c *execClient }

func (r execRunner) CheckReadiness(ctx context.Context, in *runner_pb.CheckReadinessRequest, opts ...grpc.CallOption) (*emptypb.Empty, error) {
	return &emptypb.Empty{}, nil
}

func (r execRunner) Run(ctx context.Context, in *runner_pb.RunRequest, opts ...grpc.CallOption) (*runner_pb.RunResponse, error) {
	c := r.c
	e := c.e
	tid := e.tidHere()
	if tid < 0 {
		panic("verif: runner called from unknown goroutine")
	}
	// The command creates its output streams and a few files, and the
	// harness keeps hold of the directories the executor made.
	created := 0
	if len(c.held[tid]) > 0 {
		ad := c.held[tid][0]
		for _, n := range []string{in.StdoutPath, in.StderrPath} {
			if i := strings.LastIndexByte(n, '/'); i >= 0 {
				n = n[i+1:]
			}
			var out virtual.Attributes
			leaf, _, _, s := ad.VirtualOpenChild(context.Background(), path.MustNewComponent(n), virtual.ShareMaskWrite,
				(&virtual.Attributes{}).SetPermissions(virtual.PermissionsRead|virtual.PermissionsWrite), &virtual.OpenExistingOptions{}, 0, &out)
			if s == virtual.StatusOK {
				leaf.VirtualWrite(context.Background(), []byte("out"), 0)
				leaf.VirtualClose(virtual.ShareMaskWrite)
				created++
			}
		}
		for _, sub := range []string{"root", "tmp"} {
			if child, err := ad.LookupChild(path.MustNewComponent(sub)); err == nil {
				if pd, _ := child.GetPair(); pd != nil {
					c.held[tid] = append(c.held[tid], pd)
					var in, out virtual.Attributes
					if _, _, s := pd.VirtualMkdir(context.Background(), path.MustNewComponent("made-by-command"), &in, 0, &out); s == virtual.StatusOK {
						created++
					}
				}
			}
		}
		e.tr.Emit(common.Ev{"ev": "Populate", "t": tn(tid), "n": created, "entries": listNames(ad)})
	}
	select {
	case how := <-c.gates[tid]:
		if how == "runerr" {
			return nil, errBase
		}
		return &runner_pb.RunResponse{}, nil
	case <-ctx.Done():
		return nil, util.StatusFromContext(ctx)
	}
}

func (c *execClient) start(e *engine, tid int, ctx context.Context, o opts) {
	w := c.wraps[tid]
	w.acquired, w.fault = false, ""
	switch o.fault {
	case "mkdir", "enter", "enter+remove":
		w.fault = o.fault
	}
	select { // a stale token of an earlier action
	case <-c.gates[tid]:
	default:
	}
	action := &remoteexecution.Action{
		CommandDigest:   c.command.GetProto(),
		InputRootDigest: c.root.GetProto(),
		Timeout:         durationpb.New(time.Hour),
		DoNotCache:      o.digest == 0,
	}
	switch o.fault {
	case "merge":
		action.InputRootDigest = c.missing.GetProto()
	case "command":
		action.CommandDigest = c.missing.GetProto()
	}
	// The name of a digest-named build directory is derived from the
	// digest the scheduler sent, which the executor does not recompute.
	actionDigest := digestOf(1 + o.digest)
	if o.digest != 0 {
		actionDigest = digestOf(o.digest)
	}
	updates := make(chan *remoteworker.CurrentState_Executing, 16)
	resp := c.executor.Execute(ctx, c.filePool, nil, c.df, &remoteworker.DesiredState_Executing{
		ActionDigest: actionDigest.GetProto(),
		Action:       action,
	}, updates)
	e.tr.Emit(common.Ev{"ev": "ExecEnd", "t": tn(tid), "code": codes.Code(resp.GetStatus().GetCode()).String(), "fault": o.fault})
	if e.getStatus(tid) != stIdle {
		// Execute returned while the thread still holds the invoker: the
		// rest of the schedule makes no sense.
		e.mu.Lock()
		e.broken = true
		e.mu.Unlock()
	}
}

// finish: the command ends (ok / with an error) or the worker cancels the
// action; o.fault is what goes wrong while the build directory is closed.
func (c *execClient) finish(e *engine, tid int, o opts) {
	c.wraps[tid].fault = o.fault
	switch o.variant {
	case 0:
		c.gates[tid] <- "ok"
	case 1:
		c.gates[tid] <- "runerr"
	default:
		e.mu.Lock()
		cancel := e.cancels[tid]
		e.mu.Unlock()
		cancel()
	}
}

func init() {
	modes["exec"] = mode{"exec", func(e *engine, rng func(int) int) client { return newExecClient(e, rng) }, func(a *action, rng func(int) int) {
		if a.kind == "acq" {
			if rng(2) == 0 {
				a.o.digest = 1 + rng(3)
			}
			switch rng(14) {
			case 0:
				a.o.fault = "mkdir"
			case 1:
				a.o.fault = "enter"
			case 2:
				a.o.fault = "enter+remove"
			case 3, 4:
				a.o.fault = "merge"
			case 5:
				a.o.fault = "command"
			}
		}
		if a.kind == "rel" {
			a.o.variant = rng(3)
			switch rng(10) {
			case 0:
				a.o.fault = "removeall"
			case 1:
				a.o.fault = "childclose"
			}
		}
	}}
}

var _ = fmt.Sprint
var _ = os.ModeDir
