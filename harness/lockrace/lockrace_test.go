// Package lockrace exercises OpenedFile.Lock/UnlockAll (the path all
// NFSv4.0/4.1 LOCK operations of different clients funnel into) with real
// parallelism and records when each owner held which range. The trace is
// judged by specs/LockRaceTrace.tla (property C20: two different owners
// never both hold a common byte unless both locks are shared).
//
// Soundness of the observation: "granted" is logged after Lock() returned
// and "releasing" before UnlockAll() is called, both through one mutex
// protected trace writer; if the log shows owner B granted between A's
// "granted" and A's "releasing", both really held their locks at once.
package lockrace

import (
	"fmt"
	"io"
	"runtime"
	"sync"
	"sync/atomic"
	"testing"

	"github.com/buildbarn/bb-remote-execution/pkg/filesystem/virtual"
	nfsv4server "github.com/buildbarn/bb-remote-execution/pkg/filesystem/virtual/nfsv4"
	"github.com/buildbarn/go-xdr/pkg/protocols/nfsv4"

	"verif/harness/common"
)

type range3 struct{ off, length uint64 }

func TestRace(t *testing.T) {
	rounds := common.EnvInt("VERIF_N", 400)
	nOwners := 8
	if runtime.GOMAXPROCS(0) < 2 {
		t.Skip("needs real parallelism")
	}
	tr := common.NewTrace("trace.ndjson")
	defer tr.Close()
	pool := nfsv4server.NewOpenedFilesPool(func(r io.ByteReader) (virtual.DirectoryChild, virtual.Status) {
		return virtual.DirectoryChild{}, virtual.StatusErrStale
	})
	ranges := []range3{{0, 10}, {5, 10}, {0, 1 << 63}, {9, 1}, {10, ^uint64(0)}}
	for trace := 0; trace < 4; trace++ {
		rng := common.Rand(int64(trace))
		tr.Emit(common.Ev{"ev": "reset", "trace": trace})
		of := pool.Open(nfsv4.NfsFh4(fmt.Sprintf("fh%d", trace)), nil)
		owners := make([]*nfsv4.LockOwner4, nOwners)
		for i := range owners {
			owners[i] = &nfsv4.LockOwner4{Clientid: uint64(i + 1), Owner: []byte(fmt.Sprintf("owner%d", i))}
		}
		for r := 0; r < rounds/4; r++ {
			// choices of this round, made up front so that they are seeded
			type choice struct {
				rg     range3
				shared bool
				spin   int
			}
			ch := make([]choice, nOwners)
			for i := range ch {
				ch[i] = choice{ranges[rng.Intn(len(ranges))], rng.Intn(3) == 0, rng.Intn(200)}
			}
			var ready int32
			var wg sync.WaitGroup
			for i := 0; i < nOwners; i++ {
				wg.Add(1)
				go func(i int) {
					defer wg.Done()
					c := ch[i]
					lt := nfsv4.WRITE_LT
					ty := "X"
					if c.shared {
						lt, ty = nfsv4.READ_LT, "S"
					}
					// spin barrier: all owners ask at the same moment
					atomic.AddInt32(&ready, 1)
					for atomic.LoadInt32(&ready) < int32(nOwners) {
					}
					_, res := of.Lock(owners[i], c.rg.off, c.rg.length, lt)
					if res != nil {
						tr.Emit(common.Ev{"ev": "denied", "o": i, "off": rangeIndex(c.rg, ranges), "t": ty})
						return
					}
					tr.Emit(common.Ev{"ev": "granted", "o": i, "off": rangeIndex(c.rg, ranges), "t": ty})
					for k := 0; k < c.spin; k++ {
						runtime.Gosched()
					}
					tr.Emit(common.Ev{"ev": "releasing", "o": i})
					of.UnlockAll(owners[i])
				}(i)
			}
			wg.Wait()
		}
		of.Close()
	}
}

func rangeIndex(r range3, all []range3) int {
	for i, x := range all {
		if x == r {
			return i
		}
	}
	return -1
}
