package sched

import (
	"fmt"
	"math/rand"
	"os"
	"testing"
	"testing/synctest"
	"time"

	"verif/harness/common"
)

// rndScript answers the analyzer's questions at random (seeded).
type rndScript struct {
	rng        *rand.Rand
	background bool // may ask for background learning
	retry      bool // may ask for retries on the largest size class
}

func (s *rndScript) selectClass(sizeClasses []uint32, actionTimeout int) (int, int, int) {
	idx := s.rng.Intn(len(sizeClasses))
	return idx, 1 + s.rng.Intn(3), 10 + 10*s.rng.Intn(3)
}

func (s *rndScript) succeeded(sizeClasses []uint32) (bool, int, int, int) {
	if s.background && s.rng.Intn(3) == 0 {
		return true, s.rng.Intn(len(sizeClasses)), 1 + s.rng.Intn(3), 20
	}
	return false, 0, 0, 0
}

func (s *rndScript) failed(isLargest bool) (bool, int, int) {
	if s.retry && s.rng.Intn(3) != 0 {
		return true, 2, 50
	}
	return false, 0, 0
}

// scenario is the static part of one trace.
type scenario struct {
	w        *World
	rng      *rand.Rand
	workers  []*WorkerDef
	clients  []string
	invs     [][]string
	prios    []int
	insts    []string
	seenOps  []string // operation labels seen in messages
	tokenSeq int
	dups     int // duplicate Synchronize calls started so far
	kinds    string
	// size classes of the predeclared queue (flavour 1)
	predeclared []uint32
	// expireStep is how far the clock is moved in each round of the final
	// phase of drain() (must exceed every configured time-out).
	expireStep int
}

func pick[T any](rng *rand.Rand, s []T) T { return s[rng.Intn(len(s))] }

// setup builds a world according to the flavour of the trace.
func setup(tr *common.Trace, rng *rand.Rand, flavour int) *scenario {
	cfg := DefaultConfig
	cfg.RetryCount = rng.Intn(3)
	script := &rndScript{rng: rand.New(rand.NewSource(rng.Int63()))}
	sc := &scenario{rng: rng}
	var w *World
	nWorkers := 1 + rng.Intn(3)
	switch flavour {
	case 0: // one worker-created queue
		w = NewWorld(tr, cfg, script)
		for i := 0; i < nWorkers; i++ {
			sc.workers = append(sc.workers, &WorkerDef{Label: fmt.Sprintf("w%d", i+1), ID: map[string]string{"host": fmt.Sprintf("h%d", i+1), "rack": fmt.Sprintf("r%d", i%2)}, Prefix: "", Platform: "p1", SizeClass: 0})
		}
		if rng.Intn(3) == 0 {
			sc.workers = append(sc.workers, &WorkerDef{Label: "w9", ID: map[string]string{"host": "h9", "rack": "r1"}, Prefix: "", Platform: "p1", SizeClass: 3})
		}
		sc.insts = []string{""}
		sc.kinds = "core"
	case 1: // predeclared queue with two size classes, learning
		w = NewWorld(tr, cfg, script)
		script.background = rng.Intn(2) == 0
		script.retry = true
		sc.kinds = "sizeclass"
		sc.insts = []string{""}
		sc.predeclared = [][]uint32{{1, 2}, {1, 4}, {1, 2}}[rng.Intn(3)]
		for i := 0; i < nWorkers+1; i++ {
			cls := sc.predeclared[i%2]
			if rng.Intn(4) == 0 {
				// a size class that is not predeclared: may be added by the
				// worker (between the declared ones) or must be rejected
				cls = uint32(rng.Intn(6))
			}
			sc.workers = append(sc.workers, &WorkerDef{Label: fmt.Sprintf("w%d", i+1), ID: map[string]string{"host": fmt.Sprintf("h%d", i+1), "rack": fmt.Sprintf("r%d", i%2)}, Prefix: "", Platform: "p1", SizeClass: cls})
		}
	default: // several prefixes and platforms
		w = NewWorld(tr, cfg, script)
		sc.kinds = "routing"
		sc.insts = []string{"", "x", "x/y", "z"}
		combos := []struct {
			prefix, plat string
		}{{"", "p1"}, {"x", "p1"}, {"x", "p2"}, {"x/y", "p1"}}
		for i := 0; i < nWorkers+1; i++ {
			c := combos[rng.Intn(len(combos))]
			sc.workers = append(sc.workers, &WorkerDef{Label: fmt.Sprintf("w%d", i+1), ID: map[string]string{"host": fmt.Sprintf("h%d", i+1), "rack": fmt.Sprintf("r%d", i%2)}, Prefix: c.prefix, Platform: c.plat, SizeClass: 0})
		}
	}
	sc.w = w
	for _, d := range sc.workers {
		w.RegisterWorkerLabel(d)
	}
	w.AddAction("d1", "p1", false)
	w.AddAction("d2", "p1", false)
	w.AddAction("d3", "p1", true)
	w.AddAction("d4", "p2", false)
	sc.clients = []string{"c1", "c2", "c3"}
	sc.invs = [][]string{{"a", "t1"}, {"a", "t2"}, {"b", "t3"}}
	sc.prios = []int{0, 0, 0, 100, -100}
	return sc
}

func (sc *scenario) actorsIn(state string) []*Actor {
	var out []*Actor
	for _, a := range sc.w.actors {
		if sc.w.stateOf(a) == state {
			out = append(out, a)
		}
	}
	return out
}

func (sc *scenario) parked() []*Actor {
	var out []*Actor
	for _, a := range sc.w.actors {
		if sc.w.stateOf(a) == "running" && !a.done {
			out = append(out, a)
		}
	}
	return out
}

// noteOps remembers operation names that appeared in snapshots, so that
// WaitExecution and KillOperations can refer to them.
func (sc *scenario) noteOps() {
	if s := sc.w.last; s != nil {
		sc.seenOps = sc.seenOps[:0]
		for _, o := range s.Operations {
			sc.seenOps = append(sc.seenOps, opLabel(o.Name))
		}
	}
}

func (sc *scenario) syncArgs(d *WorkerDef) SyncArgs {
	rng := sc.rng
	w := sc.w
	if d.Executing == "" {
		if rng.Intn(12) == 0 {
			// claims to execute something it was never given
			return SyncArgs{State: "executing", Digest: pick(rng, w.actions)}
		}
		return SyncArgs{State: "idle", PreferIdle: rng.Intn(10) == 0}
	}
	var cur *actionDef
	for _, a := range w.actions {
		if a.label == d.Executing {
			cur = a
		}
	}
	r := rng.Intn(100)
	switch {
	case r < 30:
		return SyncArgs{State: "executing", Digest: cur, PreferIdle: rng.Intn(15) == 0}
	case r < 82:
		sc.tokenSeq++
		a := SyncArgs{State: "completed", Digest: cur, Token: fmt.Sprintf("r%d", sc.tokenSeq), Duration: 1 + rng.Intn(3), PreferIdle: rng.Intn(15) == 0}
		switch rng.Intn(6) {
		case 0:
			a.ExitCode = 1
		case 1:
			a.Code = 4 // DEADLINE_EXCEEDED
		case 2:
			a.Code = 13 // INTERNAL
		}
		return a
	case r < 90:
		return SyncArgs{State: "idle"} // worker restarted and lost its task
	case r < 95:
		return SyncArgs{State: "executing", Digest: pick(rng, w.actions)}
	default:
		sc.tokenSeq++
		return SyncArgs{State: "completed", Digest: pick(rng, w.actions), Token: fmt.Sprintf("r%d", sc.tokenSeq), Duration: 1}
	}
}

// step performs one random move. It returns false if nothing could be done.
func (sc *scenario) step(allowNew bool) bool {
	rng, w := sc.rng, sc.w
	sc.noteOps()
	if len(sc.actorsIn("gate")) == 0 && len(sc.actorsIn("send")) == 0 && len(sc.actorsIn("auth")) == 0 && len(w.DueTimers()) == 0 && rng.Intn(3) == 0 {
		w.Quiescent(sc.parked())
		if rng.Intn(3) == 0 {
			w.Listing()
		}
	}
	type move struct {
		weight int
		f      func()
	}
	var moves []move
	add := func(weight int, f func()) { moves = append(moves, move{weight, f}) }

	for _, a := range sc.actorsIn("gate") {
		a := a
		add(30, func() { w.Release(a) })
	}
	for _, a := range sc.actorsIn("auth") {
		a := a
		add(12, func() { w.ReleaseAuth(a) })
	}
	for _, a := range sc.actorsIn("send") {
		a := a
		add(25, func() { w.ReleaseSend(a, nil) })
		add(1, func() { w.ReleaseSend(a, fmt.Errorf("connection reset")) })
	}
	for _, a := range sc.parked() {
		a := a
		if !a.cancelled {
			weight := 2
			if a.kind == "sync" {
				weight = 1
			}
			add(weight, func() { w.Cancel(a) })
		}
	}
	for _, t := range w.DueTimers() {
		t := t
		add(15, func() { w.Fire(t) })
	}
	if n := w.NextTimerDue(); n > 0 {
		add(6, func() { w.Advance(n) })
	}
	add(3, func() { w.Advance(1 + rng.Intn(4)) })
	if s := w.last; s != nil && len(s.CleanupHeap) > 0 {
		// jump to the next cleanup instant
		next := s.CleanupHeap[0] - (ticks0 + ticks(w.clockNow()))
		if next > 0 && next < 100 {
			add(4, func() { w.Advance(int(next)) })
		}
	}
	if allowNew {
		add(14, func() {
			var cands []*actionDef
			for _, a := range w.actions {
				if sc.kinds == "routing" || a.platform == "p1" {
					cands = append(cands, a)
				}
			}
			w.StartExecute(pick(rng, sc.clients), pick(rng, cands), pick(rng, sc.insts), pick(rng, sc.invs), pick(rng, sc.prios))
		})
		if len(sc.seenOps) > 0 {
			add(4, func() { w.StartWaitExecution(pick(rng, sc.clients), pick(rng, sc.seenOps)) })
			add(2, func() { w.KillOperation(pick(rng, sc.seenOps), pick(rng, []int{8, 10, 9})) })
		}
		add(1, func() { w.StartWaitExecution(pick(rng, sc.clients), "o99") })
		d := pick(rng, sc.workers)
		add(2, func() { w.Drain(true, d.Prefix, d.Platform, d.SizeClass, pick(rng, []map[string]string{{}, {"host": d.ID["host"]}, {"rack": "r0"}})) })
		add(2, func() { w.Drain(false, d.Prefix, d.Platform, d.SizeClass, pick(rng, []map[string]string{{}, {"host": d.ID["host"]}, {"rack": "r0"}})) })
		add(1, func() { w.Terminate(pick(rng, []map[string]string{{"host": d.ID["host"]}, {"rack": "r1"}})) })
		add(1, func() { w.KillQueue(d.Prefix, d.Platform, d.SizeClass, 14) })
	}
	for _, d := range sc.workers {
		d := d
		if d.call == nil {
			weight := 0
			if allowNew {
				weight = 10
			} else if d.Executing != "" {
				weight = 10
			}
			if weight > 0 {
				add(weight, func() { w.StartSynchronize(d, sc.syncArgs(d)) })
			}
		} else if allowNew && sc.dups < 3 {
			// the same worker synchronizing twice at once (a retried RPC)
			add(1, func() { sc.dups++; w.StartSynchronize(d, sc.syncArgs(d)) })
		}
	}
	total := 0
	for _, m := range moves {
		total += m.weight
	}
	if total == 0 {
		return false
	}
	r := rng.Intn(total)
	for _, m := range moves {
		if r < m.weight {
			m.f()
			return true
		}
		r -= m.weight
	}
	return false
}

// settle releases gates and sends until every actor is parked or done.
// bail ends the driver process when the real code has panicked: the trace
// (which ends with the panic event) is the result, and other goroutines may
// be stuck behind a lock the panicking one still holds.
func (sc *scenario) bail() {
	if sc.w.Panicked() {
		sc.w.tr.Close()
		os.Exit(0)
	}
}

func (sc *scenario) settle() {
	for i := 0; i < 10000; i++ {
		sc.bail()
		if g := sc.actorsIn("gate"); len(g) > 0 {
			sc.w.Release(pick(sc.rng, g))
			continue
		}
		if s := sc.actorsIn("send"); len(s) > 0 {
			sc.w.ReleaseSend(pick(sc.rng, s), nil)
			continue
		}
		if s := sc.actorsIn("auth"); len(s) > 0 {
			sc.w.ReleaseAuth(pick(sc.rng, s))
			continue
		}
		return
	}
	panic("settle did not converge")
}

// drain ends the trace: workers finish or report what they have, clients
// read to the end, then everybody leaves and all timeouts pass.
func (sc *scenario) drain() {
	w := sc.w
	sc.bail()
	w.tr.Emit(common.Ev{"ev": "phase", "phase": "drain"})
	// 1. let workers complete what they believe they are executing
	for round := 0; round < 12; round++ {
		sc.settle()
		busy := false
		for _, d := range sc.workers {
			if d.call == nil {
				if d.Executing != "" {
					var cur *actionDef
					for _, a := range w.actions {
						if a.label == d.Executing {
							cur = a
						}
					}
					sc.tokenSeq++
					w.StartSynchronize(d, SyncArgs{State: "completed", Digest: cur, Token: fmt.Sprintf("r%d", sc.tokenSeq), Duration: 1})
					busy = true
				} else if round < 6 {
					w.StartSynchronize(d, SyncArgs{State: "idle"})
					busy = true
				}
				sc.settle()
			}
		}
		if !busy {
			break
		}
	}
	sc.settle()
	for _, t := range w.DueTimers() {
		w.Fire(t)
		sc.settle()
	}
	if len(w.DueTimers()) == 0 {
		w.Quiescent(sc.parked())
	}
	// 2. everybody who is still blocked goes away
	w.tr.Emit(common.Ev{"ev": "phase", "phase": "leave"})
	for _, a := range sc.parked() {
		w.Cancel(a)
		sc.settle()
	}
	sc.settle()
	// 3. all timeouts pass
	w.tr.Emit(common.Ev{"ev": "phase", "phase": "expire"})
	step := 40
	if sc.expireStep > 0 {
		step = sc.expireStep
	}
	for i := 0; i < 6; i++ {
		w.Advance(step)
		for _, t := range w.DueTimers() {
			w.Fire(t)
		}
		sc.settle()
		w.Poke()
		sc.settle()
	}
	left := 0
	for _, a := range w.actors {
		if !a.done {
			left++
		}
	}
	sc.bail()
	lockFree := w.bq.VerifLockIsFree()
	w.tr.Emit(common.Ev{"ev": "final", "actors_left": left, "lock_free": lockFree})
}

func runTrace(t *testing.T, tr *common.Trace, idx int, steps int) {
	synctest.Test(t, func(t *testing.T) {
		rng := common.Rand(int64(idx))
		flavour := idx % 3
		tr.Emit(common.Ev{"ev": "reset", "trace": idx, "flavour": flavour})
		sc := setup(tr, rng, flavour)
		cfg := sc.w.cfg
		tr.Emit(common.Ev{"ev": "config", "update": int(cfg.ExecutionUpdateInterval / Unit), "no_waiter": int(cfg.OperationWithNoWaitersTimeout / Unit),
			"queue": int(cfg.PlatformQueueWithNoWorkersTimeout / Unit), "busy": int(cfg.BusyWorkerSynchronizationInterval / Unit),
			"idle": int(cfg.GetIdleWorkerSynchronizationInterval() / Unit), "retry": cfg.WorkerTaskRetryCount, "worker": int(cfg.WorkerWithNoSynchronizationsTimeout / Unit)})
		if flavour == 1 {
			limits := [][]int{{}, {4}, {4, 2}}[rng.Intn(3)]
			maxBG := rng.Intn(2)
			sc.w.Predeclare("", "p1", limits, maxBG, 50, sc.predeclared)
		}
		for i := 0; i < steps; i++ {
			if sc.w.Panicked() || !sc.step(true) {
				break
			}
		}
		sc.drain()
	})
}

func TestRandom(t *testing.T) {
	n := common.EnvInt("VERIF_N", 20)
	steps := common.EnvInt("VERIF_STEPS", 60)
	first := common.EnvInt("VERIF_FIRST", 0)
	tr := common.NewTrace("trace.ndjson")
	defer tr.Close()
	stallWatchdog(tr)
	for i := first; i < first+n; i++ {
		runTrace(t, tr, i, steps)
	}
}

// TestFairness: queue-order histories. Requests pile up while no worker
// asks for work, then workers take tasks one at a time (with stickiness
// windows, priorities, nested invocations, completions in between), so
// that almost every Synchronize is a choice among several candidates.
func TestFairness(t *testing.T) {
	n := common.EnvInt("VERIF_N", 20)
	tr := common.NewTrace("trace.ndjson")
	defer tr.Close()
	stallWatchdog(tr)
	for i := 0; i < n; i++ {
		idx := 5000 + i
		synctest.Test(t, func(t *testing.T) {
			rng := common.Rand(int64(idx))
			tr.Emit(common.Ev{"ev": "reset", "trace": idx, "flavour": 4})
			script := &rndScript{rng: rand.New(rand.NewSource(rng.Int63()))}
			w := NewWorld(tr, DefaultConfig, script)
			sc := &scenario{w: w, rng: rng, kinds: "fair", insts: []string{""}}
			cfg := w.cfg
			tr.Emit(common.Ev{"ev": "config", "update": int(cfg.ExecutionUpdateInterval / Unit), "no_waiter": int(cfg.OperationWithNoWaitersTimeout / Unit),
				"queue": int(cfg.PlatformQueueWithNoWorkersTimeout / Unit), "busy": int(cfg.BusyWorkerSynchronizationInterval / Unit),
				"idle": int(cfg.GetIdleWorkerSynchronizationInterval() / Unit), "retry": cfg.WorkerTaskRetryCount, "worker": int(cfg.WorkerWithNoSynchronizationsTimeout / Unit)})
			limits := [][]int{{}, {3}, {3, 2}, {6, 1}}[rng.Intn(4)]
			w.Predeclare("", "p1", limits, 0, 50, []uint32{1})
			for k := 1; k <= 6; k++ {
				w.AddAction(fmt.Sprintf("d%d", k), "p1", k%3 == 0)
			}
			nw := 1 + rng.Intn(3)
			for k := 0; k < nw; k++ {
				sc.worker(fmt.Sprintf("w%d", k+1), fmt.Sprintf("h%d", k+1), "", "p1", 1)
			}
			invs := [][]string{{"a", "t1"}, {"a", "t2"}, {"b", "t3"}, {"b", "t4"}, {"c", "t5"}}
			prios := []int{0, 0, 0, 100, -100, 200}
			clients := 0
			submit := func() {
				clients++
				w.StartExecute(fmt.Sprintf("c%d", clients), pick(rng, w.actions), "", pick(rng, invs), pick(rng, prios))
				sc.settle()
			}
			for k := 0; k < 3+rng.Intn(5); k++ {
				submit()
				if rng.Intn(3) == 0 {
					w.Advance(1)
				}
			}
			for step := 0; step < 40 && !w.Panicked(); step++ {
				switch r := rng.Intn(10); {
				case r < 6:
					d := pick(rng, sc.workers)
					if d.call != nil {
						continue
					}
					if d.Executing != "" {
						sc.complete(d, 0, 0)
					} else {
						sc.idle(d)
					}
				case r < 8:
					if clients < 14 {
						submit()
					}
				default:
					w.Advance(1 + rng.Intn(3))
				}
				for _, tm := range w.DueTimers() {
					w.Fire(tm)
					sc.settle()
				}
				if step%4 == 0 {
					w.Listing()
				}
			}
			sc.drain()
		})
	}
}

// stallWatchdog ends the driver when the real code stops making progress
// (for instance spinning inside a critical section): nothing has been
// logged for a long time although the driver is waiting for a step of the
// real code to finish.
func stallWatchdog(tr *common.Trace) {
	limit := time.Duration(common.EnvInt("VERIF_STALL_SECS", 600)) * time.Second
	tr.Watchdog(limit, func() common.Ev {
		return common.Ev{"ev": "stall", "seconds": int(limit / time.Second)}
	})
}
