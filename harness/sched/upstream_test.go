package sched

// Transcriptions of the upstream unit tests of the scheduler
// (/repo/pkg/scheduler/in_memory_build_queue_test.go, which cannot be
// compiled in this tree because it needs generated mocks) into scenario
// scripts of this harness. Every script replays the sequence of calls and
// clock readings of one upstream test function against the real build
// queue; nothing is asserted here: the trace is judged by SchedTrace.tla.
//
// Mapping used throughout:
//
//   - upstream configuration (seconds): update 60, no waiters 60, queue
//     without workers 900, busy sync 10, idle sync 60, retries 9, worker
//     without synchronizations 60. Harness (ticks, DefaultConfig): 7, 11,
//     31, 5, 13, 1, 23. Clock readings are scaled per meaning ("just before
//     / exactly at / after time-out X"), not by a constant factor.
//   - upstream platform {cpu: armv6, os: linux} (or the empty platform) is
//     platform "p1"; the action routed to a platform without workers is d4
//     (platform "p2").
//   - upstream worker id {hostname, thread} is {host, rack}.
//   - upstream invocation keys are one level deep (tool invocation id) or
//     absent; the router of the harness always extracts two levels
//     (correlated invocations id, tool invocation id). "No invocation" is the
//     fixed pair {a, t1}; the k-th tool invocation is {ik, tk}.
//   - a worker that reports "executing <digest it was never given>" (the
//     upstream idiom for a Synchronize call that returns at once) reports the
//     extra action "dx".
//   - mock timers whose channel is nil upstream never fire here either
//     (nobody calls Fire for them before the drain phase).

import (
	"fmt"
	"math/rand"
	"strconv"
	"testing"
	"testing/synctest"

	remoteexecution "github.com/bazelbuild/remote-apis/build/bazel/remote/execution/v2"

	"verif/harness/common"
)

// scriptedCfg is scripted() with a configuration other than DefaultConfig.
func scriptedCfg(t *testing.T, tr *common.Trace, idx int, name string, c Config, script isccScript, f func(sc *scenario)) {
	synctest.Test(t, func(t *testing.T) {
		tr.Emit(common.Ev{"ev": "reset", "trace": idx, "flavour": -1, "scenario": name})
		w := NewWorld(tr, c, script)
		sc := &scenario{w: w, rng: rand.New(rand.NewSource(int64(idx)))}
		cfg := w.cfg
		tr.Emit(common.Ev{"ev": "config", "update": int(cfg.ExecutionUpdateInterval / Unit), "no_waiter": int(cfg.OperationWithNoWaitersTimeout / Unit),
			"queue": int(cfg.PlatformQueueWithNoWorkersTimeout / Unit), "busy": int(cfg.BusyWorkerSynchronizationInterval / Unit),
			"idle": int(cfg.GetIdleWorkerSynchronizationInterval() / Unit), "retry": cfg.WorkerTaskRetryCount, "worker": int(cfg.WorkerWithNoSynchronizationsTimeout / Unit)})
		w.AddAction("d1", "p1", false)
		w.AddAction("d2", "p1", false)
		w.AddAction("d3", "p1", true)
		w.AddAction("d4", "p2", false)
		w.AddAction("d5", "p1", false)
		w.AddAction("d6", "p1", false)
		f(sc)
		sc.drain()
	})
}

// noInv stands for "the request carries no invocation keys".
var noInv = []string{"a", "t1"}

// inv is the k-th tool invocation.
func inv(k int) []string { return []string{fmt.Sprintf("i%d", k), fmt.Sprintf("t%d", k)} }

// exec starts an Execute() call and lets it run until it blocks or returns.
func (sc *scenario) exec(client, digest, instance string, invocation []string, prio int) *Actor {
	a := sc.w.StartExecute(client, find(sc.w, digest), instance, invocation, prio)
	sc.settle()
	return a
}

// reattach starts a WaitExecution() call on an existing operation.
func (sc *scenario) reattach(client, op string) *Actor {
	a := sc.w.StartWaitExecution(client, op)
	sc.settle()
	return a
}

// leave cancels a blocked call.
func (sc *scenario) leave(a *Actor) {
	sc.w.Cancel(a)
	sc.settle()
}

// newestOp is the label of the operation that was created last.
func (sc *scenario) newestOp() string {
	best, bestN := "", -1
	if s := sc.w.last; s != nil {
		for _, o := range s.Operations {
			l := opLabel(o.Name)
			if n, err := strconv.Atoi(l[1:]); err == nil && n > bestN {
				best, bestN = l, n
			}
		}
	}
	return best
}

// bogus: the worker claims to be executing an action it was never given.
// The scheduler answers at once (it never blocks a worker that is doing the
// wrong thing).
func (sc *scenario) bogus(d *WorkerDef) {
	var a *actionDef
	for _, x := range sc.w.actions {
		if x.label == "dx" {
			a = x
		}
	}
	if a == nil {
		a = sc.w.AddAction("dx", "p1", false)
	}
	sc.w.StartSynchronize(d, SyncArgs{State: "executing", Digest: a})
	sc.settle()
}

// running: the worker reports that it is still executing action `label`.
func (sc *scenario) running(d *WorkerDef, label string) {
	sc.w.StartSynchronize(d, SyncArgs{State: "executing", Digest: find(sc.w, label)})
	sc.settle()
}

// idlePrefer: the worker is idle and wants to stay idle.
func (sc *scenario) idlePrefer(d *WorkerDef) {
	sc.w.StartSynchronize(d, SyncArgs{State: "idle", PreferIdle: true})
	sc.settle()
}

// completeIdle: the worker reports completion of what it is executing and
// asks to be left idle (the call never blocks).
func (sc *scenario) completeIdle(d *WorkerDef, code, exit, duration int) {
	if d.Executing == "" {
		panic("worker " + d.Label + " is not executing anything")
	}
	sc.tokenSeq++
	sc.w.StartSynchronize(d, SyncArgs{State: "completed", Digest: find(sc.w, d.Executing), Token: fmt.Sprintf("u%d", sc.tokenSeq),
		Code: code, ExitCode: exit, Duration: duration, PreferIdle: true})
	sc.settle()
}

// completeBlocking: the worker reports completion and waits for more work.
func (sc *scenario) completeBlocking(d *WorkerDef, code, exit, duration int) {
	if d.Executing == "" {
		panic("worker " + d.Label + " is not executing anything")
	}
	sc.tokenSeq++
	sc.w.StartSynchronize(d, SyncArgs{State: "completed", Digest: find(sc.w, d.Executing), Token: fmt.Sprintf("u%d", sc.tokenSeq),
		Code: code, ExitCode: exit, Duration: duration})
	sc.settle()
}

// fire fires every timer that is due, one at a time.
func (sc *scenario) fire() {
	for i := 0; i < 1000; i++ {
		ts := sc.w.DueTimers()
		if len(ts) == 0 || sc.w.Panicked() {
			return
		}
		sc.w.Fire(ts[0])
		sc.settle()
	}
	panic("timers keep becoming due")
}

// operator runs one operator call to its end.
func (sc *scenario) operator(a *Actor) { sc.settle() }

// listing calls the read-only API (which also runs the cleanups that are
// due) and lets everybody who was woken up by that proceed.
func (sc *scenario) listing() {
	sc.w.Listing()
	sc.settle()
}

func TestUpstream(t *testing.T) {
	tr := common.NewTrace("trace.ndjson")
	defer tr.Close()
	stallWatchdog(tr)
	n := 0
	next := func() int { n++; return 2000 + n }

	// ------------------------------------------------------------------
	// TestInMemoryBuildQueueExecuteBadRequest. Sub-tests UnknownPlatformSoft
	// (one instant before the hard-failure time: UNAVAILABLE) and
	// UnknownPlatformHard (at the hard-failure time: FAILED_PRECONDITION).
	// InvalidActionDigest and MissingAction fail before the action is
	// routed; they come last because the trace specification numbers the
	// selectors by Execute calls.
	scripted(t, tr, next(), "TestInMemoryBuildQueueExecuteBadRequest", &fixedScript{}, func(sc *scenario) {
		w := sc.w
		w.Advance(30) // upstream 899.999999999 of 900
		sc.exec("c1", "d4", "main", noInv, 0)
		w.Advance(1) // upstream 900
		sc.exec("c2", "d4", "main", noInv, 0)
		bad := &actionDef{label: "dbad", hash: "This is not a valid hash", platform: "p1",
			digest: &remoteexecution.Digest{Hash: "This is not a valid hash", SizeBytes: 123}}
		w.StartExecute("c3", bad, "", noInv, 0)
		sc.settle()
		missing := &actionDef{label: "dmissing", hash: fmt.Sprintf("%064x", 0xdead), platform: "p1",
			digest: &remoteexecution.Digest{Hash: fmt.Sprintf("%064x", 0xdead), SizeBytes: 123}}
		w.StartExecute("c4", missing, "main", noInv, 0)
		sc.settle()
	})

	// ------------------------------------------------------------------
	// TestInMemoryBuildQueuePurgeStaleWorkersAndQueues
	scripted(t, tr, next(), "TestInMemoryBuildQueuePurgeStaleWorkersAndQueues", &fixedScript{}, func(sc *scenario) {
		w := sc.w
		w1 := sc.worker("w1", "h1", "main", "p1", 0)
		sc.bogus(w1) // 1000: announces the worker, creates the queue
		w.Advance(1)
		sc.exec("c1", "d3", "main", noInv, 0) // 1001: QUEUED
		w.Advance(1)
		sc.idle(w1) // 1002: gets the task; client sees EXECUTING
		w.Advance(7)
		sc.fire() // 1061: update timer; still EXECUTING
		w.Advance(16)
		sc.fire() // 1121: update timer after the worker's time-out (t=25): COMPLETED/UNAVAILABLE
		// The queue lives until removal of its last worker (t=25) + 31.
		w.Advance(30) // 1961.999999999: one instant before the queue goes
		for i := 0; i < 8; i++ {
			sc.exec(fmt.Sprintf("c%d", i+2), "d3", "main", noInv, 0)
		}
		w.Advance(1) // 1962: queue is collected; the eight are cancelled
		sc.exec("c10", "d3", "main", noInv, 0)
	})

	// ------------------------------------------------------------------
	// TestInMemoryBuildQueuePurgeStaleOperations
	scripted(t, tr, next(), "TestInMemoryBuildQueuePurgeStaleOperations", &fixedScript{}, func(sc *scenario) {
		w := sc.w
		w1 := sc.worker("w1", "h1", "main", "p1", 0)
		sc.bogus(w1)  // 1000
		w.Advance(25) // 1070 (later than the worker's time-out, as upstream)
		a1 := sc.exec("c1", "d1", "main", noInv, 0)
		op := sc.newestOp()
		w.Advance(2)                                // 1075
		a2 := sc.exec("c2", "d1", "main", noInv, 0) // same invocation: same operation
		w.Advance(2)                                // 1080
		a3 := sc.reattach("c3", op)
		sc.listing() // ListOperations: no time-out, three waiters
		w.Advance(3) // 1090
		sc.leave(a1)
		sc.leave(a2)
		sc.leave(a3)
		w.Advance(10) // 1149.999999999
		sc.listing()  // still there, time-out armed
		w.Advance(1)  // 1150
		sc.listing()  // gone
	})

	// ------------------------------------------------------------------
	// TestInMemoryBuildQueueCrashLoopingWorker (retry count 9 as upstream)
	crashCfg := DefaultConfig
	crashCfg.RetryCount = 9
	scriptedCfg(t, tr, next(), "TestInMemoryBuildQueueCrashLoopingWorker", crashCfg, &fixedScript{}, func(sc *scenario) {
		w := sc.w
		w1 := sc.worker("w1", "h1", "main", "p1", 0)
		sc.bogus(w1) // 1000
		w.Advance(1)
		sc.exec("c1", "d1", "main/suffix", noInv, 0) // 1001
		for i := 0; i < 10; i++ {
			w.Advance(1) // 1002+i
			sc.idle(w1)  // is handed the same task again and again
		}
		w.Advance(1) // 1012
		sc.bogus(w1) // the eleventh time the scheduler gives up: INTERNAL
	})

	// The same history with the retry count of DefaultConfig (1).
	scripted(t, tr, next(), "TestInMemoryBuildQueueCrashLoopingWorker/retry1", &fixedScript{}, func(sc *scenario) {
		w := sc.w
		w1 := sc.worker("w1", "h1", "main", "p1", 0)
		sc.bogus(w1)
		w.Advance(1)
		sc.exec("c1", "d1", "main/suffix", noInv, 0)
		for i := 0; i < 2; i++ {
			w.Advance(1)
			sc.idle(w1)
		}
		w.Advance(1)
		sc.bogus(w1)
	})

	// ------------------------------------------------------------------
	// TestInMemoryBuildQueueKillOperationsOperationName
	scripted(t, tr, next(), "TestInMemoryBuildQueueKillOperationsOperationName", &fixedScript{}, func(sc *scenario) {
		w := sc.w
		w1 := sc.worker("w1", "h1", "main", "p1", 0)
		sc.bogus(w1) // 1000
		w.Advance(1)
		sc.exec("c1", "d1", "main", noInv, 0) // 1001
		op := sc.newestOp()
		w.Advance(1)
		sc.idle(w1)  // 1002: EXECUTING
		w.Advance(5) // 1007
		sc.operator(w.KillOperation(op, 14))
		w.Advance(5)         // 1012
		sc.running(w1, "d1") // still reports the killed action: told to go idle
	})

	// ------------------------------------------------------------------
	// TestInMemoryBuildQueueKillOperationsSizeClassQueueWithoutWorkers
	scripted(t, tr, next(), "TestInMemoryBuildQueueKillOperationsSizeClassQueueWithoutWorkers", &fixedScript{}, func(sc *scenario) {
		w := sc.w
		sc.operator(w.KillQueue("main", "p1", 0, 14)) // 1000: NOT_FOUND
		w1 := sc.worker("w1", "h1", "main", "p1", 0)
		sc.bogus(w1) // 1000
		w.Advance(1)
		sc.exec("c1", "d1", "main", noInv, 0) // 1001
		w.Advance(1)
		sc.operator(w.KillQueue("main", "p1", 0, 14)) // 1002: FAILED_PRECONDITION, still has a worker
		w.Advance(21)                                 // 1060: exactly the worker's time-out
		sc.operator(w.KillQueue("main", "p1", 0, 14))
	})

	// ------------------------------------------------------------------
	// TestInMemoryBuildQueueIdleWorkerSynchronizationTimeout
	scripted(t, tr, next(), "TestInMemoryBuildQueueIdleWorkerSynchronizationTimeout", &fixedScript{}, func(sc *scenario) {
		w := sc.w
		w1 := sc.worker("w1", "h1", "main", "p1", 0)
		sc.idle(w1)   // 1000: blocks
		w.Advance(13) // 1060
		sc.fire()     // returns "idle"
	})

	// ------------------------------------------------------------------
	// TestInMemoryBuildQueueDrainedWorker
	scripted(t, tr, next(), "TestInMemoryBuildQueueDrainedWorker", &fixedScript{}, func(sc *scenario) {
		w := sc.w
		w1 := sc.worker("w1", "h1", "main", "p1", 0)
		sc.bogus(w1) // 1000
		w.Advance(1)
		sc.listing()                                                                 // 1001: ListWorkers, not drained
		w.Advance(2)                                                                 // 1003
		sc.operator(w.Drain(true, "main", "p1", 0, map[string]string{"host": "h9"})) // matches nobody
		w.Advance(1)
		sc.listing() // 1004
		w.Advance(1) // 1005
		sc.operator(w.Drain(true, "main", "p1", 0, map[string]string{"host": "h1"}))
		w.Advance(1)
		sc.listing() // 1006: drained
		w.Advance(1)
		sc.exec("c1", "d1", "main", noInv, 0) // 1007: QUEUED
		w.Advance(1)
		sc.bogus(w1) // 1008: drained, gets nothing
		w.Advance(1) // 1009
		sc.operator(w.Drain(false, "main", "p1", 0, map[string]string{"host": "h1"}))
		w.Advance(1)
		sc.bogus(w1) // 1010: gets the task
	})

	// ------------------------------------------------------------------
	// TestInMemoryBuildQueueInvocationFairness: K invocations x K distinct
	// actions, K*K workers take them one by one; they must be served round
	// robin (operation 0 of every invocation, then operation 1 of every
	// invocation, ...). Upstream K = 5; TLC needs more than an hour for the
	// 25-task snapshots of that size, so the default here is K = 3
	// (VERIF_FAIR_K=5 gives the upstream size). Every request and every
	// worker has its own clock reading (the order depends on them), so the
	// K*K workers need K*K ticks: for K > 4 the worker time-out is raised to
	// 60 so that, as upstream, no worker times out before the last one has
	// synchronized.
	fairK := common.EnvInt("VERIF_FAIR_K", 3)
	fairCfg := DefaultConfig
	if fairK > 4 {
		fairCfg.WorkerTimeout = 60
	}
	scriptedCfg(t, tr, next(), "TestInMemoryBuildQueueInvocationFairness", fairCfg, &fixedScript{}, func(sc *scenario) {
		w := sc.w
		k := fairK
		w0 := sc.worker("w0", "h0", "main", "p1", 0)
		sc.bogus(w0) // 1000
		acts := []string{"d1", "d2", "d5", "d6"}
		for n := 7; len(acts) < k*k; n++ {
			l := fmt.Sprintf("d%d", n)
			w.AddAction(l, "p1", false)
			acts = append(acts, l)
		}
		for i := 0; i < k*k; i++ {
			w.Advance(1) // 1010+i
			sc.exec(fmt.Sprintf("c%d", i+1), acts[i], "main", inv(i/k+1), 0)
		}
		w.Advance(1)
		sc.listing() // 1036: K queued invocations of K operations
		for r := 0; r < k; r++ {
			for c := 0; c < k; c++ {
				j := c*k + r // upstream: 0, 5, 10, 15, 20, 1, 6, ...
				w.Advance(1) // 1040+i
				d := sc.worker(fmt.Sprintf("w%d", j+1), fmt.Sprintf("h%d", j+1), "main", "p1", 0)
				sc.idle(d)
			}
		}
		w.Advance(2)
		sc.listing()                     // 1070..1072: everything executing
		w.Advance(fairCfg.WorkerTimeout) // 1200: every worker has timed out
		sc.listing()
	})

	// ------------------------------------------------------------------
	// TestInMemoryBuildQueueInFlightDeduplicationAbandonQueued
	scripted(t, tr, next(), "TestInMemoryBuildQueueInFlightDeduplicationAbandonQueued", &fixedScript{}, func(sc *scenario) {
		w := sc.w
		w1 := sc.worker("w1", "h1", "main", "p1", 0)
		sc.bogus(w1) // 1000
		for i := 0; i < 10; i++ {
			w.Advance(1) // 1010+i
			a := sc.exec(fmt.Sprintf("c%d", i+1), "d1", "main", inv(i+1), 0)
			sc.leave(a) // abandoned at once: lives for one more no-waiters time-out
		}
		for i := 0; i <= 10; i++ {
			w.Advance(1) // 1069+i: one operation (and invocation) fewer every time
			sc.listing()
		}
	})

	// ------------------------------------------------------------------
	// TestInMemoryBuildQueueInFlightDeduplicationAbandonExecuting
	scripted(t, tr, next(), "TestInMemoryBuildQueueInFlightDeduplicationAbandonExecuting", &fixedScript{}, func(sc *scenario) {
		w := sc.w
		w1 := sc.worker("w1", "h1", "main", "p1", 0)
		sc.bogus(w1) // 1000
		for i := 0; i < 10; i++ {
			w.Advance(1) // 1010+i
			a := sc.exec(fmt.Sprintf("c%d", i+1), "d1", "main", inv(i+1), 0)
			sc.leave(a)
		}
		w.Advance(1)
		sc.idle(w1) // 1065: all ten operations are EXECUTING
		for i := 0; i <= 10; i++ {
			if i > 0 {
				w.Advance(1)
			}
			sc.listing() // 1069+i
		}
	})

	// ------------------------------------------------------------------
	// TestInMemoryBuildQueuePreferBeingIdle
	scripted(t, tr, next(), "TestInMemoryBuildQueuePreferBeingIdle", &fixedScript{}, func(sc *scenario) {
		w := sc.w
		w1 := sc.worker("w1", "h1", "main", "p1", 0)
		sc.idlePrefer(w1) // 1000: returns at once
		w.Advance(1)
		sc.exec("c1", "d1", "main", noInv, 0) // 1001
		w.Advance(1)
		sc.idle(w1) // 1002: picks it up
		w.Advance(1)
		sc.completeIdle(w1, 0, 0, 10) // 1003: returns at once with "idle"
	})

	// ------------------------------------------------------------------
	// TestInMemoryBuildQueueMultipleSizeClasses
	scripted(t, tr, next(), "TestInMemoryBuildQueueMultipleSizeClasses", &fixedScript{idx: 0, retry: true}, func(sc *scenario) {
		w := sc.w
		w.Predeclare("main", "p1", nil, 0, 0, []uint32{8}) // 1000
		w.Advance(1)
		w9 := sc.worker("w9", "h9", "main", "p1", 9)
		sc.idle(w9) // 1001: rejected, exceeds the predeclared maximum
		w.Advance(1)
		w1 := sc.worker("w1", "h1", "main", "p1", 3)
		sc.bogus(w1) // 1002
		w.Advance(1)
		sc.exec("c1", "d1", "main", noInv, 0) // 1003: selected class 3
		w.Advance(1)
		sc.idle(w1) // 1004
		w.Advance(1)
		sc.completeIdle(w1, 0, 137, 0) // 1005: fails on the small class: back to QUEUED on class 8
		w.Advance(1)
		w2 := sc.worker("w2", "h2", "main", "p1", 8)
		sc.idle(w2) // 1006
		w.Advance(13)
		sc.completeIdle(w2, 0, 0, 3) // 1019
	})

	// ------------------------------------------------------------------
	// TestInMemoryBuildQueueBackgroundRun
	scripted(t, tr, next(), "TestInMemoryBuildQueueBackgroundRun", &fixedScript{idx: 1, background: true, bgIdx: 0}, func(sc *scenario) {
		w := sc.w
		w.Predeclare("main", "p1", nil, 10, 100, []uint32{8}) // 1000
		w.Advance(2)
		w1 := sc.worker("w1", "h1", "main", "p1", 3)
		sc.bogus(w1) // 1002
		w.Advance(1)
		sc.exec("c1", "d1", "main", noInv, 0) // 1003: selected the largest class
		w.Advance(1)
		w2 := sc.worker("w2", "h2", "main", "p1", 8)
		sc.idle(w2) // 1004
		w.Advance(1)
		sc.completeIdle(w2, 0, 0, 3) // 1005: client done; background run queued on class 3
		w.Advance(1)
		sc.idle(w1) // 1006: picks up the background run
		w.Advance(13)
		sc.completeIdle(w1, 0, 0, 3) // 1019
	})

	// ------------------------------------------------------------------
	// TestInMemoryBuildQueueIdleSynchronizingWorkers
	scripted(t, tr, next(), "TestInMemoryBuildQueueIdleSynchronizingWorkers", &fixedScript{}, func(sc *scenario) {
		w := sc.w
		w1 := sc.worker("w1", "h1", "", "p1", 0)
		w2 := sc.worker("w2", "h2", "", "p1", 0)
		sc.idle(w1) // 1000: blocks
		w.Advance(1)
		sc.exec("c1", "d3", "", inv(1), 0) // 1001: handed to w1 directly, EXECUTING at once
		w.Advance(1)
		sc.completeBlocking(w1, 0, 0, 0) // 1002: client done, w1 blocks again
		w.Advance(1)
		sc.listing() // 1003: invocation 1 is remembered through its idle worker
		w.Advance(1)
		sc.idle(w2) // 1004: blocks
		w.Advance(1)
		sc.exec("c2", "d3", "", inv(2), 0) // 1005: other invocation: must go to w2
		w.Advance(1)
		sc.completeBlocking(w2, 0, 0, 0) // 1006
		w.Advance(1)
		sc.listing() // 1007
		w.Advance(1)
		sc.exec("c3", "d3", "", inv(3), 0) // 1008: unknown invocation: least recently used worker w1
	})

	// ------------------------------------------------------------------
	// TestInMemoryBuildQueueWorkerInvocationStickinessLimit
	scripted(t, tr, next(), "TestInMemoryBuildQueueWorkerInvocationStickinessLimit", &fixedScript{}, func(sc *scenario) {
		w := sc.w
		w.Predeclare("", "p1", []int{3}, 10, 100, []uint32{0}) // 1000
		for i := 0; i < 9; i++ {
			w.Advance(1) // 1010+i
			sc.exec(fmt.Sprintf("c%d", i+1), "d3", "", inv(i/3+1), 0)
		}
		w1 := sc.worker("w1", "h1", "", "p1", 0)
		w.Advance(10)
		for i := 0; i < 9; i++ {
			w.Advance(1) // 1030+2i
			sc.idle(w1)
			w.Advance(1) // (upstream says 1021+2i, an earlier time: a typo; the clock cannot go back here)
			sc.completeIdle(w1, 0, 0, 0)
		}
	})

	// ------------------------------------------------------------------
	// TestInMemoryBuildQueueNestedInvocationsSynchronization
	scripted(t, tr, next(), "TestInMemoryBuildQueueNestedInvocationsSynchronization", &fixedScript{}, func(sc *scenario) {
		w := sc.w
		w.Predeclare("", "p1", nil, 0, 0, []uint32{0}) // 1000
		var ws []*WorkerDef
		for i := 0; i < 10; i++ {
			w.Advance(1) // 1010+i
			sc.exec(fmt.Sprintf("c%d", i+1), "d3", "", []string{"corr", fmt.Sprintf("t%d", i+1)}, 0)
			d := sc.worker(fmt.Sprintf("w%d", i+1), fmt.Sprintf("h%d", i+1), "", "p1", 0)
			ws = append(ws, d)
			sc.idle(d)
			sc.completeIdle(d, 0, 0, 0)
		}
		w.Advance(1)
		sc.listing() // 1030: one invocation with ten children and ten idle workers
		for i := 0; i < 10; i++ {
			w.Advance(1) // 1040+i: all ten block
			sc.idle(ws[i])
		}
		w.Advance(3)
		for i := 0; i < 10; i++ {
			w.Advance(1) // 1100+i: each idle time-out in turn
			sc.fire()
		}
	})
}
