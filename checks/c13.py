"""C13 — VFS: the in-memory directory tree behaves like a POSIX file
hierarchy (reference model specs/VFSDir.tla, judge specs/VFSDirTrace.tla,
drivers harness/vfsdir)."""
import glob
import json
import os
import shutil

from lib import vlib

DEPS = ["VFSDir.tla"]
TRACE = "VFSDirTrace.tla"
TCFG = "Trace_VFSDir.cfg"

QUICK_CFGS = ["MC_VFSDir.cfg", "MC_VFSDir_bulk.cfg", "MC_VFSDir_ci.cfg", "MC_VFSDir_list.cfg"]
THOROUGH_CFGS = QUICK_CFGS + ["MC_VFSDir_thorough.cfg"]


def _drive(ctx, binary, test, label, env, timeout=2400):
    out = ctx.sub(label)
    rc, o = vlib.run_driver(binary, test, out, ctx.seed, env=env, timeout=timeout)
    if rc != 0:
        raise vlib.Infra("vfsdir driver %s failed:\n%s" % (test, o[-3000:]))
    return out


MAX_FAILURES = 4


def _validate(ctx, out, label, timeout=3600):
    n = vlib.validate_traces(ctx, out + "/trace.ndjson", TRACE, TCFG, DEPS, label,
                             classify=vlib.classify_for(ctx.prop), timeout=timeout,
                             max_failures=MAX_FAILURES)
    if n >= MAX_FAILURES and not ctx.violations:
        # validate_traces gives up after MAX_FAILURES rejected traces; if none
        # of them was a violation the rest of the log was not judged at all
        raise vlib.Infra("%s: %d traces were rejected without a C13 predicate failing "
                         "(model non-conformance); the remaining traces were not validated" % (label, n))
    return n


def _behaviours(ctx, num, depth):
    """spec -> code: behaviours of the specification (tlc -simulate)."""
    wd = ctx.sub("sim")
    vlib.copy_specs(wd, DEPS + ["VFSDirSim.tla", "MC_VFSDir_sim.cfg"])
    cfg = open(os.path.join(wd, "MC_VFSDir_sim.cfg")).read().replace("Depth = 30", "Depth = %d" % depth)
    open(os.path.join(wd, "MC_VFSDir_sim.cfg"), "w").write(cfg)
    r = vlib.tlc_run(wd, "VFSDirSim.tla", "MC_VFSDir_sim.cfg", workers=1, timeout=2400,
                     simulate="num=%d" % num, depth=depth + 1, seed=ctx.seed)
    files = glob.glob(os.path.join(wd, "beh_*.ndjson"))
    if not r.ok or not files:
        raise vlib.Infra("behaviour generation failed (%s):\n%s" % (r.violated or r.error, r.output[-2000:]))
    ctx.cov["tlc_runs"].append({"cfg": "MC_VFSDir_sim.cfg", "simulate": num, "depth": depth,
                                "generated": r.generated, "wall_s": round(r.wall, 1), "ok": True})
    vlib.log("TLC simulate: %d behaviours of %d calls in %.1fs" % (len(files), depth, r.wall))
    return wd


RULE = ("TLC explores the reference hierarchy VFSDir.tla exhaustively for small universes (kernel-facing calls, bulk calls, "
        "case-insensitive names with renames into the own subtree, Listing process with resumable cookie) and checks the C13 "
        "invariants and action properties. The real NewInMemoryPrepopulatedDirectory (real pool-backed file allocator, symlink "
        "factory, FUSE- and NFS-style handle allocators, both normalizers, hidden-files matcher) is driven by seeded random "
        "histories, by an enumeration of all single calls and pairs of calls from four seed states, and by replaying behaviours "
        "generated from the specification; every call is logged with status, reply and the projection of all known directories "
        "(public interface + state hook); TLC computes the set of outcomes the reference permits and judges status, resulting "
        "contents, cookies, change counters, ChangeInfo, listings, link counts and the attributes returned with a child (file type; change counter of a "
        "child directory when lookups and listings ask for it, which takes the child-locking paths of the real code).")


def _finish(ctx, extra):
    return vlib.finish(ctx, rule=RULE, explanation="reference-model conformance of in_memory_prepopulated_directory.go",
                       exhaustive=True, extra=extra)


def run(ctx):
    quick = ctx.quick()
    # 1. design check: the reference hierarchy has the C13 properties
    #    (map/list agreement, removed directories are empty and accept
    #    nothing, link counts, tree shape, change counter, cookie stability,
    #    pagination under every interleaving of mutations between pages).
    #    The design check does not depend on /repo; VERIF_C13_SKIP_DESIGN=1
    #    skips it while iterating over mutants of the real code.
    if os.environ.get("VERIF_C13_SKIP_DESIGN") != "1":
        for cfg in (QUICK_CFGS if quick else THOROUGH_CFGS):
            vlib.design_check(ctx, "VFSDir.tla", cfg, [], timeout=3600)

    binary = vlib.go_build_test(ctx, "vfsdir")
    extra = {}

    # 2. code -> spec: seeded random histories (both handle allocators, both
    #    normalizers, hidden-files matcher on/off, paginated listings
    #    interleaved with mutations, removed directories kept in use)
    batches = 1 if quick else 4
    for b in range(batches):
        n = 48 if quick else 80
        out = _drive(ctx, binary, "TestRandom", "rand%d" % b,
                     {"VERIF_N": n, "VERIF_FIRST": b * n, "VERIF_STEPS": 60 if quick else 100})
        _validate(ctx, out, "random%d" % b)
        if b == 0:
            ctx.cov["samples"] += vlib.sample_lines(out + "/trace.ndjson", 3, maxlen=600)
        if ctx.violations:
            return _finish(ctx, extra)  # a violation was found: the later stages cannot change the verdict

    # 3. every call from several seed states, and all sequences of two
    #    calls (quick: a seed-dependent quarter of the first calls)
    env = {"VERIF_DEPTH": 2, "VERIF_STRIDE": 4 if quick else 1, "VERIF_WIDE": 0}
    out2 = _drive(ctx, binary, "TestEnumerate", "enum", env)
    _validate(ctx, out2, "enum")
    extra["enumeration"] = json.load(open(out2 + "/meta.json"))
    if ctx.violations:
        return _finish(ctx, extra)
    if not quick:
        # all single calls with the hidden name included
        out2w = _drive(ctx, binary, "TestEnumerate", "enumwide", {"VERIF_DEPTH": 1, "VERIF_WIDE": 1})
        _validate(ctx, out2w, "enumwide")
        extra["enumeration_wide"] = json.load(open(out2w + "/meta.json"))
        if ctx.violations:
            return _finish(ctx, extra)

    # 4. spec -> code: behaviours generated from the specification are
    #    replayed on the real hierarchy and validated like any other trace
    wd = _behaviours(ctx, 16 if quick else 120, 25 if quick else 40)
    out3 = _drive(ctx, binary, "TestReplay", "replay", {"VERIF_BEH_DIR": wd})
    _validate(ctx, out3, "replay")
    extra["replay"] = json.load(open(out3 + "/meta.json"))

    return _finish(ctx, extra)


def replay(ctx, path):
    vlib.validate_traces(ctx, path, TRACE, TCFG, DEPS, "replay", classify=vlib.classify_for(ctx.prop))
    return vlib.finish(ctx, rule="replay of a saved trace", explanation="replay")
