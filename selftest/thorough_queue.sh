#!/bin/bash
# runs the thorough tier of every listed property once, sequentially; logs /tmp/thorough-<ID>.log
for id in "$@"; do
  (cd /verif && VERIF_SEED=${SEED:-2} bin/check $id --tier thorough > /tmp/thorough-$id.log 2>&1; echo EXIT=$? >> /tmp/thorough-$id.log)
done
