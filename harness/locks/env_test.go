package locks

// The real object graph the lock balance drivers work on: an in-memory
// directory tree backed by a pool-backed file allocator over a block
// device backed file pool, NFS handle allocation and in-memory named
// attributes, with fault injection at the outermost interfaces (file
// pool, symlink factory, InitialContentsFetcher).

import (
	"context"
	"errors"
	"fmt"
	"runtime"
	"sort"
	"strings"
	"sync"
	"sync/atomic"
	"syscall"
	"time"

	"github.com/buildbarn/bb-remote-execution/pkg/filesystem/pool"
	"github.com/buildbarn/bb-remote-execution/pkg/filesystem/virtual"
	"github.com/buildbarn/bb-storage/pkg/clock"
	"github.com/buildbarn/bb-storage/pkg/filesystem"
	"github.com/buildbarn/bb-storage/pkg/filesystem/path"
	"github.com/buildbarn/bb-storage/pkg/random"

	"verif/harness/common"
)

var ctxBG = context.Background()

func comp(s string) path.Component { return path.MustNewComponent(s) }

// ---------------------------------------------------------------------------
// Fault injecting leaves of the object graph.

type memBlockDevice struct {
	mu   sync.Mutex
	data []byte
}

func (d *memBlockDevice) ReadAt(p []byte, off int64) (int, error) {
	d.mu.Lock()
	defer d.mu.Unlock()
	return copy(p, d.data[off:]), nil
}

func (d *memBlockDevice) WriteAt(p []byte, off int64) (int, error) {
	d.mu.Lock()
	defer d.mu.Unlock()
	return copy(d.data[off:], p), nil
}
func (d *memBlockDevice) Sync() error  { return nil }
func (d *memBlockDevice) Close() error { return nil }

// faults are switches the drivers flip around a call.
type faults struct {
	newFile  atomic.Bool
	truncate atomic.Bool
	write    atomic.Bool
	read     atomic.Bool
	seek     atomic.Bool
	symlink  atomic.Bool
}

func (f *faults) clear() {
	f.newFile.Store(false)
	f.truncate.Store(false)
	f.write.Store(false)
	f.read.Store(false)
	f.seek.Store(false)
	f.symlink.Store(false)
}

var errInjected = errors.New("injected failure")

type faultyPool struct {
	base pool.FilePool
	f    *faults
}

func (p *faultyPool) NewFile(holeSource pool.HoleSource, size uint64) (filesystem.FileReadWriter, error) {
	if p.f.newFile.Load() {
		return nil, errInjected
	}
	file, err := p.base.NewFile(holeSource, size)
	if err != nil {
		return nil, err
	}
	return &faultyFile{FileReadWriter: file, f: p.f}, nil
}

type faultyFile struct {
	filesystem.FileReadWriter
	f *faults
}

func (ff *faultyFile) Truncate(size int64) error {
	if ff.f.truncate.Load() {
		return errInjected
	}
	return ff.FileReadWriter.Truncate(size)
}

func (ff *faultyFile) WriteAt(p []byte, off int64) (int, error) {
	if ff.f.write.Load() {
		return 0, errInjected
	}
	return ff.FileReadWriter.WriteAt(p, off)
}

func (ff *faultyFile) ReadAt(p []byte, off int64) (int, error) {
	if ff.f.read.Load() {
		return 0, errInjected
	}
	return ff.FileReadWriter.ReadAt(p, off)
}

func (ff *faultyFile) GetNextRegionOffset(off int64, regionType filesystem.RegionType) (int64, error) {
	if ff.f.seek.Load() {
		return 0, errInjected
	}
	return ff.FileReadWriter.GetNextRegionOffset(off, regionType)
}

type faultySymlinkFactory struct {
	base virtual.SymlinkFactory
	f    *faults
}

func (sf *faultySymlinkFactory) LookupSymlink(target path.Parser) (virtual.LinkableLeaf, error) {
	if sf.f.symlink.Load() {
		return nil, errInjected
	}
	return sf.base.LookupSymlink(target)
}

type countingErrorLogger struct{ n atomic.Int64 }

func (l *countingErrorLogger) Log(err error) { l.n.Add(1) }

// fetcher is an InitialContentsFetcher whose failure can be chosen.
type fetcher struct {
	fail     *atomic.Bool
	children func() map[path.Component]virtual.InitialChild
	fetched  atomic.Int64
}

func (f *fetcher) FetchContents(fileReadMonitorFactory virtual.FileReadMonitorFactory) (map[path.Component]virtual.InitialChild, error) {
	if f.fail != nil && f.fail.Load() {
		return nil, errInjected
	}
	f.fetched.Add(1)
	if f.children == nil {
		return map[path.Component]virtual.InitialChild{}, nil
	}
	return f.children(), nil
}

func (f *fetcher) VirtualApply(data any) bool { return false }

// plainLeaf is a Leaf that is not a LinkableLeaf.
type plainLeaf struct{}

func (plainLeaf) VirtualGetAttributes(ctx context.Context, requested virtual.AttributesMask, attributes *virtual.Attributes) {
	attributes.SetFileType(filesystem.FileTypeRegularFile)
	attributes.SetPermissions(virtual.PermissionsRead)
	attributes.SetSizeBytes(0)
}

func (plainLeaf) VirtualSetAttributes(ctx context.Context, in *virtual.Attributes, requested virtual.AttributesMask, attributes *virtual.Attributes) virtual.Status {
	return virtual.StatusErrPerm
}
func (plainLeaf) VirtualApply(data any) bool { return false }
func (plainLeaf) VirtualOpenNamedAttributes(ctx context.Context, createDirectory bool, requested virtual.AttributesMask, attributes *virtual.Attributes) (virtual.Directory, virtual.Status) {
	return nil, virtual.StatusErrNoEnt
}

func (plainLeaf) VirtualAllocate(ctx context.Context, off, size uint64) virtual.Status {
	return virtual.StatusErrWrongType
}

func (plainLeaf) VirtualSeek(ctx context.Context, offset uint64, regionType filesystem.RegionType) (*uint64, virtual.Status) {
	return nil, virtual.StatusErrNXIO
}

func (plainLeaf) VirtualOpenSelf(ctx context.Context, shareAccess virtual.ShareMask, options *virtual.OpenExistingOptions, requested virtual.AttributesMask, attributes *virtual.Attributes) virtual.Status {
	return virtual.StatusOK
}

func (plainLeaf) VirtualRead(ctx context.Context, buf []byte, offset uint64) (int, bool, virtual.Status) {
	return 0, true, virtual.StatusOK
}
func (plainLeaf) VirtualClose(shareAccess virtual.ShareMask) {}
func (plainLeaf) VirtualWrite(ctx context.Context, buf []byte, offset uint64) (int, virtual.Status) {
	return 0, virtual.StatusErrPerm
}

// ---------------------------------------------------------------------------
// The environment: one file system instance plus everything the driver
// has ever seen of it.

type env struct {
	tr              *common.Trace
	faults          *faults
	fetchFail       *atomic.Bool
	errorLogger     *countingErrorLogger
	handleAllocator virtual.StatefulHandleAllocator
	// Exactly one of the two is set: the NFS handle allocator (its pool
	// lock has a TryLock probe) or the FUSE one (its lock is probed by
	// the next call that needs it exclusively, RegisterRemovalNotifier).
	nfsAllocator  *virtual.NFSStatefulHandleAllocator
	fuseAllocator *virtual.FUSEStatefulHandleAllocator
	// Lazily created by the ResolveHandle calls.
	resolvable       virtual.ResolvableHandleAllocator
	resolverFails    atomic.Bool
	removalsNotified atomic.Int64
	kernelRegistered atomic.Bool
	// logNotifications: removal notifications are logged (drivers with
	// one call at a time; the concurrent ones only count them).
	logNotifications bool
	sectorAllocator  pool.SectorAllocator
	filePool         pool.FilePool
	fileAllocator    virtual.FileAllocator
	// The pool-backed file allocator without the handle allocating
	// decorator (which keeps link counts of its own, so that the Link()
	// of the pool-backed file is only reached without it).
	rawFileAllocator virtual.FileAllocator
	symlinkFactory   virtual.SymlinkFactory
	nattrFactory     virtual.NamedAttributesFactory
	root             virtual.PrepopulatedDirectory

	mu      sync.Mutex
	dirs    []virtual.PrepopulatedDirectory // every directory ever seen, also removed ones
	dirSeen map[virtual.PrepopulatedDirectory]int
	leaves  []virtual.Leaf
	leafSet map[virtual.Leaf]int
}

func hiddenMatcher(s string) bool { return strings.HasPrefix(s, ".hid") }

func defaultAttributesSetter(requested virtual.AttributesMask, attributes *virtual.Attributes) {}

// envOptions selects the variable parts of the object graph.
type envOptions struct {
	fuse       bool                        // FUSE handle allocator instead of the NFS one
	normalizer virtual.ComponentNormalizer // nil: case sensitive
	quiet      bool                        // do not log removal notifications (concurrent drivers)
}

func newEnv(tr *common.Trace) *env { return newEnvWith(tr, envOptions{}) }

func newEnvWith(tr *common.Trace, opt envOptions) *env {
	e := &env{
		tr:          tr,
		faults:      &faults{},
		fetchFail:   &atomic.Bool{},
		errorLogger: &countingErrorLogger{},
		dirSeen:     map[virtual.PrepopulatedDirectory]int{},
		leafSet:     map[virtual.Leaf]int{},
	}
	e.fetchFail.Store(true)
	e.logNotifications = !opt.quiet
	if opt.fuse {
		e.fuseAllocator = virtual.NewFUSEHandleAllocator(random.FastThreadSafeGenerator)
		e.handleAllocator = e.fuseAllocator
	} else {
		e.nfsAllocator = virtual.NewNFSHandleAllocator(random.NewFastSingleThreadedGenerator())
		e.handleAllocator = e.nfsAllocator
	}
	normalizer := opt.normalizer
	if normalizer == nil {
		normalizer = virtual.CaseSensitiveComponentNormalizer
	}
	const sectorSize, sectorCount = 16, 4096
	e.sectorAllocator = pool.NewBitmapSectorAllocator(sectorCount)
	e.filePool = &faultyPool{
		base: pool.NewBlockDeviceBackedFilePool(&memBlockDevice{data: make([]byte, sectorSize*sectorCount)}, e.sectorAllocator, sectorSize),
		f:    e.faults,
	}
	e.symlinkFactory = &faultySymlinkFactory{
		base: virtual.NewHandleAllocatingSymlinkFactory(
			virtual.NewBaseSymlinkFactory(defaultAttributesSetter),
			e.handleAllocator.New(),
			path.UNIXFormat),
		f: e.faults,
	}
	// Named attribute directories are in-memory directories of their
	// own file system; files in them cannot have named attributes.
	nattrFileAllocator := virtual.NewHandleAllocatingFileAllocator(
		virtual.NewPoolBackedFileAllocator(e.filePool, e.errorLogger, defaultAttributesSetter, virtual.InNamedAttributeDirectoryNamedAttributesFactory),
		e.handleAllocator)
	e.nattrFactory = virtual.NewInMemoryNamedAttributesFactory(nattrFileAllocator, e.symlinkFactory, e.errorLogger, e.handleAllocator, clock.SystemClock)
	e.rawFileAllocator = virtual.NewPoolBackedFileAllocator(e.filePool, e.errorLogger, defaultAttributesSetter, e.nattrFactory)
	e.fileAllocator = virtual.NewHandleAllocatingFileAllocator(e.rawFileAllocator, e.handleAllocator)
	e.root = virtual.NewInMemoryPrepopulatedDirectory(
		e.fileAllocator, e.symlinkFactory, e.errorLogger, e.handleAllocator,
		sort.Sort, hiddenMatcher, clock.SystemClock, normalizer,
		defaultAttributesSetter, e.nattrFactory)
	e.addDir(e.root)
	return e
}

func (e *env) addDir(d virtual.PrepopulatedDirectory) int {
	if d == nil {
		return -1
	}
	e.mu.Lock()
	defer e.mu.Unlock()
	if i, ok := e.dirSeen[d]; ok {
		return i
	}
	e.dirSeen[d] = len(e.dirs)
	e.dirs = append(e.dirs, d)
	return len(e.dirs) - 1
}

// addDirectory registers a virtual.Directory if it is one of ours.
func (e *env) addDirectory(d virtual.Directory) virtual.PrepopulatedDirectory {
	if pd, ok := d.(virtual.PrepopulatedDirectory); ok && pd != nil {
		e.addDir(pd)
		return pd
	}
	return nil
}

func (e *env) addLeaf(l virtual.Leaf) {
	if l == nil {
		return
	}
	e.mu.Lock()
	defer e.mu.Unlock()
	if _, ok := e.leafSet[l]; ok {
		return
	}
	e.leafSet[l] = len(e.leaves)
	e.leaves = append(e.leaves, l)
}

// discover registers all directories reachable from the known ones
// (without initializing anything).
func (e *env) discover() {
	for i := 0; i < len(e.snapshotDirs()); i++ {
		for _, c := range virtual.VerifLockProbeSubdirectories(e.snapshotDirs()[i]) {
			e.addDir(c)
		}
	}
}

func (e *env) snapshotDirs() []virtual.PrepopulatedDirectory {
	e.mu.Lock()
	defer e.mu.Unlock()
	return e.dirs
}

func (e *env) snapshotLeaves() []virtual.Leaf {
	e.mu.Lock()
	defer e.mu.Unlock()
	return e.leaves
}

// busy probes every lock the driver knows of and returns the ones that
// cannot be acquired.
func (e *env) busy() []string {
	out := []string{}
	for i, d := range e.snapshotDirs() {
		if !virtual.VerifLockIsFree(d) {
			out = append(out, fmt.Sprintf("dir#%d", i))
		}
	}
	for i, l := range e.snapshotLeaves() {
		if free, _ := virtual.VerifLockProbeLeaf(l); !free {
			out = append(out, fmt.Sprintf("file#%d", i))
		}
	}
	if e.nfsAllocator != nil && !e.nfsAllocator.VerifLockProbeIsFree() {
		out = append(out, "nfsHandlePool")
	}
	if !pool.VerifLockProbeSectorAllocator(e.sectorAllocator) {
		out = append(out, "sectorAllocator")
	}
	return out
}

// ---------------------------------------------------------------------------
// Running one call under a watchdog and recording it.

//go:noinline
func verifCallTrampoline(f func() string) string { return f() }

// hangCount counts the calls that never returned. Every hang costs a
// watchdog period, so drivers stop after a few of them (the verdict does
// not need more).
var hangCount atomic.Int64

const maxHangs = 3

type callResult struct {
	outcome string
	panic   string
}

// The verdicts "hang" and "deadlock" never depend on how long something
// took. They are taken from one consistent snapshot of all goroutines
// (runtime.Stack stops the world): a call cannot return any more if its
// goroutine waits for a mutex and every goroutine that executes code of
// the real packages (the only code that unlocks their mutexes) is itself
// waiting for a mutex or for a channel/condition that only such a
// goroutine, or the driver after this call returned, would signal. The
// clock only decides when the driver looks, and when it gives up on a
// run that is neither finished nor blocked (infrastructure failure).

// watchdog bounds how long a call may be neither finished nor blocked
// before the run is abandoned as an infrastructure failure (6 periods).
var watchdog = time.Duration(common.EnvInt("VERIF_WATCHDOG_S", 20)) * time.Second

const realCodePrefix = "github.com/buildbarn/bb-remote-execution/pkg/"

func isChannelWait(state string) bool {
	return strings.HasPrefix(state, "chan receive") || strings.HasPrefix(state, "chan send") || strings.HasPrefix(state, "select") ||
		state == "sync.Cond.Wait" || state == "sync.WaitGroup.Wait"
}

// blockedKind classifies one consistent snapshot with respect to the
// calls `need` (goroutine ids) that the driver waits for:
//
//	"running"  some goroutine that executes real code (or one of need)
//	           can still run: nothing can be concluded
//	"mutex"    nothing can run any more and one of need waits for a mutex
//	"channel"  nothing can run any more and all of need wait in channel
//	           operations
func blockedKind(dump []goroutineInfo, need []string) (kind, detail string) {
	needSet := map[string]bool{}
	for _, id := range need {
		needSet[id] = true
	}
	found := 0
	mutex := false
	var sb strings.Builder
	for _, g := range dump {
		id, _, _ := strings.Cut(g.stack, " [")
		needed := needSet[id]
		if !needed && !strings.Contains(g.stack, realCodePrefix) {
			continue
		}
		if needed {
			found++
		}
		switch {
		case isMutexWait(g.state):
			if needed {
				mutex = true
			}
		case isChannelWait(g.state):
		default:
			return "running", ""
		}
		if needed {
			lines := strings.Split(g.stack, "\n")
			if len(lines) > 14 {
				lines = lines[:14]
			}
			sb.WriteString(strings.Join(lines, "\n"))
			sb.WriteString("\n\n")
		}
	}
	if found != len(needSet) {
		// A needed goroutine is gone: its result is on its way.
		return "running", ""
	}
	if mutex {
		return "mutex", sb.String()
	}
	return "channel", sb.String()
}

// awaitResult waits for the result of a call. blocked is "" if the call
// returned, otherwise "mutex" or "channel" (see blockedKind; `others` are
// further calls in flight that the driver waits for).
func awaitResult(done chan callResult, id string, others []string) (res callResult, blocked string) {
	start := time.Now()
	pause := 50 * time.Millisecond
	for {
		select {
		case r := <-done:
			return r, ""
		case <-time.After(pause):
		}
		if kind, _ := blockedKind(goroutineDump(), append([]string{id}, others...)); kind != "running" {
			// The snapshot is conclusive; the result cannot arrive
			// any more (look once, it may have arrived just before).
			select {
			case r := <-done:
				return r, ""
			default:
			}
			return callResult{}, kind
		}
		if time.Since(start) > 6*watchdog {
			panic(fmt.Sprintf("INFRA: call did not return within %v but is not blocked (state %q)", 6*watchdog, goroutineStateOf(id)))
		}
		if pause < time.Second {
			pause *= 2
		}
	}
}

// runWatched runs f in its own goroutine. It returns hung=true if the
// call can never return because it waits for a mutex that nobody is left
// to unlock (see blockedKind).
func runWatched(f func() string) (res callResult, hung bool) {
	h := startWatched(f)
	res, blocked := awaitResult(h.done, h.id, nil)
	switch blocked {
	case "mutex":
		return callResult{}, true
	case "channel":
		panic(fmt.Sprintf("INFRA: a call that must not wait for anything is parked in a channel operation and nothing is left to wake it (state %q)", goroutineStateOf(h.id)))
	}
	return res, false
}

// ---------------------------------------------------------------------------
// Calls that wait by design (for a frozen reader to be closed, for the
// writers of a file to go away): they are started, observed to be parked
// in a channel operation, the calls that wake them are made, and then
// they must return.

type inflight struct {
	id   string
	done chan callResult
}

func startWatched(f func() string) *inflight {
	h := &inflight{done: make(chan callResult, 1)}
	gid := make(chan string, 1)
	go func() {
		defer func() {
			if r := recover(); r != nil {
				h.done <- callResult{panic: fmt.Sprint(r)}
			}
		}()
		gid <- currentGoroutineID()
		h.done <- callResult{outcome: verifCallTrampoline(f)}
	}()
	h.id = <-gid
	return h
}

// waitParkedOrDone waits until the call returned (res != nil) or its
// goroutine waits in a channel operation (this only sequences the driver;
// no verdict depends on it).
func (h *inflight) waitParkedOrDone() (res *callResult, state string) {
	start := time.Now()
	seen := 0
	for {
		select {
		case r := <-h.done:
			return &r, ""
		default:
		}
		state = goroutineStateOf(h.id)
		if isChannelWait(state) {
			seen++
			if seen >= 2 {
				return nil, state
			}
		} else {
			seen = 0
		}
		if time.Since(start) > 6*watchdog {
			panic(fmt.Sprintf("INFRA: call neither returned nor parked within %v (state %q)", 6*watchdog, state))
		}
		time.Sleep(200 * time.Microsecond)
	}
}

// wait waits for the call to return. hung: it can never return and waits
// for a mutex; stuck: it can never return and is still parked in its
// channel operation although the calls that should have woken it
// returned.
func (h *inflight) wait() (res callResult, hung, stuck bool) {
	res, blocked := awaitResult(h.done, h.id, nil)
	return res, blocked == "mutex", blocked == "channel"
}

// waker is a call that makes a parked call runnable again.
type waker struct {
	call, variant string
	f             func() string
	post          func(outcome string)
}

// recordParked runs a call that is expected to wait by design until the
// wakers have been called. Neither f nor the wakers' f may touch the
// driver's bookkeeping (they overlap); post functions run afterwards on
// the driver's goroutine. Events: "park" (the call is in flight and
// waits), one "call" per waker and "resumed" for the parked call, all
// probed after every call returned (a call in flight may hold locks);
// "hang" if a waker or the woken call waits for a mutex for ever.
func (e *env) recordParked(obj, call, variant string, f func() string, post func(outcome string), wakers func() []waker) bool {
	h := startWatched(f)
	res, state := h.waitParkedOrDone()
	if res != nil {
		// It did not have to wait.
		e.faults.clear()
		e.discover()
		busy := e.busy()
		if res.panic != "" {
			e.tr.Emit(common.Ev{"ev": "panic", "obj": obj, "call": call, "variant": variant + ";not-parked", "msg": res.panic, "locks_free": len(busy) == 0, "busy": busy})
			return false
		}
		post(res.outcome)
		e.tr.Emit(common.Ev{"ev": "call", "obj": obj, "call": call, "variant": variant + ";not-parked", "outcome": res.outcome, "locks_free": len(busy) == 0, "busy": busy})
		return len(busy) == 0
	}
	e.tr.Emit(common.Ev{"ev": "park", "obj": obj, "call": call, "variant": variant, "state": state})
	type done struct {
		w   waker
		res callResult
	}
	var finished []done
	for _, w := range wakers() {
		r, hung := runWatched(w.f)
		if hung {
			hangCount.Add(1)
			e.tr.Emit(common.Ev{"ev": "hang", "obj": obj, "call": w.call, "variant": w.variant + ";while-parked=" + call})
			return false
		}
		if r.panic == "" && w.post != nil {
			w.post(r.outcome)
		}
		finished = append(finished, done{w, r})
	}
	r, hung, stuck := h.wait()
	e.faults.clear()
	if hung {
		hangCount.Add(1)
		e.tr.Emit(common.Ev{"ev": "hang", "obj": obj, "call": call, "variant": variant + ";after-wake-up"})
		return false
	}
	if stuck {
		e.tr.Emit(common.Ev{"ev": "stuck", "obj": obj, "call": call, "variant": variant})
		return false
	}
	e.discover()
	busy := e.busy()
	ok := len(busy) == 0
	for _, d := range finished {
		if d.res.panic != "" {
			e.tr.Emit(common.Ev{"ev": "panic", "obj": obj, "call": d.w.call, "variant": d.w.variant, "msg": d.res.panic, "locks_free": ok, "busy": busy})
			ok = false
			continue
		}
		e.tr.Emit(common.Ev{"ev": "call", "obj": obj, "call": d.w.call, "variant": d.w.variant + ";while-parked=" + call, "outcome": d.res.outcome, "locks_free": len(busy) == 0, "busy": busy})
	}
	if r.panic != "" {
		e.tr.Emit(common.Ev{"ev": "panic", "obj": obj, "call": call, "variant": variant + ";after-wake-up", "msg": r.panic, "locks_free": len(busy) == 0, "busy": busy})
		return false
	}
	post(r.outcome)
	e.tr.Emit(common.Ev{"ev": "resumed", "obj": obj, "call": call, "variant": variant, "outcome": r.outcome, "locks_free": len(busy) == 0, "busy": busy})
	return ok
}

// currentGoroutineID returns the "goroutine N" prefix of the caller's
// stack dump.
func currentGoroutineID() string {
	buf := make([]byte, 64)
	n := runtime.Stack(buf, false)
	head := string(buf[:n])
	if i := strings.Index(head, " ["); i >= 0 {
		return head[:i]
	}
	return head
}

// goroutineStateOf returns the wait state of the goroutine with the
// given "goroutine N" prefix ("" if it is gone).
func goroutineStateOf(id string) string {
	for _, g := range goroutineDump() {
		if strings.HasPrefix(g.stack, id+" [") {
			return g.state
		}
	}
	return ""
}

type goroutineInfo struct {
	state string
	stack string
}

var (
	dumpMu  sync.Mutex
	dumpBuf = make([]byte, 1<<18)
)

// goroutineDump returns one consistent snapshot of all goroutines.
func goroutineDump() []goroutineInfo {
	dumpMu.Lock()
	defer dumpMu.Unlock()
	var text string
	for {
		n := runtime.Stack(dumpBuf, true)
		if n < len(dumpBuf) {
			text = string(dumpBuf[:n])
			break
		}
		dumpBuf = make([]byte, 2*len(dumpBuf))
	}
	var out []goroutineInfo
	for _, block := range strings.Split(text, "\n\n") {
		head, _, _ := strings.Cut(block, "\n")
		// "goroutine 12 [sync.Mutex.Lock, 2 minutes]:"
		i := strings.Index(head, "[")
		j := strings.LastIndex(head, "]")
		if !strings.HasPrefix(head, "goroutine ") || i < 0 || j < i {
			continue
		}
		state := head[i+1 : j]
		if k := strings.Index(state, ","); k >= 0 {
			state = state[:k]
		}
		out = append(out, goroutineInfo{state: state, stack: block})
	}
	return out
}

func isMutexWait(state string) bool {
	return strings.HasPrefix(state, "sync.Mutex.Lock") || strings.HasPrefix(state, "sync.RWMutex.") || state == "semacquire"
}

// record runs one call and logs the event the trace specification
// judges: call name, outcome class and whether every known lock is free.
// It returns false if the trace must end (hang or leaked lock).
func (e *env) record(obj, call, variant string, f func() string) bool {
	res, hung := runWatched(f)
	e.faults.clear()
	if hung {
		hangCount.Add(1)
		e.tr.Emit(common.Ev{"ev": "hang", "obj": obj, "call": call, "variant": variant})
		return false
	}
	e.discover()
	busy := e.busy()
	if res.panic != "" {
		e.tr.Emit(common.Ev{"ev": "panic", "obj": obj, "call": call, "variant": variant, "msg": res.panic, "locks_free": len(busy) == 0, "busy": busy})
		return false
	}
	e.tr.Emit(common.Ev{"ev": "call", "obj": obj, "call": call, "variant": variant, "outcome": res.outcome, "locks_free": len(busy) == 0, "busy": busy})
	if len(busy) != 0 {
		return false
	}
	return e.probeFUSE(call)
}

// probeFUSE: the lock of the FUSE handle allocator has no TryLock hook.
// It is probed by the next call of the real code that needs it
// exclusively: RegisterRemovalNotifier must return (a lock left behind by
// the previous call makes it wait for ever, which blockedKind reports).
//
// The first notifier that is registered models the FUSE kernel (see
// kernelRemovalNotifier); the fixtures are built before it exists, so a
// directory that notifies while no notifier is registered is seen too.
func (e *env) probeFUSE(after string) bool {
	if e.fuseAllocator == nil {
		return true
	}
	notifier := virtual.FUSERemovalNotifier(func(parent uint64, name path.Component) {})
	if e.kernelRegistered.CompareAndSwap(false, true) {
		notifier = e.kernelRemovalNotifier
	}
	_, hung := runWatched(func() string {
		e.fuseAllocator.RegisterRemovalNotifier(notifier)
		return "ok"
	})
	if hung {
		hangCount.Add(1)
		e.tr.Emit(common.Ev{"ev": "hang", "obj": "handle", "call": "RegisterRemovalNotifier", "variant": "after=" + after})
		return false
	}
	return true
}

// inodeNumberOf returns the inode number of a directory (an attribute
// that is obtained without taking the directory's lock); 0 if it has none.
func inodeNumberOf(d virtual.PrepopulatedDirectory) (n uint64) {
	defer func() { recover() }()
	var out virtual.Attributes
	d.VirtualGetAttributes(ctxBG, virtual.AttributesMaskInodeNumber, &out)
	return out.GetInodeNumber()
}

// kernelRemovalNotifier is the environment of the FUSE handle allocator:
// what the FUSE server registers sends FUSE_NOTIFY_INVAL_ENTRY/DELETE to
// the kernel, which needs the inode lock of the parent directory; a
// LOOKUP in that directory holds the same inode lock until the server
// has answered it, and the server answers it under the mutex of the
// directory. So the delivery of a notification about directory D can
// only complete if the mutex of D can be acquired while it is pending.
// The model performs that LOOKUP itself: VirtualLookup of an unrelated
// name with the attributes the FUSE server always asks for. A call that
// notifies while it holds D's mutex never returns (and is reported as a
// hang of that call from a goroutine snapshot, like every other hang).
func (e *env) kernelRemovalNotifier(parent uint64, name path.Component) {
	e.removalsNotified.Add(1)
	var d virtual.PrepopulatedDirectory
	index := -1
	for i, c := range e.snapshotDirs() {
		if inodeNumberOf(c) == parent {
			d, index = c, i
			break
		}
	}
	if d != nil {
		var out virtual.Attributes
		d.VirtualLookup(ctxBG, comp("unrelated-kernel-lookup"), virtual.AttributesMaskInodeNumber|virtual.AttributesMaskFileType, &out)
	}
	if e.logNotifications {
		e.tr.Emit(common.Ev{"ev": "notify", "obj": "dir", "dir": index, "name": name.String(), "lookup_done": d != nil})
	}
}

// ---------------------------------------------------------------------------
// Outcome classes.

var statusNames = map[virtual.Status]string{
	virtual.StatusOK:             "OK",
	virtual.StatusErrAccess:      "ErrAccess",
	virtual.StatusErrBadHandle:   "ErrBadHandle",
	virtual.StatusErrExist:       "ErrExist",
	virtual.StatusErrInval:       "ErrInval",
	virtual.StatusErrIO:          "ErrIO",
	virtual.StatusErrIsDir:       "ErrIsDir",
	virtual.StatusErrNoEnt:       "ErrNoEnt",
	virtual.StatusErrNotDir:      "ErrNotDir",
	virtual.StatusErrNotEmpty:    "ErrNotEmpty",
	virtual.StatusErrNXIO:        "ErrNXIO",
	virtual.StatusErrPerm:        "ErrPerm",
	virtual.StatusErrROFS:        "ErrROFS",
	virtual.StatusErrStale:       "ErrStale",
	virtual.StatusErrSymlink:     "ErrSymlink",
	virtual.StatusErrWrongType:   "ErrWrongType",
	virtual.StatusErrXDev:        "ErrXDev",
	virtual.StatusErrNameTooLong: "ErrNameTooLong",
}

func st(s virtual.Status) string {
	if n, ok := statusNames[s]; ok {
		return n
	}
	return fmt.Sprintf("Status%d", int(s))
}

func errClass(err error) string {
	if err == nil {
		return "ok"
	}
	var errno syscall.Errno
	if errors.As(err, &errno) {
		switch errno {
		case syscall.ENOENT:
			return "ENOENT"
		case syscall.EEXIST:
			return "EEXIST"
		case syscall.ENOTEMPTY:
			return "ENOTEMPTY"
		}
		return fmt.Sprintf("errno%d", int(errno))
	}
	if errors.Is(err, errInjected) {
		return "fetch-error"
	}
	return "error"
}
