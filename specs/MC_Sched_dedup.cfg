SPECIFICATION Spec
CONSTANTS
  Workers = {w1}
  Clients = {c1, c2}
  Digests = {d1, d2}
  NoCache = {d2}
  Invs = {"i1", "i2"}
  MaxTasks = 2
  MaxOps = 2
  RetryLimit = 1
  Predeclared = TRUE
  AllowRequeue = TRUE
  Features = {"fail"}
INVARIANTS
  TypeOK
  C01_Design
  C01_NoQueueNoTasks
  C03_Design
  C04_Design
  C02_Messages
  C03_SameFinal
  C06_Final
PROPERTIES
  C01_Told
  C05_Drains
VIEW View
SYMMETRY Symm
CHECK_DEADLOCK FALSE
