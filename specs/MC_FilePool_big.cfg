SPECIFICATION Spec
CONSTANTS
  Files = {1, 2}
  MO = 4
  SS = 2
  NSec = 3
  MaxFilesQ = 2
  MaxBytesQ = 6
  MaxFaults = 0
  PatLen = 3
  PatByte = 7
INVARIANTS
  TypeOK
  C15_NoSectorOwnedTwice
  C15_ReadsDenoteFile
  C15_Isolation
  C15_SectorsMatchData
  C15_Conservation
VIEW
  View
CHECK_DEADLOCK FALSE
