"""C17 — VFS: the input root is exactly the requested tree and cannot be altered
(reference model InputRootOps.tla / InputRoot.tla)."""
import json

from lib import vlib

OPS = "InputRootOps.tla"
SPEC = "InputRoot.tla"
MC = "InputRootMC.tla"
TRACE = "InputRootTrace.tla"
TRACE_CFG = "Trace_InputRoot.cfg"


def _drive(ctx, binary, label, n, steps, dirs, seed_offset=0, test="TestRandom"):
    out = ctx.sub(label)
    rc, o = vlib.run_driver(binary, test, out, ctx.seed + seed_offset,
                            env={"VERIF_N": n, "VERIF_STEPS": steps, "VERIF_DIRS": dirs})
    if rc != 0:
        raise vlib.Infra("inputroot driver failed:\n" + o[-3000:])
    vlib.validate_traces(ctx, out + "/trace.ndjson", TRACE, TRACE_CFG, [OPS], label,
                         classify=vlib.classify_for(ctx.prop), timeout=2400)
    if not ctx.cov["samples"]:
        ctx.cov["samples"] += [s for s in vlib.sample_lines(out + "/trace.ndjson", 12, maxlen=300)
                               if not (isinstance(s, dict) and s.get("ev") == "reset")][:6]
    return json.load(open(out + "/meta.json"))


def run(ctx):
    # 1. design check: the lazily materialised tree, explored in every order,
    #    interleaved with local modifications and a storage error, is the
    #    denotation of the root digest overlaid with the modifications;
    #    malformed/missing directories only ever produce errors; CAS files
    #    refuse alteration.
    vlib.design_check(ctx, MC, "MC_InputRoot.cfg", [OPS, SPEC], timeout=2400, workers=4, heap="2g")
    vlib.design_check(ctx, MC, "MC_InputRoot_two.cfg", [OPS, SPEC], timeout=2400, workers=4, heap="2g")
    if not ctx.quick():
        vlib.design_check(ctx, MC, "MC_InputRoot_deep.cfg", [OPS, SPEC], timeout=3000, workers=4, heap="2g")
    # 2. conformance of the real input root
    binary = vlib.go_build_test(ctx, "inputroot")
    metas = []
    # every kind of malformed Directory message, as a child directory, as the
    # input root itself and inside a Tree object (deterministic; the random
    # scenarios below reach a given kind only now and then)
    metas.append(_drive(ctx, binary, "gallery", 0, 0, 0, test="TestGallery"))
    if ctx.quick():
        metas.append(_drive(ctx, binary, "random", 60, 60, 7))
    else:
        metas.append(_drive(ctx, binary, "random", 450, 70, 7))
        metas.append(_drive(ctx, binary, "deep", 220, 120, 12, seed_offset=7919))
    ctx.assumptions += [
        "one goroutine drives each scenario: a directory is never loaded by two callers at once",
        "case-sensitive component normalizer, no hidden-files pattern (bb_worker defaults)",
        "symlink targets are in the canonical form path.Resolve produces (REv2 requires canonical targets)",
        "an injected storage error excuses the failure of the operation it was injected into, nothing else",
        "incomplete Tree objects are generated only without CachingDirectoryFetcher (the cache may legitimately "
        "serve a child that is missing from the Tree but known by digest)",
        "native build directories (naiveBuildDirectory / HardlinkingFileFetcher) are out of scope",
    ]
    return vlib.finish(
        ctx,
        rule="TLC explores the reference model exhaustively (4+ Directory messages forming a DAG, depth 3, malformed/missing/"
             "invalid-name/bad-digest messages, one storage error, every exploration order interleaved with local "
             "modifications; two actions over one CAS, one rooted in a Tree). The real input root (virtualBuildDirectory."
             "MergeDirectoryContents -> CASInitialContentsFetcher -> stateless handle allocating / BlobAccess CAS file "
             "factories, BlobAccess + caching directory fetchers, FUSE and NFS handle allocators) is driven over a gallery "
             "of every kind of malformed Directory message (each invalid name x each list, duplicates within and across "
             "lists, each unparsable digest, absent, junk; as child directory, as input root, inside a Tree) and over seeded "
             "random Directory DAGs in an in-memory CAS with injected storage errors through the kernel-facing and "
             "worker-facing APIs, interleaved with local modifications and attempts to alter CAS-backed files; TLC "
             "recomputes for every logged reply what Denotation(root digest) overlaid with the modifications prescribes "
             "and compares; every blob is read back at the end. Distinct = distinct spec states + validated events.",
        explanation="reference-model conformance of the lazily loaded input root",
        exhaustive=True,
        extra={"driver": metas},
    )


def replay(ctx, path):
    vlib.validate_traces(ctx, path, TRACE, TRACE_CFG, [OPS], "replay", classify=vlib.classify_for(ctx.prop))
    return vlib.finish(ctx, rule="replay of a saved trace", explanation="replay")
