--------------------------- MODULE LockPileTrace ---------------------------
(***************************************************************************)
(* Validates traces of the real re_sync.LockPile running over gated,       *)
(* instrumented TryLocker fakes (harness/locks/locks_test.go) against      *)
(* LockPile.tla.                                                           *)
(*                                                                         *)
(* Two layers:                                                             *)
(*  - observation layer (oown, want, ...): who owns which TryLocker        *)
(*    according to the primitive operations seen, and which locks the      *)
(*    calls made so far oblige a thread to hold.  The C14 predicates are   *)
(*    evaluated on this layer only, so they do not depend on how the       *)
(*    implementation orders its primitive operations.                      *)
(*  - algorithm layer (the variables of LockPile.tla): every primitive     *)
(*    operation must be the one the algorithm in the specification         *)
(*    performs next.  A mismatch is a non-conformance (counted, the layer  *)
(*    is switched off until the next reset), not a property failure.       *)
(***************************************************************************)
EXTENDS LockPile, Json, TLCExt

TraceLog == ndJsonDeserialize("trace.ndjson")

VARIABLES l,        \* next line of TraceLog
          verdict,  \* "ok" or "<PID>:<reason>"
          oown,     \* observed owner of every TryLocker
          want,     \* [Threads -> [Locks -> Nat]]: entries the calls put in the pile
          inop,     \* [Threads -> "none" | "lock" | "unlock" | "unlockall"]
          entry,    \* [Threads -> set of locks held when the current call began]
          relE,     \* the current call unlocked a lock held at its beginning
          relA,     \* the current call unlocked something
          waitfor,  \* [Threads -> lock of the blocking Lock() in progress, or None]
          lost,     \* the algorithm layer lost track of the implementation
          nonconf   \* number of non-conforming traces so far

ovars == <<oown, want, inop, entry, relE, relA, waitfor>>
tvars == <<vars, l, verdict, ovars, lost, nonconf>>

Line == TraceLog[l]
IsEvent(e) == l <= Len(TraceLog) /\ Line.ev = e /\ l' = l + 1

OHeld(t) == {k \in Locks : oown[k] = t}
Wanted(w, t) == {k \in Locks : w[t][k] > 0}

SeqToSet(s) == {s[i] : i \in 1 .. Len(s)}
KnownT(t) == t \in Threads
KnownL(k) == k \in Locks

OInit ==
  /\ oown = [k \in Locks |-> None]
  /\ want = [t \in Threads |-> [k \in Locks |-> 0]]
  /\ inop = [t \in Threads |-> "none"]
  /\ entry = [t \in Threads |-> {}]
  /\ relE = [t \in Threads |-> FALSE]
  /\ relA = [t \in Threads |-> FALSE]
  /\ waitfor = [t \in Threads |-> None]

TInit == Init /\ OInit /\ l = 1 /\ verdict = "ok" /\ lost = FALSE /\ nonconf = 0

\* Algorithm layer: perform `action` if its guard holds, else lose track.
Follow(guard, action) ==
  IF lost THEN UNCHANGED <<vars, lost, nonconf>>
  ELSE IF guard THEN action /\ UNCHANGED <<lost, nonconf>>
  ELSE UNCHANGED vars /\ lost' = TRUE /\ nonconf' = nonconf + 1

TReset ==
  /\ IsEvent("reset")
  /\ owner' = [k \in Locks |-> None] /\ pile' = NoPile
  /\ pc' = [t \in Threads |-> "idle"] /\ acq' = [t \in Threads |-> 0]
  /\ cwu' = [t \in Threads |-> TRUE] /\ ui' = [t \in Threads |-> 0]
  /\ tgt' = [t \in Threads |-> None] /\ didrel' = [t \in Threads |-> FALSE]
  /\ calls' = [t \in Threads |-> 0]
  /\ oown' = [k \in Locks |-> None]
  /\ want' = [t \in Threads |-> [k \in Locks |-> 0]]
  /\ inop' = [t \in Threads |-> "none"]
  /\ entry' = [t \in Threads |-> {}]
  /\ relE' = [t \in Threads |-> FALSE]
  /\ relA' = [t \in Threads |-> FALSE]
  /\ waitfor' = [t \in Threads |-> None]
  /\ verdict' = "ok" /\ lost' = FALSE /\ UNCHANGED nonconf

\* A call of the LockPile API begins.
TCall ==
  /\ IsEvent("call")
  /\ LET t == Line.t  op == Line.op  ls == Line.ls IN
       /\ inop' = [inop EXCEPT ![t] = op]
       /\ entry' = [entry EXCEPT ![t] = OHeld(t)]
       /\ relE' = [relE EXCEPT ![t] = FALSE]
       /\ relA' = [relA EXCEPT ![t] = FALSE]
       /\ want' = [want EXCEPT ![t] =
            CASE op = "lock" ->
                   [k \in Locks |-> @[k] + Cardinality({i \in 1 .. Len(ls) : ls[i] = k})]
              [] op = "unlock" ->
                   [k \in Locks |-> IF k = ls[1] /\ @[k] > 0 THEN @[k] - 1 ELSE @[k]]
              [] OTHER -> [k \in Locks |-> 0]]
       /\ verdict' =
            IF inop[t] # "none" THEN "NC:driver-call-while-in-call"
            ELSE IF op = "unlock" /\ want[t][ls[1]] = 0 THEN "NC:driver-unlock-of-lock-not-in-pile"
            ELSE IF op = "lock" /\ Len(ls) = 0 THEN "NC:driver-lock-without-locks"
            ELSE "ok"
       /\ CASE op = "lock" -> Follow(pc[t] = "idle" /\ Len(ls) > 0, DoCallLock(t, ls))
            [] op = "unlock" -> Follow(pc[t] = "idle" /\ Has(pile[t], ls[1]), DoCallUnlock(t, ls[1]))
            [] OTHER -> Follow(pc[t] = "idle", DoCallUnlockAll(t))
  /\ UNCHANGED <<oown, waitfor>>

\* TryLock() returned.
TTry ==
  /\ IsEvent("try")
  /\ LET t == Line.t  k == Line.l  ok == Line.ok IN
       /\ oown' = IF ok THEN [oown EXCEPT ![k] = t] ELSE oown
       /\ verdict' =
            IF ok /\ oown[k] # None THEN "NC:fake-granted-a-held-lock"
            ELSE IF ~ok /\ oown[k] = None THEN "NC:fake-refused-a-free-lock"
            ELSE "ok"
       /\ IF ok THEN Follow(CanTry(t) /\ NextLock(t) = k /\ owner[k] = None, TryOk(t))
          ELSE Follow(CanTry(t) /\ NextLock(t) = k /\ owner[k] # None, TryFail(t))
  /\ UNCHANGED <<want, inop, entry, relE, relA, waitfor>>

\* A blocking Lock() began.
TLockStart ==
  /\ IsEvent("lock_start")
  /\ LET t == Line.t  k == Line.l IN
       /\ waitfor' = [waitfor EXCEPT ![t] = k]
       /\ verdict' = "ok"
       /\ Follow(CanBlockStart(t) /\ BlockLock(t) = k, BlockStart(t))
       \* Blocking while holding other locks is what the algorithm avoids;
       \* it is reported as a non-conformance (an implementation may have
       \* another way to exclude wait cycles); an observed deadlock is a
       \* property failure (TStuck).
  /\ UNCHANGED <<oown, want, inop, entry, relE, relA>>

\* A blocking Lock() returned.
TLockAcq ==
  /\ IsEvent("lock_acq")
  /\ LET t == Line.t  k == Line.l IN
       /\ oown' = [oown EXCEPT ![k] = t]
       /\ waitfor' = [waitfor EXCEPT ![t] = None]
       /\ verdict' = IF oown[k] # None THEN "NC:fake-granted-a-held-lock" ELSE "ok"
       /\ Follow(CanBlockAcq(t) /\ BlockLock(t) = k /\ owner[k] = None, BlockAcq(t))
  /\ UNCHANGED <<want, inop, entry, relE, relA>>

\* Unlock() of a TryLocker.
TUnlock ==
  /\ IsEvent("unlock")
  /\ LET t == Line.t  k == Line.l IN
       /\ oown' = [oown EXCEPT ![k] = None]
       /\ relA' = [relA EXCEPT ![t] = TRUE]
       /\ relE' = [relE EXCEPT ![t] = @ \/ k \in entry[t]]
       /\ verdict' = IF oown[k] # t THEN "C14:unlock-of-lock-not-held" ELSE "ok"
       /\ CASE pc[t] = "rel" -> Follow(CanRel(t) /\ RelLock(t) = k, Rel(t))
            [] pc[t] = "unl" -> Follow(CanUnlPrim(t) /\ tgt[t] = k, UnlPrim(t))
            [] pc[t] = "ua"  -> Follow(CanUAStep(t) /\ UALock(t) = k, UAStep(t))
            [] OTHER -> Follow(FALSE, UNCHANGED vars)
  /\ UNCHANGED <<want, inop, entry, waitfor>>

\* A call returned: the call boundary at which the pile must be exactly
\* what is held, and Lock() must have told the truth.
TRet ==
  /\ IsEvent("ret")
  /\ LET t == Line.t  op == Line.op  val == Line.val IN
       /\ inop' = [inop EXCEPT ![t] = "none"]
       /\ verdict' =
            IF OHeld(t) \ Wanted(want, t) # {} THEN "C14:lock-leaked-after:" \o op
            ELSE IF Wanted(want, t) \ OHeld(t) # {} THEN "C14:pile-lock-not-held-after:" \o op
            ELSE IF op = "lock" /\ val /\ relE[t] THEN "C14:lock-returned-true-after-releasing-held-lock"
            ELSE IF op = "lock" /\ ~val /\ ~relA[t] THEN "NC:lock-returned-false-without-unlocking"
            ELSE "ok"
       /\ CASE op = "lock" -> Follow(CanRetLock(t) /\ cwu[t] = val, RetLock(t))
            [] op = "unlock" -> Follow(pc[t] = "retv", RetVoid(t))
            [] OTHER -> Follow(CanUARet(t), UARet(t))
  /\ UNCHANGED <<oown, want, entry, relE, relA, waitfor>>

\* The scheduler found no thread that can take a step although calls are
\* in flight: every such thread is inside a blocking Lock() of a lock that
\* is held.  This is a deadlock of the real code.
TStuck ==
  /\ IsEvent("stuck")
  /\ verdict' =
       IF \E t \in Threads : waitfor[t] # None /\ oown[waitfor[t]] # None
       THEN "C14:deadlock"
       ELSE "NC:stuck-without-blocked-thread"
  /\ UNCHANGED <<vars, ovars, lost, nonconf>>

\* The real code panicked inside a call (preconditions are respected by
\* the driver): whatever it held stays locked.
TPanic ==
  /\ IsEvent("panic")
  /\ verdict' = "C14:panic-in-lockpile:" \o Line.op
  /\ UNCHANGED <<vars, ovars, lost, nonconf>>

\* The driver gave up on a schedule that became too long.  Whether the
\* calls in flight would have returned is unknown (the schedule of the
\* driver is not a fair one): reported as a non-conformance, never as a
\* property failure.  It does not happen with the algorithm of LockPile.tla.
TCut ==
  /\ IsEvent("cut")
  /\ verdict' = "NC:schedule-cut-before-all-calls-returned"
  /\ UNCHANGED <<vars, ovars, lost, nonconf>>

TNext == TReset \/ TCall \/ TTry \/ TLockStart \/ TLockAcq \/ TUnlock \/ TRet
         \/ TStuck \/ TPanic \/ TCut

TraceSpec == TInit /\ [][TNext]_tvars

-----------------------------------------------------------------------------
VerdictOK == verdict = "ok"

\* Mutual exclusion and the call-boundary invariant on the observation
\* layer (also expressed through verdicts above; kept as invariants so a
\* failure names the clause).
C14_ObservedBoundary ==
  \A t \in Threads : inop[t] = "none" => OHeld(t) = Wanted(want, t)

Accepted ==
  /\ TLCGet("stats").diameter - 1 = Len(TraceLog)
  /\ PrintT(<<"TRACE_ACCEPTED", Len(TraceLog)>>)

NonconfReport == (l <= Len(TraceLog)) \/ PrintT(<<"NONCONF", nonconf>>)
=============================================================================
