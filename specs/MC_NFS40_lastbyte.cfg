SPECIFICATION Spec
CONSTANTS
  Lease = 1
  NB = 2
  Clients = {}
  Verifs = {1}
  OKeys = {"o1"}
  LKeys = {"l1", "l2"}
  Names = {"a"}
  Ops = {"OPEN", "OPEN_CONFIRM", "CLOSE", "LOCK", "LOCKU", "LOCKT"}
  Shares = {3}
  Hows = {"UNCHECKED"}
  SeqDev <- DevNone
  SidDev <- DevNone
  WrongFh = FALSE
  RangeSet <- RangesLast
  LockTypes = {"R", "W"}
  TickSet = {}
  PreClients = {1}
  GateOpen = "none"
  FirstSeqs <- FirstOne
  LaxSet = {"cache"}
  RejSet = {"", "BAD_RANGE"}
  AnonOps = {}
  MaxLSeq = 2
  MaxConf = 1
  MaxSid = 3
  MaxFile = 1
  MaxSeq = 4
  MaxClock = 0
  MaxIO = 0
CONSTRAINT Bounded
INVARIANTS
  Inv_C18_Balance
  Inv_C18_Counts
  Inv_C18_Reach
  Inv_C18_Struct
  Inv_C18_Final
  Inv_C20_LockCount
  Inv_C20_Exclusion
PROPERTIES
  Act_C19_Once
  Act_C19_Same
  Act_C19_Misordered
  Act_C19_FalseRetry
  Act_C19_LaxRetry
  Act_C18_StateIds
  Act_C20_Replies
VIEW StateView
CHECK_DEADLOCK FALSE
