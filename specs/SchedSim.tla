------------------------------ MODULE SchedSim ------------------------------
(***************************************************************************)
(* Spec -> code: behaviours of the design model Sched.tla, written out as  *)
(* sequences of labelled actions (with the abstract state each action must *)
(* lead to) for replay on the real InMemoryBuildQueue                      *)
(* (harness/sched TestReplayDesign).  Run with tlc -simulate.              *)
(***************************************************************************)
EXTENDS Sched, Json

CONSTANT SimDepth
VARIABLE hist

Abs == [stages |-> [t \in TaskId |-> task'[t].stage],
        workers |-> [t \in TaskId |-> IF task'[t].worker = "" THEN "" ELSE ToString(task'[t].worker)],
        alive |-> [o \in OpId |-> op'[o].alive]]

Rec(a, x, y, z, k) == [a |-> a, x |-> x, y |-> y, z |-> z, k |-> k, abs |-> Abs]

SimInit == Init /\ hist = <<>>

SimNext ==
  \/ \E c \in Clients, d \in Digests, i \in Invs : Execute(c, d, i) /\ hist' = Append(hist, Rec("Execute", ToString(c), ToString(d), i, 0))
  \/ F("wait") /\ \E c \in Clients, o \in OpId : WaitExecution(c, o) /\ hist' = Append(hist, Rec("WaitExecution", ToString(c), "", "", o))
  \/ \E c \in Clients : StreamSend(c) /\ hist' = Append(hist, Rec("StreamSend", ToString(c), "", "", 0))
  \/ \E c \in Clients : StreamWake(c) /\ hist' = Append(hist, Rec("StreamWake", ToString(c), "", "", 0))
  \/ \E c \in Clients : StreamFin(c) /\ hist' = Append(hist, Rec("StreamFin", ToString(c), "", "", 0))
  \/ F("cancel") /\ \E c \in Clients : ClientCancel(c) /\ hist' = Append(hist, Rec("ClientCancel", ToString(c), "", "", 0))
  \/ F("sendfail") /\ \E c \in Clients : StreamSendFails(c) /\ hist' = Append(hist, Rec("StreamSendFails", ToString(c), "", "", 0))
  \/ \E w \in Workers,
        k \in {"idle", "executing", "completed"} \cup (IF F("wrong") THEN {"wrong"} ELSE {}),
        p \in (IF F("preferidle") THEN BOOLEAN ELSE {FALSE}),
        g \in (IF F("fail") THEN BOOLEAN ELSE {TRUE}) :
          SyncEnter(w, k, p, g) /\ hist' = Append(hist, Rec("SyncEnter", ToString(w), k, IF p THEN "prefer" ELSE "", IF g THEN 1 ELSE 0))
  \/ \E w \in Workers, r \in {"assigned", "drainchange", "timeout"} : SyncWake(w, r) /\ hist' = Append(hist, Rec("SyncWake", ToString(w), r, "", 0))
  \/ F("kill") /\ \E o \in OpId : KillOperation(o) /\ hist' = Append(hist, Rec("KillOperation", "", "", "", o))
  \/ F("drain") /\ \E w \in Workers : AddDrain(w) /\ hist' = Append(hist, Rec("AddDrain", ToString(w), "", "", 0))
  \/ F("drain") /\ \E w \in Workers : RemoveDrain(w) /\ hist' = Append(hist, Rec("RemoveDrain", ToString(w), "", "", 0))
  \/ F("terminate") /\ \E w \in Workers : TerminateWorker(w) /\ hist' = Append(hist, Rec("TerminateWorker", ToString(w), "", "", 0))

SimSpec == SimInit /\ [][SimNext]_<<vars, hist>>

\* Depth-triggered output: one file per simulated behaviour.
Dump ==
  Len(hist) < SimDepth \/
    ndJsonSerialize("beh_" \o ToString(TLCGet("stats").traces) \o ".ndjson", hist)
=============================================================================
