package nfs41

import (
	"bytes"
	"context"
	"crypto/sha256"
	"encoding/binary"
	"encoding/hex"
	"fmt"
	"math"
	"runtime/debug"
	"strings"
	"testing/synctest"

	"github.com/buildbarn/go-xdr/pkg/protocols/nfsv4"

	"verif/harness/common"
)

var allNames = []string{"a", "b", "c"}

// sid is a state ID argument.
type sid struct {
	kind  string // reg, anon, bypass, cur, junk, inval
	other uint64
	seq   uint32
}

func (s sid) wire() nfsv4.Stateid4 {
	var w nfsv4.Stateid4
	switch s.kind {
	case "anon":
	case "bypass":
		w.Seqid = nfsv4.NFS4_UINT32_MAX
		for i := range w.Other {
			w.Other[i] = 0xff
		}
	case "cur":
		w.Seqid = 1
	case "inval":
		w.Seqid = nfsv4.NFS4_UINT32_MAX
	case "junk":
		w.Seqid = s.seq
		binary.LittleEndian.PutUint64(w.Other[:], s.other)
		w.Other[10] = 0x5a
	default:
		w.Seqid = s.seq
		binary.LittleEndian.PutUint64(w.Other[:], s.other)
	}
	return w
}

func sidOfWire(w nfsv4.Stateid4) sid {
	if w == (nfsv4.Stateid4{}) {
		return sid{kind: "anon"}
	}
	if w == (nfsv4.Stateid4{Seqid: nfsv4.NFS4_UINT32_MAX}) {
		return sid{kind: "inval"}
	}
	if w.Other[8] != 0 || w.Other[9] != 0 || w.Other[10] != 0 || w.Other[11] != 0 {
		return sid{kind: "junk", other: binary.LittleEndian.Uint64(w.Other[:]), seq: w.Seqid}
	}
	return sid{kind: "reg", other: binary.LittleEndian.Uint64(w.Other[:]), seq: w.Seqid}
}

func (e *env) sidEv(s sid) map[string]any {
	switch s.kind {
	case "reg", "junk":
		return map[string]any{"k": s.kind, "o": e.other(s.other), "q": clampU32(s.seq)}
	}
	return map[string]any{"k": s.kind, "o": 0, "q": 0}
}

var noSidEv = map[string]any{"k": "none", "o": 0, "q": 0}

// Op is one operation of a COMPOUND (everything after SEQUENCE).
type Op struct {
	Name  string
	FH    []byte // PUTFH
	Nm    string // LOOKUP, OPEN CLAIM_NULL, REMOVE, RENAME old name
	Nm2   string // RENAME new name
	OO    string
	LO    string
	Share uint32
	Deny  uint32
	How   string // NOCREATE UNCHECKED UNCHECKED_TRUNC GUARDED EXCLUSIVE4 EXCLUSIVE4_1
	Claim string // NULL FH PREVIOUS PREVIOUS_DELEG DELEGATE_CUR DELEGATE_PREV
	Sid   sid
	Sid2  sid // LOCK with a new lock-owner: the open state ID
	Sids  []sid
	LT    string // R W RW WW BAD
	RK    string // range len0 overflow exact last last1
	S, E  int
	NewO  bool
	Off   uint64
	Cnt   uint32
	Data  []byte
	Size  uint64
}

func lockType(lt string) nfsv4.NfsLockType4 {
	switch lt {
	case "R":
		return nfsv4.READ_LT
	case "W":
		return nfsv4.WRITE_LT
	case "RW":
		return nfsv4.READW_LT
	case "WW":
		return nfsv4.WRITEW_LT
	}
	return nfsv4.NfsLockType4(7)
}

func offLen(rk string, s, e int) (uint64, uint64) {
	switch rk {
	case "len0":
		return pos(s), 0
	case "overflow":
		return pos(s), math.MaxUint64 - pos(s) + 1
	case "exact":
		return pos(s), math.MaxUint64 - pos(s)
	case "last":
		// exactly the byte at offset 2^64-1 ("through end of file")
		return math.MaxUint64, math.MaxUint64
	case "last1":
		// the same byte with an explicit length: offset+length overflows
		return math.MaxUint64, 1
	}
	if e >= nPos {
		return pos(s), math.MaxUint64
	}
	return pos(s), pos(e) - pos(s)
}

func sizeAttr(size uint64) nfsv4.Fattr4 {
	v := make([]byte, 8)
	binary.BigEndian.PutUint64(v, size)
	return nfsv4.Fattr4{Attrmask: []uint32{1 << nfsv4.FATTR4_SIZE}, AttrVals: v}
}

func (o *Op) build() nfsv4.NfsArgop4 {
	switch o.Name {
	case "PUTROOTFH":
		return &nfsv4.NfsArgop4_OP_PUTROOTFH{}
	case "PUTFH":
		return &nfsv4.NfsArgop4_OP_PUTFH{Opputfh: nfsv4.Putfh4args{Object: o.FH}}
	case "GETFH":
		return &nfsv4.NfsArgop4_OP_GETFH{}
	case "SAVEFH":
		return &nfsv4.NfsArgop4_OP_SAVEFH{}
	case "RESTOREFH":
		return &nfsv4.NfsArgop4_OP_RESTOREFH{}
	case "LOOKUP":
		return &nfsv4.NfsArgop4_OP_LOOKUP{Oplookup: nfsv4.Lookup4args{Objname: o.Nm}}
	case "OPEN":
		a := nfsv4.Open4args{
			ShareAccess: o.Share,
			ShareDeny:   o.Deny,
			Owner:       nfsv4.OpenOwner4{Owner: []byte(o.OO)},
		}
		switch o.How {
		case "NOCREATE":
			a.Openhow = &nfsv4.Openflag4_default{Opentype: nfsv4.OPEN4_NOCREATE}
		case "UNCHECKED":
			a.Openhow = &nfsv4.Openflag4_OPEN4_CREATE{How: &nfsv4.Createhow4_UNCHECKED4{}}
		case "UNCHECKED_TRUNC":
			a.Openhow = &nfsv4.Openflag4_OPEN4_CREATE{How: &nfsv4.Createhow4_UNCHECKED4{Createattrs: sizeAttr(0)}}
		case "GUARDED":
			a.Openhow = &nfsv4.Openflag4_OPEN4_CREATE{How: &nfsv4.Createhow4_GUARDED4{}}
		case "EXCLUSIVE4":
			a.Openhow = &nfsv4.Openflag4_OPEN4_CREATE{How: &nfsv4.Createhow4_EXCLUSIVE4{Createverf: [8]byte{9}}}
		default:
			a.Openhow = &nfsv4.Openflag4_OPEN4_CREATE{How: &nfsv4.Createhow4_EXCLUSIVE4_1{ChCreateboth: nfsv4.Creatverfattr{CvaVerf: [8]byte{9}}}}
		}
		switch o.Claim {
		case "NULL":
			a.Claim = &nfsv4.OpenClaim4_CLAIM_NULL{File: o.Nm}
		case "FH":
			a.Claim = &nfsv4.OpenClaim4_CLAIM_FH{}
		case "PREVIOUS":
			a.Claim = &nfsv4.OpenClaim4_CLAIM_PREVIOUS{DelegateType: nfsv4.OPEN_DELEGATE_NONE}
		case "PREVIOUS_DELEG":
			a.Claim = &nfsv4.OpenClaim4_CLAIM_PREVIOUS{DelegateType: nfsv4.OPEN_DELEGATE_READ}
		case "DELEGATE_CUR":
			a.Claim = &nfsv4.OpenClaim4_CLAIM_DELEGATE_CUR{DelegateCurInfo: nfsv4.OpenClaimDelegateCur4{File: o.Nm}}
		default:
			a.Claim = &nfsv4.OpenClaim4_CLAIM_DELEGATE_PREV{FileDelegatePrev: o.Nm}
		}
		return &nfsv4.NfsArgop4_OP_OPEN{Opopen: a}
	case "OPEN_DOWNGRADE":
		return &nfsv4.NfsArgop4_OP_OPEN_DOWNGRADE{OpopenDowngrade: nfsv4.OpenDowngrade4args{OpenStateid: o.Sid.wire(), ShareAccess: o.Share, ShareDeny: o.Deny}}
	case "CLOSE":
		return &nfsv4.NfsArgop4_OP_CLOSE{Opclose: nfsv4.Close4args{OpenStateid: o.Sid.wire()}}
	case "LOCK":
		off, length := offLen(o.RK, o.S, o.E)
		a := nfsv4.Lock4args{Locktype: lockType(o.LT), Offset: off, Length: length}
		if o.NewO {
			a.Locker = &nfsv4.Locker4_TRUE{OpenOwner: nfsv4.OpenToLockOwner4{
				OpenStateid: o.Sid2.wire(),
				LockOwner:   nfsv4.LockOwner4{Owner: []byte(o.LO)},
			}}
		} else {
			a.Locker = &nfsv4.Locker4_FALSE{LockOwner: nfsv4.ExistLockOwner4{LockStateid: o.Sid.wire()}}
		}
		return &nfsv4.NfsArgop4_OP_LOCK{Oplock: a}
	case "LOCKT":
		off, length := offLen(o.RK, o.S, o.E)
		return &nfsv4.NfsArgop4_OP_LOCKT{Oplockt: nfsv4.Lockt4args{Locktype: lockType(o.LT), Offset: off, Length: length, Owner: nfsv4.LockOwner4{Owner: []byte(o.LO)}}}
	case "LOCKU":
		off, length := offLen(o.RK, o.S, o.E)
		return &nfsv4.NfsArgop4_OP_LOCKU{Oplocku: nfsv4.Locku4args{Locktype: lockType(o.LT), LockStateid: o.Sid.wire(), Offset: off, Length: length}}
	case "FREE_STATEID":
		return &nfsv4.NfsArgop4_OP_FREE_STATEID{OpfreeStateid: nfsv4.FreeStateid4args{FsaStateid: o.Sid.wire()}}
	case "TEST_STATEID":
		var l []nfsv4.Stateid4
		for _, s := range o.Sids {
			l = append(l, s.wire())
		}
		return &nfsv4.NfsArgop4_OP_TEST_STATEID{OptestStateid: nfsv4.TestStateid4args{TsStateids: l}}
	case "READ":
		return &nfsv4.NfsArgop4_OP_READ{Opread: nfsv4.Read4args{Stateid: o.Sid.wire(), Offset: o.Off, Count: o.Cnt}}
	case "WRITE":
		return &nfsv4.NfsArgop4_OP_WRITE{Opwrite: nfsv4.Write4args{Stateid: o.Sid.wire(), Offset: o.Off, Stable: nfsv4.FILE_SYNC4, Data: o.Data}}
	case "SETATTR":
		return &nfsv4.NfsArgop4_OP_SETATTR{Opsetattr: nfsv4.Setattr4args{Stateid: o.Sid.wire(), ObjAttributes: sizeAttr(o.Size)}}
	case "REMOVE":
		return &nfsv4.NfsArgop4_OP_REMOVE{Opremove: nfsv4.Remove4args{Target: o.Nm}}
	case "RENAME":
		return &nfsv4.NfsArgop4_OP_RENAME{Oprename: nfsv4.Rename4args{Oldname: o.Nm, Newname: o.Nm2}}
	case "SEQUENCE":
		// A SEQUENCE that is not the first operation.
		return &nfsv4.NfsArgop4_OP_SEQUENCE{}
	}
	panic("unknown op " + o.Name)
}

// fhNum maps a file handle to the number the specification uses: 0 for
// the root directory, n for file n, -2 for a well-formed handle that
// denotes nothing, -3 for a handle that is too short.
func (e *env) fhNum(h []byte) int {
	if len(h) < 8 {
		return -3
	}
	t := e.tokOfHandle(h)
	if t == "root" {
		return 0
	}
	if n := fileNo(t); n > 0 {
		return n
	}
	return -2
}

func (e *env) deniedEv(d *nfsv4.Lock4denied) map[string]any {
	end := nPos
	s := unpos(d.Offset)
	if d.Length != math.MaxUint64 {
		end = unpos(d.Offset + d.Length)
	}
	lt := "?"
	switch d.Locktype {
	case nfsv4.READ_LT:
		lt = "R"
	case nfsv4.WRITE_LT:
		lt = "W"
	}
	return map[string]any{"s": s, "e": end, "lt": lt, "lo": string(d.Owner.Owner), "cid": e.cid(d.Owner.Clientid)}
}

var noDenied = map[string]any{"s": 0, "e": 0, "lt": "", "lo": "", "cid": 0}

// opEvent reduces one (argument, result) pair to a trace event. Every
// event of a given name has the same set of fields.
func (e *env) opEvent(x int, o *Op, r nfsv4.NfsResop4) common.Ev {
	st := statusName(resopStatus(r))
	ev := common.Ev{"ev": o.Name, "x": x, "st": st, "rop": opName(r.GetResop())}
	switch o.Name {
	case "PUTFH":
		ev["fh"] = e.fhNum(o.FH)
	case "GETFH":
		ev["fh"] = -1
		if ok, is := r.(*nfsv4.NfsResop4_OP_GETFH); is {
			if rr, is := ok.Opgetfh.(*nfsv4.Getfh4res_NFS4_OK); is {
				ev["fh"] = e.fhNum(rr.Resok4.Object)
			}
		}
	case "LOOKUP":
		ev["name"] = o.Nm
	case "OPEN":
		ev["oo"], ev["share"], ev["deny"], ev["how"], ev["claim"], ev["name"] = o.OO, int(o.Share), int(o.Deny), o.How, o.Claim, o.Nm
		ev["rsid"], ev["rflags"] = noSidEv, 0
		if ok, is := r.(*nfsv4.NfsResop4_OP_OPEN); is {
			if rr, is := ok.Opopen.(*nfsv4.Open4res_NFS4_OK); is {
				ev["rsid"] = e.sidEv(sidOfWire(rr.Resok4.Stateid))
				ev["rflags"] = int(rr.Resok4.Rflags)
			}
		}
	case "OPEN_DOWNGRADE":
		ev["sid"], ev["share"], ev["deny"], ev["rsid"] = e.sidEv(o.Sid), int(o.Share), int(o.Deny), noSidEv
		if ok, is := r.(*nfsv4.NfsResop4_OP_OPEN_DOWNGRADE); is {
			if rr, is := ok.OpopenDowngrade.(*nfsv4.OpenDowngrade4res_NFS4_OK); is {
				ev["rsid"] = e.sidEv(sidOfWire(rr.Resok4.OpenStateid))
			}
		}
	case "CLOSE":
		ev["sid"], ev["rsid"] = e.sidEv(o.Sid), noSidEv
		if ok, is := r.(*nfsv4.NfsResop4_OP_CLOSE); is {
			if rr, is := ok.Opclose.(*nfsv4.Close4res_NFS4_OK); is {
				ev["rsid"] = e.sidEv(sidOfWire(rr.OpenStateid))
			}
		}
	case "LOCK":
		ev["lt"], ev["rk"], ev["s"], ev["e"], ev["newo"], ev["lo"] = o.LT, o.RK, o.S, o.E, o.NewO, o.LO
		ev["osid"], ev["lsid"], ev["rsid"], ev["den"] = e.sidEv(o.Sid2), e.sidEv(o.Sid), noSidEv, noDenied
		if !o.NewO {
			ev["osid"] = noSidEv
		} else {
			ev["lsid"] = noSidEv
		}
		if ok, is := r.(*nfsv4.NfsResop4_OP_LOCK); is {
			switch rr := ok.Oplock.(type) {
			case *nfsv4.Lock4res_NFS4_OK:
				ev["rsid"] = e.sidEv(sidOfWire(rr.Resok4.LockStateid))
			case *nfsv4.Lock4res_NFS4ERR_DENIED:
				ev["den"] = e.deniedEv(&rr.Denied)
			}
		}
	case "LOCKT":
		ev["lt"], ev["rk"], ev["s"], ev["e"], ev["lo"], ev["den"] = o.LT, o.RK, o.S, o.E, o.LO, noDenied
		if ok, is := r.(*nfsv4.NfsResop4_OP_LOCKT); is {
			if rr, is := ok.Oplockt.(*nfsv4.Lockt4res_NFS4ERR_DENIED); is {
				ev["den"] = e.deniedEv(&rr.Denied)
			}
		}
	case "LOCKU":
		ev["lt"], ev["rk"], ev["s"], ev["e"], ev["sid"], ev["rsid"] = o.LT, o.RK, o.S, o.E, e.sidEv(o.Sid), noSidEv
		if ok, is := r.(*nfsv4.NfsResop4_OP_LOCKU); is {
			if rr, is := ok.Oplocku.(*nfsv4.Locku4res_NFS4_OK); is {
				ev["rsid"] = e.sidEv(sidOfWire(rr.LockStateid))
			}
		}
	case "FREE_STATEID":
		ev["sid"] = e.sidEv(o.Sid)
	case "TEST_STATEID":
		sids := []map[string]any{}
		for _, s := range o.Sids {
			sids = append(sids, e.sidEv(s))
		}
		sts := []string{}
		if ok, is := r.(*nfsv4.NfsResop4_OP_TEST_STATEID); is {
			if rr, is := ok.OptestStateid.(*nfsv4.TestStateid4res_NFS4_OK); is {
				for _, c := range rr.TsrResok4.TsrStatusCodes {
					sts = append(sts, statusName(c))
				}
			}
		}
		ev["sids"], ev["sts"] = sids, sts
	case "READ":
		ev["sid"], ev["off"], ev["cnt"], ev["n"], ev["eof"], ev["data"] = e.sidEv(o.Sid), int(o.Off), int(o.Cnt), 0, false, ""
		if ok, is := r.(*nfsv4.NfsResop4_OP_READ); is {
			if rr, is := ok.Opread.(*nfsv4.Read4res_NFS4_OK); is {
				ev["n"], ev["eof"], ev["data"] = len(rr.Resok4.Data), rr.Resok4.Eof, string(rr.Resok4.Data)
			}
		}
	case "WRITE":
		ev["sid"], ev["off"], ev["data"], ev["n"] = e.sidEv(o.Sid), int(o.Off), string(o.Data), 0
		if ok, is := r.(*nfsv4.NfsResop4_OP_WRITE); is {
			if rr, is := ok.Opwrite.(*nfsv4.Write4res_NFS4_OK); is {
				ev["n"] = int(rr.Resok4.Count)
			}
		}
	case "SETATTR":
		ev["sid"], ev["size"] = e.sidEv(o.Sid), int(o.Size)
	case "REMOVE":
		ev["name"] = o.Nm
	case "RENAME":
		ev["old"], ev["new"] = o.Nm, o.Nm2
	}
	return ev
}

func shapeOf(ops []*Op) []string {
	s := []string{}
	for _, o := range ops {
		s = append(s, o.Name)
	}
	return s
}

// call invokes the server; a panic of the real code is caught and
// reported as text.
func (e *env) call(args *nfsv4.Compound4args) (res *nfsv4.Compound4res, pan string) {
	if e.panicked.Load() {
		// The server's state is undefined after a panic.
		return nil, "not sent: the server panicked earlier in this trace"
	}
	if e.stuck {
		// The request would block on the lock that was left held.
		return nil, "not sent: an earlier request left a server lock held"
	}
	defer func() {
		if r := recover(); r != nil {
			e.panicked.Store(true)
			pan = fmt.Sprint(r)
			if common.Env("VERIF_DEBUG", "") != "" {
				pan += "\n" + string(debug.Stack())
			}
		}
	}()
	res, err := e.prog.NfsV4Nfsproc4Compound(context.Background(), args)
	if err != nil {
		return nil, "error: " + err.Error()
	}
	return res, ""
}

func seqArgs(sess [16]byte, slot, seq uint32, cache bool, ops []*Op) *nfsv4.Compound4args {
	args := &nfsv4.Compound4args{Tag: "t", Minorversion: 1}
	args.Argarray = append(args.Argarray, &nfsv4.NfsArgop4_OP_SEQUENCE{Opsequence: nfsv4.Sequence4args{
		SaSessionid: sess, SaSequenceid: seq, SaSlotid: slot, SaHighestSlotid: nSlots - 1, SaCachethis: cache,
	}})
	for _, o := range ops {
		args.Argarray = append(args.Argarray, o.build())
	}
	return args
}

// argsHash identifies the complete content of a request (operation types
// and all arguments).
func argsHash(args *nfsv4.Compound4args) string {
	b := bytes.NewBuffer(nil)
	if _, err := args.WriteTo(b); err != nil {
		return "unencodable:" + err.Error()
	}
	h := sha256.Sum256(b.Bytes())
	return hex.EncodeToString(h[:8])
}

func (e *env) seqEvent(x int, sess [16]byte, slot, seq uint32, cache bool, ops []*Op, st string) common.Ev {
	return common.Ev{"ev": "seq", "x": x, "sid": e.sess(sess), "slot": int(slot), "sq": clampU32(seq), "cache": cache, "shape": shapeOf(ops), "st": st,
		"ah": argsHash(seqArgs(sess, slot, seq, cache, ops))}
}

func (e *env) endEvent(x int, res *nfsv4.Compound4res) common.Ev {
	sts, rops := []string{}, []string{}
	for _, r := range res.Resarray {
		sts = append(sts, statusName(resopStatus(r)))
		rops = append(rops, opName(r.GetResop()))
	}
	return common.Ev{"ev": "end", "x": x, "sts": sts, "rops": rops, "rh": replyHash(res), "status": statusName(res.Status)}
}

func (e *env) panicEvent(x int, ops []*Op, msg string, fresh bool) {
	if i := strings.IndexByte(msg, '\n'); i >= 0 && common.Env("VERIF_DEBUG", "") == "" {
		msg = msg[:i]
	}
	e.tr.Emit(common.Ev{"ev": "panic", "x": x, "ops": shapeOf(ops), "msg": msg, "fresh": fresh, "scen": e.scen})
}

// runSeq executes one sequenced COMPOUND synchronously and logs it.
// fresh says whether the driver means this to be a new request (then
// the executed operations are logged one by one) or a retransmission /
// out-of-order request (then only the SEQUENCE outcome and the reply
// summary are logged). It returns nil if the real code panicked.
func (e *env) runSeq(sess [16]byte, slot, seq uint32, cache bool, ops []*Op, fresh bool) *nfsv4.Compound4res {
	x := e.newCtx()
	defer e.freeCtx(x)
	var res *nfsv4.Compound4res
	var pan string
	if e.async {
		// Other requests are held in flight (synctest bubble): if the
		// server makes this one wait for one of them, say so instead of
		// waiting forever.
		done := make(chan callResult, 1)
		args := seqArgs(sess, slot, seq, cache, ops)
		go func() {
			r, p := e.call(args)
			done <- callResult{r, p}
		}()
		synctest.Wait()
		select {
		case r := <-done:
			res, pan = r.res, r.pan
		default:
			ev := e.seqEvent(x, sess, slot, seq, cache, ops, "BLOCKED")
			ev["ev"] = "blocked"
			e.tr.Emit(ev)
			return nil
		}
	} else {
		res, pan = e.call(seqArgs(sess, slot, seq, cache, ops))
	}
	if pan != "" {
		e.tr.Emit(e.seqEvent(x, sess, slot, seq, cache, ops, "PANIC"))
		e.panicEvent(x, ops, pan, fresh)
		return nil
	}
	e.logSeqResult(x, sess, slot, seq, cache, ops, fresh, res, 0)
	return res
}

// logSeqResult logs SEQUENCE, the executed operations from index
// `from` on, and the end of the COMPOUND.
func (e *env) logSeqResult(x int, sess [16]byte, slot, seq uint32, cache bool, ops []*Op, fresh bool, res *nfsv4.Compound4res, from int) {
	if from == 0 {
		st := "NONE"
		if len(res.Resarray) > 0 {
			st = statusName(resopStatus(res.Resarray[0]))
		}
		e.tr.Emit(e.seqEvent(x, sess, slot, seq, cache, ops, st))
	}
	if fresh {
		for i := from; i < len(ops) && i+1 < len(res.Resarray); i++ {
			e.learnHandles(allNames)
			e.tr.Emit(e.opEvent(x, ops[i], res.Resarray[i+1]))
		}
	}
	e.tr.Emit(e.endEvent(x, res))
	e.snapshot("c")
}

// ---------------------------------------------------------------------
// Stand-alone operations (COMPOUNDs without SEQUENCE).

func verifierOf(ver int) (v nfsv4.Verifier4) {
	binary.BigEndian.PutUint32(v[4:], uint32(ver))
	return v
}

type exidReply struct {
	ok        bool
	cid       uint64
	confirmed bool
	seq       uint32
}

func (e *env) exchangeID(own string, ver int, csBase map[uint64]uint32) (r exidReply, panicked bool) {
	args := &nfsv4.Compound4args{Tag: "x", Minorversion: 1, Argarray: []nfsv4.NfsArgop4{
		&nfsv4.NfsArgop4_OP_EXCHANGE_ID{OpexchangeId: nfsv4.ExchangeId4args{
			EiaClientowner:  nfsv4.ClientOwner4{CoVerifier: verifierOf(ver), CoOwnerid: []byte(own)},
			EiaStateProtect: &nfsv4.StateProtect4A_SP4_NONE{},
		}},
	}}
	res, pan := e.call(args)
	if pan != "" {
		e.tr.Emit(common.Ev{"ev": "panic", "x": 0, "ops": []string{"EXCHANGE_ID"}, "msg": pan, "fresh": true, "scen": e.scen})
		return r, true
	}
	ev := common.Ev{"ev": "exid", "own": own, "ver": ver, "st": statusName(res.Status), "cid": 0, "conf": false, "sq": 0}
	if len(res.Resarray) == 1 {
		if ok, is := res.Resarray[0].(*nfsv4.NfsResop4_OP_EXCHANGE_ID); is {
			if rr, is := ok.OpexchangeId.(*nfsv4.ExchangeId4res_NFS4_OK); is {
				r.ok, r.cid, r.seq = true, rr.EirResok4.EirClientid, rr.EirResok4.EirSequenceid
				r.confirmed = rr.EirResok4.EirFlags&nfsv4.EXCHGID4_FLAG_CONFIRMED_R != 0
				ev["cid"], ev["conf"] = e.cid(r.cid), r.confirmed
				if !r.confirmed {
					if _, known := csBase[r.cid]; !known {
						csBase[r.cid] = r.seq - 1
					}
					ev["sq"] = clampU32(r.seq - csBase[r.cid])
				}
			}
		}
	}
	e.tr.Emit(ev)
	e.snapshot("x")
	return r, false
}

type crsesReply struct {
	ok   bool
	sess [16]byte
}

func (e *env) createSession(cid uint64, known bool, seq, base uint32) (r crsesReply, panicked bool) {
	args := &nfsv4.Compound4args{Tag: "c", Minorversion: 1, Argarray: []nfsv4.NfsArgop4{
		&nfsv4.NfsArgop4_OP_CREATE_SESSION{OpcreateSession: nfsv4.CreateSession4args{
			CsaClientid: cid, CsaSequence: seq,
			CsaForeChanAttrs: nfsv4.ChannelAttrs4{CaMaxrequestsize: 1 << 20, CaMaxresponsesize: 1 << 20, CaMaxresponsesizeCached: 1 << 16, CaMaxoperations: 100, CaMaxrequests: 10},
			CsaBackChanAttrs: nfsv4.ChannelAttrs4{CaMaxrequestsize: 4096, CaMaxresponsesize: 4096, CaMaxoperations: 2, CaMaxrequests: 1},
		}},
	}}
	res, pan := e.call(args)
	if pan != "" {
		e.tr.Emit(common.Ev{"ev": "panic", "x": 0, "ops": []string{"CREATE_SESSION"}, "msg": pan, "fresh": true, "scen": e.scen})
		return r, true
	}
	c := 0
	if known {
		c = e.cid(cid)
	}
	ev := common.Ev{"ev": "crses", "cid": c, "sq": clampU32(seq - base), "st": statusName(res.Status), "sid": 0, "rsq": 0, "nslots": 0}
	if len(res.Resarray) == 1 {
		if ok, is := res.Resarray[0].(*nfsv4.NfsResop4_OP_CREATE_SESSION); is {
			if rr, is := ok.OpcreateSession.(*nfsv4.CreateSession4res_NFS4_OK); is {
				r.ok, r.sess = true, rr.CsrResok4.CsrSessionid
				ev["sid"] = e.sess(r.sess)
				ev["rsq"] = clampU32(rr.CsrResok4.CsrSequence - base)
				ev["nslots"] = int(rr.CsrResok4.CsrForeChanAttrs.CaMaxrequests)
			}
		}
	}
	e.tr.Emit(ev)
	e.snapshot("c")
	return r, false
}

func (e *env) destroySession(sess [16]byte, known bool) (ok, panicked bool) {
	args := &nfsv4.Compound4args{Tag: "d", Minorversion: 1, Argarray: []nfsv4.NfsArgop4{
		&nfsv4.NfsArgop4_OP_DESTROY_SESSION{OpdestroySession: nfsv4.DestroySession4args{DsaSessionid: sess}},
	}}
	res, pan := e.call(args)
	if pan != "" {
		e.tr.Emit(common.Ev{"ev": "panic", "x": 0, "ops": []string{"DESTROY_SESSION"}, "msg": pan, "fresh": true, "scen": e.scen})
		return false, true
	}
	s := 0
	if known {
		s = e.sess(sess)
	}
	e.tr.Emit(common.Ev{"ev": "dsess", "sid": s, "st": statusName(res.Status)})
	e.snapshot("d")
	return res.Status == nfsv4.NFS4_OK, false
}

func (e *env) destroyClientID(cid uint64, known bool) (ok, panicked bool) {
	args := &nfsv4.Compound4args{Tag: "d", Minorversion: 1, Argarray: []nfsv4.NfsArgop4{
		&nfsv4.NfsArgop4_OP_DESTROY_CLIENTID{OpdestroyClientid: nfsv4.DestroyClientid4args{DcaClientid: cid}},
	}}
	res, pan := e.call(args)
	if pan != "" {
		e.tr.Emit(common.Ev{"ev": "panic", "x": 0, "ops": []string{"DESTROY_CLIENTID"}, "msg": pan, "fresh": true, "scen": e.scen})
		return false, true
	}
	c := 0
	if known {
		c = e.cid(cid)
	}
	e.tr.Emit(common.Ev{"ev": "dcid", "cid": c, "st": statusName(res.Status)})
	e.snapshot("d")
	return res.Status == nfsv4.NFS4_OK, false
}

// trigger sends one request that makes the server run its lease
// bookkeeping without creating any state: SEQUENCE on a session that
// never existed.
func (e *env) trigger() bool {
	var bogus [16]byte
	for i := range bogus {
		bogus[i] = 0xee
	}
	res, pan := e.call(seqArgs(bogus, 0, 1, false, nil))
	if pan != "" {
		e.tr.Emit(common.Ev{"ev": "panic", "x": 0, "ops": []string{"EXPIRE"}, "msg": pan, "fresh": true, "scen": e.scen})
		return false
	}
	e.tr.Emit(common.Ev{"ev": "trigger", "st": statusName(res.Status)})
	return true
}
