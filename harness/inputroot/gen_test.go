package inputroot

// Seeded generator of Directory DAGs (shared subtrees, deep nesting, empty
// directories, small files, symlinks) with malformed variants.

import (
	"math/rand"

	remoteexecution "github.com/bazelbuild/remote-apis/build/bazel/remote/execution/v2"
	"github.com/buildbarn/bb-storage/pkg/digest"

	"google.golang.org/protobuf/encoding/protowire"
	"google.golang.org/protobuf/proto"
)

var goodNames = []string{"a", "b", "c", "d", "A", "lib", "x.y", "..."}

// Raw invalid names; their disp() forms are InvalidNames in
// specs/Trace_InputRoot.cfg.
var invalidNames = []string{"", ".", "..", "a/b", "/", "a\x00b"}

var symlinkTargets = []string{"t", "../x", "/abs/y", "a/b", "..", "lib/../c"}

type blobInfo struct {
	d      digest.Digest
	data   []byte
	stored bool
}

type dirInfo struct {
	d         digest.Digest
	data      []byte
	depth     int
	malformed bool
	stored    bool
}

type world struct {
	r     *rand.Rand
	df    digest.Function
	ids   *idTable
	cas   *fakeCAS
	blobs []blobInfo
	dirs  []dirInfo
	trees []digest.Digest // stored Tree objects
	// digests referenced as directories anywhere (for the description)
	collide []digest.Digest
}

func newWorld(r *rand.Rand) *world {
	fns := []remoteexecution.DigestFunction_Value{
		remoteexecution.DigestFunction_SHA256, remoteexecution.DigestFunction_SHA256,
		remoteexecution.DigestFunction_MD5, remoteexecution.DigestFunction_SHA1,
	}
	inst := []string{"", "inst"}[r.Intn(2)]
	ids := newIDTable()
	return &world{
		r:   r,
		df:  digest.MustNewFunction(inst, fns[r.Intn(len(fns))]),
		ids: ids,
		cas: newFakeCAS(ids),
	}
}

func (w *world) addBlob(data []byte, stored bool) blobInfo {
	d := digestOf(w.df, data)
	w.ids.id(d)
	if stored {
		w.cas.store(d, data)
	}
	b := blobInfo{d: d, data: data, stored: stored}
	w.blobs = append(w.blobs, b)
	return b
}

func (w *world) genBlobs() {
	w.addBlob([]byte{}, true)
	n := 2 + w.r.Intn(4)
	for i := 0; i < n; i++ {
		l := 1 + w.r.Intn(7)
		data := make([]byte, l)
		for j := range data {
			data[j] = byte(1 + w.r.Intn(250))
		}
		w.addBlob(data, true)
	}
	if w.r.Intn(3) == 0 {
		// a file whose blob is not in the CAS
		w.addBlob([]byte{9, 9, 9, byte(w.r.Intn(200))}, false)
	}
}

func (w *world) pickName(used map[string]bool) (string, bool) {
	for try := 0; try < 20; try++ {
		n := goodNames[w.r.Intn(len(goodNames))]
		if !used[n] {
			used[n] = true
			return n, true
		}
	}
	return "", false
}

func (w *world) badDigest() *remoteexecution.Digest {
	switch w.r.Intn(4) {
	case 0:
		return nil
	case 1:
		return &remoteexecution.Digest{Hash: "abc", SizeBytes: 3}
	case 2:
		h := w.blobs[0].d.GetHashString()
		return &remoteexecution.Digest{Hash: "zz" + h[2:], SizeBytes: 1}
	default:
		return &remoteexecution.Digest{Hash: w.blobs[0].d.GetHashString(), SizeBytes: -1}
	}
}

// genDir creates one Directory message whose child directories are drawn
// from the directories created so far (sharing makes the hierarchy a DAG).
func (w *world) genDir(pMalformed float64) dirInfo {
	m := &remoteexecution.Directory{}
	used := map[string]bool{}
	depth := 0
	if len(w.dirs) > 0 {
		nd := w.r.Intn(4)
		for i := 0; i < nd; i++ {
			// prefer recent directories to get depth
			var c dirInfo
			if w.r.Intn(2) == 0 {
				c = w.dirs[len(w.dirs)-1-w.r.Intn(min(3, len(w.dirs)))]
			} else {
				c = w.dirs[w.r.Intn(len(w.dirs))]
			}
			if c.depth >= 5 {
				continue
			}
			if n, ok := w.pickName(used); ok {
				m.Directories = append(m.Directories, &remoteexecution.DirectoryNode{Name: n, Digest: c.d.GetProto()})
				if c.depth+1 > depth {
					depth = c.depth + 1
				}
			}
		}
	}
	nf := w.r.Intn(4)
	for i := 0; i < nf; i++ {
		if n, ok := w.pickName(used); ok {
			b := w.blobs[w.r.Intn(len(w.blobs))]
			m.Files = append(m.Files, &remoteexecution.FileNode{Name: n, Digest: b.d.GetProto(), IsExecutable: w.r.Intn(2) == 0})
		}
	}
	ns := w.r.Intn(3)
	if w.r.Intn(2) == 0 {
		ns = 0
	}
	for i := 0; i < ns; i++ {
		if n, ok := w.pickName(used); ok {
			m.Symlinks = append(m.Symlinks, &remoteexecution.SymlinkNode{Name: n, Target: symlinkTargets[w.r.Intn(len(symlinkTargets))]})
		}
	}
	if w.r.Intn(6) == 0 {
		// empty directory
		m = &remoteexecution.Directory{}
		depth = 0
	}
	malformed := false
	stored := true
	if w.r.Float64() < pMalformed {
		malformed = true
		switch w.r.Intn(7) {
		case 0: // invalid name
			bad := invalidNames[w.r.Intn(len(invalidNames))]
			switch w.r.Intn(3) {
			case 0:
				m.Directories = append(m.Directories, &remoteexecution.DirectoryNode{Name: bad, Digest: w.emptyDirDigest().GetProto()})
			case 1:
				m.Files = append(m.Files, &remoteexecution.FileNode{Name: bad, Digest: w.blobs[0].d.GetProto()})
			default:
				m.Symlinks = append(m.Symlinks, &remoteexecution.SymlinkNode{Name: bad, Target: "t"})
			}
		case 1: // duplicate name within one of the three lists
			switch c := w.r.Intn(3); {
			case c == 0 && len(m.Directories) > 0:
				n := m.Directories[w.r.Intn(len(m.Directories))].Name
				m.Directories = append(m.Directories, &remoteexecution.DirectoryNode{Name: n, Digest: w.emptyDirDigest().GetProto()})
			case c == 1 && len(m.Files) > 0:
				n := m.Files[w.r.Intn(len(m.Files))].Name
				m.Files = append(m.Files, &remoteexecution.FileNode{Name: n, Digest: w.blobs[w.r.Intn(len(w.blobs))].d.GetProto(), IsExecutable: true})
			case c == 2 && len(m.Symlinks) > 0:
				n := m.Symlinks[w.r.Intn(len(m.Symlinks))].Name
				m.Symlinks = append(m.Symlinks, &remoteexecution.SymlinkNode{Name: n, Target: "other"})
			default:
				d := w.emptyDirDigest().GetProto()
				m.Directories = append(m.Directories, &remoteexecution.DirectoryNode{Name: "dup", Digest: d}, &remoteexecution.DirectoryNode{Name: "dup", Digest: d})
			}
		case 2: // duplicate name across the three lists
			name := "dup"
			if len(used) > 0 && w.r.Intn(3) > 0 {
				for n := range used {
					name = n
					break
				}
			} else {
				m.Files = append(m.Files, &remoteexecution.FileNode{Name: name, Digest: w.blobs[1].d.GetProto(), IsExecutable: true})
			}
			switch w.r.Intn(3) {
			case 0:
				m.Directories = append(m.Directories, &remoteexecution.DirectoryNode{Name: name, Digest: w.emptyDirDigest().GetProto()})
			case 1:
				m.Files = append(m.Files, &remoteexecution.FileNode{Name: name, Digest: w.blobs[w.r.Intn(len(w.blobs))].d.GetProto()})
			default:
				m.Symlinks = append(m.Symlinks, &remoteexecution.SymlinkNode{Name: name, Target: "other"})
			}
		case 3: // digest that cannot be parsed
			if w.r.Intn(2) == 0 {
				m.Directories = append(m.Directories, &remoteexecution.DirectoryNode{Name: "bd", Digest: w.badDigest()})
			} else {
				m.Files = append(m.Files, &remoteexecution.FileNode{Name: "bf", Digest: w.badDigest()})
			}
		case 4: // the message itself is not in the CAS
			stored = false
			m.Files = append(m.Files, &remoteexecution.FileNode{Name: "never", Digest: w.blobs[0].d.GetProto()})
		case 5: // child directory that is not in the CAS
			ghost, _ := proto.Marshal(&remoteexecution.Directory{Files: []*remoteexecution.FileNode{{Name: "ghost", Digest: w.blobs[0].d.GetProto()}}})
			gd := digestOf(w.df, append(ghost, byte(w.r.Intn(100))))
			m.Directories = append(m.Directories, &remoteexecution.DirectoryNode{Name: "gone", Digest: gd.GetProto()})
			malformed = false // this message is fine; its child is not
		default: // child "directory" that is not a Directory message
			junk := []byte{0xff, 0xff, 0xff, byte(w.r.Intn(255))}
			jd := digestOf(w.df, junk)
			w.cas.store(jd, junk)
			m.Directories = append(m.Directories, &remoteexecution.DirectoryNode{Name: "junk", Digest: jd.GetProto()})
			malformed = false
		}
	}
	// Shuffle the lists: REv2 asks for sorted lists, the server must
	// not depend on it.
	w.r.Shuffle(len(m.Directories), func(i, j int) { m.Directories[i], m.Directories[j] = m.Directories[j], m.Directories[i] })
	w.r.Shuffle(len(m.Files), func(i, j int) { m.Files[i], m.Files[j] = m.Files[j], m.Files[i] })
	data, err := proto.MarshalOptions{Deterministic: true}.Marshal(m)
	if err != nil {
		panic(err)
	}
	d := digestOf(w.df, data)
	w.ids.id(d)
	if stored {
		w.cas.store(d, data)
	}
	di := dirInfo{d: d, data: data, depth: depth, malformed: malformed, stored: stored}
	w.dirs = append(w.dirs, di)
	return di
}

func (w *world) emptyDirDigest() digest.Digest {
	d := digestOf(w.df, []byte{})
	if _, ok := w.cas.blobs[key(d)]; !ok {
		w.cas.store(d, []byte{})
	}
	return d
}

// closure returns the serialised Directory messages reachable from root
// (those that are stored and parse), root first.
func (w *world) closure(root digest.Digest) [][]byte {
	seen := map[string]bool{}
	var out [][]byte
	var visit func(d digest.Digest)
	visit = func(d digest.Digest) {
		k := key(d)
		if seen[k] {
			return
		}
		seen[k] = true
		data, ok := w.cas.blobs[k]
		if !ok {
			return
		}
		r := describeDirectory(w.ids, w.df, data)
		if r.State != "ok" {
			return
		}
		out = append(out, data)
		for _, c := range r.dirDigests {
			visit(c)
		}
	}
	visit(root)
	return out
}

// genTree stores a Tree object for the hierarchy below root and returns
// its digest. Sometimes one child is left out (the tree is incomplete) -
// only when no caching fetcher is in use: CachingDirectoryFetcher keys
// tree children by their own digest, so whether a child that is missing
// from the Tree but known from elsewhere is found depends on the cache
// (either outcome presents the directory the digest names).
func (w *world) genTree(root dirInfo, allowIncomplete bool) digest.Digest {
	// The root need not be stored as a Directory of its own (a Tree
	// carries it); its descendants are taken from the CAS. Unless
	// allowIncomplete, the Tree contains every descendant that exists, so
	// that what a tree child look-up finds does not depend on the cache.
	rootBytes := root.data
	var children [][]byte
	seen := map[string]bool{key(root.d): true}
	if r := describeDirectory(w.ids, w.df, rootBytes); r.State == "ok" {
		for _, c := range r.dirDigests {
			for _, m := range w.closure(c) {
				k := key(digestOf(w.df, m))
				if !seen[k] {
					seen[k] = true
					children = append(children, m)
				}
			}
		}
	}
	if allowIncomplete && len(children) > 0 && w.r.Intn(3) == 0 {
		k := w.r.Intn(len(children))
		children = append(append([][]byte{}, children[:k]...), children[k+1:]...)
	}
	extra := 0
	if w.r.Intn(12) == 0 {
		extra = 1
	}
	data := buildTree(rootBytes, children, extra)
	d := digestOf(w.df, data)
	w.cas.store(d, data)
	w.trees = append(w.trees, d)
	return d
}

// genCollision stores one blob that is a Tree with a valid root when read
// as a Tree and a different thing when read as a Directory (both readings
// have the same digest; CachingDirectoryFetcher must keep them apart).
// variant 0: valid Tree root, malformed Directory; variant 1: valid
// Directory, malformed Tree root.
func (w *world) genCollision(variant int) digest.Digest {
	b := w.blobs[1+w.r.Intn(len(w.blobs)-1)]
	var rootBytes []byte
	if variant == 0 {
		m := &remoteexecution.Directory{
			Symlinks: []*remoteexecution.SymlinkNode{{Name: "only-in-tree", Target: "t"}},
		}
		rootBytes, _ = proto.MarshalOptions{Deterministic: true}.Marshal(m)
	} else {
		// field 1: bytes that are both a FileNode (as Directory.files[0] of
		// the tree root) and a string (as FileNode.name of the blob
		// read as a Directory); field 2: a Digest message (as
		// FileNode.digest) that is a DirectoryNode without digest
		// when the root is read as a Directory.
		fn, _ := proto.MarshalOptions{Deterministic: true}.Marshal(&remoteexecution.FileNode{Name: "f", Digest: w.blobs[0].d.GetProto()})
		dg, _ := proto.MarshalOptions{Deterministic: true}.Marshal(b.d.GetProto())
		rootBytes = protowire.AppendTag(rootBytes, 1, protowire.BytesType)
		rootBytes = protowire.AppendBytes(rootBytes, fn)
		rootBytes = protowire.AppendTag(rootBytes, 2, protowire.BytesType)
		rootBytes = protowire.AppendBytes(rootBytes, dg)
	}
	data := buildTree(rootBytes, nil, 0)
	d := digestOf(w.df, data)
	w.cas.store(d, data)
	w.collide = append(w.collide, d)
	return d
}

func min(a, b int) int {
	if a < b {
		return a
	}
	return b
}
