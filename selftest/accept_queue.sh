#!/bin/bash
# Runs "bin/check <ID>" with seed 7 for every id appended to /tmp/accept-queue.txt, sequentially.
touch /tmp/accept-queue.txt
n=0
while true; do
  total=$(wc -l < /tmp/accept-queue.txt)
  if [ "$n" -lt "$total" ]; then
    n=$((n+1)); id=$(sed -n "${n}p" /tmp/accept-queue.txt)
    [ -z "$id" ] && continue
    [ "$id" = "STOP" ] && exit 0
    (cd /verif && VERIF_SEED=${SEED:-7} bin/check $id > /tmp/accept-$id.log 2>&1; echo EXIT=$? >> /tmp/accept-$id.log)
  else
    sleep 20
  fi
done
