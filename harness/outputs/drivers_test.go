// Case generators for property C10.
//
//	TestCommands  every command of a small space (working directory <= 2
//	              components, output path lists of <= 2 (ordered) or 3
//	              (multisets) paths of <= 2 components over {a, b, ., ..}),
//	              each against trees / input roots taken round-robin from a
//	              catalogue (the seed shifts the pairing); VERIF_STRIDE=k /
//	              VERIF_STRIDE3=k keep every k-th list of 2 / 3 paths
//	TestTrees     every produced tree of depth <= 2 (3 for one shape) over
//	              two names against a few fixed commands
//	TestRandom    seeded random deeper cases (three names, depth <= 4,
//	              shared subdirectories, aliases of existing locations)
//	TestProbe     a handful of hand-written cases (development aid)
//
// Traces are written in chunks trace_000.ndjson, trace_001.ndjson, ... of
// VERIF_CHUNK cases each; meta.json lists them.
package outputs

import (
	"fmt"
	"math/rand"
	"testing"

	"verif/harness/common"
)

// ---------------------------------------------------------------------
// Chunked trace output.

type sink struct {
	chunk   int
	inChunk int
	files   []string
	tr      *common.Trace
	cases   int
	gens    map[string]int
}

func newSink() *sink {
	return &sink{chunk: common.EnvInt("VERIF_CHUNK", 3000), gens: map[string]int{}}
}

func (s *sink) run(c *caseT) {
	if s.tr == nil || s.inChunk >= s.chunk {
		if s.tr != nil {
			s.tr.Close()
		}
		name := fmt.Sprintf("trace_%03d.ndjson", len(s.files))
		s.files = append(s.files, name)
		s.tr = common.NewTrace(name)
		s.inChunk = 0
	}
	runCase(s.tr, s.cases, c)
	s.cases++
	s.inChunk++
	s.gens[c.gen]++
}

func (s *sink) close(extra map[string]any) {
	if s.tr != nil {
		s.tr.Close()
	}
	m := map[string]any{"files": s.files, "cases": s.cases, "by_generator": s.gens}
	for k, v := range extra {
		m[k] = v
	}
	common.WriteJSON("meta.json", m)
}

// ---------------------------------------------------------------------
// Catalogues.

var comps = []string{"a", "b", ".", ".."}

// seqsUpTo returns all component sequences of length <= n.
func seqsUpTo(n int) [][]string {
	out := [][]string{{}}
	level := [][]string{{}}
	for i := 0; i < n; i++ {
		next := [][]string{}
		for _, p := range level {
			for _, c := range comps {
				next = append(next, append(append([]string(nil), p...), c))
			}
		}
		out = append(out, next...)
		level = next
	}
	return out
}

// Produced trees used by TestCommands. Names a, b; every kind; nesting;
// identical repeated subdirectories; things that replace parent
// directories; nothing at all.
func prodCatalogue() []*node {
	leafDir := dirN("a", fileN(true, 1), "b", symN("../a"))
	return []*node{
		nil, // the command produces nothing
		dirN("a", fileS(true, 1, 1), "b", fileS(false, 2, 2)),
		dirN("a", dirN("a", fileN(false, 1), "b", fileS(true, 3, 1)), "b", dirN("a", fileS(false, 1, 2), "b", fileN(true, 3))),
		dirN("a", dirN("a", leafDir, "b", leafDir), "b", leafDir),
		dirN("a", symN("b"), "b", dirN("a", fileN(false, 0))),
		dirN("a", dirN("b", dirN()), "b", &node{kind: "fifo"}),
		dirN("a", dirN("a", symN(".."), "b", &node{kind: "socket"}), "b", symN("/a/b")),
		dirN("a", fileN(false, 2), "b", dirN("a", dirN("a", fileS(true, 0, 1)), "b", dirN("a", fileS(true, 0, 2)))),
		dirN("a", &node{kind: "absent"}, "b", &node{kind: "absent"}),
		dirN("a", dirN("a", dirN("a", dirN("a", fileN(false, 1)))), "b", fileN(true, 1)),
		dirN("b", dirN("a", fileS(true, 2, 1), "b", dirN("b", symN("a/b"))), "a", dirN("a", fileN(true, 3), "b", &node{kind: "hardlink", target: "a"})),
		dirN("a", dirN("a", fileN(true, 1), "b", fileN(false, 1)), "b", dirN("a", fileN(false, 1), "b", fileN(true, 1))),
	}
}

// Input roots used by TestCommands / TestRandom. All of them keep
// directories where the commands of the small space need parents, except
// the ones marked "in the way" (outside the statement; exercised anyway).
func preCatalogue() []*node {
	return []*node{
		nil,
		nil,
		dirN("a", dirN("a", fileN(true, 1))),
		dirN("a", dirN("b", dirN("a", fileN(false, 2)), "a", symN("b")), "b", dirN()),
		dirN("b", dirN("b", fileN(false, 3), "a", dirN("b", fileN(true, 3)))),
		dirN("a", fileN(false, 1)),        // in the way of a/...
		dirN("b", symN("a"), "a", dirN()), // symlink in the way of b/...
	}
}

func pick(c *caseT, i int, seed int, prods, pres []*node) {
	c.prod = prods[(i+seed)%len(prods)]
	c.pre = pres[(i/len(prods)+i+2*seed)%len(pres)]
	c.native = (i/2+seed)%5 == 0
	c.lazy = !c.native && c.pre != nil && (i+seed)%2 == 0
	c.format = (i + seed) % 3
	c.force = (i/3+seed)%4 == 0
	c.setExec((i/5+i+seed)%4 == 0)
}

// setExec switches a case to executor mode, where the input root is always
// merged from the CAS and forceUploadTreesAndDirectories is not per case.
func (c *caseT) setExec(on bool) {
	if on {
		c.exec = true
		c.force = false
		c.lazy = !c.native && c.pre != nil
	}
}

// ---------------------------------------------------------------------
// TestCommands

func TestCommands(t *testing.T) {
	maxPaths := common.EnvInt("VERIF_MAXPATHS", 2)
	stride := common.EnvInt("VERIF_STRIDE", 1)   // >1: only every stride-th command with 2 paths
	stride3 := common.EnvInt("VERIF_STRIDE3", 1) // >1: only every stride3-th command with 3 paths
	seed := int(common.Seed())
	s := newSink()
	wds := seqsUpTo(2)
	ps := seqsUpTo(2)
	prods, pres := prodCatalogue(), preCatalogue()
	lists := [][][]string{{}}
	for _, p := range ps {
		lists = append(lists, [][]string{p})
	}
	for _, p := range ps {
		for _, q := range ps {
			lists = append(lists, [][]string{p, q})
		}
	}
	ordered := len(lists)
	if maxPaths >= 3 {
		// Multisets of three paths; the seed decides the order.
		rng := common.Rand(77)
		for i := range ps {
			for j := i; j < len(ps); j++ {
				for k := j; k < len(ps); k++ {
					l := [][]string{ps[i], ps[j], ps[k]}
					rng.Shuffle(3, func(x, y int) { l[x], l[y] = l[y], l[x] })
					lists = append(lists, l)
				}
			}
		}
	}
	n := 0
	for _, wd := range wds {
		for _, l := range lists {
			n++
			if len(l) == 2 && stride > 1 && (n+seed)%stride != 0 {
				continue
			}
			if len(l) == 3 && stride3 > 1 && (n+seed)%stride3 != 0 {
				continue
			}
			c := &caseT{gen: "commands", wd: wd, paths: l}
			pick(c, n, seed, prods, pres)
			s.run(c)
		}
	}
	s.close(map[string]any{"working_directories": len(wds), "path_lists": len(lists), "ordered_lists_up_to_2": ordered,
		"exhaustive": stride <= 1 && (maxPaths < 3 || stride3 <= 1), "max_paths": maxPaths,
		"stride_for_lists_of_2": stride, "stride_for_lists_of_3": stride3})
}

// ---------------------------------------------------------------------
// TestTrees

// treeFamily returns every tree over {a, b}: per top-level name nothing,
// removal, a file variant, a symlink, a FIFO, or a directory whose
// children are (per name) nothing, a file variant, a symlink, an empty
// directory or (wide only) a directory with one file.
func treeFamily(wide bool) []*node {
	childOpts := []*node{nil, fileS(true, 1, 1), fileN(false, 1), symN("a"), dirN()}
	if wide {
		childOpts = append(childOpts, fileS(false, 2, 2), dirN("a", fileN(false, 1)))
	}
	topOpts := []*node{nil, {kind: "absent"}, fileS(true, 1, 2), fileN(false, 1), fileS(false, 2, 1), symN("../b"), {kind: "fifo"}}
	for _, ca := range childOpts {
		for _, cb := range childOpts {
			d := dirN()
			if ca != nil {
				d.children["a"] = ca
			}
			if cb != nil {
				d.children["b"] = cb
			}
			topOpts = append(topOpts, d)
		}
	}
	out := []*node{}
	for _, ta := range topOpts {
		for _, tb := range topOpts {
			d := dirN()
			if ta != nil {
				d.children["a"] = ta
			}
			if tb != nil {
				d.children["b"] = tb
			}
			out = append(out, d)
		}
	}
	return out
}

func TestTrees(t *testing.T) {
	wide := common.EnvInt("VERIF_WIDE", 0) != 0
	perTree := common.EnvInt("VERIF_CMDS_PER_TREE", 1)
	seed := int(common.Seed())
	s := newSink()
	type cmdT struct {
		wd    []string
		paths [][]string
	}
	cmds := []cmdT{
		{[]string{}, [][]string{{}}},
		{[]string{}, [][]string{{"a"}, {"b"}}},
		{[]string{"a"}, [][]string{{"a"}, {"b"}, {"..", "b"}}},
		{[]string{"."}, [][]string{{"a", "a"}, {"a", "b"}, {"b", "a"}, {"b", "..", "a", ".", "b"}, {"a", "a"}}},
		{[]string{"b", ".."}, [][]string{{"a", ".."}, {"b"}, {"a", "b", "a"}}},
	}
	pres := preCatalogue()
	family := treeFamily(wide)
	n := 0
	for i, tree := range family {
		for k, cm := range cmds {
			// Each tree meets perTree of the commands; which ones rotates
			// with the tree and the seed.
			if m := len(cmds); ((k-i-seed)%m+m)%m >= perTree {
				continue
			}
			c := &caseT{gen: "trees", wd: cm.wd, paths: cm.paths, prod: tree}
			c.format = (n + seed) % 3
			c.force = (n+seed)%5 == 0
			c.native = (n/3+seed)%4 == 0
			if (n+seed)%4 == 0 {
				c.pre = pres[(n/4+seed)%len(pres)]
				c.lazy = !c.native && c.pre != nil && (n/4)%2 == 0
			}
			c.setExec((n/7+n+seed)%3 == 0)
			s.run(c)
			n++
		}
	}
	s.close(map[string]any{"trees": len(family), "commands": len(cmds), "commands_per_tree": perTree, "exhaustive": true})
}

// ---------------------------------------------------------------------
// TestRandom

var rnames = []string{"a", "b", "c"}

func randTree(rng *rand.Rand, depth int, shared *[]*node) *node {
	d := dirN()
	for _, name := range rnames {
		switch r := rng.Intn(12); {
		case r < 3:
			// nothing
		case r < 5:
			d.children[name] = fileS(rng.Intn(2) == 0, rng.Intn(len(contents)), rng.Intn(3))
			if rng.Intn(6) == 0 {
				d.children["c"] = &node{kind: "hardlink", target: name}
				return d
			}
		case r < 6:
			d.children[name] = symN([]string{"a", "../b", "/c", "a/b", "..", "../../a"}[rng.Intn(6)])
		case r < 7 && depth > 0:
			if rng.Intn(3) == 0 {
				d.children[name] = &node{kind: []string{"fifo", "socket"}[rng.Intn(2)]}
			} else {
				d.children[name] = &node{kind: "absent"}
			}
		case r < 9 && len(*shared) > 0:
			// An identical copy of a directory used elsewhere.
			d.children[name] = (*shared)[rng.Intn(len(*shared))]
		default:
			if depth < 4 {
				sub := randTree(rng, depth+1, shared)
				d.children[name] = sub
				if rng.Intn(2) == 0 {
					*shared = append(*shared, sub)
				}
			}
		}
	}
	return d
}

// locations lists the paths of a tree description (what the command is
// going to leave behind), for generating output paths that exist.
func locations(n *node, prefix []string, out *[][]string) {
	if n == nil {
		return
	}
	for _, name := range sortedNames(n.children) {
		p := append(append([]string(nil), prefix...), name)
		*out = append(*out, p)
		if n.children[name].kind == "dir" && len(p) < 4 {
			locations(n.children[name], p, out)
		}
	}
}

func randComps(rng *rand.Rand, n int) []string {
	all := []string{"a", "b", "c", ".", ".."}
	out := []string{}
	for i := 0; i < n; i++ {
		out = append(out, all[rng.Intn(len(all))])
	}
	return out
}

// simpleResolve is used only to aim generated output paths at things that
// exist; it plays no part in judging.
func simpleResolve(cs []string) ([]string, bool) {
	st := []string{}
	for _, c := range cs {
		switch c {
		case ".":
		case "..":
			if len(st) == 0 {
				return nil, false
			}
			st = st[:len(st)-1]
		default:
			st = append(st, c)
		}
	}
	return st, true
}

func noise(rng *rand.Rand, p []string) []string {
	out := []string{}
	for _, c := range p {
		switch rng.Intn(8) {
		case 0:
			out = append(out, ".")
		case 1:
			out = append(out, rnames[rng.Intn(3)], "..")
		}
		out = append(out, c)
	}
	if rng.Intn(6) == 0 {
		out = append(out, ".")
	}
	return out
}

func TestRandom(t *testing.T) {
	n := common.EnvInt("VERIF_N", 1000)
	s := newSink()
	pres := preCatalogue()
	for i := 0; i < n; i++ {
		rng := common.Rand(int64(i))
		c := &caseT{gen: "random"}
		switch rng.Intn(4) {
		case 0:
			c.wd = []string{}
		case 1:
			c.wd = []string{rnames[rng.Intn(3)]}
		default:
			c.wd = randComps(rng, rng.Intn(4))
		}
		shared := []*node{}
		if rng.Intn(10) != 0 {
			c.prod = randTree(rng, 0, &shared)
		}
		locs := [][]string{}
		locations(c.prod, nil, &locs)
		wdLoc, wdOK := simpleResolve(c.wd)
		for k := rng.Intn(6); k > 0; k-- {
			if len(locs) > 0 && wdOK && rng.Intn(3) != 0 {
				// Aim at something the command produces.
				p := []string{}
				for range wdLoc {
					p = append(p, "..")
				}
				p = append(p, locs[rng.Intn(len(locs))]...)
				if rng.Intn(3) == 0 {
					p = noise(rng, p)
				}
				c.paths = append(c.paths, p)
			} else {
				c.paths = append(c.paths, randComps(rng, rng.Intn(5)))
			}
		}
		if len(c.paths) > 0 && rng.Intn(5) == 0 {
			c.paths = append(c.paths, c.paths[rng.Intn(len(c.paths))]) // duplicate
		}
		c.native = rng.Intn(4) == 0
		if rng.Intn(3) == 0 {
			c.pre = pres[rng.Intn(len(pres))]
			c.lazy = !c.native && c.pre != nil && rng.Intn(2) == 0
		}
		c.format = rng.Intn(3)
		c.force = rng.Intn(4) == 0
		c.setExec(rng.Intn(3) == 0)
		s.run(c)
	}
	s.close(map[string]any{"exhaustive": false})
}

// ---------------------------------------------------------------------
// TestProbe

func TestProbe(t *testing.T) {
	s := newSink()
	shared := dirN("a", fileN(false, 1), "b", fileN(true, 2))
	cases := []*caseT{
		{gen: "probe", wd: []string{"a"}, paths: [][]string{{"b", "c"}, {"..", "x"}, {}, {"..", ".."}}},
		{gen: "probe", wd: []string{}, paths: [][]string{{}, {"a"}, {"a", "..", "b"}, {"b"}, {"c", "d"}, {"l"}, {"s"}},
			prod: dirN("a", dirN("p", shared, "q", shared, "l", symN("../b")), "b", fileN(true, 3), "l", symN("a"), "s", &node{kind: "fifo"})},
		{gen: "probe", wd: []string{"a"}, paths: [][]string{{"a"}, {"b", "x"}}, lazy: true, format: 2,
			pre: dirN("a", dirN("a", dirN("f", fileN(true, 1)), "l", symN("a")))},
		{gen: "probe", exec: true, wd: []string{"a"}, paths: [][]string{{"a"}, {"b", "x"}, {"..", "b"}}, format: 2,
			pre:  dirN("a", dirN("a", dirN("f", fileN(true, 1)), "l", symN("a"))),
			prod: dirN("a", dirN("b", dirN("x", shared)), "b", fileS(true, 3, 1))},
		{gen: "probe", exec: true, native: true, wd: []string{"a"}, paths: [][]string{{"a"}, {"b", "x"}, {"..", "b"}},
			pre:  dirN("a", dirN("a", dirN("f", fileN(true, 1)), "l", symN("a"))),
			prod: dirN("a", dirN("b", dirN("x", shared)), "b", fileS(true, 3, 1))},
		{gen: "probe", exec: true, wd: []string{"a"}, paths: [][]string{{"a"}, {"..", "..", "b"}},
			pre: dirN("a", dirN("a", dirN("f", fileN(true, 1))))},
		{gen: "probe", exec: true, native: true, wd: []string{"..", "a"}, paths: [][]string{{"a"}},
			pre: dirN("a", dirN("a", dirN("f", fileN(true, 1))))},
	}
	for _, c := range cases {
		s.run(c)
	}
	s.close(nil)
}
