// The native backend: the same cases against builder.NewNaiveBuildDirectory
// over a directory of the local file system (what bb_worker uses when no
// virtual file system is configured). The tree is produced with plain
// system calls and observed with os.ReadDir / os.Lstat.
package outputs

import (
	"fmt"
	"os"
	"path/filepath"
	"sort"
	"syscall"

	"github.com/buildbarn/bb-remote-execution/pkg/builder"
	"github.com/buildbarn/bb-storage/pkg/filesystem"
	"github.com/buildbarn/bb-storage/pkg/filesystem/path"

	"golang.org/x/sync/semaphore"

	"verif/harness/common"
)

// newNativeEnv creates <VERIF_OUT>/native-*/root and opens it the way
// bb_worker opens its native build directory.
func newNativeEnv(pre *node) (*env, error) {
	e := &env{
		cas:    newFakeCAS(),
		logger: &collectingErrorLogger{},
	}
	e.df, e.ctx = digestFunction(), backgroundContext()
	base, err := os.MkdirTemp(common.OutDir(), "native-")
	if err != nil {
		return nil, err
	}
	e.nativeBase = base
	e.nativeRoot = filepath.Join(base, "root")
	if err := os.Mkdir(e.nativeRoot, 0o777); err != nil {
		return nil, err
	}
	directory, err := filesystem.NewLocalDirectory(path.LocalFormat.NewParser(base))
	if err != nil {
		return nil, err
	}
	buildDirectory := builder.NewNaiveBuildDirectory(directory, nil, nil, semaphore.NewWeighted(1), e.cas)
	e.nativeTop = buildDirectory
	e.inputRoot, err = buildDirectory.EnterBuildDirectory(inputRootComponent)
	if err != nil {
		return nil, err
	}
	if pre != nil {
		if err := applyNative(e.nativeRoot, pre); err != nil {
			return nil, err
		}
	}
	return e, nil
}

func applyNative(dir string, n *node) error {
	names := sortedNames(n.children)
	sort.SliceStable(names, func(i, j int) bool {
		return n.children[names[i]].kind != "hardlink" && n.children[names[j]].kind == "hardlink"
	})
	for _, name := range names {
		c := n.children[name]
		p := filepath.Join(dir, name)
		if c.kind == "dir" {
			if fi, err := os.Lstat(p); err == nil && fi.IsDir() {
				if err := applyNative(p, c); err != nil {
					return err
				}
				continue
			}
		}
		if err := os.RemoveAll(p); err != nil {
			return err
		}
		switch c.kind {
		case "absent":
		case "dir":
			if err := os.Mkdir(p, 0o777); err != nil {
				return err
			}
			if err := applyNative(p, c); err != nil {
				return err
			}
		case "file":
			mode := os.FileMode(0o644)
			if c.exec {
				mode = 0o755
			}
			if err := os.WriteFile(p, contents[c.content], mode); err != nil {
				return err
			}
			if err := os.Chmod(p, mode); err != nil { // independent of the umask
				return err
			}
		case "symlink":
			if err := os.Symlink(c.target, p); err != nil {
				return err
			}
		case "hardlink":
			t := filepath.Join(dir, c.target)
			if fi, err := os.Lstat(t); err == nil && fi.Mode().IsRegular() {
				if err := os.Link(t, p); err != nil {
					return err
				}
			}
		case "fifo", "socket":
			// A FIFO stands for both: binding a socket needs a
			// short path, and neither is a file, directory or link.
			if err := syscall.Mkfifo(p, 0o644); err != nil {
				return err
			}
		default:
			return fmt.Errorf("unknown node kind %q", c.kind)
		}
	}
	return nil
}

func walkNative(dir string, prefix []string, out *[]entry) error {
	des, err := os.ReadDir(dir)
	if err != nil {
		return err
	}
	sort.Slice(des, func(i, j int) bool { return des[i].Name() < des[j].Name() })
	for _, de := range des {
		p := append(append([]string(nil), prefix...), de.Name())
		full := filepath.Join(dir, de.Name())
		fi, err := os.Lstat(full)
		if err != nil {
			return err
		}
		switch m := fi.Mode(); {
		case m.IsDir():
			*out = append(*out, entry{Path: p, Kind: "dir"})
			if err := walkNative(full, p, out); err != nil {
				return err
			}
		case m.IsRegular():
			b, err := os.ReadFile(full)
			if err != nil {
				return err
			}
			*out = append(*out, entry{Path: p, Kind: "file", Exec: m&0o111 != 0, Cid: cidOfBytes(b)})
		case m&os.ModeSymlink != 0:
			t, err := os.Readlink(full)
			if err != nil {
				return err
			}
			*out = append(*out, entry{Path: p, Kind: "symlink", Target: t})
		default:
			*out = append(*out, entry{Path: p, Kind: "special"})
		}
	}
	return nil
}
