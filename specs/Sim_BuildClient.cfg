SPECIFICATION SimSpec
CONSTANTS
  Digests = {"d1", "d2"}
  MaxUpd = 3
  MaxExecs = 4
  MaxClock = 8
  Minute = 2
  Deltas = {0, 1, 3}
  Cap = 10
  Depth = 80
INVARIANTS
  Export
CHECK_DEADLOCK FALSE
