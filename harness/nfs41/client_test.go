package nfs41

import (
	"github.com/buildbarn/go-xdr/pkg/protocols/nfsv4"
)

// Client-side bookkeeping: what a client would remember from the
// replies it received. It is only used to generate plausible (and
// deliberately implausible) requests; nothing is judged here.

type sentReq struct {
	seq   uint32
	cache bool
	ops   []*Op
}

type slotC struct {
	next uint32 // next sequence ID to use
	last *sentReq
}

type sessC struct {
	id    [16]byte
	slots [nSlots]slotC
}

type openC struct {
	oo    string
	fh    []byte
	sid   sid
	share uint32
}

type lockC struct {
	oo, lo    string
	fh        []byte
	sid       sid
	openOther uint64
}

type clientC struct {
	own    string
	ver    int
	cid    uint64
	have   bool
	csNext uint32
	sess   []*sessC
	opens  map[uint64]*openC
	locks  map[uint64]*lockC
	stale  []sid // state IDs that were valid at some point
}

func newClient(own string, ver int) *clientC {
	return &clientC{own: own, ver: ver, opens: map[uint64]*openC{}, locks: map[uint64]*lockC{}}
}

func (c *clientC) remember(s sid) {
	if s.kind == "reg" && len(c.stale) < 64 {
		c.stale = append(c.stale, s)
	}
}

// track updates the bookkeeping from the reply to a COMPOUND.
func (c *clientC) track(e *env, ops []*Op, res *nfsv4.Compound4res) {
	if res == nil || len(res.Resarray) == 0 || resopStatus(res.Resarray[0]) != nfsv4.NFS4_OK {
		return
	}
	var curFH []byte
	var curOther uint64
	var pendingOpen *openC
	for i, o := range ops {
		if i+1 >= len(res.Resarray) {
			break
		}
		r := res.Resarray[i+1]
		if resopStatus(r) != nfsv4.NFS4_OK {
			break
		}
		switch o.Name {
		case "PUTROOTFH":
			curFH, curOther, pendingOpen = e.rootFH, 0, nil
		case "PUTFH":
			curFH, curOther, pendingOpen = o.FH, 0, nil
		case "LOOKUP":
			curFH, curOther, pendingOpen = nil, 0, nil
		case "GETFH":
			if rr, is := r.(*nfsv4.NfsResop4_OP_GETFH).Opgetfh.(*nfsv4.Getfh4res_NFS4_OK); is {
				curFH = rr.Resok4.Object
				if pendingOpen != nil {
					pendingOpen.fh = curFH
					pendingOpen = nil
				}
			}
		case "OPEN":
			rr := r.(*nfsv4.NfsResop4_OP_OPEN).Opopen.(*nfsv4.Open4res_NFS4_OK)
			s := sidOfWire(rr.Resok4.Stateid)
			oc, ok := c.opens[s.other]
			if !ok {
				oc = &openC{oo: o.OO}
				c.opens[s.other] = oc
			}
			oc.sid = s
			oc.share |= o.Share & 3
			c.remember(s)
			curOther = s.other
			if o.Claim == "NULL" {
				curFH = nil
				pendingOpen = oc
			} else {
				oc.fh = curFH
			}
		case "OPEN_DOWNGRADE":
			rr := r.(*nfsv4.NfsResop4_OP_OPEN_DOWNGRADE).OpopenDowngrade.(*nfsv4.OpenDowngrade4res_NFS4_OK)
			s := sidOfWire(rr.Resok4.OpenStateid)
			if oc, ok := c.opens[s.other]; ok {
				oc.sid, oc.share = s, o.Share
			}
			c.remember(s)
			curOther = s.other
		case "CLOSE":
			other := o.Sid.other
			if o.Sid.kind == "cur" {
				other = curOther
			}
			delete(c.opens, other)
			for k, l := range c.locks {
				if l.openOther == other {
					delete(c.locks, k)
				}
			}
		case "LOCK":
			rr := r.(*nfsv4.NfsResop4_OP_LOCK).Oplock.(*nfsv4.Lock4res_NFS4_OK)
			s := sidOfWire(rr.Resok4.LockStateid)
			lc, ok := c.locks[s.other]
			if !ok {
				lc = &lockC{lo: o.LO, fh: curFH}
				if o.NewO {
					lc.openOther = o.Sid2.other
					if o.Sid2.kind == "cur" {
						lc.openOther = curOther
					}
					if oc, ok := c.opens[lc.openOther]; ok {
						lc.oo = oc.oo
						if lc.fh == nil {
							lc.fh = oc.fh
						}
					}
				}
				c.locks[s.other] = lc
			}
			lc.sid = s
			c.remember(s)
			curOther = s.other
		case "LOCKU":
			rr := r.(*nfsv4.NfsResop4_OP_LOCKU).Oplocku.(*nfsv4.Locku4res_NFS4_OK)
			s := sidOfWire(rr.LockStateid)
			if lc, ok := c.locks[s.other]; ok {
				lc.sid = s
			}
			c.remember(s)
			curOther = s.other
		case "FREE_STATEID":
			delete(c.locks, o.Sid.other)
		}
	}
}

// forget drops everything the client knew (its state was destroyed).
func (c *clientC) forget() {
	c.opens = map[uint64]*openC{}
	c.locks = map[uint64]*lockC{}
}
