"""C09 — only complete, successful results reach the Action Cache
(ExecPipeline.tla; real stack Caching(..StorageFlushing(base, flush)) over the
real BatchedStoreBlobAccess: harness/execpipe with a scripted base executor,
harness/outputs TestPipeline with the real localBuildExecutor)."""
import glob
import json
import os
from concurrent.futures import ThreadPoolExecutor

from lib import vlib

DEPS = ["ExecPipeline.tla"]
TRACE = "ExecPipelineTrace.tla"
TCFG = "Trace_ExecPipeline.cfg"


class _Shard:
    """A private view of the run context for one worker thread (vlib's
    context is not meant to be shared between threads); merged afterwards."""

    def __init__(self, ctx, name):
        self.prop, self.tier, self.seed = ctx.prop, ctx.tier, ctx.seed
        self.scratch = ctx.sub("shard_" + name)
        self.violations, self.known_hits, self.assumptions = [], [], []
        self.cov = {"states": 0, "transitions": 0, "traces_validated_against_impl": 0,
                    "samples": [], "tlc_runs": [], "nonconformances": 0}

    def sub(self, name):
        d = os.path.join(self.scratch, name)
        os.makedirs(d, exist_ok=True)
        return d

    def quick(self):
        return self.tier == "quick"


def _merge(ctx, shard):
    for k, v in shard.cov.items():
        if isinstance(v, list):
            ctx.cov.setdefault(k, [])
            ctx.cov[k] += v
        else:
            ctx.cov[k] = ctx.cov.get(k, 0) + v
    ctx.violations += shard.violations
    ctx.known_hits += shard.known_hits


def _validate_all(ctx, files, label, timeout):
    """Validate trace files with TLC.  One JVM at a time unless VERIF_PAR
    says otherwise; stops early once a few violating runs have been saved
    (on a broken tree almost every chunk fails, no need to list them all)."""
    classify = vlib.classify_for(ctx.prop)
    par = max(1, min(int(os.environ.get("VERIF_PAR", "1") or "1"), len(files)))
    shards = [_Shard(ctx, "%s%03d" % (label, i)) for i in range(len(files))]
    found = []

    def one(i):
        if len(found) >= 3:
            return
        vlib.validate_traces(shards[i], files[i], TRACE, TCFG, DEPS, "%s%03d" % (label, i),
                             classify=classify, timeout=timeout, max_failures=3)
        found.extend(shards[i].violations)

    with ThreadPoolExecutor(max_workers=par) as ex:
        futs = [ex.submit(one, i) for i in range(len(files))]
        errs = []
        for f in futs:
            try:
                f.result()
            except Exception as e:  # collected; every JVM is awaited first
                errs.append(e)
    for s in shards:
        _merge(ctx, s)
    if errs:
        raise errs[0]


def run(ctx):
    # 1. design check of the specification (does not depend on /repo;
    #    VERIF_C09_NO_MC=1 skips it, e.g. for mutation runs on a copy).
    if not os.environ.get("VERIF_C09_NO_MC"):
        mc_cfg = "MC_ExecPipeline.cfg" if ctx.quick() else "MC_ExecPipeline_thorough.cfg"
        vlib.design_check(ctx, "ExecPipeline.tla", mc_cfg, [], timeout=3000, workers=2, heap="3g")
    # 2. the real pipeline: every fault position of every small scenario
    binary = vlib.go_build_test(ctx, "execpipe")
    out = ctx.sub("enum")
    env = {"VERIF_EP_MAXLEN": 3, "VERIF_EP_DEPTH": 1, "VERIF_EP_SEMS": "1", "VERIF_EP_CHUNK": 30000}
    if not ctx.quick():
        env = {"VERIF_EP_MAXLEN": 4, "VERIF_EP_DEPTH": 2, "VERIF_EP_DEEPLEN": 3,
               "VERIF_EP_SEMS": "1,2", "VERIF_EP_CHUNK": 60000}
    rc, o = vlib.run_driver(binary, "TestEnumerate", out, ctx.seed, env=env, timeout=3600)
    if rc != 0:
        raise vlib.Infra("execpipe enumeration driver failed:\n" + o[-2000:])
    meta = json.load(open(out + "/meta.json"))
    # 3. seeded random scenarios with multi-fault scripts and concurrency
    out2 = ctx.sub("rand")
    n = 400 if ctx.quick() else 6000
    rc, o = vlib.run_driver(binary, "TestRandom", out2, ctx.seed,
                            env={"VERIF_N": n, "VERIF_EP_CHUNK": 60000}, timeout=3600)
    if rc != 0:
        raise vlib.Infra("execpipe random driver failed:\n" + o[-2000:])

    # 4. the same stack around the REAL base executor: localBuildExecutor with
    #    its OutputHierarchy and build directory (virtual / native) uploading
    #    through the batching writer, every fault kind at every storage call
    #    (harness/outputs TestPipeline; same events, same trace specification)
    pbinary = vlib.go_build_test(ctx, "outputs")
    out3 = ctx.sub("pipe")
    penv = {"VERIF_PIPE_STRIDE": 2, "VERIF_PIPE_SEM2": 0, "VERIF_CHUNK": 2500}
    if not ctx.quick():
        penv = {"VERIF_PIPE_STRIDE": 1, "VERIF_PIPE_SEM2": 1, "VERIF_CHUNK": 2500}
    rc, o = vlib.run_driver(pbinary, "TestPipeline", out3, ctx.seed, env=penv, timeout=3600)
    if rc != 0:
        raise vlib.Infra("pipeline driver (real base executor) failed:\n" + o[-2000:])
    pmeta = json.load(open(out3 + "/meta.json"))

    files = sorted(glob.glob(out + "/trace_*.ndjson"))
    rfiles = sorted(glob.glob(out2 + "/trace_*.ndjson"))
    pfiles = sorted(glob.glob(out3 + "/trace_*.ndjson"))
    if not files or not rfiles or not pfiles:
        raise vlib.Infra("execpipe drivers wrote no trace")
    ctx.cov["samples"] += vlib.sample_lines(files[-1], 8)
    # (all limits below and above are real-time guards against a wedged process: exceeding one raises
    # vlib.Infra = exit 2; no verdict depends on how fast the machine is)
    _validate_all(ctx, pfiles, "pipe", 6000)
    _validate_all(ctx, rfiles, "rand", 6000)
    _validate_all(ctx, files, "enum", 6000)
    ctx.assumptions += [
        "scripted-base runs: the base executor references a digest only if its Put returned nil and attaches Put errors to the response; "
        "the runs with the real localBuildExecutor (step 4) do not assume this",
        "the CAS answers FindMissing truthfully and stored blobs do not disappear during one Execute call",
    ]
    return vlib.finish(
        ctx,
        rule="TLC explores ExecPipeline.tla exhaustively (<=3 blobs with duplicates, %s Puts, batch 1..3, semaphore 1..2, every base outcome, do_not_cache, every ok/fail/cancel/cancelled-after-success choice at every CAS FindMissing/Put, AC Put and historical Put) and checks C09_AC, C09_Error, C09_Ack, C09_Buffers. The real stack Caching(Metrics(FilePoolStats(Timestamped(StorageFlushing(base, flush))))) over the real BatchedStoreBlobAccess is run over instrumented CAS/AC fakes for every canonical put sequence up to length %d (every subset pre-existing, batch 1..3, 3 outcomes x do_not_cache, missing action / bad digest) with a fail, a cancel and a success-then-cancelled-context at every storage call position (up to %d faults per run), plus %d seeded random scenarios; the same stack is run around the real localBuildExecutor (real OutputHierarchy, virtual and native build directory, fake runner; %d runs) with every fault kind at every storage call, logging every Put made through the batching writer and every blob the response references (files inside Trees and Directory messages included); TLC evaluates the four clauses on every logged run (AC put attempt => cacheable, OK, exit 0, referenced digests in CAS at that moment; any failed CAS call/flush => error status, nothing cached, no digests advertised; flush nil => all acknowledged Puts stored; every buffer closed exactly once). Distinct = distinct spec states + validated events." % (
            "3" if ctx.quick() else "4", meta["maxlen"], meta["depth"], n, pmeta["runs"]),
        explanation="fault-position enumeration of the result pipeline, judged by ExecPipelineTrace.tla",
        exhaustive=True,
        extra={"enumeration": {k: meta[k] for k in ("scenarios", "runs", "maxlen", "depth", "deeplen", "sems")},
               "random_runs": n, "real_base_runs": pmeta["runs"], "real_base_scenarios": pmeta["scenarios"]},
    )


def replay(ctx, path):
    vlib.validate_traces(ctx, path, TRACE, TCFG, DEPS, "replay", classify=vlib.classify_for(ctx.prop))
    return vlib.finish(ctx, rule="replay of a saved trace", explanation="replay")
