------------------------------ MODULE NFS40MC ------------------------------
(* Constant values for the exhaustive configurations MC_NFS40_*.cfg and the *)
(* behaviour generator (values that a .cfg file cannot express).           *)
EXTENDS NFS40

DevNone == {0}
DevSeq  == {-1, 0, 1}         \* same (retransmission / false retry), next, skipped
DevSid  == {-1, 0, 1}         \* old, current, future state id seqid
NoRanges   == {}
RangesSeq  == {<<0, 1, "norm">>}
RangesLock == {<<0, 1, "norm">>, <<0, 2, "norm">>, <<1, 1, "eof">>, <<1, 1, "zero">>}
RangesSim  == {<<0, 2, "norm">>, <<1, 3, "norm">>, <<2, 6, "norm">>, <<3, 3, "eof">>, <<0, 6, "norm">>,
               <<4, 4, "zero">>, <<2, 3, "ovf">>}

\* Vacuity probes: each of these must be *violated* in the configuration
\* named in the comment (checked by hand, never part of a cfg that must pass).
Vac_Replay     == last.ctx # "replay"                               \* seq
Vac_FalseRetry == last.ctx # "falseretry"                           \* seq
Vac_Misordered == last.ctx # "misordered"                           \* seq
Vac_OldSid     == last.rep.st # "OLD_STATEID"                       \* seq
Vac_ClosedPhase == \A t \in DOMAIN s.oofs : s.oofs[t].st # "closed"  \* seq, open
Vac_Zombie     == \A t \in DOMAIN s.oofs : s.oofs[t].st # "gone"    \* open
Vac_Denied     == last.rep.st # "DENIED"                            \* lock
Vac_LocksHeld  == last.rep.st # "LOCKS_HELD"                        \* lock
Vac_TwoEntries == \A k \in DOMAIN s.lo : \A f \in DOMAIN s.held : Entries(s.held[f], k) < 2  \* lock
Vac_Delay      == last.rep.st # "DELAY"                             \* client
Vac_Expired    == ~(last.kind = "op" /\ s.nconf > 0 /\ DOMAIN s.conf = {})  \* client, open
Vac_LockClone  == \A t \in DOMAIN s.oofs : ~("W" \notin s.oofs[t].share /\ s.oofs[t].w > 0)  \* lock (with downgrade)
=============================================================================
