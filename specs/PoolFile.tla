------------------------------ MODULE PoolFile ------------------------------
(***************************************************************************)
(* Design model of a writable build-directory file (property C16):         *)
(*   pkg/filesystem/virtual/pool_backed_file_allocator.go  (fileBackedFile)*)
(*   behind fuse_handle_allocator.go / nfs_handle_allocator.go (link       *)
(*   counting: only the last Unlink reaches the file), uploaded through    *)
(*   VirtualApply(ApplyUploadFile) as pkg/builder/virtual_build_directory  *)
(*   does.                                                                 *)
(*                                                                         *)
(* One action per critical section of the real code.  Threads:             *)
(*   Clients   - open/close descriptors, write, truncate, allocate,        *)
(*               set-attributes(size); mutators park in lockMutatingData   *)
(*               while frozen readers exist;                               *)
(*   Uploaders - uploadFile / ApplyOpenReadFrozen / output-service stat:   *)
(*               wait (bounded) for writers, open frozen, hash (or reuse   *)
(*               the cached digest), Put reading the file in two halves,   *)
(*               close frozen.                                             *)
(* Contents are opaque values that stand for their own digests.            *)
(***************************************************************************)
EXTENDS PoolFileOps, TLC

CONSTANTS Files, Clients, Uploaders,
          MaxLinks,     \* bound on hard links (model size only)
          Contents,     \* possible file contents
          EmptyC,       \* the content after O_TRUNC (\in Contents)
          PinPathOps,   \* calling convention: a path based set-size/allocate
                        \* keeps its directory entry until it returns
          UpKinds,      \* subset of {"upload", "fread", "stat"} explored
          MutOps        \* subset of {"write", "setsize", "allocate"} explored

None == "none"

VARIABLES links,      \* [Files -> 0..MaxLinks]  link count in the handle allocator
          fd,         \* [Clients -> [f, m]]     the descriptor a client holds
          refCount,   \* fileBackedFile.referenceCount
          writers,    \* fileBackedFile.writableDescriptorsCount
          frozen,     \* fileBackedFile.frozenDescriptorsCount
          closedPool, \* number of Close() calls on the pool file
          content,    \* what the pool file holds
          cached,     \* content whose digest is memoised, or None
          cl,         \* client threads
          up,         \* uploader threads
          expired,    \* the maximum writable-file upload delay has passed
          last        \* status returned by the last step (for C16_Stale)

vars == <<links, fd, refCount, writers, frozen, closedPool, content, cached,
          cl, up, expired, last>>

NoFd == [f |-> None, m |-> ""]
IdleCl == [pc |-> "idle", op |-> "none", f |-> None, m |-> "", arg |-> None, woken |-> FALSE]
IdleUp == [pc |-> "idle", kind |-> "upload", f |-> None, woken |-> FALSE,
           hashed |-> None, h1 |-> None, h2 |-> None]

FrozenPcs == {"frozenOpen", "hashing", "hashStore", "putting", "putting2",
              "putClose", "statClose", "reading"}
\* pcs in which the digest has been computed and the frozen view still open
HashedPcs == {"hashStore", "putting", "putting2", "putClose", "statClose"}

\* `last` is not part of the VIEW: everything that reads it is an action
\* property (TLC evaluates those on every transition, seen or not).
Ret(f, st) == [f |-> f, dead |-> closedPool[f] >= 1, st |-> st, bad |-> FALSE]
NoRet == [f |-> None, dead |-> FALSE, st |-> "NONE", bad |-> FALSE]

Init ==
  /\ links = [f \in Files |-> 1]
  /\ fd = [c \in Clients |-> NoFd]
  /\ refCount = [f \in Files |-> 1]
  /\ writers = [f \in Files |-> 0]
  /\ frozen = [f \in Files |-> 0]
  /\ closedPool = [f \in Files |-> 0]
  /\ content = [f \in Files |-> EmptyC]
  /\ cached = [f \in Files |-> None]
  /\ cl = [c \in Clients |-> IdleCl]
  /\ up = [u \in Uploaders |-> IdleUp]
  /\ expired = FALSE
  /\ last = NoRet

-----------------------------------------------------------------------------
(* Building blocks (bodies of critical sections).                          *)

\* releaseReferencesLocked(n)
ReleaseRefs(f, n) ==
  /\ refCount[f] >= n         \* otherwise the code panics
  /\ refCount' = [refCount EXCEPT ![f] = @ - n]
  /\ closedPool' = [closedPool EXCEPT ![f] = IF refCount[f] - n = 0 THEN @ + 1 ELSE @]

\* VirtualOpenSelf once it holds the lock.
OpenBody(c, f, m, trunc) ==
  IF refCount[f] = 0
  THEN /\ last' = Ret(f, "ESTALE")
       /\ UNCHANGED <<fd, refCount, writers, content, cached, closedPool>>
  ELSE /\ fd' = [fd EXCEPT ![c] = [f |-> f, m |-> m]]
       /\ refCount' = [refCount EXCEPT ![f] = @ + MaskCount(m)]
       /\ writers' = [writers EXCEPT ![f] = @ + (IF HasW(m) THEN 1 ELSE 0)]
       /\ content' = IF trunc THEN [content EXCEPT ![f] = EmptyC] ELSE content
       /\ cached' = IF trunc THEN [cached EXCEPT ![f] = None] ELSE cached
       /\ last' = Ret(f, "OK")
       /\ UNCHANGED closedPool

\* VirtualWrite / virtualTruncate once they hold the lock and nothing is
\* frozen.  An allocate that does not grow the file changes nothing.
MutBody(f, op, newc) ==
  /\ content' = [content EXCEPT ![f] = newc]
  /\ cached' = IF op = "allocate" /\ newc = content[f] THEN cached
               ELSE [cached EXCEPT ![f] = None]
  /\ last' = Ret(f, "OK")
  /\ UNCHANGED <<fd, refCount, writers, closedPool>>

\* frozenFileBackedFile.Close()
FrozenCloseBody(f) ==
  /\ frozen[f] > 0
  /\ frozen' = [frozen EXCEPT ![f] = @ - 1]
  /\ cl' = IF frozen[f] = 1
           THEN [c \in Clients |->
                   IF cl[c].pc = "parked" /\ cl[c].f = f
                   THEN [cl[c] EXCEPT !.woken = TRUE] ELSE cl[c]]
           ELSE cl
  /\ ReleaseRefs(f, 1)

\* openReadFrozen()
FrozenOpen(u, f, kind) ==
  IF refCount[f] = 0
  THEN /\ up' = [up EXCEPT ![u] = IdleUp]
       /\ last' = Ret(f, "NOTFOUND")
       /\ UNCHANGED <<refCount, frozen>>
  ELSE /\ refCount' = [refCount EXCEPT ![f] = @ + 1]
       /\ frozen' = [frozen EXCEPT ![f] = @ + 1]
       /\ up' = [up EXCEPT ![u] = [IdleUp EXCEPT !.pc = IF kind = "fread" THEN "reading" ELSE "frozenOpen",
                                                  !.kind = kind, !.f = f]]
       /\ last' = NoRet

-----------------------------------------------------------------------------
(* Client actions.                                                         *)

Park(c, op, f, m, arg) ==
  /\ cl' = [cl EXCEPT ![c] = [pc |-> "parked", op |-> op, f |-> f, m |-> m, arg |-> arg, woken |-> FALSE]]
  /\ last' = NoRet
  /\ UNCHANGED <<fd, refCount, writers, content, cached, closedPool>>

Open(c, f, m, trunc) ==
  /\ cl[c].pc = "idle" /\ fd[c].f = None
  /\ IF trunc /\ frozen[f] > 0
     THEN Park(c, "open", f, m, EmptyC)
     ELSE OpenBody(c, f, m, trunc) /\ UNCHANGED cl
  /\ UNCHANGED <<links, frozen, up, expired>>

Close(c) ==
  /\ cl[c].pc = "idle" /\ fd[c].f # None
  /\ LET f == fd[c].f
         m == fd[c].m
         nw == writers[f] - (IF HasW(m) THEN 1 ELSE 0)
     IN /\ writers' = [writers EXCEPT ![f] = nw]
        /\ up' = IF HasW(m) /\ nw = 0
                 THEN [u \in Uploaders |->
                         IF up[u].pc = "waitWriters" /\ up[u].f = f
                         THEN [up[u] EXCEPT !.woken = TRUE] ELSE up[u]]
                 ELSE up
        /\ ReleaseRefs(f, MaskCount(m))
        /\ fd' = [fd EXCEPT ![c] = NoFd]
        /\ last' = NoRet
  /\ UNCHANGED <<links, frozen, content, cached, cl, expired>>

\* Link()/Unlink() of the stateful handle in front of the file.
Link(f) ==
  /\ links[f] < MaxLinks
  /\ IF links[f] = 0
     THEN last' = Ret(f, "ESTALE") /\ UNCHANGED links
     ELSE last' = Ret(f, "OK") /\ links' = [links EXCEPT ![f] = @ + 1]
  /\ UNCHANGED <<fd, refCount, writers, frozen, closedPool, content, cached, cl, up, expired>>

PathOpPinned(f) ==
  \E c \in Clients : /\ cl[c].pc = "parked" /\ cl[c].f = f
                     /\ cl[c].op \in {"setsize", "allocate"} /\ fd[c].f # f

Unlink(f) ==
  /\ links[f] > 0
  /\ PinPathOps => ~(links[f] = 1 /\ PathOpPinned(f))
  /\ links' = [links EXCEPT ![f] = @ - 1]
  /\ IF links[f] = 1 THEN ReleaseRefs(f, 1) ELSE UNCHANGED <<refCount, closedPool>>
  /\ last' = NoRet
  /\ UNCHANGED <<fd, writers, frozen, content, cached, cl, up, expired>>

Mutate(c, f, op, newc) ==
  /\ cl[c].pc = "idle"
  /\ op = "write" => (fd[c].f = f /\ HasW(fd[c].m))
  /\ op \in {"setsize", "allocate"} => (links[f] > 0 \/ fd[c].f = f)
  /\ IF frozen[f] > 0
     THEN Park(c, op, f, "", newc)
     ELSE MutBody(f, op, newc) /\ UNCHANGED cl
  /\ UNCHANGED <<links, frozen, up, expired>>

\* A parked thread whose channel was closed re-enters lockMutatingData.
Resume(c) ==
  /\ cl[c].pc = "parked" /\ cl[c].woken
  /\ LET f == cl[c].f IN
     IF frozen[f] > 0
     THEN /\ cl' = [cl EXCEPT ![c].woken = FALSE]
          /\ UNCHANGED <<fd, refCount, writers, content, cached, closedPool, last>>
     ELSE /\ cl' = [cl EXCEPT ![c] = IdleCl]
          /\ IF cl[c].op = "open" THEN OpenBody(c, f, cl[c].m, TRUE)
                                  ELSE MutBody(f, cl[c].op, cl[c].arg)
  /\ UNCHANGED <<links, frozen, up, expired>>

-----------------------------------------------------------------------------
(* Uploader actions.                                                       *)

UpUnch == UNCHANGED <<links, fd, writers, content, cached, cl, expired, closedPool>>

\* uploadFile / ApplyOpenReadFrozen: first critical section of
\* waitAndOpenReadFrozen.  getBazelOutputServiceStat never waits.
UploadStart(u, f, kind) ==
  /\ up[u].pc = "idle"
  /\ IF writers[f] > 0
     THEN /\ IF kind = "stat"
             THEN /\ up' = up          \* no digest is reported
                  /\ last' = Ret(f, "OK")
             ELSE /\ up' = [up EXCEPT ![u] = [IdleUp EXCEPT !.pc = "waitWriters", !.kind = kind, !.f = f]]
                  /\ last' = NoRet
          /\ UNCHANGED <<refCount, frozen>>
     ELSE FrozenOpen(u, f, kind)
  /\ UpUnch

\* The select in waitAndOpenReadFrozen returned with the delay channel: the
\* wait is over whatever the writers do.
UploadWakeDelay(u) ==
  /\ up[u].pc = "waitWriters" /\ expired
  /\ FrozenOpen(u, up[u].f, up[u].kind)
  /\ UpUnch

\* ... or with the no-more-writers channel: re-check.
UploadWakeWriters(u) ==
  /\ up[u].pc = "waitWriters" /\ up[u].woken
  /\ IF writers[up[u].f] > 0
     THEN /\ up' = [up EXCEPT ![u].woken = FALSE]
          /\ UNCHANGED <<refCount, frozen, last>>
     ELSE FrozenOpen(u, up[u].f, up[u].kind)
  /\ UpUnch

UploadWake(u) == UploadWakeDelay(u) \/ UploadWakeWriters(u)

DelayFire ==
  /\ ~expired /\ expired' = TRUE
  /\ UNCHANGED <<links, fd, refCount, writers, frozen, closedPool, content, cached, cl, up, last>>

AfterHash(kind) == IF kind = "stat" THEN "statClose" ELSE "putting"

\* updateCachedDigest: look at the memo.
CheckCache(u) ==
  /\ up[u].pc = "frozenOpen"
  /\ up' = IF cached[up[u].f] # None
           THEN [up EXCEPT ![u].hashed = cached[up[u].f], ![u].pc = AfterHash(up[u].kind)]
           ELSE [up EXCEPT ![u].pc = "hashing"]
  /\ UNCHANGED <<links, fd, refCount, writers, frozen, closedPool, content, cached, cl, expired, last>>

\* ... read the file and compute the digest ...
HashRead(u) ==
  /\ up[u].pc = "hashing"
  /\ up' = [up EXCEPT ![u].hashed = content[up[u].f], ![u].pc = "hashStore"]
  /\ UNCHANGED <<links, fd, refCount, writers, frozen, closedPool, content, cached, cl, expired, last>>

\* ... store it.
HashStore(u) ==
  /\ up[u].pc = "hashStore"
  /\ cached' = [cached EXCEPT ![up[u].f] = up[u].hashed]
  /\ up' = [up EXCEPT ![u].pc = AfterHash(up[u].kind)]
  /\ UNCHANGED <<links, fd, refCount, writers, frozen, closedPool, content, cl, expired, last>>

\* The call returns; `bad` records whether a digest was reported that is not
\* the digest of what was transferred (upload) / of the contents (stat).
Finish(u, res) ==
  /\ FrozenCloseBody(up[u].f)
  /\ up' = [up EXCEPT ![u] = IdleUp]
  /\ last' = [Ret(up[u].f, res) EXCEPT !.bad =
                 \/ (up[u].kind = "upload" /\ res = "OK" /\ ~DigestOK(up[u].hashed, up[u].h1, up[u].h2))
                 \/ (up[u].kind = "stat" /\ res = "OK" /\ up[u].hashed # content[up[u].f])]
  /\ UNCHANGED <<links, fd, writers, content, cached, expired>>

\* Reading for the digest failed: the frozen view is closed, error returned.
HashFail(u) == up[u].pc = "hashing" /\ Finish(u, "ERR")

\* The CAS reads the buffer in two halves ...
PutRead1(u) ==
  /\ up[u].pc = "putting"
  /\ up' = [up EXCEPT ![u].h1 = content[up[u].f], ![u].pc = "putting2"]
  /\ UNCHANGED <<links, fd, refCount, writers, frozen, closedPool, content, cached, cl, expired, last>>
PutRead2(u) ==
  /\ up[u].pc = "putting2"
  /\ up' = [up EXCEPT ![u].h2 = content[up[u].f], ![u].pc = "putClose"]
  /\ UNCHANGED <<links, fd, refCount, writers, frozen, closedPool, content, cached, cl, expired, last>>
\* ... or discards it unread; either way the buffer closes the frozen view.
PutAbort(u) == up[u].pc = "putting" /\ Finish(u, "ERR")
PutDone(u, ok) == up[u].pc = "putClose" /\ Finish(u, IF ok THEN "OK" ELSE "ERR")

\* Output service stat: digest known, close the frozen view.
StatClose(u) == up[u].pc = "statClose" /\ Finish(u, "OK")

\* A frozen reader reads, and eventually closes.
FrozenRead(u) ==
  /\ up[u].pc = "reading"
  /\ up' = [up EXCEPT ![u].h1 = content[up[u].f]]
  /\ UNCHANGED <<links, fd, refCount, writers, frozen, closedPool, content, cached, cl, expired, last>>
FrozenClose(u) == up[u].pc = "reading" /\ Finish(u, "CLOSED")

Next ==
  \/ \E c \in Clients : \E f \in Files :
        \/ \E m \in Masks : Open(c, f, m, FALSE)
        \/ Open(c, f, "w", TRUE)
        \/ \E op \in MutOps : \E nc \in Contents : Mutate(c, f, op, nc)
  \/ \E c \in Clients : Close(c) \/ Resume(c)
  \/ \E f \in Files : Link(f) \/ Unlink(f)
  \/ \E u \in Uploaders :
        \/ \E f \in Files : \E k \in UpKinds : UploadStart(u, f, k)
        \/ UploadWake(u) \/ CheckCache(u) \/ HashRead(u) \/ HashStore(u) \/ HashFail(u)
        \/ PutRead1(u) \/ PutRead2(u) \/ PutAbort(u) \/ PutDone(u, TRUE) \/ PutDone(u, FALSE)
        \/ StatClose(u) \/ FrozenRead(u) \/ FrozenClose(u)
  \/ DelayFire

Spec == Init /\ [][Next]_vars

\* The clock advances and a woken/expired waiter gets to run.
FairSpec == Spec /\ WF_vars(DelayFire) /\ \A u \in Uploaders : WF_vars(UploadWakeDelay(u))

Symm == Permutations(Clients) \cup Permutations(Uploaders)

View == <<links, fd, refCount, writers, frozen, closedPool, content, cached, cl, up, expired>>

-----------------------------------------------------------------------------
(* Properties.                                                             *)

TypeOK ==
  /\ links \in [Files -> 0 .. MaxLinks]
  /\ \A c \in Clients : fd[c].f \in Files \cup {None} /\ fd[c].m \in Masks \cup {""}
  /\ \A f \in Files : refCount[f] \in Nat /\ writers[f] \in Nat /\ frozen[f] \in Nat
                      /\ closedPool[f] \in Nat
  /\ content \in [Files -> Contents]
  /\ cached \in [Files -> Contents \cup {None}]
  /\ expired \in BOOLEAN

Holders(f) == {c \in Clients : fd[c].f = f}
HolderRefs(f) ==   \* sum of MaskCount over the descriptors open on f
  Cardinality({x \in Clients \X {1, 2} : fd[x[1]].f = f /\ x[2] <= MaskCount(fd[x[1]].m)})
FrozenHolders(f) == {u \in Uploaders : up[u].f = f /\ up[u].pc \in FrozenPcs}
Referenced(f) == links[f] > 0 \/ Holders(f) # {} \/ FrozenHolders(f) # {}

\* referenceCount = links (as one) + descriptor references + frozen readers
C16_Refs ==
  \A f \in Files :
    /\ RefsOK(refCount[f], links[f], HolderRefs(f), Cardinality(FrozenHolders(f)))
    /\ frozen[f] = Cardinality(FrozenHolders(f))
    /\ writers[f] = Cardinality({c \in Holders(f) : HasW(fd[c].m)})

\* the pool file is closed at most once, exactly while nothing refers to
\* the file; and a released file never comes back
C16_CloseOnce == \A f \in Files : CloseOnceOK(closedPool[f], Referenced(f))
C16_CloseForGood ==
  [][\A f \in Files : closedPool[f] >= 1 => closedPool'[f] = closedPool[f]]_vars

\* operations on a released file fail with ESTALE / NOT_FOUND and leave the
\* pool file alone
C16_Stale == [][StaleOK(last'.dead, last'.st)]_vars
C16_StaleUntouched ==
  [][\A f \in Files : closedPool[f] >= 1 =>
        /\ content'[f] = content[f] /\ cached'[f] = cached[f]
        /\ refCount'[f] = 0 /\ frozen'[f] = 0 /\ writers'[f] = 0]_vars

\* the digest reported = the digest of what the CAS read, for both halves;
\* the memo is only ever valid for the present contents; while a digest is
\* in use under a frozen view the contents do not move
C16_Digest == [][~last'.bad]_vars
C16_DigestInv ==
  /\ \A f \in Files : CacheOK(cached[f], content[f], None)
  /\ \A u \in Uploaders : up[u].pc \in HashedPcs => up[u].hashed = content[up[u].f]
  /\ \A u \in Uploaders : (up[u].pc = "reading" /\ up[u].h1 # None) => up[u].h1 = content[up[u].f]

\* nobody is parked while what it waits for already holds
C16_NoLostWakeup ==
  /\ \A u \in Uploaders :
       (up[u].pc = "waitWriters" /\ ~up[u].woken) => (expired \/ UploadMayWait(writers[up[u].f], expired))
  /\ \A c \in Clients :
       (cl[c].pc = "parked" /\ ~cl[c].woken) => WriterMayWait(frozen[cl[c].f])

\* the wait for writers is bounded by the delay (checked under FairSpec)
C16_BoundedWait ==
  \A u \in Uploaders : (up[u].pc = "waitWriters") ~> (up[u].pc # "waitWriters")
=============================================================================
