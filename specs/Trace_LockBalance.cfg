SPECIFICATION TraceSpec
CONSTANTS
  LockIds = {"unused"}
INVARIANTS
  VerdictOK
  C14_Balance
  Report
POSTCONDITION Accepted
CHECK_DEADLOCK FALSE
