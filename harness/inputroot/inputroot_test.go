// Package inputroot drives the real lazily populated input root
// (pkg/builder virtualBuildDirectory.MergeDirectoryContents ->
// virtual.NewCASInitialContentsFetcher -> stateless handle allocating CAS
// file factory -> BlobAccess CAS file factory, pkg/cas directory fetchers)
// over an in-memory CAS with fault injection, and records traces that
// specs/InputRootTrace.tla validates (property C17).
//
// No judgement is made here: the driver logs what it asked and what it
// saw; TLC decides.
package inputroot

import (
	"context"
	"fmt"
	"math/rand"
	"sort"
	"strings"
	"testing"
	"time"

	re_blobstore "github.com/buildbarn/bb-remote-execution/pkg/blobstore"
	"github.com/buildbarn/bb-remote-execution/pkg/builder"
	re_cas "github.com/buildbarn/bb-remote-execution/pkg/cas"
	re_clock "github.com/buildbarn/bb-remote-execution/pkg/clock"
	"github.com/buildbarn/bb-remote-execution/pkg/filesystem/access"
	"github.com/buildbarn/bb-remote-execution/pkg/filesystem/pool"
	"github.com/buildbarn/bb-remote-execution/pkg/filesystem/virtual"
	"github.com/buildbarn/bb-storage/pkg/blobstore"
	"github.com/buildbarn/bb-storage/pkg/clock"
	"github.com/buildbarn/bb-storage/pkg/digest"
	"github.com/buildbarn/bb-storage/pkg/eviction"
	"github.com/buildbarn/bb-storage/pkg/filesystem"
	"github.com/buildbarn/bb-storage/pkg/filesystem/path"
	"github.com/buildbarn/bb-storage/pkg/random"

	"google.golang.org/grpc/codes"
	"google.golang.org/grpc/status"

	"verif/harness/common"
)

const maxActions = 3 // must match Actions in Trace_InputRoot.cfg

// ---------------------------------------------------------------------
// Small fakes

type memBlockDevice struct{ data []byte }

func (b *memBlockDevice) ReadAt(p []byte, off int64) (int, error) {
	return copy(p, b.data[off:]), nil
}

func (b *memBlockDevice) WriteAt(p []byte, off int64) (int, error) {
	return copy(b.data[off:], p), nil
}
func (b *memBlockDevice) Sync() error  { return nil }
func (b *memBlockDevice) Close() error { return nil }

type collectingErrorLogger struct{ n int }

func (l *collectingErrorLogger) Log(err error) { l.n++ }

type pageReporter struct {
	limit   int
	entries []dirEntry
	last    uint64
}

type dirEntry struct {
	Name   string `json:"name"`
	Kind   string `json:"kind"`
	Exec   bool   `json:"exec"`
	Size   int64  `json:"size"`
	Target string `json:"target"`
}

func (r *pageReporter) ReportEntry(nextCookie uint64, name path.Component, child virtual.DirectoryChild, attributes *virtual.Attributes) bool {
	if len(r.entries) >= r.limit {
		return false
	}
	e := attrsToEntry(attributes)
	e.Name = disp(name.String())
	r.entries = append(r.entries, e)
	r.last = nextCookie
	return true
}

const attrMask = virtual.AttributesMaskFileType | virtual.AttributesMaskPermissions |
	virtual.AttributesMaskSizeBytes | virtual.AttributesMaskSymlinkTarget |
	virtual.AttributesMaskInodeNumber | virtual.AttributesMaskLinkCount

const lockedAttrMask = attrMask | virtual.AttributesMaskChangeID | virtual.AttributesMaskLastDataModificationTime

func kindOf(t filesystem.FileType) string {
	switch t {
	case filesystem.FileTypeDirectory:
		return "dir"
	case filesystem.FileTypeRegularFile:
		return "file"
	case filesystem.FileTypeSymlink:
		return "symlink"
	}
	return fmt.Sprintf("other%d", int(t))
}

func targetString(p path.Parser) string {
	b, sw := path.EmptyBuilder.Join(path.VoidScopeWalker)
	if err := path.Resolve(p, sw); err != nil {
		return "!resolve-error"
	}
	return b.GetUNIXString()
}

// attrsToEntry projects attributes onto what the property talks about:
// kind, executable bit (regular files only), size (regular files only),
// symlink target.
func attrsToEntry(a *virtual.Attributes) dirEntry {
	e := dirEntry{Kind: kindOf(a.GetFileType()), Size: -1}
	if e.Kind == "file" {
		if p, ok := a.GetPermissions(); ok {
			e.Exec = p&virtual.PermissionsExecute != 0
		}
		if s, ok := a.GetSizeBytes(); ok {
			e.Size = int64(s)
		}
	}
	if e.Kind == "symlink" {
		if t, ok := a.GetSymlinkTarget(); ok {
			e.Target = targetString(t)
		} else {
			e.Target = "!no-target"
		}
	}
	return e
}

func stName(s virtual.Status) string {
	names := map[virtual.Status]string{
		virtual.StatusOK: "OK", virtual.StatusErrAccess: "EACCES", virtual.StatusErrExist: "EEXIST",
		virtual.StatusErrInval: "EINVAL", virtual.StatusErrIO: "EIO", virtual.StatusErrIsDir: "EISDIR",
		virtual.StatusErrNoEnt: "ENOENT", virtual.StatusErrNotDir: "ENOTDIR", virtual.StatusErrNotEmpty: "ENOTEMPTY",
		virtual.StatusErrPerm: "EPERM", virtual.StatusErrROFS: "EROFS", virtual.StatusErrStale: "ESTALE",
		virtual.StatusErrSymlink: "ESYMLINK", virtual.StatusErrWrongType: "EWRONGTYPE", virtual.StatusErrXDev: "EXDEV",
		virtual.StatusErrNXIO: "ENXIO", virtual.StatusErrBadHandle: "EBADHANDLE",
	}
	if n, ok := names[s]; ok {
		return n
	}
	return fmt.Sprintf("status%d", int(s))
}

func errName(err error) string {
	if err == nil {
		return "OK"
	}
	s := err.Error()
	if len(s) > 80 {
		s = s[:80]
	}
	return s
}

// ---------------------------------------------------------------------
// One scenario: a CAS, a (caching) directory fetcher, a virtual build
// directory shared by up to three actions.

type action struct {
	id       string
	started  bool
	kroot    virtual.Directory
	proot    virtual.PrepopulatedDirectory
	wroot    builder.BuildDirectory
	known    map[string]string // "a/b" -> kind seen last
	explored map[string]bool   // directories whose contents were obtained at least once
	kcache   map[string]virtual.Directory
	rootDig  digest.Digest
	mode     string
}

type scenario struct {
	t         *testing.T
	tr        *common.Trace
	r         *rand.Rand
	w         *world
	ctx       context.Context
	fetcher   re_cas.DirectoryFetcher
	ha        virtual.StatefulHandleAllocator
	symf      virtual.SymlinkFactory
	top       virtual.PrepopulatedDirectory
	bd        builder.BuildDirectory
	fileCAS   blobstore.BlobAccess
	filePool  pool.FilePool
	elog      *collectingErrorLogger
	actions   []*action
	pFault    float64
	cacheMode int
	info      common.Ev
	scanIDs   []digest.Digest
	dead      bool
	boost     bool // next guarded call touches a directory not explored yet
}

func pathKey(p []string) string { return strings.Join(p, "/") }

func splitKey(k string) []string {
	if k == "" {
		return []string{}
	}
	return strings.Split(k, "/")
}

func cp(p []string) []string { return append([]string{}, p...) }

func dispPath(p []string) []string {
	out := make([]string, len(p))
	for i, s := range p {
		out[i] = disp(s)
	}
	return out
}

// guarded runs f, injecting at most one storage error, and returns the ids
// whose Get failed. A panic of the real code is logged as an event.
func (s *scenario) guarded(a *action, what string, mayFault bool, f func()) (faults []string, panicked bool) {
	pf := s.pFault
	if s.boost && pf > 0 {
		// first access of a directory: this is where lazy loading
		// happens, inject more often
		pf = 0.4
	}
	s.boost = false
	if mayFault && s.r.Float64() < pf {
		s.w.cas.arm(s.r.Intn(2))
	}
	defer func() {
		faults = s.w.cas.disarm()
		if r := recover(); r != nil {
			panicked = true
			s.dead = true
			s.tr.Emit(common.Ev{"ev": "panic", "a": a.id, "during": what, "msg": fmt.Sprint(r)})
		}
	}()
	f()
	return
}

// aim tells guarded() whether the next call is the first access of dir.
func (s *scenario) aim(a *action, dir []string) { s.boost = !a.explored[pathKey(dir)] }

// seen records that the contents of dir were obtained (or not) by a call
// during which no storage error was injected.
func (s *scenario) seen(a *action, dir []string, faults []string) {
	if len(faults) == 0 {
		a.explored[pathKey(dir)] = true
	}
}

func newScenario(t *testing.T, tr *common.Trace, r *rand.Rand, nDirs int) *scenario {
	s := &scenario{t: t, tr: tr, r: r, ctx: context.Background(), elog: &collectingErrorLogger{}}
	s.pFault = []float64{0, 0.08, 0.2}[r.Intn(3)]
	w := newWorld(r)
	s.w = w
	w.genBlobs()
	pm := []float64{0, 0.15, 0.35}[r.Intn(3)]
	for i := 0; i < nDirs; i++ {
		w.genDir(pm)
	}

	// Directory fetcher: real BlobAccess fetcher, usually behind the
	// real caching fetcher (small, so that eviction happens too).
	base := re_cas.NewBlobAccessDirectoryFetcher(w.cas, 1<<16, 1<<20)
	s.fetcher = base
	cacheMode := r.Intn(4)
	s.cacheMode = cacheMode
	switch cacheMode {
	case 1:
		s.fetcher = re_cas.NewCachingDirectoryFetcher(base, digest.KeyWithoutInstance, 1000, 1<<20,
			eviction.NewLRUSet[re_cas.CachingDirectoryFetcherKey]())
	case 2:
		s.fetcher = re_cas.NewCachingDirectoryFetcher(base, digest.KeyWithInstance, 2, 1<<20,
			eviction.NewLRUSet[re_cas.CachingDirectoryFetcherKey]())
	case 3:
		s.fetcher = re_cas.NewCachingDirectoryFetcher(base, digest.KeyWithoutInstance, 1000, 200,
			eviction.NewFIFOSet[re_cas.CachingDirectoryFetcherKey]())
	}

	// The virtual file system exactly as cmd/bb_worker wires it.
	haMode := r.Intn(2)
	if haMode == 0 {
		s.ha = virtual.NewFUSEHandleAllocator(random.FastThreadSafeGenerator)
	} else {
		s.ha = virtual.NewNFSHandleAllocator(random.NewFastSingleThreadedGenerator())
	}
	das := func(requested virtual.AttributesMask, attributes *virtual.Attributes) {}
	sorter := virtual.Sorter(sort.Sort)
	shuffle := r.Intn(2) == 0
	if shuffle {
		sorter = virtual.Shuffle
	}
	s.top = virtual.NewInMemoryPrepopulatedDirectory(
		virtual.NewHandleAllocatingFileAllocator(
			virtual.NewPoolBackedFileAllocator(pool.EmptyFilePool, s.elog, das, virtual.NoNamedAttributesFactory),
			s.ha),
		virtual.NewErrorSymlinkFactory(status.Error(codes.PermissionDenied, "Symlink outside build directory")),
		s.elog, s.ha, sorter,
		func(string) bool { return false },
		clock.SystemClock,
		virtual.CaseSensitiveComponentNormalizer,
		das,
		virtual.NoNamedAttributesFactory)
	s.symf = virtual.NewHandleAllocatingSymlinkFactory(virtual.NewBaseSymlinkFactory(das), s.ha.New(), path.LocalFormat)
	cdf := virtual.NewHandleAllocatingCharacterDeviceFactory(virtual.BaseCharacterDeviceFactory, s.ha.New())
	// Like bb_worker: directory fetcher and CAS behind the suspending
	// decorators of a real SuspendableClock (in half of the scenarios).
	s.fileCAS = w.cas
	suspending := r.Intn(2) == 0
	if suspending {
		sc := re_clock.NewSuspendableClock(clock.SystemClock, time.Hour, time.Second/10)
		s.fetcher = re_cas.NewSuspendingDirectoryFetcher(s.fetcher, sc)
		s.fileCAS = re_blobstore.NewSuspendingBlobAccess(w.cas, sc)
	}
	s.bd = builder.NewVirtualBuildDirectory(s.top, s.fetcher, s.fileCAS, s.symf, cdf, s.ha, das, clock.SystemClock)
	s.filePool = pool.NewBlockDeviceBackedFilePool(&memBlockDevice{data: make([]byte, 64*512)}, pool.NewBitmapSectorAllocator(64), 512)

	for i := 0; i < maxActions; i++ {
		s.actions = append(s.actions, &action{id: fmt.Sprintf("a%d", i), known: map[string]string{}, explored: map[string]bool{}, kcache: map[string]virtual.Directory{}})
	}
	s.info = common.Ev{"ev": "info", "cache": cacheMode, "handles": []string{"fuse", "nfs"}[haMode], "shuffle": shuffle,
		"pfault": s.pFault, "digestfn": w.df.GetEnumValue().String(), "suspending": suspending}
	return s
}

// describe emits the reset event: everything stored in the CAS, described
// independently of the code under test.
func (s *scenario) describe(roots []digest.Digest, trees []digest.Digest) {
	w := s.w
	dirs := map[string]rawDir{}
	seen := map[string]bool{}
	var visit func(d digest.Digest)
	visit = func(d digest.Digest) {
		k := key(d)
		if seen[k] {
			return
		}
		seen[k] = true
		data, ok := w.cas.blobs[k]
		if !ok {
			return // absent: not in the map, the model reads it as missing
		}
		r := describeDirectory(w.ids, w.df, data)
		dirs[w.ids.id(d)] = r
		for _, c := range r.dirDigests {
			visit(c)
		}
	}
	for _, d := range roots {
		visit(d)
	}
	for _, di := range w.dirs {
		visit(di.d)
	}
	treesOut := map[string]rawTree{}
	for _, td := range trees {
		data, ok := w.cas.blobs[key(td)]
		if !ok {
			continue
		}
		treesOut[w.ids.id(td)] = describeTree(w.ids, w.df, data)
	}
	blobs := map[string][]int{}
	for _, b := range w.blobs {
		if b.stored {
			v := make([]int, len(b.data))
			for i, x := range b.data {
				v[i] = int(x)
			}
			blobs[w.ids.id(b.d)] = v
		}
	}
	hashes := map[string]string{}
	for _, d := range w.ids.list {
		hashes[w.ids.id(d)] = w.cas.hashOf(d)
	}
	s.scanIDs = append([]digest.Digest{}, w.ids.list...)
	s.tr.Emit(common.Ev{"ev": "reset", "dirs": dirs, "trees": treesOut, "blobs": blobs, "hashes": hashes})
	s.tr.Emit(s.info)
}

// startAction creates the per-action directory, installs the hooks, creates
// and enters "root" and merges the input root, like LocalBuildExecutor.
func (s *scenario) startAction(a *action, mode string, root digest.Digest) {
	if a.kroot == nil {
		name := path.MustNewComponent("act-" + a.id)
		if err := s.bd.Mkdir(name, 0o777); err != nil {
			s.t.Fatalf("cannot create action directory: %v", err)
		}
		sub, err := s.bd.EnterBuildDirectory(name)
		if err != nil {
			s.t.Fatal(err)
		}
		sub.InstallHooks(s.filePool, s.elog)
		rootName := path.MustNewComponent("root")
		if err := sub.Mkdir(rootName, 0o777); err != nil {
			s.t.Fatal(err)
		}
		a.wroot, err = sub.EnterBuildDirectory(rootName)
		if err != nil {
			s.t.Fatal(err)
		}
		var attrs virtual.Attributes
		c, st := s.top.VirtualLookup(s.ctx, name, attrMask, &attrs)
		if st != virtual.StatusOK {
			s.t.Fatalf("lookup of action directory: %v", st)
		}
		ad, _ := c.GetPair()
		c, st = ad.VirtualLookup(s.ctx, rootName, attrMask, &attrs)
		if st != virtual.StatusOK {
			s.t.Fatalf("lookup of root: %v", st)
		}
		a.kroot, _ = c.GetPair()
		pc, err := s.top.LookupChild(name)
		if err != nil {
			s.t.Fatal(err)
		}
		pd, _ := pc.GetPair()
		pc, err = pd.LookupChild(rootName)
		if err != nil {
			s.t.Fatal(err)
		}
		a.proot, _ = pc.GetPair()
	}
	a.mode = mode
	a.rootDig = root
	s.merge(a, []string{}, a.wroot, a.proot, mode, root, root)
	a.started = true
	a.known[""] = "dir"
}

func (s *scenario) casFileFactory() virtual.CASFileFactory {
	return virtual.NewStatelessHandleAllocatingCASFileFactory(
		virtual.NewBlobAccessCASFileFactory(s.ctx, s.fileCAS, s.elog),
		s.ha.New())
}

func (s *scenario) fetcherFor(mode string, tree, d digest.Digest) virtual.InitialContentsFetcher {
	var walker re_cas.DirectoryWalker
	if mode == "tree" {
		walker = &treeWalker{fetcher: s.fetcher, tree: tree}
		if key(tree) != key(d) {
			dd := d
			walker = &treeWalker{fetcher: s.fetcher, tree: tree, child: &dd}
		}
	} else {
		walker = re_cas.NewDecomposedDirectoryWalker(s.fetcher, d)
	}
	return virtual.NewCASInitialContentsFetcher(s.ctx, walker, s.casFileFactory(), s.symf, d.GetDigestFunction())
}

// merge merges the children of a Directory into directory `dir`.
// mode "dir": the worker's own MergeDirectoryContents; mode "tree": the
// same steps with a Tree walker (MergeDirectoryContents hard-wires the
// decomposed walker).
func (s *scenario) merge(a *action, dir []string, wd builder.BuildDirectory, pd virtual.PrepopulatedDirectory, mode string, tree, d digest.Digest) {
	var err error
	monitored := s.r.Intn(3) == 0
	faults, panicked := s.guarded(a, "merge", true, func() {
		if mode == "dir" {
			var mon access.UnreadDirectoryMonitor
			if monitored {
				mon = access.NewBloomFilterComputingUnreadDirectoryMonitor()
			}
			err = wd.MergeDirectoryContents(s.ctx, s.elog, d, mon)
		} else {
			var children map[path.Component]virtual.InitialChild
			children, err = s.fetcherFor("tree", tree, d).FetchContents(func(path.Component) virtual.FileReadMonitor { return nil })
			if err == nil {
				err = pd.CreateChildren(children, false)
			}
		}
	})
	if panicked {
		return
	}
	id := s.w.ids.id(d)
	if mode == "tree" && key(tree) == key(d) {
		id = "ROOT"
	}
	treeID := ""
	if mode == "tree" {
		treeID = s.w.ids.id(tree)
	}
	s.tr.Emit(common.Ev{"ev": "merge", "a": a.id, "dir": dispPath(dir), "mode": mode, "tree": treeID, "id": id,
		"ok": err == nil, "st": errName(err), "faults": faults, "monitored": monitored})
	a.kcache = map[string]virtual.Directory{}
}

// kdir resolves a directory through the kernel-facing API, logging every
// VirtualLookup on the way.
func (s *scenario) kdir(a *action, p []string) (virtual.Directory, bool) {
	if d, ok := a.kcache[pathKey(p)]; ok && s.r.Intn(3) > 0 {
		return d, true
	}
	cur := a.kroot
	for i, n := range p {
		child, e, ok := s.klookup(a, cur, p[:i], n)
		if !ok || e.Kind != "dir" {
			return nil, false
		}
		cur, _ = child.GetPair()
		a.kcache[pathKey(p[:i+1])] = cur
	}
	return cur, true
}

func (s *scenario) klookup(a *action, d virtual.Directory, dir []string, name string) (virtual.DirectoryChild, dirEntry, bool) {
	var attrs virtual.Attributes
	var child virtual.DirectoryChild
	var st virtual.Status
	mask := virtual.AttributesMask(attrMask)
	if s.r.Intn(3) == 0 {
		mask = lockedAttrMask
	}
	comp, valid := path.NewComponent(name)
	if !valid {
		return child, dirEntry{}, false
	}
	s.aim(a, dir)
	faults, panicked := s.guarded(a, "lookup", true, func() {
		child, st = d.VirtualLookup(s.ctx, comp, mask, &attrs)
	})
	if panicked {
		return child, dirEntry{}, false
	}
	s.seen(a, dir, faults)
	e := dirEntry{Kind: "none", Size: -1}
	if st == virtual.StatusOK {
		e = attrsToEntry(&attrs)
	}
	s.tr.Emit(common.Ev{"ev": "lookup", "a": a.id, "api": "k", "dir": dispPath(dir), "name": disp(name),
		"ok": st == virtual.StatusOK, "st": stName(st), "kind": e.Kind, "exec": e.Exec, "size": e.Size, "target": e.Target, "faults": faults})
	s.learn(a, append(cp(dir), name), e.Kind, st == virtual.StatusOK, len(faults) > 0)
	return child, e, st == virtual.StatusOK
}

func (s *scenario) learn(a *action, p []string, kind string, ok, faulted bool) {
	k := pathKey(p)
	if ok {
		a.known[k] = kind
	} else if !faulted {
		delete(a.known, k)
	}
}

// pdir resolves a directory through the worker-facing API.
func (s *scenario) pdir(a *action, p []string) (virtual.PrepopulatedDirectory, builder.BuildDirectory, bool) {
	cur := a.proot
	wcur := a.wroot
	for i, n := range p {
		comp := path.MustNewComponent(n)
		var child virtual.PrepopulatedDirectoryChild
		var err error
		s.aim(a, p[:i])
		faults, panicked := s.guarded(a, "w_lookup", true, func() {
			child, err = cur.LookupChild(comp)
		})
		if panicked {
			return nil, nil, false
		}
		s.seen(a, p[:i], faults)
		e := dirEntry{Kind: "none", Size: -1}
		if err == nil {
			var attrs virtual.Attributes
			child.GetNode().VirtualGetAttributes(s.ctx, attrMask, &attrs)
			e = attrsToEntry(&attrs)
		}
		s.tr.Emit(common.Ev{"ev": "lookup", "a": a.id, "api": "w", "dir": dispPath(p[:i]), "name": disp(n),
			"ok": err == nil, "st": errName(err), "kind": e.Kind, "exec": e.Exec, "size": e.Size, "target": e.Target, "faults": faults})
		s.learn(a, p[:i+1], e.Kind, err == nil, len(faults) > 0)
		if err != nil || e.Kind != "dir" {
			return nil, nil, false
		}
		cur, _ = child.GetPair()
		// EnterBuildDirectory repeats the LookupChild that just
		// succeeded; no new directory is loaded by it.
		wnext, werr := wcur.EnterBuildDirectory(comp)
		if werr != nil {
			return nil, nil, false
		}
		wcur = wnext
	}
	return cur, wcur, true
}

func (s *scenario) knownOfKind(a *action, kinds ...string) []string {
	var out []string
	for k, v := range a.known {
		for _, want := range kinds {
			if v == want {
				out = append(out, k)
			}
		}
	}
	sort.Strings(out)
	return out
}

func (s *scenario) pickDir(a *action) []string {
	ds := s.knownOfKind(a, "dir")
	if len(ds) == 0 {
		return []string{}
	}
	// prefer deeper / more recently learned paths a little
	return splitKey(ds[s.r.Intn(len(ds))])
}

func (s *scenario) pickName(a *action, dir []string) string {
	// a name known to exist below dir, or a random one
	if s.r.Intn(3) > 0 {
		prefix := pathKey(dir)
		var cands []string
		for k := range a.known {
			if k == "" {
				continue
			}
			kp := splitKey(k)
			if pathKey(kp[:len(kp)-1]) == prefix {
				cands = append(cands, kp[len(kp)-1])
			}
		}
		sort.Strings(cands)
		if len(cands) > 0 {
			return cands[s.r.Intn(len(cands))]
		}
	}
	pool := append(append([]string{}, goodNames...), "n1", "n2", "gone", "junk", "dup", "bd", "bf", "never")
	return pool[s.r.Intn(len(pool))]
}

// ---------------------------------------------------------------------
// Observations

func (s *scenario) opLookup(a *action) {
	dir := s.pickDir(a)
	name := s.pickName(a, dir)
	if s.r.Intn(4) == 0 {
		s.pdir(a, append(cp(dir), name))
		return
	}
	d, ok := s.kdir(a, dir)
	if !ok {
		return
	}
	_, _, _ = s.klookup(a, d, dir, name)
}

func (s *scenario) opList(a *action) {
	dir := s.pickDir(a)
	s.listAt(a, dir, s.r.Intn(4))
}

// listAt lists directory dir through one of the listing APIs (which: 0 =
// worker-facing ReadDir, 1 = worker-facing LookupAllChildren, else the
// kernel-facing VirtualReadDir with small pages).
func (s *scenario) listAt(a *action, dir []string, which int) {
	switch which {
	case 0: // worker-facing ReadDir
		pd, _, ok := s.pdir(a, dir)
		if !ok {
			return
		}
		var infos []filesystem.FileInfo
		var err error
		s.aim(a, dir)
		faults, panicked := s.guarded(a, "w_readdir", true, func() { infos, err = pd.ReadDir() })
		if panicked {
			return
		}
		entries := []dirEntry{}
		for _, fi := range infos {
			k := kindOf(fi.Type())
			entries = append(entries, dirEntry{Name: disp(fi.Name().String()), Kind: k, Exec: k == "file" && fi.IsExecutable(), Size: -1})
		}
		s.emitList(a, "w", dir, err == nil, errName(err), entries, faults, 0)
	case 1: // worker-facing LookupAllChildren
		pd, _, ok := s.pdir(a, dir)
		if !ok {
			return
		}
		var ds []virtual.DirectoryPrepopulatedDirEntry
		var ls []virtual.LeafPrepopulatedDirEntry
		var err error
		s.aim(a, dir)
		faults, panicked := s.guarded(a, "w_lookupall", true, func() { ds, ls, err = pd.LookupAllChildren() })
		if panicked {
			return
		}
		entries := []dirEntry{}
		for _, d := range ds {
			entries = append(entries, dirEntry{Name: disp(d.Name.String()), Kind: "dir", Size: -1})
		}
		for _, l := range ls {
			var attrs virtual.Attributes
			l.Child.VirtualGetAttributes(s.ctx, attrMask, &attrs)
			e := attrsToEntry(&attrs)
			e.Name = disp(l.Name.String())
			entries = append(entries, e)
		}
		s.emitList(a, "wall", dir, err == nil, errName(err), entries, faults, 0)
	default: // kernel-facing VirtualReadDir with small pages
		d, ok := s.kdir(a, dir)
		if !ok {
			return
		}
		page := 1 + s.r.Intn(3)
		mask := virtual.AttributesMask(attrMask)
		if s.r.Intn(3) == 0 {
			mask = lockedAttrMask
		}
		all := []dirEntry{}
		var st virtual.Status
		var faults []string
		cookie := uint64(0)
		for round := 0; round < 200; round++ {
			rep := &pageReporter{limit: page}
			s.aim(a, dir)
			f, panicked := s.guarded(a, "readdir", round == 0, func() { st = d.VirtualReadDir(s.ctx, cookie, mask, rep) })
			if panicked {
				return
			}
			faults = append(faults, f...)
			if st != virtual.StatusOK || len(rep.entries) == 0 {
				break
			}
			all = append(all, rep.entries...)
			cookie = rep.last
		}
		if faults == nil {
			faults = []string{}
		}
		s.emitList(a, "k", dir, st == virtual.StatusOK, stName(st), all, faults, page)
	}
}

func (s *scenario) emitList(a *action, api string, dir []string, ok bool, st string, entries []dirEntry, faults []string, page int) {
	s.tr.Emit(common.Ev{"ev": "list", "a": a.id, "api": api, "dir": dispPath(dir), "ok": ok, "st": st,
		"entries": entries, "faults": faults, "page": page})
	s.seen(a, dir, faults)
	if ok {
		prefix := pathKey(dir)
		for k := range a.known {
			if k == "" {
				continue
			}
			kp := splitKey(k)
			if pathKey(kp[:len(kp)-1]) == prefix {
				delete(a.known, k)
			}
		}
		for _, e := range entries {
			if strings.HasPrefix(e.Name, "bin:") {
				continue // raw name not recoverable from the display form
			}
			a.known[pathKey(append(cp(dir), e.Name))] = e.Kind
		}
	}
}

// leafAt resolves a leaf through the kernel-facing API.
func (s *scenario) leafAt(a *action, p []string) (virtual.Leaf, dirEntry, bool) {
	d, ok := s.kdir(a, p[:len(p)-1])
	if !ok {
		return nil, dirEntry{}, false
	}
	child, e, ok := s.klookup(a, d, p[:len(p)-1], p[len(p)-1])
	if !ok {
		return nil, e, false
	}
	_, leaf := child.GetPair()
	if leaf == nil {
		return nil, e, false
	}
	return leaf, e, true
}

func ints(b []byte) []int {
	out := make([]int, len(b))
	for i, x := range b {
		out[i] = int(x)
	}
	return out
}

func (s *scenario) opRead(a *action) {
	fs := s.knownOfKind(a, "file")
	if len(fs) == 0 {
		s.opList(a)
		return
	}
	p := splitKey(fs[s.r.Intn(len(fs))])
	leaf, e, ok := s.leafAt(a, p)
	if !ok || e.Kind != "file" {
		return
	}
	// re-read the attributes of the node we hold
	var attrs virtual.Attributes
	leaf.VirtualGetAttributes(s.ctx, attrMask, &attrs)
	ge := attrsToEntry(&attrs)
	s.tr.Emit(common.Ev{"ev": "getattr", "a": a.id, "path": dispPath(p), "kind": ge.Kind, "exec": ge.Exec, "size": ge.Size, "target": ge.Target})

	off := s.r.Intn(5)
	n := 1 + s.r.Intn(9)
	if s.r.Intn(2) == 0 {
		off = 0
		n = 16
	}
	var ost, rst virtual.Status
	var got int
	var eof bool
	buf := make([]byte, n)
	faults, panicked := s.guarded(a, "read", true, func() {
		var oattrs virtual.Attributes
		ost = leaf.VirtualOpenSelf(s.ctx, virtual.ShareMaskRead, &virtual.OpenExistingOptions{}, attrMask, &oattrs)
		if ost == virtual.StatusOK {
			got, eof, rst = leaf.VirtualRead(s.ctx, buf, uint64(off))
			leaf.VirtualClose(virtual.ShareMaskRead)
		}
	})
	if panicked {
		return
	}
	ok2 := ost == virtual.StatusOK && rst == virtual.StatusOK
	data := []int{}
	if ok2 {
		data = ints(buf[:got])
	}
	s.tr.Emit(common.Ev{"ev": "read", "a": a.id, "path": dispPath(p), "off": off, "n": n, "ok": ok2,
		"ost": stName(ost), "st": stName(rst), "data": data, "eof": eof && ok2, "faults": faults})

	// the digest the worker would report for this file without uploading it
	if s.r.Intn(3) == 0 {
		_, wd, ok := s.pdir(a, p[:len(p)-1])
		if ok {
			var dg digest.Digest
			var err error
			f2, panicked := s.guarded(a, "upload", false, func() {
				noDelay := make(chan struct{})
				close(noDelay)
				dg, err = wd.UploadFile(s.ctx, path.MustNewComponent(p[len(p)-1]), s.w.df, noDelay)
			})
			if !panicked {
				id := "?"
				if err == nil {
					id = s.w.ids.lookup(dg)
				}
				s.tr.Emit(common.Ev{"ev": "upload", "a": a.id, "path": dispPath(p), "ok": err == nil, "st": errName(err), "blob": id, "faults": f2})
			}
		}
	}
}

func (s *scenario) opReadlink(a *action) {
	ls := s.knownOfKind(a, "symlink")
	if len(ls) == 0 {
		s.opLookup(a)
		return
	}
	p := splitKey(ls[s.r.Intn(len(ls))])
	if s.r.Intn(2) == 0 {
		_, wd, ok := s.pdir(a, p[:len(p)-1])
		if !ok {
			return
		}
		var parser path.Parser
		var err error
		faults, panicked := s.guarded(a, "w_readlink", true, func() { parser, err = wd.Readlink(path.MustNewComponent(p[len(p)-1])) })
		if panicked {
			return
		}
		target := ""
		if err == nil {
			target = targetString(parser)
		}
		s.tr.Emit(common.Ev{"ev": "readlink", "a": a.id, "api": "w", "path": dispPath(p), "ok": err == nil, "st": errName(err), "target": target, "faults": faults})
		return
	}
	leaf, e, ok := s.leafAt(a, p)
	if !ok || e.Kind != "symlink" {
		return
	}
	var attrs virtual.Attributes
	leaf.VirtualGetAttributes(s.ctx, virtual.AttributesMaskSymlinkTarget, &attrs)
	target := "!no-target"
	if t, ok := attrs.GetSymlinkTarget(); ok {
		target = targetString(t)
	}
	s.tr.Emit(common.Ev{"ev": "readlink", "a": a.id, "api": "k", "path": dispPath(p), "ok": true, "st": "OK", "target": target, "faults": []string{}})
}

// ---------------------------------------------------------------------
// Attempts to alter files

var alterKinds = []string{"open_w", "open_rw", "open_trunc", "openchild_w", "openchild_trunc", "setsize", "allocate", "write"}

func (s *scenario) opAlter(a *action) {
	fs := s.knownOfKind(a, "file")
	if len(fs) == 0 {
		s.opList(a)
		return
	}
	p := splitKey(fs[s.r.Intn(len(fs))])
	leaf, e, ok := s.leafAt(a, p)
	if !ok || e.Kind != "file" {
		return
	}
	kind := alterKinds[s.r.Intn(len(alterKinds))]
	res := "refused"
	st := virtual.StatusOK
	wrote := 0
	payload := []byte{0xAA, 0xBB, 0xCC}
	tryWrite := func(share virtual.ShareMask) {
		// the open was granted: do what a process would do next
		n, wst := leaf.VirtualWrite(s.ctx, payload, 0)
		if wst == virtual.StatusOK {
			wrote = n
		}
		leaf.VirtualClose(share)
	}
	_, panicked := s.guarded(a, "alter", false, func() {
		defer func() {
			if r := recover(); r != nil {
				// blobAccessCASFile.VirtualWrite documents that a
				// write must have been intercepted before it gets
				// there; a panic changes nothing. An open that was
				// granted before stays "accepted".
				if res != "accepted" {
					res = "panic"
				}
			}
		}()
		var oattrs virtual.Attributes
		switch kind {
		case "open_w":
			st = leaf.VirtualOpenSelf(s.ctx, virtual.ShareMaskWrite, &virtual.OpenExistingOptions{}, attrMask, &oattrs)
			if st == virtual.StatusOK {
				res = "accepted"
				tryWrite(virtual.ShareMaskWrite)
			}
		case "open_rw":
			st = leaf.VirtualOpenSelf(s.ctx, virtual.ShareMaskRead|virtual.ShareMaskWrite, &virtual.OpenExistingOptions{}, attrMask, &oattrs)
			if st == virtual.StatusOK {
				res = "accepted"
				tryWrite(virtual.ShareMaskRead | virtual.ShareMaskWrite)
			}
		case "open_trunc":
			st = leaf.VirtualOpenSelf(s.ctx, virtual.ShareMaskRead, &virtual.OpenExistingOptions{Truncate: true}, attrMask, &oattrs)
			if st == virtual.StatusOK {
				res = "accepted"
				leaf.VirtualClose(virtual.ShareMaskRead)
			}
		case "openchild_w", "openchild_trunc":
			d, ok := s.kdir(a, p[:len(p)-1])
			if !ok {
				res = "skipped"
				return
			}
			share := virtual.ShareMaskWrite
			opts := &virtual.OpenExistingOptions{}
			if kind == "openchild_trunc" {
				share = virtual.ShareMaskRead
				opts.Truncate = true
			}
			var l2 virtual.Leaf
			l2, _, _, st = d.VirtualOpenChild(s.ctx, path.MustNewComponent(p[len(p)-1]), share, nil, opts, attrMask, &oattrs)
			if st == virtual.StatusOK {
				res = "accepted"
				if kind == "openchild_w" {
					n, wst := l2.VirtualWrite(s.ctx, payload, 0)
					if wst == virtual.StatusOK {
						wrote = n
					}
				}
				l2.VirtualClose(share)
			}
		case "setsize":
			var in virtual.Attributes
			in.SetSizeBytes(uint64(s.r.Intn(4)))
			st = leaf.VirtualSetAttributes(s.ctx, &in, attrMask, &oattrs)
			if st == virtual.StatusOK {
				res = "accepted"
			}
		case "allocate":
			st = leaf.VirtualAllocate(s.ctx, 0, uint64(1+s.r.Intn(16)))
			if st == virtual.StatusOK {
				res = "accepted"
			}
		case "write":
			n, wst := leaf.VirtualWrite(s.ctx, payload, uint64(s.r.Intn(3)))
			st = wst
			if wst == virtual.StatusOK {
				res = "accepted"
				wrote = n
			}
		}
	})
	if panicked || res == "skipped" {
		return
	}
	s.tr.Emit(common.Ev{"ev": "alter", "a": a.id, "path": dispPath(p), "kind": kind, "res": res, "st": stName(st), "wrote": wrote})
}

// ---------------------------------------------------------------------
// Local modifications

func (s *scenario) touch(a *action) { a.kcache = map[string]virtual.Directory{} }

func (s *scenario) forget(a *action, p []string) {
	k := pathKey(p)
	for q := range a.known {
		if q == k || strings.HasPrefix(q, k+"/") {
			delete(a.known, q)
		}
	}
}

func (s *scenario) opRemove(a *action) {
	dir := s.pickDir(a)
	name := s.pickName(a, dir)
	s.touch(a)
	s.removeAt(a, dir, name, s.r.Intn(4) == 0, func() (bool, bool) {
		rd := s.r.Intn(4) > 0
		rl := s.r.Intn(4) > 0
		return rd, rl
	})
}

// removeAt removes name from dir through the worker-facing API or through
// VirtualRemove with the flags that `flags` chooses.
func (s *scenario) removeAt(a *action, dir []string, name string, worker bool, flags func() (removeDirectory, removeLeaf bool)) {
	if worker {
		pd, _, ok := s.pdir(a, dir)
		if !ok {
			return
		}
		var err error
		s.aim(a, dir)
		faults, panicked := s.guarded(a, "w_remove", true, func() { err = pd.Remove(path.MustNewComponent(name)) })
		if panicked {
			return
		}
		s.tr.Emit(common.Ev{"ev": "remove", "a": a.id, "api": "w", "dir": dispPath(dir), "name": disp(name), "rd": true, "rl": true,
			"ok": err == nil, "st": errName(err), "faults": faults})
		if err == nil {
			s.forget(a, append(cp(dir), name))
		}
		return
	}
	d, ok := s.kdir(a, dir)
	if !ok {
		return
	}
	rd, rl := flags()
	var st virtual.Status
	s.aim(a, dir)
	faults, panicked := s.guarded(a, "remove", true, func() {
		_, st = d.VirtualRemove(s.ctx, path.MustNewComponent(name), rd, rl)
	})
	if panicked {
		return
	}
	s.tr.Emit(common.Ev{"ev": "remove", "a": a.id, "api": "k", "dir": dispPath(dir), "name": disp(name), "rd": rd, "rl": rl,
		"ok": st == virtual.StatusOK, "st": stName(st), "faults": faults})
	if st == virtual.StatusOK {
		s.forget(a, append(cp(dir), name))
	}
}

func isPrefix(p, q []string) bool {
	if len(p) > len(q) {
		return false
	}
	for i := range p {
		if p[i] != q[i] {
			return false
		}
	}
	return true
}

func (s *scenario) opRename(a *action) {
	dir := s.pickDir(a)
	name := s.pickName(a, dir)
	ndir := s.pickDir(a)
	if s.r.Intn(2) == 0 {
		ndir = dir
	}
	nname := s.pickName(a, ndir)
	if s.r.Intn(2) == 0 {
		nname = []string{"n1", "n2", "a", "b"}[s.r.Intn(4)]
	}
	if s.r.Intn(4) == 0 {
		// leaf onto leaf of the same kind: replaces the target, or has no
		// effect when both names are links to one object
		ls := s.knownOfKind(a, []string{"file", "symlink"}[s.r.Intn(2)])
		if len(ls) >= 2 {
			sp := splitKey(ls[s.r.Intn(len(ls))])
			dp := splitKey(ls[s.r.Intn(len(ls))])
			dir, name = sp[:len(sp)-1], sp[len(sp)-1]
			ndir, nname = dp[:len(dp)-1], dp[len(dp)-1]
		}
	}
	s.renameAt(a, dir, name, ndir, nname)
}

func (s *scenario) renameAt(a *action, dir []string, name string, ndir []string, nname string) {
	src := append(cp(dir), name)
	dst := append(cp(ndir), nname)
	// Moving a directory below itself is not attempted: the real code
	// has no cycle check (TODO in VirtualRename); that is not C17.
	if pathKey(src) != pathKey(dst) && isPrefix(src, dst) {
		return
	}
	s.touch(a)
	od, ok := s.kdir(a, dir)
	if !ok {
		return
	}
	nd, ok := s.kdir(a, ndir)
	if !ok {
		return
	}
	var st virtual.Status
	s.aim(a, dir)
	faults, panicked := s.guarded(a, "rename", true, func() {
		_, _, st = od.VirtualRename(s.ctx, path.MustNewComponent(name), nd, path.MustNewComponent(nname))
	})
	if panicked {
		return
	}
	s.touch(a)
	// Whether the source name is still there (POSIX: renaming onto a
	// hard link of the same file has no effect; the handle allocator
	// decides whether two equal CAS files are one object).
	srcThere := false
	if st == virtual.StatusOK && pathKey(src) != pathKey(dst) {
		var attrs virtual.Attributes
		_, pst := od.VirtualLookup(s.ctx, path.MustNewComponent(name), virtual.AttributesMaskFileType, &attrs)
		srcThere = pst == virtual.StatusOK
	}
	s.tr.Emit(common.Ev{"ev": "rename", "a": a.id, "dir": dispPath(dir), "name": disp(name), "ndir": dispPath(ndir), "nname": disp(nname),
		"ok": st == virtual.StatusOK, "st": stName(st), "srcthere": srcThere, "faults": faults})
	if st == virtual.StatusOK && pathKey(src) != pathKey(dst) {
		// re-key what we know below src
		moved := map[string]string{}
		sk := pathKey(src)
		for q, v := range a.known {
			if q == sk || strings.HasPrefix(q, sk+"/") {
				moved[pathKey(dst)+q[len(sk):]] = v
			}
		}
		s.forget(a, dst)
		if !srcThere {
			s.forget(a, src)
		}
		for q, v := range moved {
			a.known[q] = v
		}
	}
}

func (s *scenario) opMkdir(a *action) {
	dir := s.pickDir(a)
	name := []string{"n1", "n2", "a", "b", "lib"}[s.r.Intn(5)]
	s.touch(a)
	s.mkdirAt(a, dir, name, s.r.Intn(3) == 0)
}

// mkdirAt creates directory name in dir through the worker-facing or the
// kernel-facing API.
func (s *scenario) mkdirAt(a *action, dir []string, name string, worker bool) {
	if worker {
		_, wd, ok := s.pdir(a, dir)
		if !ok {
			return
		}
		var err error
		s.aim(a, dir)
		faults, panicked := s.guarded(a, "w_mkdir", true, func() { err = wd.Mkdir(path.MustNewComponent(name), 0o777) })
		if panicked {
			return
		}
		s.tr.Emit(common.Ev{"ev": "mkdir", "a": a.id, "api": "w", "dir": dispPath(dir), "name": name, "ok": err == nil, "st": errName(err), "faults": faults})
		if err == nil {
			a.known[pathKey(append(cp(dir), name))] = "dir"
		}
		return
	}
	d, ok := s.kdir(a, dir)
	if !ok {
		return
	}
	var st virtual.Status
	s.aim(a, dir)
	faults, panicked := s.guarded(a, "mkdir", true, func() {
		var in, out virtual.Attributes
		_, _, st = d.VirtualMkdir(s.ctx, path.MustNewComponent(name), &in, attrMask, &out)
	})
	if panicked {
		return
	}
	s.tr.Emit(common.Ev{"ev": "mkdir", "a": a.id, "api": "k", "dir": dispPath(dir), "name": name, "ok": st == virtual.StatusOK, "st": stName(st), "faults": faults})
	if st == virtual.StatusOK {
		a.known[pathKey(append(cp(dir), name))] = "dir"
	}
}

func (s *scenario) opCreate(a *action) {
	dir := s.pickDir(a)
	name := []string{"n1", "n2", "a", "c", "x.y"}[s.r.Intn(5)]
	exec := s.r.Intn(2) == 0
	s.touch(a)
	d, ok := s.kdir(a, dir)
	if !ok {
		return
	}
	var st, wst virtual.Status
	s.aim(a, dir)
	faults, panicked := s.guarded(a, "create", true, func() {
		var in, out virtual.Attributes
		perm := virtual.PermissionsRead | virtual.PermissionsWrite
		if exec {
			perm |= virtual.PermissionsExecute
		}
		in.SetPermissions(perm)
		var leaf virtual.Leaf
		leaf, _, _, st = d.VirtualOpenChild(s.ctx, path.MustNewComponent(name), virtual.ShareMaskWrite, &in, nil, attrMask, &out)
		if st == virtual.StatusOK {
			_, wst = leaf.VirtualWrite(s.ctx, []byte("local"), 0)
			leaf.VirtualClose(virtual.ShareMaskWrite)
		}
	})
	if panicked {
		return
	}
	s.tr.Emit(common.Ev{"ev": "create", "a": a.id, "dir": dispPath(dir), "name": name, "exec": exec,
		"ok": st == virtual.StatusOK, "st": stName(st), "wst": stName(wst), "faults": faults})
	if st == virtual.StatusOK {
		a.known[pathKey(append(cp(dir), name))] = "file"
	}
}

type putKid struct {
	Name   string `json:"name"`
	Kind   string `json:"kind"` // lazydir | emptydir | casfile | symlink
	Mode   string `json:"mode"`
	Tree   string `json:"tree"`
	ID     string `json:"id"`
	Blob   string `json:"blob"`
	Size   int64  `json:"size"`
	Exec   bool   `json:"exec"`
	Target string `json:"target"`
}

// opPut: CreateChildren as the worker-side code uses it (e.g. to place
// input files over existing ones).
func (s *scenario) opPut(a *action) {
	dir := s.pickDir(a)
	overwrite := s.r.Intn(3) > 0
	nk := 1 + s.r.Intn(2)
	children := map[path.Component]virtual.InitialChild{}
	kids := []putKid{}
	used := map[string]bool{}
	for i := 0; i < nk; i++ {
		name := s.pickName(a, dir)
		if s.r.Intn(2) == 0 {
			name = []string{"n1", "n2", "p"}[s.r.Intn(3)]
		}
		if used[name] {
			continue
		}
		used[name] = true
		comp, valid := path.NewComponent(name)
		if !valid {
			continue
		}
		k := putKid{Name: disp(name), Size: -1}
		switch s.r.Intn(4) {
		case 0:
			di := s.w.dirs[s.r.Intn(len(s.w.dirs))]
			k.Kind, k.Mode, k.ID = "lazydir", "dir", s.w.ids.id(di.d)
			children[comp] = virtual.InitialChild{}.FromDirectory(s.fetcherFor("dir", di.d, di.d))
		case 1:
			k.Kind = "emptydir"
			children[comp] = virtual.InitialChild{}.FromDirectory(virtual.EmptyInitialContentsFetcher)
		case 2:
			b := s.w.blobs[s.r.Intn(len(s.w.blobs))]
			k.Kind, k.Blob, k.Size, k.Exec = "casfile", s.w.ids.id(b.d), b.d.GetSizeBytes(), s.r.Intn(2) == 0
			children[comp] = virtual.InitialChild{}.FromLeaf(s.casFileFactory().LookupFile(b.d, k.Exec, nil))
		default:
			k.Kind, k.Target = "symlink", symlinkTargets[s.r.Intn(len(symlinkTargets))]
			leaf, err := s.symf.LookupSymlink(path.UNIXFormat.NewParser(k.Target))
			if err != nil {
				continue
			}
			children[comp] = virtual.InitialChild{}.FromLeaf(leaf)
		}
		kids = append(kids, k)
	}
	if len(kids) == 0 {
		return
	}
	s.touch(a)
	pd, _, ok := s.pdir(a, dir)
	if !ok {
		return
	}
	var err error
	s.aim(a, dir)
	faults, panicked := s.guarded(a, "put", true, func() { err = pd.CreateChildren(children, overwrite) })
	if panicked {
		return
	}
	s.tr.Emit(common.Ev{"ev": "put", "a": a.id, "dir": dispPath(dir), "overwrite": overwrite, "kids": kids,
		"ok": err == nil, "st": errName(err), "faults": faults})
	if err == nil {
		for _, k := range kids {
			p := append(cp(dir), k.Name)
			s.forget(a, p)
			kind := map[string]string{"lazydir": "dir", "emptydir": "dir", "casfile": "file", "symlink": "symlink"}[k.Kind]
			a.known[pathKey(p)] = kind
		}
	}
}

// opLinkPair places two leaves that the handle allocator may deduplicate
// into one object (same symlink target, or same digest and executable bit
// from one CAS file factory) and renames one onto the other: POSIX says
// this has no effect when both names are links to one file.
func (s *scenario) opLinkPair(a *action) {
	dir := s.pickDir(a)
	children := map[path.Component]virtual.InitialChild{}
	kids := []putKid{}
	names := []string{"p", "q"}
	if s.r.Intn(2) == 0 {
		target := symlinkTargets[s.r.Intn(len(symlinkTargets))]
		for _, n := range names {
			leaf, err := s.symf.LookupSymlink(path.UNIXFormat.NewParser(target))
			if err != nil {
				return
			}
			children[path.MustNewComponent(n)] = virtual.InitialChild{}.FromLeaf(leaf)
			kids = append(kids, putKid{Name: n, Kind: "symlink", Size: -1, Target: target})
		}
	} else {
		b := s.w.blobs[s.r.Intn(len(s.w.blobs))]
		exec := s.r.Intn(2) == 0
		f := s.casFileFactory()
		for _, n := range names {
			children[path.MustNewComponent(n)] = virtual.InitialChild{}.FromLeaf(f.LookupFile(b.d, exec, nil))
			kids = append(kids, putKid{Name: n, Kind: "casfile", Blob: s.w.ids.id(b.d), Size: b.d.GetSizeBytes(), Exec: exec})
		}
	}
	s.touch(a)
	pd, _, ok := s.pdir(a, dir)
	if !ok {
		return
	}
	var err error
	s.aim(a, dir)
	faults, panicked := s.guarded(a, "put", true, func() { err = pd.CreateChildren(children, true) })
	if panicked {
		return
	}
	s.tr.Emit(common.Ev{"ev": "put", "a": a.id, "dir": dispPath(dir), "overwrite": true, "kids": kids,
		"ok": err == nil, "st": errName(err), "faults": faults})
	if err != nil {
		return
	}
	for _, k := range kids {
		q := append(cp(dir), k.Name)
		s.forget(a, q)
		a.known[pathKey(q)] = map[string]string{"casfile": "file", "symlink": "symlink"}[k.Kind]
	}
	s.renameAt(a, dir, "p", dir, "q")
}

// opMergeSub: MergeDirectoryContents into a subdirectory.
func (s *scenario) opMergeSub(a *action) {
	dir := s.pickDir(a)
	di := s.w.dirs[s.r.Intn(len(s.w.dirs))]
	s.touch(a)
	pd, wd, ok := s.pdir(a, dir)
	if !ok {
		return
	}
	s.merge(a, dir, wd, pd, "dir", di.d, di.d)
}

// ---------------------------------------------------------------------

// retryAfterFault: a load that failed because of a storage error must be
// retryable. After an operation during which an error was injected, the
// directories this action knows are listed again without injection.
func (s *scenario) retryAfterFault(a *action) {
	save := s.pFault
	s.pFault = 0
	defer func() { s.pFault = save }()
	ds := s.knownOfKind(a, "dir")
	for i := 0; i < 3 && len(ds) > 0 && !s.dead; i++ {
		dir := splitKey(ds[s.r.Intn(len(ds))])
		d, ok := s.kdir(a, dir)
		if !ok {
			continue
		}
		rep := &pageReporter{limit: 1000}
		var st virtual.Status
		faults, panicked := s.guarded(a, "readdir", false, func() { st = d.VirtualReadDir(s.ctx, 0, attrMask, rep) })
		if panicked {
			return
		}
		s.emitList(a, "k", dir, st == virtual.StatusOK, stName(st), append([]dirEntry{}, rep.entries...), faults, 1000)
	}
}

func (s *scenario) step(a *action) {
	if s.dead {
		return
	}
	before := s.w.cas.injected
	defer func() {
		if s.w.cas.injected != before && s.r.Intn(4) > 0 {
			s.retryAfterFault(a)
		}
	}()
	switch x := s.r.Intn(100); {
	case x < 22:
		s.opLookup(a)
	case x < 44:
		s.opList(a)
	case x < 56:
		s.opRead(a)
	case x < 62:
		s.opReadlink(a)
	case x < 72:
		s.opAlter(a)
	case x < 78:
		s.opRemove(a)
	case x < 85:
		s.opRename(a)
	case x < 89:
		s.opMkdir(a)
	case x < 92:
		s.opCreate(a)
	case x < 96:
		s.opPut(a)
	case x < 98:
		s.opLinkPair(a)
	default:
		s.opMergeSub(a)
	}
}

// finalScan re-reads every blob the scenario ever named.
func (s *scenario) finalScan() {
	for _, d := range s.scanIDs {
		s.tr.Emit(common.Ev{"ev": "casscan", "id": s.w.ids.id(d), "hash": s.w.cas.hashOf(d)})
	}
	s.tr.Emit(common.Ev{"ev": "done", "gets": s.w.cas.gets, "puts": s.w.cas.puts, "logged_errors": s.elog.n})
}

func (s *scenario) startedActions() []*action {
	var out []*action
	for _, a := range s.actions {
		if a.started {
			out = append(out, a)
		}
	}
	return out
}

// fullWalk explores the whole tree of an action (used at the end by a
// fresh action: what "another action" sees after the history).
func (s *scenario) fullWalk(a *action, dir []string, depth int) {
	if s.dead || depth > 7 {
		return
	}
	d, ok := s.kdir(a, dir)
	if !ok {
		return
	}
	rep := &pageReporter{limit: 1000}
	var st virtual.Status
	faults, panicked := s.guarded(a, "readdir", false, func() { st = d.VirtualReadDir(s.ctx, 0, attrMask, rep) })
	if panicked {
		return
	}
	s.emitList(a, "k", dir, st == virtual.StatusOK, stName(st), append([]dirEntry{}, rep.entries...), faults, 1000)
	for _, e := range rep.entries {
		if e.Kind == "dir" && !strings.HasPrefix(e.Name, "bin:") {
			s.fullWalk(a, append(cp(dir), e.Name), depth+1)
		}
	}
}

func runScenario(t *testing.T, tr *common.Trace, r *rand.Rand, steps, nDirs int) {
	s := newScenario(t, tr, r, nDirs)
	w := s.w

	// Choose input roots before describing the CAS (Tree objects are
	// generated for the tree-mode actions).
	type rootChoice struct {
		mode string
		d    digest.Digest
	}
	var roots []rootChoice
	nAct := 1 + r.Intn(maxActions)
	var trees []digest.Digest
	var rootDigests []digest.Digest
	collisions := r.Intn(4) == 0
	if collisions {
		// Two actions (or three) name the same digest, once as a Tree
		// and once as a Directory.
		cd := w.genCollision(r.Intn(2))
		order := r.Intn(2)
		for i := 0; i < 2; i++ {
			if (i+order)%2 == 0 {
				roots = append(roots, rootChoice{"tree", cd})
			} else {
				roots = append(roots, rootChoice{"dir", cd})
			}
		}
		trees = append(trees, cd)
		rootDigests = append(rootDigests, cd)
		nAct = 2 + r.Intn(2)
	}
	for len(roots) < nAct {
		// prefer late (deep) directories as roots
		di := w.dirs[len(w.dirs)-1-r.Intn(min(4, len(w.dirs)))]
		if r.Intn(4) == 0 {
			td := w.genTree(di, s.cacheMode == 0)
			roots = append(roots, rootChoice{"tree", td})
			trees = append(trees, td)
		} else {
			roots = append(roots, rootChoice{"dir", di.d})
			rootDigests = append(rootDigests, di.d)
		}
	}
	s.describe(rootDigests, trees)

	s.startAction(s.actions[0], roots[0].mode, roots[0].d)
	next := 1
	for i := 0; i < steps && !s.dead; i++ {
		if next < nAct && r.Intn(steps/(nAct)+1) == 0 {
			s.startAction(s.actions[next], roots[next].mode, roots[next].d)
			next++
			continue
		}
		as := s.startedActions()
		a := as[r.Intn(len(as))]
		// A merge that failed because of an injected error may be retried.
		s.step(a)
	}
	for next < nAct && !s.dead {
		// a late action sees the tree its digest denotes, whatever the
		// others did
		a := s.actions[next]
		s.startAction(a, roots[next].mode, roots[next].d)
		s.fullWalk(a, []string{}, 0)
		next++
	}
	if !s.dead {
		s.finalScan()
	}
}

// TestRandom: seeded random scenarios.
func TestRandom(t *testing.T) {
	n := common.EnvInt("VERIF_N", 40)
	steps := common.EnvInt("VERIF_STEPS", 60)
	nDirs := common.EnvInt("VERIF_DIRS", 7)
	tr := common.NewTrace("trace.ndjson")
	defer tr.Close()
	for i := 0; i < n; i++ {
		r := common.Rand(int64(i))
		nd := 2 + r.Intn(nDirs)
		runScenario(t, tr, r, steps, nd)
	}
	common.WriteJSON("meta.json", map[string]any{"scenarios": n, "steps": steps, "events": tr.Len()})
}
