SPECIFICATION Spec
CONSTANTS
  Owners = {"A"}
  Vers = {1, 2}
  OOs = {"o1"}
  LOs = {"l1"}
  Names = {"a"}
  MaxFile = 1
  N = 1
  NSlots = 1
  MaxOps = 4
  Lease = 1
  SessIds = {1, 2}
  Ctxs = {"A"}
  Deferred = FALSE
  InitFH = 1
  MaxOther = 2
  MaxSeq = 2
  MaxClock = 2
  MaxAcc = 2
  Family = "C18b"
CONSTRAINT Bound
INVARIANTS
  C18_Balance
  C18_Reach
  C18_StateIds
  C18_Final
  C19_Once
  C20_Exclusion
  C20_Accounted
VIEW MCView
CHECK_DEADLOCK FALSE
