#!/bin/bash
# selftest/mutant_queue.sh [queue-file [log-file]]: polls the queue file (default /tmp/mq.txt) for lines "name|props|PATCH|diff" and runs each once, sequentially. Log: /tmp/mq.log
Q=${1:-/tmp/mq.txt}; L=${2:-/tmp/mq.log}
touch $Q
n=0
while true; do
  total=$(wc -l < $Q)
  if [ "$n" -lt "$total" ]; then
    n=$((n+1)); sed -n "${n}p" $Q > $Q.one
    grep -q "^STOP" $Q.one && exit 0
    /verif/selftest/run_mutants.sh $Q.one >> $L 2>&1
  else
    sleep 15
  fi
done
