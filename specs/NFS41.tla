------------------------------- MODULE NFS41 -------------------------------
(***************************************************************************)
(* Reference model of pkg/filesystem/virtual/nfsv4/nfs41_program.go        *)
(* together with opened_files_pool.go (properties C18, C19 and the NFS     *)
(* level of C20).                                                          *)
(*                                                                         *)
(* One action per operation of a COMPOUND (each takes the incarnation's    *)
(* lock once), per stand-alone operation (clientsLock), per start / end    *)
(* of a sequenced COMPOUND (clientsLock, lease bookkeeping in enter()),    *)
(* per start / end of leaf I/O, and per deferred leaf close.  All actions  *)
(* are total: every argument combination yields a reply.                   *)
(***************************************************************************)
EXTENDS Integers, Sequences, FiniteSets, TLC

CONSTANTS Owners,    \* client owner ids
          Vers,      \* client verifiers (incarnations)
          OOs,       \* open-owner names
          LOs,       \* lock-owner names
          Names,     \* file names in the root directory
          MaxFile,   \* files are 1..MaxFile in creation order
          N,         \* lock positions 0..N; N = "maximum offset"
          NSlots,    \* slots per session
          MaxOps,    \* maximum operations per COMPOUND (incl. SEQUENCE)
          Lease,     \* lease in ticks (expired iff seen + Lease < now)
          SessIds,   \* session tokens
          Ctxs,      \* COMPOUND execution contexts
          Deferred,  \* TRUE: leaf closes happen in separate steps
          InitFH     \* current file handle at the start of a COMPOUND: NoFH (-1)
                     \* in reality; a file in design checks to save a PUTFH step

Bits    == {"R", "W"}
Files   == 1 .. MaxFile
Root    == 0
NoFH    == -1
IncKeys == Owners \X Vers
NoKey   == <<"", 0>>
NoCs    == [o |-> 0, q |-> 0]
Slots   == 0 .. (NSlots - 1)
Bytes   == 0 .. (N - 1)

VARIABLES clock,   \* the environment's clock (ticks)
          pnow,    \* p.now: the largest time the server has seen
          inc,     \* [IncKeys -> incarnation record]
          sess,    \* [SessIds -> session record]
          oofs,    \* set of open-owner files
          lofs,    \* set of lock-owner files
          held,    \* set of locked bytes [f, i, lo, b, t]
          ios,     \* set of leaf I/Os in flight
          leaf,    \* [Files -> [Bits -> opens - closes done on the leaf]]
          pend,    \* [Files -> [Bits -> closes scheduled, not yet done]]
          dir,     \* [Names -> 0..MaxFile]
          fst,     \* [Files -> {"absent","linked","unlinked"}]
          nfiles,  \* number of files created so far
          cx,      \* [Ctxs -> context record]
          reply,   \* reply of the last action
          nextId,  \* [cid, other]: allocation counters (design check only)
          execd,   \* set of <<session, slot, seq>> that were executed
          twice    \* some <<session, slot, seq>> was executed twice

vars == <<clock, pnow, inc, sess, oofs, lofs, held, ios, leaf, pend, dir, fst,
          nfiles, cx, reply, nextId, execd, twice>>

-----------------------------------------------------------------------------
(* Records.                                                                *)

DeadInc == [live |-> FALSE, cid |-> 0, conf |-> FALSE, seen |-> 0, hold |-> 0,
            cs |-> 0, csst |-> "SEQ_MISORDERED", cssid |-> 0]

\* A cached reply: what a retransmission is answered with (sts, ops, rh =
\* statuses, operation names, hash of the encoded reply) and the complete
\* first reply (fsts, fops, frh), which differ when the reply was not cached.
Res6(sts, ops, rh) == [sts |-> sts, ops |-> ops, rh |-> rh, fsts |-> sts, fops |-> ops, frh |-> rh]
MisorderedCache == Res6(<<"SEQ_MISORDERED">>, <<"SEQUENCE">>, "")

FreshSlot == [q |-> 0, busy |-> FALSE, shape |-> <<>>, c |-> MisorderedCache, w |-> <<>>]

DeadSess == [live |-> FALSE, i |-> NoKey, slots |-> [s \in Slots |-> FreshSlot]]

IdleCtx == [kind |-> "idle", i |-> NoKey, sid |-> 0, slot |-> 0, sq |-> 0,
            cache |-> FALSE, shape |-> <<>>, fh |-> NoFH, cs |-> NoCs,
            sfh |-> NoFH, scs |-> NoCs, acc |-> <<>>, failed |-> FALSE,
            same |-> TRUE, res |-> MisorderedCache]

ZeroLeaf == [f \in Files |-> [b \in Bits |-> 0]]
Bump(f, bits) == [g \in Files |-> [b \in Bits |-> IF g = f /\ b \in bits THEN 1 ELSE 0]]
Plus(a, b)  == [f \in Files |-> [x \in Bits |-> a[f][x] + b[f][x]]]
Minus(a, b) == [f \in Files |-> [x \in Bits |-> a[f][x] - b[f][x]]]

Max(a, b) == IF a > b THEN a ELSE b

ShareBits(n) == CASE n = 1 -> {"R"} [] n = 2 -> {"W"} [] n = 3 -> {"R", "W"} [] OTHER -> {}
\* OPEN ignores the OPEN4_SHARE_ACCESS_WANT_* bits (0xff00).
OpenShareBits(n) == IF n >= 256 /\ n < 65536 THEN ShareBits(n % 256) ELSE ShareBits(n)

\* nfs41CompareStateSeqID
CompareSeq(cq, sq) == IF cq = 0 \/ cq = sq THEN "OK"
                      ELSE IF cq > sq THEN "BAD_STATEID" ELSE "OLD_STATEID"

SeqOfSet(S) == CHOOSE s \in [1 .. Cardinality(S) -> S] : \A x \in S : \E k \in DOMAIN s : s[k] = x

-----------------------------------------------------------------------------
(* The byte-range lock table (same semantics as ByteRangeLocks.tla, kept   *)
(* as a sparse set of locked bytes; the table owner is <<incarnation,      *)
(* lock-owner name>>).                                                     *)

LockT(lt) == CASE lt \in {"R", "RW"} -> "S" [] lt \in {"W", "WW"} -> "X" [] OTHER -> "bad"

\* offsetLengthToStartEnd: rk = range kind chosen by the client.
\* Position N stands for offset 2^64-1: as the (exclusive) end of a range it
\* means "through end of file".  The byte at offset 2^64-1 itself is not one
\* of Bytes: a table of half-open ranges cannot express it.  A request for
\* exactly that byte (rk = "last": offset 2^64-1, length all ones) is refused
\* (NFS4ERR_BAD_RANGE); rk = "last1" (offset 2^64-1, length 1) overflows
\* (NFS4ERR_INVAL).  rk = "lastok" is how the trace specification follows a
\* server that accepted such a request (no byte of Bytes changes); whether
\* that was allowed is judged there, with the byte at 2^64-1 as ghost state.
RangeOK(rk, s, e) == (rk \in {"range", "exact"} /\ s < e /\ s >= 0 /\ e <= N) \/ rk = "lastok"
RangeEnd(rk, e) == IF rk = "exact" THEN N ELSE e
RangeErr(rk) == IF rk = "last" THEN "BAD_RANGE" ELSE "INVAL"

ConflictsIn(H, f, i, lo, s, e, t) ==
  {h \in H : /\ h.f = f /\ s <= h.b /\ h.b < e
             /\ ~(h.i = i /\ h.lo = lo)
             /\ (h.t = "X" \/ t = "X")}

OwnerBytes(H, f, i, lo) == {h \in H : h.f = f /\ h.i = i /\ h.lo = lo}

\* The table after owner (i, lo) sets [s, e) of f to t ("N" = unlock).
ApplyLock(H, f, i, lo, s, e, t) ==
  {h \in H : ~(h.f = f /\ h.i = i /\ h.lo = lo /\ s <= h.b /\ h.b < e)}
    \cup (IF t = "N" THEN {}
          ELSE {[f |-> f, i |-> i, lo |-> lo, b |-> b, t |-> t] : b \in {x \in Bytes : s <= x /\ x < e}})

TypeAt(H, f, i, lo, b) ==
  LET m == {h \in H : h.f = f /\ h.i = i /\ h.lo = lo /\ h.b = b}
  IN IF m = {} THEN "N" ELSE (CHOOSE h \in m : TRUE).t

\* Maximal runs of equal type: the entries the real list must contain.
RunsOf(H, f, i, lo) ==
  {r \in (0 .. N) \X (0 .. N) :
     /\ r[1] < r[2]
     /\ TypeAt(H, f, i, lo, r[1]) # "N"
     /\ \A b \in r[1] .. (r[2] - 1) : TypeAt(H, f, i, lo, b) = TypeAt(H, f, i, lo, r[1])
     /\ (r[1] = 0 \/ TypeAt(H, f, i, lo, r[1] - 1) # TypeAt(H, f, i, lo, r[1]))
     /\ (r[2] = N \/ TypeAt(H, f, i, lo, r[2]) # TypeAt(H, f, i, lo, r[1]))}

LockCountOf(H, f, i, lo) == Cardinality(RunsOf(H, f, i, lo))

EntriesOf(H) ==
  UNION {{[f |-> o[1], i |-> o[2], lo |-> o[3], s |-> r[1], e |-> r[2],
           t |-> TypeAt(H, o[1], o[2], o[3], r[1])] : r \in RunsOf(H, o[1], o[2], o[3])}
         : o \in {<<h.f, h.i, h.lo>> : h \in H}}

-----------------------------------------------------------------------------
(* Share reservations: who holds access bit b on the open-owner file       *)
(* object <<i, obj>> (obj = the "other" of its open state ID).             *)

OofOf(O, l) == CHOOSE r \in O : r.i = l.i /\ r.oo = l.oo /\ r.f = l.f

HoldsIn(O, L, I, i, obj, b) ==
  \/ \E r \in O : r.i = i /\ r.o = obj /\ b \in r.sh
  \/ \E l \in L : l.i = i /\ b \in l.sh /\
        \E r \in O : r.i = i /\ r.o = obj /\ r.oo = l.oo /\ r.f = l.f
  \/ \E io \in I : ~io.anon /\ io.i = i /\ io.obj = obj /\ io.bit = b

Holds(i, obj, b) == HoldsIn(oofs, lofs, ios, i, obj, b)

\* Bits that were held before and are not held after a change.
Dropped(O2, L2, I2, i, obj) ==
  {b \in Bits : Holds(i, obj, b) /\ ~HoldsIn(O2, L2, I2, i, obj, b)}

\* Closes caused by discarding whole open-owner files R (no I/O in flight).
ClosesOfRemoved(R) ==
  [f \in Files |-> [b \in Bits |-> Cardinality({r \in R : r.f = f /\ Holds(r.i, r.o, b)})]]

InPool(O, f) == \E r \in O : r.f = f

\* The leaf object is gone: unlinked and completely closed.
Dead(f) == fst[f] = "unlinked" /\ \A b \in Bits : leaf[f][b] = 0

\* Apply leaf opens and closes (closes are deferred in the design check).
LeafStep(op, cl) ==
  IF Deferred
  THEN /\ leaf' = Plus(leaf, op)
       /\ pend' = Plus(pend, cl)
  ELSE /\ leaf' = Minus(Plus(leaf, op), cl)
       /\ pend' = pend

-----------------------------------------------------------------------------
(* Lease bookkeeping done by enter(): every idle incarnation whose lease   *)
(* ran out is discarded together with its sessions, opens and locks.       *)

Cur == [inc |-> inc, sess |-> sess, oofs |-> oofs, lofs |-> lofs, held |-> held]

Purge(S, X) ==
  [inc  |-> [k \in IncKeys |-> IF k \in X THEN DeadInc ELSE S.inc[k]],
   sess |-> [s \in SessIds |-> IF S.sess[s].i \in X THEN [S.sess[s] EXCEPT !.live = FALSE] ELSE S.sess[s]],
   oofs |-> {r \in S.oofs : r.i \notin X},
   lofs |-> {l \in S.lofs : l.i \notin X},
   held |-> {h \in S.held : h.i \notin X}]

PurgeCloses(S, X) == ClosesOfRemoved({r \in S.oofs : r.i \in X})

NowAt == Max(pnow, clock)
ExpiredAt(now) == {k \in IncKeys : inc[k].live /\ inc[k].hold = 0 /\ inc[k].seen + Lease < now}
Entered == Purge(Cur, ExpiredAt(NowAt))
EnterCloses == PurgeCloses(Cur, ExpiredAt(NowAt))

SetServer(S) ==
  /\ inc' = S.inc /\ sess' = S.sess /\ oofs' = S.oofs /\ lofs' = S.lofs /\ held' = S.held

IncByCid(S, cid) == {k \in IncKeys : S.inc[k].live /\ S.inc[k].cid = cid}

\* Release of a hold: an incarnation that becomes idle is stamped.
Released(r) == [r EXCEPT !.hold = @ - 1, !.seen = IF r.hold = 1 THEN NowAt ELSE @]
Touched(r)  == [r EXCEPT !.seen = IF r.hold = 0 THEN NowAt ELSE @]

-----------------------------------------------------------------------------
(* Stand-alone operations.                                                 *)

ExchangeID(own, ver, cidNew) ==
  LET E == Entered
      k == <<own, ver>>
      rec == IF E.inc[k].live THEN E.inc[k]
             ELSE [live |-> TRUE, cid |-> cidNew, conf |-> FALSE, seen |-> NowAt,
                   hold |-> 0, cs |-> 0, csst |-> "SEQ_MISORDERED", cssid |-> 0]
  IN /\ SetServer([E EXCEPT !.inc = [E.inc EXCEPT ![k] = rec]])
     /\ LeafStep(ZeroLeaf, EnterCloses)
     /\ pnow' = NowAt
     /\ nextId' = IF E.inc[k].live THEN nextId ELSE [nextId EXCEPT !.cid = Max(@, cidNew) + 1]
     /\ reply' = [op |-> "EXCHANGE_ID", st |-> "OK", cid |-> rec.cid, conf |-> rec.conf,
                  sq |-> IF rec.conf THEN 0 ELSE rec.cs + 1, fresh |-> ~E.inc[k].live]
     /\ UNCHANGED <<clock, ios, dir, fst, nfiles, cx, execd, twice>>

CreateSession(cid, sq, sidNew) ==
  LET E == Entered
      ks == IncByCid(E, cid)
      k == CHOOSE k \in ks : TRUE
      r == E.inc[k]
      oc == {j \in IncKeys : j # k /\ j[1] = k[1] /\ E.inc[j].live /\ E.inc[j].conf}
      busy == ~r.conf /\ \E j \in oc : E.inc[j].hold > 0
      P == IF r.conf THEN E ELSE Purge(E, oc)
      pc == IF r.conf THEN ZeroLeaf ELSE PurgeCloses(E, oc)
      fail(st, S) == /\ SetServer(S)
                     /\ LeafStep(ZeroLeaf, EnterCloses)
                     /\ reply' = [op |-> "CREATE_SESSION", st |-> st, sid |-> 0, rsq |-> 0]
  IN /\ pnow' = NowAt
     /\ IF ks = {} THEN fail("STALE_CLIENTID", E)
        ELSE IF sq = r.cs THEN
          /\ SetServer(E)
          /\ LeafStep(ZeroLeaf, EnterCloses)
          /\ reply' = [op |-> "CREATE_SESSION", st |-> r.csst, sid |-> r.cssid, rsq |-> IF r.csst = "OK" THEN sq ELSE 0]
        ELSE IF sq # r.cs + 1 THEN fail("SEQ_MISORDERED", E)
        ELSE IF busy THEN fail("DELAY", [E EXCEPT !.inc = [E.inc EXCEPT ![k] = Touched(r)]])
        ELSE
          /\ SetServer([P EXCEPT
                !.inc = [P.inc EXCEPT ![k] = [Touched(r) EXCEPT !.conf = TRUE, !.cs = sq, !.csst = "OK", !.cssid = sidNew]],
                !.sess = [P.sess EXCEPT ![sidNew] = [live |-> TRUE, i |-> k, slots |-> [s \in Slots |-> FreshSlot]]]])
          /\ LeafStep(ZeroLeaf, Plus(EnterCloses, pc))
          /\ reply' = [op |-> "CREATE_SESSION", st |-> "OK", sid |-> sidNew, rsq |-> sq]
     /\ UNCHANGED <<clock, ios, dir, fst, nfiles, cx, nextId, execd, twice>>

DestroySession(sid) ==
  LET E == Entered
      ok == sid \in SessIds /\ E.sess[sid].live
  IN /\ pnow' = NowAt
     /\ SetServer(IF ok THEN [E EXCEPT !.sess = [E.sess EXCEPT ![sid].live = FALSE]] ELSE E)
     /\ LeafStep(ZeroLeaf, EnterCloses)
     /\ reply' = [op |-> "DESTROY_SESSION", st |-> IF ok THEN "OK" ELSE "BADSESSION"]
     /\ UNCHANGED <<clock, ios, dir, fst, nfiles, cx, nextId, execd, twice>>

DestroyClientID(cid) ==
  LET E == Entered
      ks == IncByCid(E, cid)
      k == CHOOSE k \in ks : TRUE
      busy == \/ E.inc[k].hold # 0
              \/ \E r \in E.oofs : r.i = k
              \/ \E s \in SessIds : E.sess[s].live /\ E.sess[s].i = k
      st == IF ks = {} THEN "STALE_CLIENTID" ELSE IF busy THEN "CLIENTID_BUSY" ELSE "OK"
  IN /\ pnow' = NowAt
     /\ SetServer(IF st = "OK" THEN [E EXCEPT !.inc = [E.inc EXCEPT ![k] = DeadInc]] ELSE E)
     /\ LeafStep(ZeroLeaf, EnterCloses)
     /\ reply' = [op |-> "DESTROY_CLIENTID", st |-> st]
     /\ UNCHANGED <<clock, ios, dir, fst, nfiles, cx, nextId, execd, twice>>

\* Any request that only makes the server run enter(), e.g. SEQUENCE on
\* a session that never existed.
Trigger ==
  /\ pnow' = NowAt
  /\ SetServer(Entered)
  /\ LeafStep(ZeroLeaf, EnterCloses)
  /\ reply' = [op |-> "SEQUENCE", st |-> "BADSESSION"]
  /\ UNCHANGED <<clock, ios, dir, fst, nfiles, cx, nextId, execd, twice>>

-----------------------------------------------------------------------------
(* SEQUENCE: slot bookkeeping, replay cache, duplicates in flight.         *)

Sts(acc) == [j \in 1 .. Len(acc) |-> acc[j].st]
OpsOf(acc) == [j \in 1 .. Len(acc) |-> acc[j].op]

\* The shape check of a retransmission against the cached reply.
FalseRetry(c, shape) ==
  LET co == Tail(c.ops) IN
    \/ Len(co) > Len(shape)
    \/ (c.sts[Len(c.sts)] = "OK" /\ Len(co) # Len(shape))
    \/ \E j \in 1 .. Len(co) : j <= Len(shape) /\ co[j] # shape[j] /\ co[j] # "ILLEGAL"

SeqStart(x, sid, slot, sq, cache, shape) ==
  LET E == Entered
      known == sid \in SessIds /\ E.sess[sid].live
      sl == E.sess[sid].slots[slot]
      k == E.sess[sid].i
      simple(st, S, kind) ==
        /\ SetServer(S)
        /\ cx' = cx
        /\ reply' = [op |-> "SEQUENCE", st |-> st, kind |-> kind, c |-> Res6(<<st>>, <<"SEQUENCE">>, "")]
        /\ UNCHANGED <<execd, twice>>
  IN /\ cx[x].kind = "idle"
     /\ pnow' = NowAt
     /\ LeafStep(ZeroLeaf, EnterCloses)
     /\ IF ~known THEN simple("BADSESSION", E, "error")
        ELSE IF slot \notin Slots THEN simple("BADSLOT", E, "error")
        ELSE IF sq = sl.q THEN
          IF FalseRetry(sl.c, shape) THEN simple("SEQ_FALSE_RETRY", E, "false")
          ELSE /\ SetServer(E)
               /\ cx' = cx
               /\ reply' = [op |-> "SEQUENCE", st |-> sl.c.sts[1], kind |-> "replay", c |-> sl.c]
               /\ UNCHANGED <<execd, twice>>
        ELSE IF sq # sl.q + 1 THEN simple("SEQ_MISORDERED", E, "misordered")
        ELSE IF sl.busy THEN
          /\ SetServer([E EXCEPT !.sess = [E.sess EXCEPT ![sid].slots[slot].w = Append(@, x)]])
          /\ cx' = [cx EXCEPT ![x] = [IdleCtx EXCEPT !.kind = "wait", !.sid = sid, !.slot = slot,
                                                     !.sq = sq, !.shape = shape, !.same = (shape = sl.shape)]]
          /\ reply' = [op |-> "SEQUENCE", st |-> "WAIT", kind |-> "wait", c |-> MisorderedCache]
          /\ UNCHANGED <<execd, twice>>
        ELSE IF 1 + Len(shape) > MaxOps THEN
          simple("TOO_MANY_OPS", [E EXCEPT !.sess = [E.sess EXCEPT ![sid].slots[slot].c = MisorderedCache]], "error")
        ELSE
          /\ SetServer([E EXCEPT
                !.sess = [E.sess EXCEPT ![sid].slots[slot] = [sl EXCEPT !.busy = TRUE, !.shape = shape, !.c = MisorderedCache]],
                !.inc = [E.inc EXCEPT ![k].hold = @ + 1]])
          /\ cx' = [cx EXCEPT ![x] = [IdleCtx EXCEPT !.kind = "run", !.i = k, !.sid = sid, !.slot = slot,
                                                     !.sq = sq, !.cache = cache, !.shape = shape, !.fh = InitFH,
                                                     !.acc = <<[op |-> "SEQUENCE", st |-> "OK"]>>]]
          /\ reply' = [op |-> "SEQUENCE", st |-> "OK", kind |-> "new", c |-> MisorderedCache]
          /\ execd' = execd \cup {<<sid, slot, sq>>}
          /\ twice' = (twice \/ <<sid, slot, sq>> \in execd)
     /\ UNCHANGED <<clock, ios, dir, fst, nfiles, nextId>>

\* End of a sequenced COMPOUND: the reply is cached, the slot is freed, the
\* incarnation is released and duplicates that waited are handed the result.
SeqEnd(x, rh) ==
  LET E == Entered
      c == cx[x]
      res == Res6(Sts(c.acc), OpsOf(c.acc), rh)
      full == c.cache \/ Len(c.acc) < 2 \/ (Len(c.acc) = 2 /\ c.acc[2].st # "OK")
      cached == IF full THEN res
                ELSE [res EXCEPT !.sts = <<"OK", "RETRY_UNCACHED_REP">>, !.ops = <<"SEQUENCE", c.acc[2].op>>, !.rh = ""]
      sl == E.sess[c.sid].slots[c.slot]
      ws == {sl.w[j] : j \in 1 .. Len(sl.w)}
  IN /\ c.kind = "run"
     /\ ~\E io \in ios : io.x = x
     /\ pnow' = NowAt
     /\ SetServer([E EXCEPT
           !.inc = [E.inc EXCEPT ![c.i] = Released(@)],
           !.sess = [E.sess EXCEPT ![c.sid].slots[c.slot] =
                        [q |-> c.sq, busy |-> FALSE, shape |-> <<>>, c |-> cached, w |-> <<>>]]])
     /\ LeafStep(ZeroLeaf, EnterCloses)
     /\ cx' = [y \in Ctxs |-> IF y = x THEN IdleCtx
                              ELSE IF y \in ws THEN [cx[y] EXCEPT !.kind = "woken", !.res = res]
                              ELSE cx[y]]
     /\ reply' = [op |-> "END", res |-> res, full |-> full]
     /\ UNCHANGED <<clock, ios, dir, fst, nfiles, nextId, execd, twice>>

\* A duplicate that waited for its original returns.  A duplicate whose
\* content differs from the original must not get the original's reply.
DupReturn(x) ==
  /\ cx[x].kind = "woken"
  /\ reply' = IF cx[x].same THEN [op |-> "DUP", st |-> cx[x].res.sts[1], res |-> cx[x].res]
              ELSE [op |-> "DUP", st |-> "SEQ_FALSE_RETRY",
                    res |-> Res6(<<"SEQ_FALSE_RETRY">>, <<"SEQUENCE">>, "")]
  /\ cx' = [cx EXCEPT ![x] = IdleCtx]
  /\ UNCHANGED <<clock, pnow, inc, sess, oofs, lofs, held, ios, leaf, pend, dir, fst, nfiles, nextId, execd, twice>>

ClockAdvance(d) ==
  /\ clock' = clock + d
  /\ reply' = [op |-> "none", st |-> "OK"]
  /\ UNCHANGED <<pnow, inc, sess, oofs, lofs, held, ios, leaf, pend, dir, fst, nfiles, cx, nextId, execd, twice>>

\* A deferred leaf close is carried out (design check only).
DoClose(f, b) ==
  /\ pend[f][b] > 0
  /\ pend' = [pend EXCEPT ![f][b] = @ - 1]
  /\ leaf' = [leaf EXCEPT ![f][b] = @ - 1]
  /\ reply' = [op |-> "none", st |-> "OK"]
  /\ UNCHANGED <<clock, pnow, inc, sess, oofs, lofs, held, ios, dir, fst, nfiles, cx, nextId, execd, twice>>

-----------------------------------------------------------------------------
(* Operations inside a sequenced COMPOUND.  x is the execution context.    *)

Running(x) == cx[x].kind = "run" /\ ~cx[x].failed

Done(x, op, st, fh2, cs2) ==
  cx' = [cx EXCEPT ![x].acc = Append(@, [op |-> op, st |-> st]), ![x].failed = (st # "OK"),
                   ![x].fh = fh2, ![x].cs = cs2]
Keep(x, op, st) == Done(x, op, st, cx[x].fh, cx[x].cs)

OpFrame == UNCHANGED <<clock, pnow, inc, sess, execd, twice>>
NoState == UNCHANGED <<oofs, lofs, held, ios, leaf, pend, dir, fst, nfiles, nextId>>

PutRootFH(x) ==
  /\ Running(x) /\ OpFrame /\ NoState
  /\ Done(x, "PUTROOTFH", "OK", Root, NoCs)
  /\ reply' = [op |-> "PUTROOTFH", st |-> "OK"]

\* h: Root, a file, -2 = a well-formed handle that was never issued,
\* -3 = a handle that is too short.
PutFHStatus(h) ==
  IF h = -3 THEN "BADHANDLE"
  ELSE IF h = Root THEN "OK"
  ELSE IF h \in Files /\ (fst[h] = "linked" \/ InPool(oofs, h)) THEN "OK"
  ELSE "STALE"

PutFH(x, h) ==
  LET st == PutFHStatus(h) IN
  /\ Running(x) /\ OpFrame /\ NoState
  /\ IF st = "OK" THEN Done(x, "PUTFH", st, h, NoCs) ELSE Keep(x, "PUTFH", st)
  /\ reply' = [op |-> "PUTFH", st |-> st]

Lookup(x, name) ==
  LET c == cx[x]
      st == IF c.fh = NoFH THEN "NOFILEHANDLE" ELSE IF c.fh # Root THEN "NOTDIR"
            ELSE IF name \notin Names \/ dir[name] = 0 THEN "NOENT" ELSE "OK"
  IN /\ Running(x) /\ OpFrame /\ NoState
     /\ IF st = "OK" THEN Done(x, "LOOKUP", st, dir[name], NoCs) ELSE Keep(x, "LOOKUP", st)
     /\ reply' = [op |-> "LOOKUP", st |-> st]

GetFH(x) ==
  LET st == IF cx[x].fh = NoFH THEN "NOFILEHANDLE" ELSE "OK" IN
  /\ Running(x) /\ OpFrame /\ NoState
  /\ Keep(x, "GETFH", st)
  /\ reply' = [op |-> "GETFH", st |-> st, fh |-> cx[x].fh]

SaveFH(x) ==
  LET st == IF cx[x].fh = NoFH THEN "NOFILEHANDLE" ELSE "OK" IN
  /\ Running(x) /\ OpFrame /\ NoState
  /\ cx' = [cx EXCEPT ![x].acc = Append(@, [op |-> "SAVEFH", st |-> st]), ![x].failed = (st # "OK"),
                      ![x].sfh = IF st = "OK" THEN cx[x].fh ELSE @,
                      ![x].scs = IF st = "OK" THEN cx[x].cs ELSE @]
  /\ reply' = [op |-> "SAVEFH", st |-> st]

RestoreFH(x) ==
  LET st == IF cx[x].sfh = NoFH THEN "RESTOREFH" ELSE "OK" IN
  /\ Running(x) /\ OpFrame /\ NoState
  /\ IF st = "OK" THEN Done(x, "RESTOREFH", st, cx[x].sfh, cx[x].scs) ELSE Keep(x, "RESTOREFH", st)
  /\ reply' = [op |-> "RESTOREFH", st |-> st]

-----------------------------------------------------------------------------
(* State ID resolution.  A state ID argument is [k, o, q]: k = "reg"       *)
(* (other token o, seqid q), "cur" (current state ID), "anon", "bypass",   *)
(* "inval" (all-ones seqid, zero other), "junk" (trailing bytes set).      *)

NoRec == [i |-> NoKey, oo |-> "", f |-> 0, lo |-> "", sh |-> {}, q |-> 0, o |-> 0]

\* getOpenOwnerFileByStateID
ResolveOpen(x, s, down) ==
  LET c == cx[x]
      cur == {r \in oofs : r.i = c.i /\ r.o = c.cs.o}
      reg == {r \in oofs : r.i = c.i /\ r.o = s.o}
  IN IF c.fh = NoFH THEN [st |-> "NOFILEHANDLE", r |-> NoRec]
     ELSE IF s.k = "cur" THEN
       IF cur = {} THEN [st |-> "BAD_STATEID", r |-> NoRec]
       ELSE LET r == CHOOSE r \in cur : TRUE IN
            [st |-> IF down /\ c.cs.q # r.q THEN "OLD_STATEID" ELSE "OK", r |-> r]
     ELSE IF s.k # "reg" \/ reg = {} THEN [st |-> "BAD_STATEID", r |-> NoRec]
     ELSE LET r == CHOOSE r \in reg : TRUE IN
          IF r.f # c.fh THEN [st |-> "BAD_STATEID", r |-> NoRec]
          ELSE [st |-> CompareSeq(s.q, r.q), r |-> r]

\* getLockOwnerFileByStateID
ResolveLock(x, s) ==
  LET c == cx[x]
      cur == {l \in lofs : l.i = c.i /\ l.o = c.cs.o}
      reg == {l \in lofs : l.i = c.i /\ l.o = s.o}
  IN IF c.fh = NoFH THEN [st |-> "NOFILEHANDLE", r |-> NoRec]
     ELSE IF s.k = "cur" THEN
       IF cur = {} THEN [st |-> "BAD_STATEID", r |-> NoRec]
       ELSE [st |-> "OK", r |-> CHOOSE l \in cur : TRUE]
     ELSE IF s.k # "reg" \/ reg = {} THEN [st |-> "BAD_STATEID", r |-> NoRec]
     ELSE LET l == CHOOSE l \in reg : TRUE IN
          IF l.f # c.fh THEN [st |-> "BAD_STATEID", r |-> NoRec]
          ELSE [st |-> CompareSeq(s.q, l.q), r |-> l]

\* getOpenedLeaf: which open-owner file object an I/O with state ID s and
\* access bit b would borrow its share reservation from.
ResolveIO(x, s, b) ==
  LET c == cx[x]
      ro == ResolveOpen(x, s, FALSE)
      rl == ResolveLock(x, s)
  IN IF s.k \in {"anon", "bypass"} THEN
       [st |-> IF c.fh = NoFH THEN "NOFILEHANDLE" ELSE IF c.fh = Root THEN "ISDIR"
               ELSE IF Dead(c.fh) THEN "STALE" ELSE "OK",
        anon |-> TRUE, obj |-> 0, f |-> c.fh]
     ELSE IF ro.st = "OK" THEN
       [st |-> IF b \in ro.r.sh THEN "OK" ELSE "OPENMODE", anon |-> FALSE, obj |-> ro.r.o, f |-> ro.r.f]
     ELSE IF ro.st = "BAD_STATEID" THEN
       IF rl.st # "OK" THEN [st |-> rl.st, anon |-> FALSE, obj |-> 0, f |-> 0]
       ELSE [st |-> IF b \in rl.r.sh THEN "OK" ELSE "OPENMODE", anon |-> FALSE,
             obj |-> OofOf(oofs, rl.r).o, f |-> rl.r.f]
     ELSE [st |-> ro.st, anon |-> FALSE, obj |-> 0, f |-> 0]

-----------------------------------------------------------------------------
(* OPEN, OPEN_DOWNGRADE, CLOSE.                                            *)

Open(x, oo, shareRaw, deny, how, claim, name, otherNew) ==
  LET c == cx[x]
      sh == OpenShareBits(shareRaw)
      create == how \in {"UNCHECKED", "UNCHECKED_TRUNC", "GUARDED"}
      st0 == IF sh = {} THEN "INVAL"
             ELSE IF deny \in 1 .. 3 THEN "SHARE_DENIED"
             ELSE IF deny # 0 THEN "INVAL"
             ELSE IF how \in {"EXCLUSIVE4", "EXCLUSIVE4_1"} THEN "INVAL"
             ELSE "OK"
      ex == IF name \in Names THEN dir[name] ELSE 0
      \* phase 1: the directory / leaf part (before the incarnation's lock)
      p1 == IF st0 # "OK" THEN [st |-> st0, f |-> 0, new |-> FALSE]
            ELSE IF claim = "NULL" THEN
              IF c.fh = NoFH THEN [st |-> "NOFILEHANDLE", f |-> 0, new |-> FALSE]
              ELSE IF c.fh # Root THEN [st |-> "NOTDIR", f |-> 0, new |-> FALSE]
              ELSE IF ex # 0 THEN
                IF how = "GUARDED" THEN [st |-> "EXIST", f |-> 0, new |-> FALSE]
                ELSE [st |-> "OK", f |-> ex, new |-> FALSE]
              ELSE IF ~create THEN [st |-> "NOENT", f |-> 0, new |-> FALSE]
              ELSE [st |-> "OK", f |-> nfiles + 1, new |-> TRUE]
            ELSE IF claim \in {"FH", "PREVIOUS", "PREVIOUS_DELEG"} THEN
              IF c.fh = NoFH THEN [st |-> "NOFILEHANDLE", f |-> 0, new |-> FALSE]
              ELSE IF c.fh = Root THEN [st |-> "ISDIR", f |-> 0, new |-> FALSE]
              ELSE IF how = "GUARDED" THEN [st |-> "EXIST", f |-> 0, new |-> FALSE]
              ELSE IF Dead(c.fh) THEN [st |-> "STALE", f |-> 0, new |-> FALSE]
              ELSE [st |-> "OK", f |-> c.fh, new |-> FALSE]
            ELSE IF claim = "DELEGATE_CUR" THEN [st |-> "RECLAIM_BAD", f |-> 0, new |-> FALSE]
            ELSE [st |-> "NOTSUPP", f |-> 0, new |-> FALSE]
      f == p1.f
      old == {r \in oofs : r.i = c.i /\ r.oo = oo /\ r.f = f}
      reclaimBad == claim \in {"PREVIOUS", "PREVIOUS_DELEG"} /\ (old = {} \/ claim = "PREVIOUS_DELEG")
      r0 == IF old = {} THEN [i |-> c.i, oo |-> oo, f |-> f, sh |-> {}, q |-> 0, o |-> otherNew]
            ELSE CHOOSE r \in old : TRUE
      overlap == {b \in sh : old # {} /\ Holds(c.i, r0.o, b)}
      r1 == [r0 EXCEPT !.sh = @ \cup sh, !.q = @ + 1]
      st == IF p1.st # "OK" THEN p1.st ELSE IF reclaimBad THEN "RECLAIM_BAD" ELSE "OK"
  IN /\ Running(x) /\ OpFrame
     /\ p1.new => nfiles < MaxFile
     /\ UNCHANGED <<lofs, held, ios>>
     /\ IF p1.st # "OK" THEN
          /\ UNCHANGED <<oofs, leaf, pend, dir, fst, nfiles, nextId>>
          /\ Keep(x, "OPEN", st)
          /\ reply' = [op |-> "OPEN", st |-> st, rsid |-> NoCs, f |-> 0, newState |-> FALSE]
        ELSE IF reclaimBad THEN
          \* the leaf was opened and is closed again
          /\ LeafStep(Bump(f, sh), Bump(f, sh))
          /\ UNCHANGED <<oofs, dir, fst, nfiles, nextId>>
          /\ Keep(x, "OPEN", st)
          /\ reply' = [op |-> "OPEN", st |-> st, rsid |-> NoCs, f |-> 0, newState |-> FALSE]
        ELSE
          /\ oofs' = (oofs \ old) \cup {r1}
          /\ LeafStep(Bump(f, sh), Bump(f, overlap))
          /\ dir' = IF p1.new THEN [dir EXCEPT ![name] = f] ELSE dir
          /\ fst' = IF p1.new THEN [fst EXCEPT ![f] = "linked"] ELSE fst
          /\ nfiles' = IF p1.new THEN nfiles + 1 ELSE nfiles
          /\ nextId' = IF old = {} THEN [nextId EXCEPT !.other = Max(@, otherNew) + 1] ELSE nextId
          /\ Done(x, "OPEN", "OK", f, [o |-> r1.o, q |-> r1.q])
          /\ reply' = [op |-> "OPEN", st |-> "OK", rsid |-> [o |-> r1.o, q |-> r1.q], f |-> f,
                       newState |-> (old = {})]

OpenDowngrade(x, s, shareRaw, deny) ==
  LET c == cx[x]
      sh == ShareBits(shareRaw)
      ro == ResolveOpen(x, s, TRUE)
      r == ro.r
      st == IF sh = {} THEN "INVAL" ELSE IF ro.st # "OK" THEN ro.st
            ELSE IF ~(sh \subseteq r.sh) \/ deny # 0 THEN "INVAL" ELSE "OK"
      r1 == [r EXCEPT !.sh = sh, !.q = @ + 1]
      O2 == (oofs \ {r}) \cup {r1}
  IN /\ Running(x) /\ OpFrame
     /\ UNCHANGED <<lofs, held, ios, dir, fst, nfiles, nextId>>
     /\ IF st # "OK" THEN
          /\ UNCHANGED <<oofs, leaf, pend>>
          /\ Keep(x, "OPEN_DOWNGRADE", st)
          /\ reply' = [op |-> "OPEN_DOWNGRADE", st |-> st, rsid |-> NoCs]
        ELSE
          /\ oofs' = O2
          /\ LeafStep(ZeroLeaf, Bump(r.f, Dropped(O2, lofs, ios, r.i, r.o)))
          /\ Done(x, "OPEN_DOWNGRADE", "OK", c.fh, [o |-> r1.o, q |-> r1.q])
          /\ reply' = [op |-> "OPEN_DOWNGRADE", st |-> "OK", rsid |-> [o |-> r1.o, q |-> r1.q]]

\* CLOSE releases the locks of every lock-owner that has lock state under
\* this open, discards that lock state and the open state.  Share
\* reservations borrowed by I/O in flight keep the leaf open until the I/O
\* ends.
Close(x, s) ==
  LET c == cx[x]
      ro == ResolveOpen(x, s, TRUE)
      r == ro.r
      gone == {l \in lofs : l.i = r.i /\ l.oo = r.oo /\ l.f = r.f}
      O2 == oofs \ {r}
      L2 == lofs \ gone
      H2 == {h \in held : ~(h.f = r.f /\ h.i = r.i /\ \E l \in gone : l.lo = h.lo)}
  IN /\ Running(x) /\ OpFrame
     /\ UNCHANGED <<ios, dir, fst, nfiles, nextId>>
     /\ IF ro.st # "OK" THEN
          /\ UNCHANGED <<oofs, lofs, held, leaf, pend>>
          /\ Keep(x, "CLOSE", ro.st)
          /\ reply' = [op |-> "CLOSE", st |-> ro.st]
        ELSE
          /\ oofs' = O2 /\ lofs' = L2
          /\ held' = IF InPool(O2, r.f) THEN H2 ELSE {h \in H2 : h.f # r.f}
          /\ LeafStep(ZeroLeaf, Bump(r.f, Dropped(O2, L2, ios, r.i, r.o)))
          /\ Keep(x, "CLOSE", "OK")
          /\ reply' = [op |-> "CLOSE", st |-> "OK"]

-----------------------------------------------------------------------------
(* LOCK, LOCKT, LOCKU, FREE_STATEID, TEST_STATEID.                         *)

\* Byte-range locks belong to the lock-owner, so a lock-owner has at most one
\* piece of lock state per opened file: LOCK with a new lock-owner through
\* another open-owner of the client re-uses the lock state that the
\* lock-owner already has on that file (it stays with the open under which it
\* was created: share reservation, CLOSE, state ID).  reuse = FALSE is the
\* behaviour of a server that creates a second piece of lock state instead
\* (only used by the trace specification to follow such a server).
LofsOfOwner(i, f, lo) == {l \in lofs : l.i = i /\ l.f = f /\ l.lo = lo}

LockR(x, lt, rk, s, e, newo, osid, lo, lsid, otherNew, reuse) ==
  LET c == cx[x]
      ro == ResolveOpen(x, osid, FALSE)
      rl == ResolveLock(x, lsid)
      st1 == IF newo THEN ro.st ELSE rl.st
      o == IF newo THEN ro.r ELSE OofOf(oofs, rl.r)
      lown == IF newo THEN lo ELSE rl.r.lo
      exOwn == {l \in lofs : l.i = o.i /\ l.oo = o.oo /\ l.f = o.f /\ l.lo = lown}
      ex == IF exOwn # {} \/ ~newo \/ ~reuse THEN exOwn
            ELSE LET any == LofsOfOwner(o.i, o.f, lown) IN
                 IF any = {} THEN {} ELSE {CHOOSE l \in any : TRUE}
      t == LockT(lt)
      e2 == RangeEnd(rk, e)
      confl == ConflictsIn(held, o.f, o.i, lown, s, e2, t)
      st == IF st1 # "OK" THEN st1
            ELSE IF ~RangeOK(rk, s, e) THEN RangeErr(rk)
            ELSE IF t = "bad" THEN "INVAL"
            ELSE IF confl # {} THEN "DENIED" ELSE "OK"
      l1 == IF ex = {} THEN [i |-> o.i, oo |-> o.oo, f |-> o.f, lo |-> lown, sh |-> o.sh, q |-> 1, o |-> otherNew]
            ELSE [(CHOOSE l \in ex : TRUE) EXCEPT !.q = @ + 1]
  IN /\ Running(x) /\ OpFrame
     /\ UNCHANGED <<oofs, ios, leaf, pend, dir, fst, nfiles>>
     /\ IF st # "OK" THEN
          /\ UNCHANGED <<lofs, held, nextId>>
          /\ Keep(x, "LOCK", st)
          /\ reply' = [op |-> "LOCK", st |-> st, rsid |-> NoCs, confl |-> IF st = "DENIED" THEN confl ELSE {},
                       f |-> IF st = "DENIED" THEN o.f ELSE 0, newState |-> FALSE]
        ELSE
          /\ lofs' = (lofs \ ex) \cup {l1}
          /\ held' = ApplyLock(held, o.f, o.i, lown, s, e2, t)
          /\ nextId' = IF ex = {} THEN [nextId EXCEPT !.other = Max(@, otherNew) + 1] ELSE nextId
          /\ Done(x, "LOCK", "OK", c.fh, [o |-> l1.o, q |-> l1.q])
          /\ reply' = [op |-> "LOCK", st |-> "OK", rsid |-> [o |-> l1.o, q |-> l1.q], confl |-> {}, f |-> o.f,
                       newState |-> (ex = {})]

Lock(x, lt, rk, s, e, newo, osid, lo, lsid, otherNew) == LockR(x, lt, rk, s, e, newo, osid, lo, lsid, otherNew, TRUE)

LockTest(x, lt, rk, s, e, lo) ==
  LET c == cx[x]
      t == LockT(lt)
      e2 == RangeEnd(rk, e)
      confl == IF c.fh \in Files THEN ConflictsIn(held, c.fh, c.i, lo, s, e2, t) ELSE {}
      st == IF c.fh = NoFH THEN "NOFILEHANDLE" ELSE IF c.fh = Root THEN "ISDIR"
            ELSE IF ~RangeOK(rk, s, e) THEN RangeErr(rk)
            ELSE IF t = "bad" THEN "INVAL"
            ELSE IF confl # {} THEN "DENIED" ELSE "OK"
  IN /\ Running(x) /\ OpFrame /\ NoState
     /\ Keep(x, "LOCKT", st)
     /\ reply' = [op |-> "LOCKT", st |-> st, confl |-> IF st = "DENIED" THEN confl ELSE {}, f |-> c.fh]

LockU(x, sid, rk, s, e) ==
  LET c == cx[x]
      rl == ResolveLock(x, sid)
      l == rl.r
      st == IF rl.st # "OK" THEN rl.st ELSE IF ~RangeOK(rk, s, e) THEN RangeErr(rk) ELSE "OK"
      l1 == [l EXCEPT !.q = @ + 1]
  IN /\ Running(x) /\ OpFrame
     /\ UNCHANGED <<oofs, ios, leaf, pend, dir, fst, nfiles, nextId>>
     /\ IF st # "OK" THEN
          /\ UNCHANGED <<lofs, held>>
          /\ Keep(x, "LOCKU", st)
          /\ reply' = [op |-> "LOCKU", st |-> st, rsid |-> NoCs]
        ELSE
          /\ lofs' = (lofs \ {l}) \cup {l1}
          /\ held' = ApplyLock(held, l.f, l.i, l.lo, s, RangeEnd(rk, e), "N")
          /\ Done(x, "LOCKU", "OK", c.fh, [o |-> l1.o, q |-> l1.q])
          /\ reply' = [op |-> "LOCKU", st |-> "OK", rsid |-> [o |-> l1.o, q |-> l1.q]]

FreeStateID(x, s) ==
  LET c == cx[x]
      m == {l \in lofs : l.i = c.i /\ l.o = s.o}
      l == CHOOSE l \in m : TRUE
      st == IF s.k # "reg" \/ m = {} THEN "BAD_STATEID"
            ELSE IF CompareSeq(s.q, l.q) # "OK" THEN CompareSeq(s.q, l.q)
            ELSE IF LockCountOf(held, l.f, l.i, l.lo) > 0 THEN "LOCKS_HELD" ELSE "OK"
      L2 == lofs \ {l}
  IN /\ Running(x) /\ OpFrame
     /\ UNCHANGED <<oofs, held, ios, dir, fst, nfiles, nextId>>
     /\ Keep(x, "FREE_STATEID", st)
     /\ reply' = [op |-> "FREE_STATEID", st |-> st]
     /\ IF st # "OK" THEN UNCHANGED <<lofs, leaf, pend>>
        ELSE /\ lofs' = L2
             /\ LeafStep(ZeroLeaf, Bump(l.f, Dropped(oofs, L2, ios, l.i, OofOf(oofs, l).o)))

TestOne(i, s) ==
  LET q == CASE s.k = "reg" -> s.q [] s.k = "cur" -> 1 [] s.k = "inval" -> 2147483647 [] OTHER -> 0
      o == IF s.k = "reg" THEN s.o ELSE 0
      mo == {r \in oofs : r.i = i /\ r.o = o}
      ml == {l \in lofs : l.i = i /\ l.o = o}
  IN IF s.k \in {"junk", "bypass"} THEN "BAD_STATEID"
     ELSE IF mo # {} THEN CompareSeq(q, (CHOOSE r \in mo : TRUE).q)
     ELSE IF ml # {} THEN CompareSeq(q, (CHOOSE l \in ml : TRUE).q)
     ELSE "BAD_STATEID"

TestStateID(x, sids) ==
  /\ Running(x) /\ OpFrame /\ NoState
  /\ Keep(x, "TEST_STATEID", "OK")
  /\ reply' = [op |-> "TEST_STATEID", st |-> "OK", sts |-> [j \in 1 .. Len(sids) |-> TestOne(cx[x].i, sids[j])]]

-----------------------------------------------------------------------------
(* READ / WRITE / SETATTR(size).  IOStart .. IOEnd bracket the time the    *)
(* leaf call is running; IO is both in one step.                           *)

BitOf(kind) == IF kind = "READ" THEN "R" ELSE "W"

IOStart(x, kind, s) ==
  LET c == cx[x]
      b == BitOf(kind)
      r == ResolveIO(x, s, b)
  IN /\ Running(x) /\ OpFrame
     /\ ~\E io \in ios : io.x = x
     /\ UNCHANGED <<oofs, lofs, held, dir, fst, nfiles, nextId>>
     /\ IF r.st # "OK" THEN
          /\ UNCHANGED <<ios, leaf, pend>>
          /\ Keep(x, kind, r.st)
        ELSE
          /\ ios' = ios \cup {[x |-> x, i |-> c.i, obj |-> r.obj, f |-> r.f, bit |-> b, anon |-> r.anon]}
          /\ LeafStep(IF r.anon THEN Bump(r.f, {b}) ELSE ZeroLeaf, ZeroLeaf)
          /\ cx' = cx
     /\ reply' = [op |-> kind, st |-> r.st, started |-> (r.st = "OK")]

IOEnd(x, kind) ==
  LET io == CHOOSE io \in ios : io.x = x
      I2 == ios \ {io}
      cl == IF io.anon THEN {io.bit}
            ELSE {b \in {io.bit} : ~HoldsIn(oofs, lofs, I2, io.i, io.obj, b)}
  IN /\ cx[x].kind = "run"
     /\ \E j \in ios : j.x = x
     /\ OpFrame
     /\ UNCHANGED <<oofs, lofs, held, dir, fst, nfiles, nextId>>
     /\ ios' = I2
     /\ LeafStep(ZeroLeaf, Bump(io.f, cl))
     /\ Keep(x, kind, "OK")
     /\ reply' = [op |-> kind, st |-> "OK", started |-> FALSE]

IO(x, kind, s) ==
  LET r == ResolveIO(x, s, BitOf(kind)) IN
  /\ Running(x) /\ OpFrame /\ NoState
  /\ ~\E io \in ios : io.x = x
  /\ Keep(x, kind, r.st)
  /\ reply' = [op |-> kind, st |-> r.st, started |-> FALSE]

SetAttr(x, s) ==
  LET c == cx[x]
      r == ResolveIO(x, s, "W")
      st == IF s.k \in {"anon", "bypass"}
            THEN (IF c.fh = NoFH THEN "NOFILEHANDLE" ELSE "OK")
            ELSE r.st
  IN /\ Running(x) /\ OpFrame /\ NoState
     /\ Keep(x, "SETATTR", st)
     /\ reply' = [op |-> "SETATTR", st |-> st]

-----------------------------------------------------------------------------
(* REMOVE and RENAME of (possibly open) files.                             *)

Remove(x, name) ==
  LET c == cx[x]
      st == IF c.fh = NoFH THEN "NOFILEHANDLE" ELSE IF c.fh # Root THEN "NOTDIR"
            ELSE IF name \notin Names \/ dir[name] = 0 THEN "NOENT" ELSE "OK"
  IN /\ Running(x) /\ OpFrame
     /\ UNCHANGED <<oofs, lofs, held, ios, leaf, pend, nfiles, nextId>>
     /\ Keep(x, "REMOVE", st)
     /\ reply' = [op |-> "REMOVE", st |-> st]
     /\ IF st # "OK" THEN UNCHANGED <<dir, fst>>
        ELSE /\ dir' = [dir EXCEPT ![name] = 0]
             /\ fst' = [fst EXCEPT ![dir[name]] = "unlinked"]

Rename(x, old, new) ==
  LET c == cx[x]
      st == IF c.sfh = NoFH THEN "NOFILEHANDLE" ELSE IF c.sfh # Root THEN "NOTDIR"
            ELSE IF c.fh = NoFH THEN "NOFILEHANDLE" ELSE IF c.fh # Root THEN "NOTDIR"
            ELSE IF old \notin Names \/ dir[old] = 0 THEN "NOENT" ELSE "OK"
      f == dir[old]
      g == dir[new]
  IN /\ Running(x) /\ OpFrame
     /\ new \in Names
     /\ UNCHANGED <<oofs, lofs, held, ios, leaf, pend, nfiles, nextId>>
     /\ Keep(x, "RENAME", st)
     /\ reply' = [op |-> "RENAME", st |-> st]
     /\ IF st # "OK" \/ old = new THEN UNCHANGED <<dir, fst>>
        ELSE /\ dir' = [dir EXCEPT ![old] = 0, ![new] = f]
             /\ fst' = IF g # 0 THEN [fst EXCEPT ![g] = "unlinked"] ELSE fst

-----------------------------------------------------------------------------
(* Initial state: the first NInit names exist as files 1..NInit, closed.   *)

InitState(names) ==
  /\ clock = 0 /\ pnow = 0
  /\ inc = [k \in IncKeys |-> DeadInc]
  /\ sess = [s \in SessIds |-> DeadSess]
  /\ oofs = {} /\ lofs = {} /\ held = {} /\ ios = {}
  /\ leaf = ZeroLeaf /\ pend = ZeroLeaf
  /\ dir = [n \in Names |-> IF \E j \in 1 .. Len(names) : names[j] = n
                            THEN CHOOSE j \in 1 .. Len(names) : names[j] = n ELSE 0]
  /\ fst = [f \in Files |-> IF f <= Len(names) THEN "linked" ELSE "absent"]
  /\ nfiles = Len(names)
  /\ cx = [x \in Ctxs |-> IdleCtx]
  /\ reply = [op |-> "none", st |-> "OK"]
  /\ nextId = [cid |-> 1, other |-> 1]
  /\ execd = {} /\ twice = FALSE

-----------------------------------------------------------------------------
(* Properties.                                                             *)

\* What the state IDs handed out and the I/O in flight entitle clients to.
Entitled(f, b) ==
  \/ \E r \in oofs : r.f = f /\ b \in r.sh
  \/ \E l \in lofs : l.f = f /\ b \in l.sh
  \/ \E io \in ios : io.f = f /\ io.bit = b

\* Open-owner file objects (live or discarded with I/O still running) that
\* keep bit b of leaf f open, plus anonymous I/O.
HoldersOf(f, b) ==
  {<<r.i, r.o>> : r \in {r \in oofs : r.f = f /\ Holds(r.i, r.o, b)}}
    \cup {<<io.i, io.obj>> : io \in {io \in ios : ~io.anon /\ io.f = f /\ io.bit = b}}
AnonOf(f, b) == Cardinality({io \in ios : io.anon /\ io.f = f /\ io.bit = b})

\* C18: per leaf and access bit, opens - closes is exactly what is still
\* needed: never negative, never closed while entitled, nothing left over.
C18_Balance ==
  \A f \in Files : \A b \in Bits :
    /\ pend[f][b] >= 0
    /\ leaf[f][b] - pend[f][b] = Cardinality(HoldersOf(f, b)) + AnonOf(f, b)
    /\ (Entitled(f, b) => leaf[f][b] - pend[f][b] >= 1)

\* C18: a file that is open somewhere is resolvable by handle.
C18_Reach == \A r \in oofs : PutFHStatus(r.f) = "OK" /\ fst[r.f] # "absent"

\* C18: a state ID denotes at most one piece of state of one incarnation,
\* lock state only exists under its open state.
C18_StateIds ==
  /\ \A a, b \in oofs : (a.i = b.i /\ a.o = b.o) => a = b
  /\ \A a, b \in lofs : (a.i = b.i /\ a.o = b.o) => a = b
  /\ \A a \in oofs : \A b \in lofs : ~(a.i = b.i /\ a.o = b.o)
  /\ \A a, b \in oofs : (a.i = b.i /\ a.oo = b.oo /\ a.f = b.f) => a = b
  /\ \A l \in lofs : \E r \in oofs : r.i = l.i /\ r.oo = l.oo /\ r.f = l.f
  /\ \A r \in oofs : inc[r.i].live /\ r.sh # {}

\* C18: once every incarnation is gone, nothing is retained.
C18_Final ==
  (\A k \in IncKeys : ~inc[k].live) =>
     /\ \A s \in SessIds : ~sess[s].live
     /\ oofs = {} /\ lofs = {} /\ held = {}
     /\ (ios = {} => \A f \in Files : \A b \in Bits : leaf[f][b] = pend[f][b])

\* C19
C19_Once == ~twice
C19_InFlight ==
  \A x \in Ctxs : cx[x].kind = "wait" =>
     LET sl == sess[cx[x].sid].slots[cx[x].slot] IN
       sl.busy /\ \E j \in 1 .. Len(sl.w) : sl.w[j] = x
\* A request that is not executed (replay, false retry, misordered, error)
\* has no effect on open / lock / file state.
C19_NoEffect ==
  [][(reply'.op = "SEQUENCE" /\ reply'.kind \notin {"new", "wait"} /\ ExpiredAt(NowAt) = {})
        => UNCHANGED <<oofs, lofs, held, ios, leaf, pend, dir, fst>>]_vars
\* A replay is answered from the cache of exactly that slot.
C19_Same ==
  [][(reply'.op = "SEQUENCE" /\ reply'.kind = "replay")
        => \E s \in SessIds : \E t \in Slots : reply'.c = sess[s].slots[t].c]_vars

\* C20 at the NFS level.
C20_Exclusion ==
  \A h1, h2 \in held :
    (h1.f = h2.f /\ h1.b = h2.b /\ ~(h1.i = h2.i /\ h1.lo = h2.lo)) => (h1.t = "S" /\ h2.t = "S")
\* Locks exist only for lock-owners that have lock state on that file, on
\* files that are open; one byte has one type per owner.
\* One lock-owner has one piece of lock state per file.
C20_OneLockState == \A a, b \in lofs : (a.i = b.i /\ a.f = b.f /\ a.lo = b.lo) => a = b

C20_Accounted ==
  /\ \A h \in held : \E l \in lofs : l.i = h.i /\ l.lo = h.lo /\ l.f = h.f
  /\ \A h1, h2 \in held : (h1.f = h2.f /\ h1.b = h2.b /\ h1.i = h2.i /\ h1.lo = h2.lo) => h1 = h2

-----------------------------------------------------------------------------
(* Next-state relations of the design check (bounded argument domains).    *)

CONSTANTS MaxOther, MaxSeq, MaxClock, MaxAcc, Family

FreeSids == {s \in SessIds : sess[s].i = NoKey}
NewSid == CHOOSE s \in FreeSids : \A t \in FreeSids : s <= t

StateRecs(i) == {r \in oofs : r.i = i} \cup {l \in lofs : l.i = i}
\* State IDs a client may present: current ones, one seqid back, seqid 0,
\* another incarnation's, and the special ones.
SidCands(i) ==
  {[k |-> "reg", o |-> r.o, q |-> r.q] : r \in StateRecs(i)}
    \cup {[k |-> "reg", o |-> r.o, q |-> r.q - 1] : r \in {r \in StateRecs(i) : r.q > 1}}
    \cup {[k |-> "reg", o |-> r.o, q |-> r.q + 1] : r \in StateRecs(i)}
    \cup {[k |-> "reg", o |-> r.o, q |-> r.q] : r \in UNION {StateRecs(j) : j \in IncKeys \ {i}}}
IOSids(i) == SidCands(i) \cup {[k |-> "anon", o |-> 0, q |-> 0]}
NoSid == [k |-> "none", o |-> 0, q |-> 0]

Ranges == {r \in (0 .. N) \X (0 .. N) : r[1] < r[2]}

CanStep(x) == Running(x) /\ Len(cx[x].acc) < MaxAcc

\* In the two-client families a context belongs to one client owner
\* (Ctxs = Owners); this removes symmetric copies of the same behaviour.
CtxFor(x, s) == (Ctxs = Owners) => x = sess[s].i[1]

Register ==
  \/ \E own \in Owners : \E ver \in Vers : ExchangeID(own, ver, nextId.cid)
  \/ \E k \in IncKeys : inc[k].live /\ FreeSids # {} /\
        \E d \in {0, 1, 2} : CreateSession(inc[k].cid, inc[k].cs + d, NewSid)
Destroy ==
  \/ \E s \in SessIds : sess[s].i # NoKey /\ DestroySession(s)
  \/ \E k \in IncKeys : inc[k].live /\ DestroyClientID(inc[k].cid)
Time ==
  \E d \in {1, Lease + 1} : clock + d <= MaxClock /\ ClockAdvance(d)
Closes == \E f \in Files : \E b \in Bits : DoClose(f, b)

OpenOps(x) ==
  \/ PutRootFH(x)
  \/ \E f \in Files : PutFH(x, f)
  \/ \E oo \in OOs : \E sh \in 1 .. 3 : \E n \in Names :
       \E how \in {"NOCREATE", "UNCHECKED", "GUARDED"} : Open(x, oo, sh, 0, how, "NULL", n, nextId.other)
  \/ \E oo \in OOs : \E sh \in 1 .. 3 : \E cl \in {"FH", "PREVIOUS"} : Open(x, oo, sh, 0, "NOCREATE", cl, "", nextId.other)
  \/ \E s \in SidCands(cx[x].i) : \E sh \in 1 .. 3 : OpenDowngrade(x, s, sh, 0)
  \/ \E s \in SidCands(cx[x].i) : Close(x, s)

LockOps(x) ==
  \/ \E s \in SidCands(cx[x].i) : \E lo \in LOs : \E lt \in {"R", "W"} : \E r \in Ranges :
        Lock(x, lt, "range", r[1], r[2], TRUE, s, lo, NoSid, nextId.other)
  \/ \E s \in SidCands(cx[x].i) : \E lt \in {"R", "W"} : \E r \in Ranges :
        Lock(x, lt, "range", r[1], r[2], FALSE, NoSid, "", s, nextId.other)
  \/ \E lo \in LOs : \E lt \in {"R", "W"} : \E r \in Ranges : LockTest(x, lt, "range", r[1], r[2], lo)
  \/ \E s \in SidCands(cx[x].i) : \E r \in Ranges : LockU(x, s, "range", r[1], r[2])
  \/ \E s \in SidCands(cx[x].i) : FreeStateID(x, s)

IOOps(x) ==
  \/ \E s \in IOSids(cx[x].i) : \E kind \in {"READ", "WRITE"} : IOStart(x, kind, s)
  \/ \E kind \in {"READ", "WRITE"} : IOEnd(x, kind)

SeqNext(shapes, ds, caches) ==
  \/ \E x \in Ctxs : \E s \in SessIds : sess[s].i # NoKey /\ CtxFor(x, s) /\ \E t \in Slots :
       \E d \in ds : \E sh \in shapes : \E ca \in caches :
          SeqStart(x, s, t, sess[s].slots[t].q + d, ca, sh)
  \/ \E x \in Ctxs : SeqEnd(x, "")
  \/ \E x \in Ctxs : DupReturn(x)

\* C18a: one client, two requests at a time: opens, downgrades, closes, lock
\* state, I/O in flight, unlinking, deferred leaf closes.
NextC18a ==
  \/ Register \/ Closes
  \/ SeqNext({<<>>}, {1}, {TRUE})
  \/ \E x \in Ctxs : CanStep(x) /\ x = 1 /\
        \/ OpenOps(x)
        \/ \E s \in SidCands(cx[x].i) : \E lo \in LOs : Lock(x, "W", "range", 0, 1, TRUE, s, lo, NoSid, nextId.other)
        \/ \E s \in SidCands(cx[x].i) : LockU(x, s, "range", 0, 1)
        \/ \E s \in SidCands(cx[x].i) : FreeStateID(x, s)
        \/ \E n \in Names : Remove(x, n)
  \/ \E x \in Ctxs : x # 1 /\ cx[x].kind = "run" /\ Len(cx[x].acc) <= MaxAcc /\ IOOps(x)

\* C18b: two clients sharing a file: registration, re-registration, destroy,
\* lease expiry.
NextC18b ==
  \/ Register \/ Destroy \/ Time
  \/ SeqNext({<<>>}, {1}, {TRUE})
  \/ \E x \in Ctxs : CanStep(x) /\
        \/ \E f \in Files : PutFH(x, f)
        \/ \E oo \in OOs : \E sh \in 1 .. 3 : Open(x, oo, sh, 0, "NOCREATE", "FH", "", nextId.other)
        \/ \E s \in SidCands(cx[x].i) : Close(x, s)
        \/ \E s \in SidCands(cx[x].i) : \E lo \in LOs : Lock(x, "W", "range", 0, 1, TRUE, s, lo, NoSid, nextId.other)

\* C20: two clients, lock operations over all ranges, CLOSE, lease expiry.
CurSids(i) == {[k |-> "reg", o |-> r.o, q |-> r.q] : r \in StateRecs(i)}
NextC20 ==
  \/ Register \/ Time
  \/ SeqNext({<<>>}, {1}, {TRUE})
  \/ \E x \in Ctxs : CanStep(x) /\
        \/ \E s \in CurSids(cx[x].i) : \E lo \in LOs : \E lt \in {"R", "W"} : \E r \in Ranges :
              Lock(x, lt, "range", r[1], r[2], TRUE, s, lo, NoSid, nextId.other)
        \/ \E s \in CurSids(cx[x].i) : \E lt \in {"R", "W"} : \E r \in Ranges :
              Lock(x, lt, "range", r[1], r[2], FALSE, NoSid, "", s, nextId.other)
        \/ \E lo \in LOs : \E lt \in {"W"} : \E r \in Ranges : LockTest(x, lt, "range", r[1], r[2], lo)
        \/ \E s \in CurSids(cx[x].i) : \E r \in Ranges : LockU(x, s, "range", r[1], r[2])
        \/ \E oo \in OOs : Open(x, oo, 3, 0, "NOCREATE", "FH", "", nextId.other)
        \/ Family = "C20" /\ \E s \in CurSids(cx[x].i) : FreeStateID(x, s)
        \/ Family = "C20" /\ \E s \in CurSids(cx[x].i) : Close(x, s)

\* C19: one session; COMPOUNDs consist of PUTROOTFH / OPEN / GETFH so that
\* replies differ in shape and requests have effects that must not repeat;
\* retransmissions, false retries, misordered requests, duplicates in flight.
NextC19 ==
  \/ Register
  \/ SeqNext({<<"PUTROOTFH">>, <<"PUTROOTFH", "OPEN">>, <<"PUTROOTFH", "GETFH">>}, {0, 1, 2}, BOOLEAN)
  \/ \E x \in Ctxs : CanStep(x) /\ Len(cx[x].acc) <= Len(cx[x].shape) /\
        LET nxt == cx[x].shape[Len(cx[x].acc)] IN
          \/ nxt = "PUTROOTFH" /\ PutRootFH(x)
          \/ nxt = "GETFH" /\ GetFH(x)
          \/ nxt = "OPEN" /\ \E n \in Names : Open(x, "o1", 1, 0, "NOCREATE", "NULL", n, nextId.other)

Next == CASE Family = "C18a" -> NextC18a [] Family = "C18b" -> NextC18b
          [] Family = "C19" -> NextC19 [] OTHER -> NextC20

Init == InitState(SubSeq(SeqOfSet(Names), 1, IF Cardinality(Names) < MaxFile THEN Cardinality(Names) ELSE MaxFile))
Spec == Init /\ [][Next]_vars

\* State constraint of the design check.
Bound ==
  /\ nextId.other <= MaxOther + 1
  /\ nextId.cid <= Cardinality(IncKeys) + 2
  /\ \A r \in oofs \cup lofs : r.q <= MaxSeq
  /\ \A f \in Files : pend[f]["R"] + pend[f]["W"] <= 1
  /\ Family = "C19" => \A s \in SessIds : \A t \in Slots : sess[s].slots[t].q <= MaxSeq

\* The reply and bookkeeping that cannot influence the future are hidden.
SessView == [s \in SessIds |-> [live |-> sess[s].live, i |-> sess[s].i,
                                 slots |-> [t \in Slots |-> sess[s].slots[t].busy]]]
\* (slot sequence numbers, accumulated replies and the current state ID do
\* not influence the future in the families that use this view)
CxView == [x \in Ctxs |-> [kind |-> cx[x].kind, i |-> cx[x].i, sid |-> cx[x].sid, slot |-> cx[x].slot, fh |-> cx[x].fh,
                           failed |-> cx[x].failed, n |-> Len(cx[x].acc)]]
MCView == IF Family = "C19"
          THEN <<clock, pnow, inc, sess, oofs, lofs, held, ios, leaf, pend, dir, fst, nfiles, cx, nextId, twice>>
          ELSE <<clock, pnow, inc, SessView, oofs, lofs, held, ios, leaf, pend, dir, fst, nfiles, CxView, nextId, twice>>
=============================================================================
