// Package filepool drives the real block-device backed file pool, the real
// bitmap sector allocator and the real quota enforcing file pool of
// pkg/filesystem/pool and records traces that specs/FilePoolTrace.tla
// validates (property C15).
//
// Nothing is judged here. The harness owns the fakes around the real code
// (an in-memory block device, hole sources, a failing base pool, a logging
// wrapper around the real sector allocator) and logs every call with its
// arguments and results.
package filepool

import (
	"errors"
	"fmt"
	"io"
	"math/rand"
	"testing"

	"github.com/buildbarn/bb-remote-execution/pkg/filesystem/pool"
	"github.com/buildbarn/bb-storage/pkg/filesystem"

	"verif/harness/common"
)

const (
	nSlots     = 4  // must match Slots in FilePoolTrace.tla
	probeOwner = 99 // owner id used by the final capacity probe
)

var (
	errFault = errors.New("verif: injected fault")
	errOOB   = errors.New("verif: block device access out of range")
)

// ---------------------------------------------------------------------------
// Fault script.

type channel struct {
	calls int
	at    map[int]bool
}

func (c *channel) hit() bool {
	c.calls++
	return c.at != nil && c.at[c.calls]
}

type faultPlan struct {
	devW, devR, hsR, hsT, hsS, hsC, baseNew channel
	partial                                 bool // failing device calls transfer a prefix
	eofAtEnd                                bool // device reads ending at the device end return io.EOF
}

func (p *faultPlan) channelByName(n string) *channel {
	switch n {
	case "devW":
		return &p.devW
	case "devR":
		return &p.devR
	case "hsR":
		return &p.hsR
	case "hsT":
		return &p.hsT
	case "hsS":
		return &p.hsS
	case "hsC":
		return &p.hsC
	case "baseNew":
		return &p.baseNew
	}
	panic("unknown channel " + n)
}

func (p *faultPlan) set(name string, k int) {
	c := p.channelByName(name)
	if c.at == nil {
		c.at = map[int]bool{}
	}
	c.at[k] = true
}

// ---------------------------------------------------------------------------
// World: one pool stack plus its fakes.

type config struct {
	SS, NSec, MO int
	Quota        bool
	MF, MB       int
}

type world struct {
	tr     *common.Trace
	cfg    config
	faults *faultPlan
	dev    *memDevice
	real   pool.SectorAllocator
	qfp    pool.FilePool // quota layer, nil if absent
	fp     pool.FilePool // top of the stack
	files  [nSlots + 1]filesystem.FileReadWriter
	cur    int  // slot of the call in progress
	dead   bool // the real code panicked
	val    int  // counter for written byte values
}

func b2i(b bool) int {
	if b {
		return 1
	}
	return 0
}

func ints(b []byte) []int {
	out := make([]int, len(b))
	for i, v := range b {
		out[i] = int(v)
	}
	return out
}

func errClass(err error) string {
	if err == nil {
		return "ok"
	}
	return "err"
}

func (w *world) fault(where string) {
	w.tr.Emit(common.Ev{"ev": "fault", "f": w.cur, "where": where})
}

// memDevice is the in-memory block device.
type memDevice struct {
	w    *world
	data []byte
}

func (d *memDevice) span(off int64, n int) (s0, s1 int, oob bool) {
	ss := int64(d.w.cfg.SS)
	if off < 0 || n < 0 || off+int64(n) > int64(len(d.data)) {
		return 0, 0, true
	}
	if n == 0 {
		return int(off/ss) + 1, int(off/ss) + 1, false
	}
	return int(off/ss) + 1, int((off+int64(n)-1)/ss) + 1, false
}

func (d *memDevice) ReadAt(p []byte, off int64) (int, error) {
	s0, s1, oob := d.span(off, len(p))
	d.w.tr.Emit(common.Ev{"ev": "dev", "f": d.w.cur, "k": "r", "s0": s0, "s1": s1, "oob": b2i(oob)})
	if oob {
		return 0, errOOB
	}
	if d.w.faults.devR.hit() {
		d.w.fault("devR")
		n := 0
		if d.w.faults.partial {
			n = len(p) / 2
			copy(p[:n], d.data[off:])
		}
		return n, errFault
	}
	copy(p, d.data[off:])
	if d.w.faults.eofAtEnd && off+int64(len(p)) == int64(len(d.data)) {
		return len(p), io.EOF
	}
	return len(p), nil
}

func (d *memDevice) WriteAt(p []byte, off int64) (int, error) {
	s0, s1, oob := d.span(off, len(p))
	d.w.tr.Emit(common.Ev{"ev": "dev", "f": d.w.cur, "k": "w", "s0": s0, "s1": s1, "oob": b2i(oob)})
	if oob {
		return 0, errOOB
	}
	if d.w.faults.devW.hit() {
		d.w.fault("devW")
		n := 0
		if d.w.faults.partial {
			n = len(p) / 2
			copy(d.data[off:], p[:n])
		}
		return n, errFault
	}
	copy(d.data[off:], p)
	return len(p), nil
}

func (d *memDevice) Sync() error  { return nil }
func (d *memDevice) Close() error { return nil }

// logAlloc logs every call on the real sector allocator.
type logAlloc struct {
	w    *world
	base pool.SectorAllocator
}

func (a *logAlloc) AllocateContiguous(maximum int) (uint32, int, error) {
	first, n, err := a.base.AllocateContiguous(maximum)
	a.w.tr.Emit(common.Ev{"ev": "alloc", "f": a.w.cur, "max": maximum, "first": int(first), "n": n, "err": b2i(err != nil)})
	return first, n, err
}

func (a *logAlloc) FreeContiguous(first uint32, count int) {
	a.w.tr.Emit(common.Ev{"ev": "freec", "f": a.w.cur, "first": int(first), "n": count})
	a.base.FreeContiguous(first, count)
}

func (a *logAlloc) FreeList(sectors []uint32) {
	s := make([]int, len(sectors))
	for i, v := range sectors {
		s[i] = int(v)
	}
	a.w.tr.Emit(common.Ev{"ev": "freel", "f": a.w.cur, "secs": s})
	a.base.FreeList(sectors)
}

// patHole is a hole source with fixed contents: byte o is pat[o] below
// its length and zero elsewhere; non-zero bytes are its data regions. It
// behaves like a FileReader of that length for region seeks.
type patHole struct {
	w      *world
	pat    []byte
	length int
}

func (h *patHole) ReadAt(p []byte, off int64) (int, error) {
	if h.w.faults.hsR.hit() {
		h.w.fault("hsR")
		return 0, errFault
	}
	for i := range p {
		o := off + int64(i)
		if o >= 0 && o < int64(h.length) {
			p[i] = h.pat[o]
		} else {
			p[i] = 0
		}
	}
	return len(p), nil
}

func (h *patHole) Truncate(size int64) error {
	if h.w.faults.hsT.hit() {
		h.w.fault("hsT")
		return errFault
	}
	if size < int64(h.length) {
		h.length = int(size)
	}
	return nil
}

func (h *patHole) GetNextRegionOffset(off int64, t filesystem.RegionType) (int64, error) {
	if h.w.faults.hsS.hit() {
		h.w.fault("hsS")
		return 0, errFault
	}
	if off >= int64(h.length) {
		return 0, io.EOF
	}
	for o := off; o < int64(h.length); o++ {
		if (h.pat[o] != 0) == (t == filesystem.Data) {
			return o, nil
		}
	}
	if t == filesystem.Data {
		return 0, io.EOF
	}
	return int64(h.length), nil
}

func (h *patHole) Close() error {
	if h.w.faults.hsC.hit() {
		h.w.fault("hsC")
		return errFault
	}
	return nil
}

// failingPool is a base pool whose NewFile fails when scripted.
type failingPool struct {
	w    *world
	base pool.FilePool
}

func (p *failingPool) NewFile(hs pool.HoleSource, size uint64) (filesystem.FileReadWriter, error) {
	if p.w.faults.baseNew.hit() {
		p.w.fault("baseNew")
		return nil, errFault
	}
	return p.base.NewFile(hs, size)
}

func newWorld(tr *common.Trace, id int, kind string, cfg config, faults *faultPlan) *world {
	w := &world{tr: tr, cfg: cfg, faults: faults}
	w.dev = &memDevice{w: w, data: make([]byte, cfg.SS*cfg.NSec)}
	// Old contents of the device must never be visible.
	for i := range w.dev.data {
		w.dev.data[i] = 0xaa
	}
	w.real = pool.NewBitmapSectorAllocator(uint32(cfg.NSec))
	var fp pool.FilePool = pool.NewBlockDeviceBackedFilePool(w.dev, &logAlloc{w: w, base: w.real}, cfg.SS)
	fp = &failingPool{w: w, base: fp}
	if cfg.Quota {
		fp = pool.NewQuotaEnforcingFilePool(fp, uint64(cfg.MF), uint64(cfg.MB))
		w.qfp = fp
	}
	w.fp = fp
	tr.Emit(common.Ev{
		"ev": "reset", "trace": id, "kind": kind, "ss": cfg.SS, "nsec": cfg.NSec, "mo": cfg.MO,
		"quota": b2i(cfg.Quota), "mf": cfg.MF, "mb": cfg.MB,
	})
	return w
}

// state returns the raw counters read through the verif hooks
// (-1 = not available).
func (w *world) state() (fr, br, nfree int) {
	fr, br, nfree = -1, -1, -1
	if w.qfp != nil {
		if a, b, ok := pool.VerifQuotaRemaining(w.qfp); ok {
			fr, br = int(a), int(b)
		}
	}
	if n, ok := pool.VerifFreeSectorCount(w.real); ok {
		nfree = n
	}
	return
}

// guard runs one call on the real code; a panic is logged as an event
// and ends the trace.
func (w *world) guard(slot int, what string, fn func()) {
	if w.dead {
		return
	}
	defer func() {
		if r := recover(); r != nil {
			w.tr.Emit(common.Ev{"ev": "panic", "f": slot, "op": what, "msg": fmt.Sprint(r)})
			w.dead = true
		}
	}()
	w.cur = slot
	fn()
}

func (w *world) fileLen(slot int) int {
	n, err := w.files[slot].Len()
	if err != nil {
		return -1
	}
	return int(n)
}

func (w *world) opNew(slot int, pat []byte, zero bool, size int) {
	w.guard(slot, "new", func() {
		var hs pool.HoleSource = pool.ZeroHoleSource
		hk := "zero"
		if !zero {
			hs = &patHole{w: w, pat: append([]byte(nil), pat...), length: len(pat)}
			hk = "pat"
		} else {
			pat = nil
		}
		f, err := w.fp.NewFile(hs, uint64(size))
		if err == nil {
			w.files[slot] = f
		}
		fr, br, nfree := w.state()
		w.tr.Emit(common.Ev{"ev": "new", "f": slot, "hk": hk, "pat": ints(pat), "size": size, "err": errClass(err), "fr": fr, "br": br, "nfree": nfree})
	})
}

func (w *world) opWrite(slot, off int, data []byte) {
	w.guard(slot, "write", func() {
		n, err := w.files[slot].WriteAt(data, int64(off))
		fr, br, nfree := w.state()
		w.tr.Emit(common.Ev{"ev": "write", "f": slot, "off": off, "data": ints(data), "n": n, "err": errClass(err), "len": w.fileLen(slot), "fr": fr, "br": br, "nfree": nfree})
	})
}

func (w *world) opRead(slot, off, cnt int) {
	w.guard(slot, "read", func() {
		buf := make([]byte, cnt)
		for i := range buf {
			buf[i] = 0xee
		}
		n, err := w.files[slot].ReadAt(buf, int64(off))
		eof := err == io.EOF
		if eof {
			err = nil
		}
		if n < 0 || n > cnt {
			// Cannot be projected on the buffer; log the raw count.
			w.tr.Emit(common.Ev{"ev": "read", "f": slot, "off": off, "cnt": cnt, "n": n, "eof": b2i(eof), "err": errClass(err), "data": []int{}})
			return
		}
		w.tr.Emit(common.Ev{"ev": "read", "f": slot, "off": off, "cnt": cnt, "n": n, "eof": b2i(eof), "err": errClass(err), "data": ints(buf[:n])})
	})
}

func (w *world) opTrunc(slot, size int) {
	w.guard(slot, "trunc", func() {
		err := w.files[slot].Truncate(int64(size))
		fr, br, nfree := w.state()
		w.tr.Emit(common.Ev{"ev": "trunc", "f": slot, "size": size, "err": errClass(err), "len": w.fileLen(slot), "fr": fr, "br": br, "nfree": nfree})
	})
}

func (w *world) opSeek(slot, off int, data bool) {
	w.guard(slot, "seek", func() {
		t, tn := filesystem.Hole, "H"
		if data {
			t, tn = filesystem.Data, "D"
		}
		res, err := w.files[slot].GetNextRegionOffset(int64(off), t)
		eof := err == io.EOF
		if eof {
			err = nil
		}
		if err != nil || eof {
			res = 0
		}
		w.tr.Emit(common.Ev{"ev": "seek", "f": slot, "off": off, "t": tn, "res": int(res), "eof": b2i(eof), "err": errClass(err)})
	})
}

func (w *world) opClose(slot int) {
	w.guard(slot, "close", func() {
		f := w.files[slot]
		w.files[slot] = nil
		err := f.Close()
		fr, br, nfree := w.state()
		w.tr.Emit(common.Ev{"ev": "close", "f": slot, "err": errClass(err), "fr": fr, "br": br, "nfree": nfree})
	})
}

// observe reads the whole file (and a little more).
func (w *world) observe(slot int) {
	if !w.dead && w.files[slot] != nil {
		w.opRead(slot, 0, w.cfg.MO+1)
	}
}

// seekAll performs GetNextRegionOffset(off, t) for every offset 0..MO and
// logs the replies as one event.
func (w *world) seekAll(slot int, data bool) {
	w.guard(slot, "seeks", func() {
		t, tn := filesystem.Hole, "H"
		if data {
			t, tn = filesystem.Data, "D"
		}
		res, eofs, errs := []int{}, []int{}, []string{}
		for off := 0; off <= w.cfg.MO; off++ {
			r, err := w.files[slot].GetNextRegionOffset(int64(off), t)
			eof := err == io.EOF
			if eof {
				err = nil
			}
			if err != nil || eof {
				r = 0
			}
			res, eofs, errs = append(res, int(r)), append(eofs, b2i(eof)), append(errs, errClass(err))
		}
		w.tr.Emit(common.Ev{"ev": "seeks", "f": slot, "t": tn, "res": res, "eof": eofs, "err": errs})
	})
}

// sweep performs every region seek and a full read on every open file,
// then grows the file to the maximum and reads again, which shows what
// was stored beyond the end of the file.
func (w *world) sweep() {
	for s := 1; s <= nSlots; s++ {
		if w.files[s] == nil {
			continue
		}
		w.observe(s)
		w.seekAll(s, true)
		w.seekAll(s, false)
		if !w.dead {
			w.opTrunc(s, w.cfg.MO)
			w.observe(s)
		}
	}
}

// finish closes everything and probes that the full capacity and the
// full quota are available again.
func (w *world) finish() {
	for s := 1; s <= nSlots; s++ {
		if w.files[s] != nil {
			w.opClose(s)
		}
	}
	if w.dead {
		return
	}
	// Quota, black box: MF files, the first of MB bytes, must be
	// obtainable; one more file must be refused.
	if w.cfg.Quota && w.cfg.MF <= nSlots-1 {
		for s := 1; s <= w.cfg.MF+1; s++ {
			size := 0
			if s == 1 {
				size = w.cfg.MB
			}
			w.opNew(s, nil, true, size)
		}
		for s := 1; s <= nSlots; s++ {
			if w.files[s] != nil {
				w.opClose(s)
			}
		}
	}
	if w.dead {
		return
	}
	// Sectors: allocate until the allocator refuses.
	type run struct {
		first uint32
		n     int
	}
	var runs []run
	total := 0
	w.guard(probeOwner, "probe", func() {
		la := &logAlloc{w: w, base: w.real}
		for i := 0; i <= w.cfg.NSec+1; i++ {
			first, n, err := la.AllocateContiguous(w.cfg.NSec + 1)
			if err != nil {
				break
			}
			runs = append(runs, run{first, n})
			total += n
		}
		_, _, nfree := w.state()
		w.tr.Emit(common.Ev{"ev": "probe", "total": total, "nfree": nfree})
		for _, r := range runs {
			la.FreeContiguous(r.first, r.n)
		}
	})
}

// ---------------------------------------------------------------------------
// Random histories.

func randomConfig(rng *rand.Rand) config {
	ss := []int{1, 2, 4}[rng.Intn(3)]
	var cfg config
	cfg.SS = ss
	switch ss {
	case 1:
		cfg.MO = 4 + rng.Intn(5)
	case 2:
		cfg.MO = 5 + rng.Intn(5)
	default:
		cfg.MO = 9 + rng.Intn(8)
	}
	perFile := (cfg.MO + ss - 1) / ss
	switch rng.Intn(4) {
	case 0:
		cfg.NSec = 1 + rng.Intn(2)
	case 1, 2:
		cfg.NSec = 2 + rng.Intn(2*perFile)
	default:
		cfg.NSec = 3 * perFile // never exhausted
	}
	if rng.Intn(2) == 0 {
		cfg.Quota = true
		cfg.MF = 1 + rng.Intn(3)
		cfg.MB = rng.Intn(2*cfg.MO + 1)
		if rng.Intn(3) == 0 {
			cfg.MB = 3 * cfg.MO
		}
	}
	return cfg
}

func randomFaults(rng *rand.Rand, longRun bool) *faultPlan {
	p := &faultPlan{partial: rng.Intn(2) == 0, eofAtEnd: rng.Intn(2) == 0}
	if rng.Intn(5) < 2 {
		return p
	}
	names := []string{"devW", "devW", "devR", "hsR", "hsR", "hsT", "hsS", "hsC", "baseNew"}
	for i, n := 0, 1+rng.Intn(3); i < n; i++ {
		k := 1 + rng.Intn(8)
		if longRun {
			k = 1 + rng.Intn(40)
		}
		p.set(names[rng.Intn(len(names))], k)
	}
	return p
}

func (w *world) nextVal() byte {
	w.val++
	return byte(1 + (w.val-1)%250)
}

func (w *world) randomPattern(rng *rand.Rand, size int) []byte {
	l := size
	if rng.Intn(3) == 0 {
		l = rng.Intn(size + 1)
	}
	if common.EnvInt("VERIF_FP_LONGHS", 0) != 0 && rng.Intn(3) == 0 {
		// Outside the contract assumed by the check: a hole
		// source that is longer than the file.
		l = size + rng.Intn(w.cfg.MO-size+1)
	}
	pat := make([]byte, l)
	for i := range pat {
		if rng.Intn(3) != 0 {
			pat[i] = byte(200 + rng.Intn(50))
		}
	}
	return pat
}

func (w *world) randomStep(rng *rand.Rand, slots int) {
	mo := w.cfg.MO
	slot := 1 + rng.Intn(slots)
	if w.files[slot] == nil {
		size := 0
		if rng.Intn(2) == 0 {
			size = rng.Intn(mo + 1)
		}
		if rng.Intn(2) == 0 {
			w.opNew(slot, nil, true, size)
		} else {
			w.opNew(slot, w.randomPattern(rng, size), false, size)
		}
		w.observe(slot)
		return
	}
	switch r := rng.Intn(20); {
	case r < 8: // write
		off := rng.Intn(mo)
		if rng.Intn(25) == 0 {
			off = -1
		}
		maxLen := mo - off
		if off < 0 {
			maxLen = 2
		}
		n := 1 + rng.Intn(maxLen)
		if rng.Intn(3) == 0 && maxLen > 0 {
			// small writes fragment the device
			n = 1 + rng.Intn(min(maxLen, w.cfg.SS))
		}
		data := make([]byte, n)
		zero := rng.Intn(8) == 0
		for i := range data {
			if !zero {
				data[i] = w.nextVal()
			}
		}
		w.opWrite(slot, off, data)
		w.observe(slot)
	case r < 11: // read
		off := rng.Intn(mo + 1)
		if rng.Intn(25) == 0 {
			off = -1
		}
		w.opRead(slot, off, 1+rng.Intn(mo+1))
	case r < 15: // truncate
		size := rng.Intn(mo + 1)
		if rng.Intn(25) == 0 {
			size = -1
		}
		w.opTrunc(slot, size)
		w.observe(slot)
	case r < 18: // seek
		off := rng.Intn(mo + 1)
		if rng.Intn(25) == 0 {
			off = -1
		}
		w.opSeek(slot, off, rng.Intn(2) == 0)
	default:
		w.opClose(slot)
	}
}

// TestRandom: seeded random interleavings on 1-3 files over random tiny
// configurations with scripted faults.
func TestRandom(t *testing.T) {
	traces := common.EnvInt("VERIF_N", 200)
	steps := common.EnvInt("VERIF_STEPS", 30)
	tr := common.NewTrace("trace.ndjson")
	defer tr.Close()
	panics := 0
	for i := 0; i < traces; i++ {
		rng := common.Rand(int64(i))
		cfg := randomConfig(rng)
		w := newWorld(tr, i, "pool", cfg, randomFaults(rng, false))
		slots := 1 + rng.Intn(3)
		for j := 0; j < steps && !w.dead; j++ {
			w.randomStep(rng, slots)
		}
		if rng.Intn(2) == 0 {
			w.sweep()
		}
		w.finish()
		if w.dead {
			panics++
		}
	}
	common.WriteJSON("meta.json", map[string]any{"traces": traces, "steps": steps, "panics": panics})
}

// ---------------------------------------------------------------------------
// Exhaustive enumeration of short operation sequences over tiny domains.

type eop struct {
	kind string // new0 | newp | write | trunc | close
	slot int
	a, b int
}

type enumDomain struct {
	name      string
	cfg       config
	slots     int
	depth     int
	writeOffs []int
	writeLens []int
	truncs    []int
	pat       []byte
	patSize   int
	faults    [][2]any // (channel, k) alternatives; nil = none
}

func (d *enumDomain) alphabet() []eop {
	var ops []eop
	for s := 1; s <= d.slots; s++ {
		ops = append(ops, eop{"new0", s, 0, 0}, eop{"newp", s, 0, 0})
		for _, o := range d.writeOffs {
			for _, l := range d.writeLens {
				if o+l <= d.cfg.MO {
					ops = append(ops, eop{"write", s, o, l})
				}
			}
		}
		for _, z := range d.truncs {
			ops = append(ops, eop{"trunc", s, z, 0})
		}
		ops = append(ops, eop{"close", s, 0, 0})
	}
	return ops
}

func (w *world) applicable(o eop) bool {
	open := w.files[o.slot] != nil
	if o.kind == "new0" || o.kind == "newp" {
		return !open
	}
	return open
}

func (w *world) applyEnum(d *enumDomain, o eop, idx int) {
	switch o.kind {
	case "new0":
		w.opNew(o.slot, nil, true, 0)
	case "newp":
		w.opNew(o.slot, d.pat, false, d.patSize)
	case "write":
		data := make([]byte, o.b)
		for i := range data {
			data[i] = byte(10*(idx+1) + i)
		}
		w.opWrite(o.slot, o.a, data)
	case "trunc":
		w.opTrunc(o.slot, o.a)
	case "close":
		w.opClose(o.slot)
	}
}

// runSequence replays one sequence on a fresh world. It returns false if
// the sequence contains an inapplicable operation (then nothing is logged).
func runSequence(tr *common.Trace, id int, d *enumDomain, seq []eop, fault [2]any) bool {
	// Applicability only depends on which slots are open.
	open := map[int]bool{}
	for _, o := range seq {
		isNew := o.kind == "new0" || o.kind == "newp"
		if isNew == open[o.slot] {
			return false
		}
		if isNew {
			open[o.slot] = true
		}
		if o.kind == "close" {
			open[o.slot] = false
		}
	}
	fp := &faultPlan{}
	if fault[0] != nil {
		fp.set(fault[0].(string), fault[1].(int))
	}
	w := newWorld(tr, id, "pool", d.cfg, fp)
	for i, o := range seq {
		if w.dead {
			break
		}
		if !w.applicable(o) {
			// A failed NewFile leaves the slot closed.
			continue
		}
		w.applyEnum(d, o, i)
	}
	w.sweep()
	w.finish()
	return true
}

func enumDomains(level int) []*enumDomain {
	// d(q, t): depth in the quick / thorough tier
	d := func(q, t int) int {
		if level > 1 {
			return t
		}
		return q
	}
	return []*enumDomain{
		{
			name: "ss2-two-files", cfg: config{SS: 2, NSec: 2, MO: 5}, slots: 2, depth: d(3, 4),
			writeOffs: []int{0, 1, 3}, writeLens: []int{1, 2}, truncs: []int{0, 1, 3}, pat: []byte{201, 0, 203}, patSize: 3,
		},
		{
			name: "ss2-one-file", cfg: config{SS: 2, NSec: 3, MO: 6}, slots: 1, depth: d(3, 4),
			writeOffs: []int{0, 1, 2, 3}, writeLens: []int{1, 3}, truncs: []int{0, 1, 2, 3, 5}, pat: []byte{201, 0, 203, 204}, patSize: 4,
		},
		{
			name: "ss1", cfg: config{SS: 1, NSec: 3, MO: 4}, slots: 2, depth: d(3, 4),
			writeOffs: []int{0, 1, 2}, writeLens: []int{1, 2}, truncs: []int{0, 1, 2}, pat: []byte{0, 202}, patSize: 2,
		},
		{
			name: "ss4", cfg: config{SS: 4, NSec: 2, MO: 9}, slots: 1, depth: d(3, 4),
			writeOffs: []int{0, 2, 3, 5}, writeLens: []int{1, 4}, truncs: []int{0, 1, 4, 6}, pat: []byte{201, 202, 0, 204, 205}, patSize: 6,
		},
		{
			name: "ss2-quota", cfg: config{SS: 2, NSec: 3, MO: 5, Quota: true, MF: 2, MB: 3}, slots: 2, depth: d(3, 4),
			writeOffs: []int{0, 2}, writeLens: []int{1, 3}, truncs: []int{0, 2, 4}, pat: []byte{201, 0}, patSize: 2,
		},
		{
			name: "ss2-faults", cfg: config{SS: 2, NSec: 3, MO: 5, Quota: true, MF: 2, MB: 8}, slots: 1, depth: d(2, 3),
			writeOffs: []int{0, 1, 3}, writeLens: []int{1, 3}, truncs: []int{0, 1, 3}, pat: []byte{201, 0, 203}, patSize: 3,
			faults: [][2]any{
				{"devW", 1}, {"devW", 2}, {"devW", 3}, {"hsR", 1}, {"hsR", 2}, {"hsR", 3}, {"hsR", 4},
				{"hsT", 1}, {"hsT", 2}, {"devR", 1}, {"hsC", 1}, {"baseNew", 1}, {"baseNew", 2}, {"hsS", 1}, {"hsS", 3},
			},
		},
	}
}

// TestEnumerate: every sequence of state-changing operations up to a
// fixed depth over tiny domains (and every single fault position of a
// list); after each sequence every read and region seek is performed,
// everything is closed and capacity and quota are probed.
func TestEnumerate(t *testing.T) {
	level := common.EnvInt("VERIF_FP_LEVEL", 1)
	tr := common.NewTrace("trace.ndjson")
	defer tr.Close()
	id := 0
	meta := []map[string]any{}
	for _, d := range enumDomains(level) {
		ops := d.alphabet()
		faults := d.faults
		if faults == nil {
			faults = [][2]any{{nil, 0}}
		}
		count := 0
		var rec func(seq []eop)
		rec = func(seq []eop) {
			if len(seq) > 0 {
				for _, f := range faults {
					if runSequence(tr, id, d, seq, f) {
						id++
						count++
					} else {
						return // inapplicable prefix: no extension is applicable either
					}
				}
			}
			if len(seq) == d.depth {
				return
			}
			for _, o := range ops {
				rec(append(append([]eop(nil), seq...), o))
			}
		}
		rec(nil)
		meta = append(meta, map[string]any{"domain": d.name, "alphabet": len(ops), "depth": d.depth, "fault_positions": len(faults), "sequences": count})
	}
	common.WriteJSON("meta.json", map[string]any{"domains": meta, "sequences": id, "exhaustive": true})
}

// ---------------------------------------------------------------------------
// The real bitmap allocator on its own, with sector counts around the
// 64-bit word boundaries of its bitmap.

func TestAllocator(t *testing.T) {
	traces := common.EnvInt("VERIF_N", 100)
	steps := common.EnvInt("VERIF_STEPS", 60)
	tr := common.NewTrace("trace.ndjson")
	defer tr.Close()
	counts := []int{1, 2, 5, 63, 64, 65, 127, 128, 129, 130, 192, 200}
	interesting := []int{1, 2, 3, 31, 32, 33, 62, 63, 64, 65, 66, 126, 127, 128, 129, 130}
	for i := 0; i < traces; i++ {
		rng := common.Rand(int64(100000 + i))
		nsec := counts[rng.Intn(len(counts))]
		w := newWorld(tr, i, "alloc", config{SS: 1, NSec: nsec, MO: 1}, &faultPlan{})
		la := &logAlloc{w: w, base: w.real}
		held := map[int][]uint32{} // owner -> sectors
		for j := 0; j < steps && !w.dead; j++ {
			owner := 1 + rng.Intn(nSlots)
			w.guard(owner, "alloc", func() {
				switch r := rng.Intn(10); {
				case r < 5:
					m := 1 + rng.Intn(nsec+3)
					if rng.Intn(2) == 0 {
						m = interesting[rng.Intn(len(interesting))]
					}
					first, n, err := la.AllocateContiguous(m)
					if err == nil {
						for k := 0; k < n; k++ {
							held[owner] = append(held[owner], first+uint32(k))
						}
					}
				case r < 7:
					// free a contiguous run taken from what the owner holds
					h := held[owner]
					if len(h) == 0 {
						return
					}
					a := rng.Intn(len(h))
					if rng.Intn(2) == 0 {
						a = 0
					}
					b := a
					// half of the time the longest run, else a run of an
					// interesting or a short random length
					limit := len(h)
					switch rng.Intn(4) {
					case 0:
						limit = interesting[rng.Intn(len(interesting))]
					case 1:
						limit = 1 + rng.Intn(8)
					}
					for b+1 < len(h) && h[b+1] == h[b]+1 && b-a+1 < limit {
						b++
					}
					la.FreeContiguous(h[a], b-a+1)
					held[owner] = append(append([]uint32(nil), h[:a]...), h[b+1:]...)
				default:
					// free a random sub-list, interspersed with zeros
					h := held[owner]
					if len(h) == 0 {
						return
					}
					var list, keep []uint32
					for _, s := range h {
						if rng.Intn(2) == 0 {
							list = append(list, s)
						} else {
							keep = append(keep, s)
							if rng.Intn(4) == 0 {
								list = append(list, 0)
							}
						}
					}
					rng.Shuffle(len(list), func(x, y int) { list[x], list[y] = list[y], list[x] })
					la.FreeList(list)
					held[owner] = keep
				}
				_, _, nfree := w.state()
				w.tr.Emit(common.Ev{"ev": "acheck", "nfree": nfree})
			})
		}
		if w.dead {
			continue
		}
		for owner := 1; owner <= nSlots; owner++ {
			if h := held[owner]; len(h) > 0 {
				w.guard(owner, "alloc", func() { la.FreeList(h) })
			}
		}
		w.finish()
	}
	common.WriteJSON("meta.json", map[string]any{"traces": traces, "steps": steps})
}

// TestLongHoleSource is not part of the check. It records two histories
// outside the assumption "the hole source is not longer than the size the
// file is created with", for which FilePoolTrace.tla (which states the
// HoleSource contract literally) rejects what the real code does:
//
//	SS=4: NewFile(pat 201 202 203 204, size 2); WriteAt([9], 0);
//	      Truncate(1); Truncate(4); ReadAt -> 9 0 203 204, not 9 0 0 0
//	SS=2: NewFile(pat 0 0 0 205, size 2); GetNextRegionOffset(0, Data)
//	      -> 3, an offset beyond the end of the file, not io.EOF
func TestLongHoleSource(t *testing.T) {
	tr := common.NewTrace("trace.ndjson")
	defer tr.Close()
	w := newWorld(tr, 0, "pool", config{SS: 4, NSec: 2, MO: 8}, &faultPlan{})
	w.opNew(1, []byte{201, 202, 203, 204}, false, 2)
	w.opWrite(1, 0, []byte{9})
	w.opTrunc(1, 1)
	w.opTrunc(1, 4)
	w.observe(1)
	w.finish()
	w = newWorld(tr, 1, "pool", config{SS: 2, NSec: 2, MO: 4}, &faultPlan{})
	w.opNew(1, []byte{0, 0, 0, 205}, false, 2)
	w.opSeek(1, 0, true)
	w.finish()
}
