SPECIFICATION TraceSpec
CONSTANTS
  Threads = {"t1", "t2", "t3", "t4"}
  WithDirs = FALSE
  MaxCtr = 0
INVARIANTS
  VerdictOK
  C12_ObsMutex
  C12_LiveDirsDistinct
POSTCONDITION Accepted
CHECK_DEADLOCK FALSE
