SPECIFICATION BSpec
CONSTANTS
  MaxParked = 2
  NoLock = NoLock
  LockIds = {a, b, c}
INVARIANTS
  C14_Balance
  C14_CallbackCanFinish
CHECK_DEADLOCK FALSE
