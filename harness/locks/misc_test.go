package locks

// Lock balance of the other lock-taking components named by property
// C14: pool-backed files, OpenedFilesPool, IdleInvoker and the bitmap
// sector allocator. Seeded random call sequences that respect the
// calling conventions; after every call the locks are probed.

import (
	"bytes"
	"context"
	"fmt"
	"io"
	"math"
	"testing"
	"time"

	remoteexecution "github.com/bazelbuild/remote-apis/build/bazel/remote/execution/v2"
	"github.com/buildbarn/bb-remote-execution/pkg/cleaner"
	"github.com/buildbarn/bb-remote-execution/pkg/filesystem/pool"
	"github.com/buildbarn/bb-remote-execution/pkg/filesystem/virtual"
	virtual_nfsv4 "github.com/buildbarn/bb-remote-execution/pkg/filesystem/virtual/nfsv4"
	"github.com/buildbarn/bb-remote-execution/pkg/proto/outputpathpersistency"
	"github.com/buildbarn/bb-remote-execution/pkg/proto/tmp_installer"
	"github.com/buildbarn/bb-storage/pkg/blobstore/buffer"
	"github.com/buildbarn/bb-storage/pkg/blobstore/slicing"
	"github.com/buildbarn/bb-storage/pkg/digest"
	"github.com/buildbarn/bb-storage/pkg/filesystem"
	"github.com/buildbarn/bb-storage/pkg/filesystem/path"
	"github.com/buildbarn/go-xdr/pkg/protocols/nfsv4"
	"google.golang.org/grpc/codes"
	"google.golang.org/grpc/status"

	"verif/harness/common"
)

func grpcClass(err error) string {
	if err == nil {
		return "ok"
	}
	return status.Code(err).String()
}

// ---------------------------------------------------------------------------
// Pool-backed files.

// fakeCAS is a BlobAccess whose Put consumes or discards the buffer.
type fakeCAS struct{ fail bool }

func (c *fakeCAS) Get(ctx context.Context, d digest.Digest) buffer.Buffer {
	return buffer.NewBufferFromError(status.Error(codes.NotFound, "fake"))
}

func (c *fakeCAS) GetFromComposite(ctx context.Context, parentDigest, childDigest digest.Digest, slicer slicing.BlobSlicer) buffer.Buffer {
	return buffer.NewBufferFromError(status.Error(codes.NotFound, "fake"))
}

func (c *fakeCAS) Put(ctx context.Context, d digest.Digest, b buffer.Buffer) error {
	if c.fail {
		b.Discard()
		return status.Error(codes.Unavailable, "injected")
	}
	_, err := b.ToByteSlice(1 << 20)
	return err
}

func (c *fakeCAS) FindMissing(ctx context.Context, digests digest.Set) (digest.Set, error) {
	return digest.EmptySet, nil
}

func (c *fakeCAS) GetCapabilities(ctx context.Context, instanceName digest.InstanceName) (*remoteexecution.ServerCapabilities, error) {
	return nil, status.Error(codes.Unimplemented, "fake")
}

var closedChan = func() chan struct{} { c := make(chan struct{}); close(c); return c }()

// fileModel is the driver's bookkeeping needed to respect the calling
// conventions of a file (no reads of a closed file, Close() only of what
// was opened, no writes while a frozen reader exists: those block by
// design until the reader is closed).
type fileModel struct {
	links  int // link count of the handle decorator
	readO  int
	writeO int
	rwO    int
	frozen []filesystem.FileReader
	size   uint64
}

func (m *fileModel) alive() bool { return m.links > 0 || m.readO+m.writeO+m.rwO+len(m.frozen) > 0 }

func TestFileRandom(t *testing.T) {
	traces := common.EnvInt("VERIF_N", 40)
	steps := common.EnvInt("VERIF_STEPS", 80)
	tr := common.NewTrace("trace.ndjson")
	defer tr.Close()
	digestFunction := digest.MustNewFunction("verif", remoteexecution.DigestFunction_SHA256)
	calls := 0
	for i := 0; i < traces && hangCount.Load() < maxHangs; i++ {
		rng := common.Rand(int64(7000 + i))
		e := newEnv(tr)
		// Every third file is used without the handle allocating
		// decorator: Link()/Unlink() of the pool-backed file itself.
		raw := i%3 == 1
		tr.Emit(common.Ev{"ev": "reset", "trace": i, "mode": "file", "raw": raw})
		initial := []virtual.ShareMask{0, virtual.ShareMaskRead, virtual.ShareMaskWrite, virtual.ShareMaskRead | virtual.ShareMaskWrite}[rng.Intn(4)]
		allocator := e.fileAllocator
		if raw {
			allocator = e.rawFileAllocator
		}
		leaf, err := allocator.NewFile(pool.ZeroHoleSource, rng.Intn(2) == 0, uint64(rng.Intn(40)), initial)
		mustErr(err, "new file")
		e.addLeaf(leaf)
		m := &fileModel{links: 1}
		open := func(share virtual.ShareMask, d int) {
			switch share {
			case virtual.ShareMaskRead:
				m.readO += d
			case virtual.ShareMaskWrite:
				m.writeO += d
			case virtual.ShareMaskRead | virtual.ShareMaskWrite:
				m.rwO += d
			}
		}
		open(initial, 1)
		for j := 0; j < steps; j++ {
			alive := m.alive()
			mutable := alive && len(m.frozen) == 0
			writers := m.writeO + m.rwO
			var o *op
			pick := rng.Intn(27)
			fault := rng.Intn(4) == 0
			variant := fmt.Sprintf("alive=%v;writers=%v;frozen=%v;raw=%v", alive, writers > 0, len(m.frozen) > 0, raw)
			mk := func(call, v string, f func() string) { o = &op{call, v + ";" + variant, f} }
			parked, parkedOK := false, true
			switch pick {
			case 0:
				mask := []virtual.AttributesMask{maskLocked, maskUnlocked}[rng.Intn(2)]
				mk("VirtualGetAttributes", "", func() string {
					var out virtual.Attributes
					leaf.VirtualGetAttributes(ctxBG, mask, &out)
					return "ok"
				})
			case 1, 2:
				kind := rng.Intn(5)
				if kind == 1 && len(m.frozen) > 0 {
					kind = 0 // would wait for the frozen reader, by design
				}
				size := uint64(rng.Intn(60))
				mk("VirtualSetAttributes", []string{"none", "size", "permissions", "uid", "gid"}[kind], func() string {
					in := &virtual.Attributes{}
					switch kind {
					case 1:
						in.SetSizeBytes(size)
						e.faults.truncate.Store(fault)
					case 2:
						in.SetPermissions(virtual.PermissionsExecute)
					case 3:
						in.SetOwnerUserID(7)
					case 4:
						in.SetOwnerGroupID(7)
					}
					var out virtual.Attributes
					return st(leaf.VirtualSetAttributes(ctxBG, in, maskLocked, &out))
				})
			case 3:
				if len(m.frozen) == 0 {
					off, n := uint64(rng.Intn(50)), uint64(rng.Intn(30))
					mk("VirtualAllocate", "", func() string {
						e.faults.truncate.Store(fault)
						return st(leaf.VirtualAllocate(ctxBG, off, n))
					})
				}
			case 4:
				if alive {
					off := uint64(rng.Intn(70))
					rt := []filesystem.RegionType{filesystem.Data, filesystem.Hole}[rng.Intn(2)]
					mk("VirtualSeek", "", func() string {
						e.faults.seek.Store(fault)
						_, s := leaf.VirtualSeek(ctxBG, off, rt)
						return st(s)
					})
				}
			case 5, 6, 7:
				share := []virtual.ShareMask{virtual.ShareMaskRead, virtual.ShareMaskWrite, virtual.ShareMaskRead | virtual.ShareMaskWrite}[rng.Intn(3)]
				truncate := rng.Intn(3) == 0 && (len(m.frozen) == 0)
				mk("VirtualOpenSelf", fmt.Sprintf("truncate=%v", truncate), func() string {
					e.faults.truncate.Store(fault)
					var out virtual.Attributes
					s := leaf.VirtualOpenSelf(ctxBG, share, &virtual.OpenExistingOptions{Truncate: truncate}, maskLocked, &out)
					if s == virtual.StatusOK {
						open(share, 1)
					}
					return st(s)
				})
			case 8:
				if alive {
					off := uint64(rng.Intn(70))
					mk("VirtualRead", "", func() string {
						e.faults.read.Store(fault)
						_, _, s := leaf.VirtualRead(ctxBG, make([]byte, 1+rng.Intn(40)), off)
						return st(s)
					})
				}
			case 9, 10:
				if mutable {
					off := uint64(rng.Intn(70))
					mk("VirtualWrite", "", func() string {
						e.faults.write.Store(fault)
						_, s := leaf.VirtualWrite(ctxBG, []byte("hello world, this is a write"), off)
						return st(s)
					})
				}
			case 11, 12, 13:
				var share virtual.ShareMask
				switch {
				case m.rwO > 0 && rng.Intn(2) == 0:
					share = virtual.ShareMaskRead | virtual.ShareMaskWrite
				case m.writeO > 0:
					share = virtual.ShareMaskWrite
				case m.readO > 0:
					share = virtual.ShareMaskRead
				case m.rwO > 0:
					share = virtual.ShareMaskRead | virtual.ShareMaskWrite
				}
				if share != 0 {
					mk("VirtualClose", "", func() string {
						leaf.VirtualClose(share)
						open(share, -1)
						return "ok"
					})
				}
			case 14:
				mk("Link", "", func() string {
					s := leaf.(virtual.LinkableLeaf).Link()
					if s == virtual.StatusOK {
						m.links++
					}
					return st(s)
				})
			case 15, 16:
				if m.links > 0 {
					mk("Unlink", "", func() string {
						leaf.(virtual.LinkableLeaf).Unlink()
						m.links--
						return "ok"
					})
				}
			case 17, 18:
				failPut := rng.Intn(3) == 0
				mk("VirtualApply:UploadFile", fmt.Sprintf("put-fails=%v", failPut), func() string {
					e.faults.read.Store(fault)
					p := &virtual.ApplyUploadFile{Context: ctxBG, ContentAddressableStorage: &fakeCAS{fail: failPut}, DigestFunction: digestFunction, WritableFileUploadDelay: closedChan}
					leaf.VirtualApply(p)
					return grpcClass(p.Err)
				})
			case 19:
				mk("VirtualApply:GetBazelOutputServiceStat", "", func() string {
					e.faults.read.Store(fault)
					p := &virtual.ApplyGetBazelOutputServiceStat{DigestFunction: &digestFunction}
					leaf.VirtualApply(p)
					return grpcClass(p.Err)
				})
			case 20:
				mk("VirtualApply:AppendOutputPathPersistencyDirectoryNode", "", func() string {
					leaf.VirtualApply(&virtual.ApplyAppendOutputPathPersistencyDirectoryNode{Directory: &outputpathpersistency.Directory{}, Name: comp("f")})
					return "ok"
				})
			case 21:
				mk("VirtualApply:OpenReadFrozen", "", func() string {
					p := &virtual.ApplyOpenReadFrozen{WritableFileDelay: closedChan}
					leaf.VirtualApply(p)
					if p.Err == nil {
						m.frozen = append(m.frozen, p.Reader)
					}
					return grpcClass(p.Err)
				})
			case 22:
				if len(m.frozen) > 0 {
					r := m.frozen[len(m.frozen)-1]
					switch rng.Intn(4) {
					case 0:
						mk("FrozenFile.Close", "", func() string {
							err := r.Close()
							m.frozen = m.frozen[:len(m.frozen)-1]
							return grpcClass(err)
						})
					case 1:
						mk("FrozenFile.ReadAt", "", func() string {
							e.faults.read.Store(fault)
							_, err := r.ReadAt(make([]byte, 8), 0)
							if err != nil {
								return "error"
							}
							return "ok"
						})
					case 2:
						rt := []filesystem.RegionType{filesystem.Data, filesystem.Hole}[rng.Intn(2)]
						mk("FrozenFile.GetNextRegionOffset", "", func() string {
							e.faults.seek.Store(fault)
							_, err := r.GetNextRegionOffset(0, rt)
							if err != nil {
								return "error"
							}
							return "ok"
						})
					default:
						mk("FrozenFile.Len", "", func() string {
							_, err := r.(interface{ Len() (int64, error) }).Len()
							return grpcClass(err)
						})
					}
				}
			case 23:
				create := rng.Intn(2) == 0
				if alive || !create {
					mk("VirtualOpenNamedAttributes", fmt.Sprintf("create=%v", create), func() string {
						var out virtual.Attributes
						d, s := leaf.VirtualOpenNamedAttributes(ctxBG, create, maskLocked, &out)
						if s == virtual.StatusOK {
							e.addDirectory(d)
						}
						return st(s)
					})
				}
			case 24, 25:
				// A call that changes the data while frozen readers
				// exist waits until the last of them is closed. It must
				// not keep the readers from being closed, and must
				// return afterwards.
				kind := rng.Intn(4)
				if len(m.frozen) == 0 || (kind == 0 && m.links+m.readO+m.writeO+m.rwO == 0) {
					break
				}
				off, size := uint64(rng.Intn(50)), uint64(rng.Intn(60))
				share := []virtual.ShareMask{virtual.ShareMaskRead, virtual.ShareMaskWrite, virtual.ShareMaskRead | virtual.ShareMaskWrite}[rng.Intn(3)]
				call := []string{"VirtualWrite", "VirtualSetAttributes", "VirtualAllocate", "VirtualOpenSelf"}[kind]
				v := []string{"", "size", "", "truncate=true"}[kind] + ";" + variant + ";waits-for-frozen-readers"
				readers := append([]filesystem.FileReader(nil), m.frozen...)
				f := func() string {
					switch kind {
					case 0:
						e.faults.write.Store(fault)
						_, s := leaf.VirtualWrite(ctxBG, []byte("written while frozen"), off)
						return st(s)
					case 1:
						e.faults.truncate.Store(fault)
						var out virtual.Attributes
						return st(leaf.VirtualSetAttributes(ctxBG, (&virtual.Attributes{}).SetSizeBytes(size), maskLocked, &out))
					case 2:
						e.faults.truncate.Store(fault)
						return st(leaf.VirtualAllocate(ctxBG, off, size))
					}
					e.faults.truncate.Store(fault)
					var out virtual.Attributes
					return st(leaf.VirtualOpenSelf(ctxBG, share, &virtual.OpenExistingOptions{Truncate: true}, maskLocked, &out))
				}
				post := func(outcome string) {
					if kind == 3 && outcome == "OK" {
						open(share, 1)
					}
				}
				calls++
				parkedOK = e.recordParked("file", call, v, f, post, func() []waker {
					var ws []waker
					for k := len(readers) - 1; k >= 0; k-- {
						r := readers[k]
						ws = append(ws, waker{"FrozenFile.Close", "", func() string { return grpcClass(r.Close()) },
							func(string) { m.frozen = m.frozen[:len(m.frozen)-1] }})
					}
					return ws
				})
				parked = true
			case 26:
				// Opening the file frozen (for uploading it) waits until
				// the writers have closed it, or for the delay to expire.
				// It must not keep the writers from closing the file.
				if !alive || writers == 0 {
					break
				}
				delay := make(chan struct{})
				upload := rng.Intn(2) == 0
				failPut := rng.Intn(3) == 0
				fireDelay := rng.Intn(2) == 0
				var reader filesystem.FileReader
				call := "VirtualApply:OpenReadFrozen"
				if upload {
					call = "VirtualApply:UploadFile"
				}
				f := func() string {
					if upload {
						e.faults.read.Store(fault)
						p := &virtual.ApplyUploadFile{Context: ctxBG, ContentAddressableStorage: &fakeCAS{fail: failPut}, DigestFunction: digestFunction, WritableFileUploadDelay: delay}
						leaf.VirtualApply(p)
						return grpcClass(p.Err)
					}
					p := &virtual.ApplyOpenReadFrozen{WritableFileDelay: delay}
					leaf.VirtualApply(p)
					if p.Err == nil {
						reader = p.Reader
					}
					return grpcClass(p.Err)
				}
				post := func(outcome string) {
					if reader != nil {
						m.frozen = append(m.frozen, reader)
					}
				}
				nW, nRW := m.writeO, m.rwO
				calls++
				parkedOK = e.recordParked("file", call, fmt.Sprintf("put-fails=%v;delay-expires=%v;%s;waits-for-writers", failPut, fireDelay, variant), f, post, func() []waker {
					var ws []waker
					closer := func(share virtual.ShareMask) waker {
						return waker{"VirtualClose", "", func() string { leaf.VirtualClose(share); return "ok" },
							func(string) {
								open(share, -1)
								if fireDelay {
									select {
									case <-delay:
									default:
										close(delay)
									}
								}
							}}
					}
					for k := 0; k < nW; k++ {
						ws = append(ws, closer(virtual.ShareMaskWrite))
					}
					for k := 0; k < nRW; k++ {
						ws = append(ws, closer(virtual.ShareMaskRead|virtual.ShareMaskWrite))
					}
					if fireDelay {
						ws = ws[:1]
					}
					return ws
				})
				parked = true
			}
			if parked {
				if !parkedOK {
					break
				}
				continue
			}
			if o == nil {
				continue
			}
			calls++
			if !e.record("file", o.call, o.variant, o.f) {
				break
			}
		}
	}
	common.WriteJSON("meta.json", map[string]any{"traces": traces, "calls": calls})
}

// ---------------------------------------------------------------------------
// Recording for components that are not part of an env.

type prober func() []string

func recordWith(tr *common.Trace, probe prober, obj, call, variant string, f func() string) bool {
	res, hung := runWatched(f)
	if hung {
		hangCount.Add(1)
		tr.Emit(common.Ev{"ev": "hang", "obj": obj, "call": call, "variant": variant})
		return false
	}
	busy := probe()
	if res.panic != "" {
		tr.Emit(common.Ev{"ev": "panic", "obj": obj, "call": call, "variant": variant, "msg": res.panic, "locks_free": len(busy) == 0, "busy": busy})
		return false
	}
	tr.Emit(common.Ev{"ev": "call", "obj": obj, "call": call, "variant": variant, "outcome": res.outcome, "locks_free": len(busy) == 0, "busy": busy})
	return len(busy) == 0
}

// ---------------------------------------------------------------------------
// OpenedFilesPool.

func TestOpenedFilesPoolRandom(t *testing.T) {
	traces := common.EnvInt("VERIF_N", 30)
	steps := common.EnvInt("VERIF_STEPS", 80)
	tr := common.NewTrace("trace.ndjson")
	defer tr.Close()
	calls := 0
	for i := 0; i < traces && hangCount.Load() < maxHangs; i++ {
		rng := common.Rand(int64(9000 + i))
		tr.Emit(common.Ev{"ev": "reset", "trace": i, "mode": "ofp"})
		resolverOK := true
		ofp := virtual_nfsv4.NewOpenedFilesPool(func(r io.ByteReader) (virtual.DirectoryChild, virtual.Status) {
			if resolverOK {
				return virtual.DirectoryChild{}.FromLeaf(plainLeaf{}), virtual.StatusOK
			}
			return virtual.DirectoryChild{}, virtual.StatusErrStale
		})
		handles := []nfsv4.NfsFh4{[]byte("h1"), []byte("h2"), []byte("h3")}
		owners := []*nfsv4.LockOwner4{{Clientid: 1, Owner: []byte("a")}, {Clientid: 2, Owner: []byte("b")}}
		type opened struct {
			of   *virtual_nfsv4.OpenedFile
			refs int
		}
		var files []*opened
		probe := func() []string {
			out := []string{}
			if !ofp.VerifLockProbeIsFree() {
				out = append(out, "OpenedFilesPool.lock")
			}
			for k, f := range files {
				if !f.of.VerifLockProbeIsFree() {
					out = append(out, fmt.Sprintf("OpenedFile#%d.locksLock", k))
				}
			}
			return out
		}
		randRange := func() (uint64, uint64, string) {
			switch rng.Intn(9) {
			case 8:
				return math.MaxUint64, math.MaxUint64, "last-byte-to-eof"
			case 0:
				return uint64(rng.Intn(10)), 0, "zero-length"
			case 1:
				return math.MaxUint64 - 3, 10, "overflow"
			case 2:
				return uint64(rng.Intn(10)), math.MaxUint64, "to-eof"
			}
			return uint64(rng.Intn(10)), uint64(1 + rng.Intn(10)), "range"
		}
		randType := func() (nfsv4.NfsLockType4, string) {
			switch rng.Intn(6) {
			case 0:
				return 99, "bad-type"
			case 1, 2:
				return nfsv4.READ_LT, "read"
			}
			return nfsv4.WRITE_LT, "write"
		}
		for j := 0; j < steps; j++ {
			var call, variant string
			var f func() string
			h := handles[rng.Intn(len(handles))]
			owner := owners[rng.Intn(len(owners))]
			var live []*opened
			for _, o := range files {
				if o.refs > 0 {
					live = append(live, o)
				}
			}
			switch k := rng.Intn(9); {
			case k == 0 || len(live) == 0 && k < 3:
				call = "Open"
				f = func() string {
					of := ofp.Open(h, plainLeaf{})
					for _, o := range files {
						if o.of == of {
							o.refs++
							return "existing"
						}
					}
					files = append(files, &opened{of: of, refs: 1})
					return "new"
				}
			case k == 1:
				off, length, rv := randRange()
				lt, tv := randType()
				call, variant = "TestLock", rv+";"+tv
				f = func() string {
					switch r := ofp.TestLock(h, owner, off, length, lt).(type) {
					case *nfsv4.Lockt4res_NFS4_OK:
						return "NFS4_OK"
					case *nfsv4.Lockt4res_NFS4ERR_DENIED:
						return "NFS4ERR_DENIED"
					case *nfsv4.Lockt4res_default:
						return fmt.Sprintf("status%d", r.Status)
					}
					return "?"
				}
			case k == 2:
				resolverOK = rng.Intn(2) == 0
				call, variant = "Resolve", fmt.Sprintf("resolver-ok=%v", resolverOK)
				f = func() string {
					_, s := ofp.Resolve(h)
					return fmt.Sprintf("status%d", s)
				}
			case len(live) == 0:
				continue
			case k == 3 || k == 4:
				o := live[rng.Intn(len(live))]
				off, length, rv := randRange()
				lt, tv := randType()
				call, variant = "OpenedFile.Lock", rv+";"+tv
				f = func() string {
					_, res := o.of.Lock(owner, off, length, lt)
					switch r := res.(type) {
					case nil:
						return "NFS4_OK"
					case *nfsv4.Lock4res_NFS4ERR_DENIED:
						return "NFS4ERR_DENIED"
					case *nfsv4.Lock4res_default:
						return fmt.Sprintf("status%d", r.Status)
					}
					return "?"
				}
			case k == 5:
				o := live[rng.Intn(len(live))]
				off, length, rv := randRange()
				call, variant = "OpenedFile.Unlock", rv
				f = func() string {
					_, s := o.of.Unlock(owner, off, length)
					return fmt.Sprintf("status%d", s)
				}
			case k == 6:
				o := live[rng.Intn(len(live))]
				call = "OpenedFile.UnlockAll"
				f = func() string {
					o.of.UnlockAll(owner)
					return "ok"
				}
			default:
				o := live[rng.Intn(len(live))]
				call = "OpenedFile.Close"
				f = func() string {
					o.of.Close()
					o.refs--
					if o.refs == 0 {
						return "last"
					}
					return "not-last"
				}
			}
			calls++
			if !recordWith(tr, probe, "ofp", call, variant, f) {
				break
			}
		}
	}
	common.WriteJSON("meta.json", map[string]any{"traces": traces, "calls": calls})
}

// ---------------------------------------------------------------------------
// IdleInvoker.

func TestIdleInvokerRandom(t *testing.T) {
	traces := common.EnvInt("VERIF_N", 30)
	steps := common.EnvInt("VERIF_STEPS", 40)
	tr := common.NewTrace("trace.ndjson")
	defer tr.Close()
	calls := 0
	for i := 0; i < traces && hangCount.Load() < maxHangs; i++ {
		rng := common.Rand(int64(11000 + i))
		tr.Emit(common.Ev{"ev": "reset", "trace": i, "mode": "idle"})
		var cleanErr error
		var block chan struct{}   // non-nil: the cleaner waits for it
		var entered chan struct{} // signalled when the cleaner starts
		ii := cleaner.NewIdleInvoker(func(ctx context.Context) error {
			if entered != nil {
				close(entered)
				entered = nil
			}
			if block != nil {
				<-block
			}
			return cleanErr
		})
		probe := func() []string {
			if !ii.VerifLockProbeIsFree() {
				return []string{"IdleInvoker.lock"}
			}
			return []string{}
		}
		useCount := 0
		for j := 0; j < steps; j++ {
			fail := rng.Intn(3) == 0
			cleanErr = nil
			if fail {
				cleanErr = status.Error(codes.Internal, "injected")
			}
			ok := true
			switch k := rng.Intn(6); {
			case k < 2:
				ok = recordWith(tr, probe, "idle", "Acquire", fmt.Sprintf("use-count-zero=%v;cleaner-fails=%v", useCount == 0, fail), func() string {
					err := ii.Acquire(ctxBG)
					if err == nil {
						useCount++
					}
					return grpcClass(err)
				})
			case k < 4 && useCount > 0:
				ok = recordWith(tr, probe, "idle", "Release", fmt.Sprintf("last=%v;cleaner-fails=%v", useCount == 1, fail), func() string {
					useCount--
					return grpcClass(ii.Release(ctxBG))
				})
			case k == 4 && useCount == 0:
				// Acquire while another Acquire is cleaning: one
				// waiter gives up (context cancelled), one stays.
				block = make(chan struct{})
				started := make(chan struct{})
				entered = started
				first := make(chan error, 1)
				go func() { first <- ii.Acquire(ctxBG) }()
				<-started
				ok = recordWith(tr, probe, "idle", "Acquire", "while-cleaning;context-cancelled", func() string {
					ctx, cancel := context.WithCancel(ctxBG)
					cancel()
					return grpcClass(ii.Acquire(ctx))
				})
				if !ok {
					// The lock is gone: the calls in flight cannot
					// finish. They are abandoned.
					close(block)
					break
				}
				second := make(chan error, 1)
				go func() { second <- ii.Acquire(ctxBG) }()
				time.Sleep(time.Millisecond)
				close(block)
				block = nil
				// Both calls must have returned before the lock is
				// probed: a call in progress may hold it.
				errFirst := <-first
				errSecond := <-second
				ok = ok && recordWith(tr, probe, "idle", "Acquire", fmt.Sprintf("cleaner-was-blocked;cleaner-fails=%v", fail), func() string {
					if errFirst == nil {
						useCount++
					}
					return grpcClass(errFirst)
				})
				ok = ok && recordWith(tr, probe, "idle", "Acquire", "waited-for-cleaning", func() string {
					if errSecond == nil {
						useCount++
					}
					return grpcClass(errSecond)
				})
			default:
				continue
			}
			calls++
			if !ok {
				break
			}
		}
	}
	common.WriteJSON("meta.json", map[string]any{"traces": traces, "calls": calls})
}

// ---------------------------------------------------------------------------
// Bitmap sector allocator.

func TestSectorAllocatorRandom(t *testing.T) {
	traces := common.EnvInt("VERIF_N", 30)
	steps := common.EnvInt("VERIF_STEPS", 80)
	tr := common.NewTrace("trace.ndjson")
	defer tr.Close()
	calls := 0
	for i := 0; i < traces && hangCount.Load() < maxHangs; i++ {
		rng := common.Rand(int64(13000 + i))
		tr.Emit(common.Ev{"ev": "reset", "trace": i, "mode": "sector"})
		sa := pool.NewBitmapSectorAllocator(uint32(20 + rng.Intn(150)))
		probe := func() []string {
			if !pool.VerifLockProbeSectorAllocator(sa) {
				return []string{"bitmapSectorAllocator.lock"}
			}
			return []string{}
		}
		type run struct {
			first uint32
			n     int
		}
		var runs []run
		for j := 0; j < steps; j++ {
			ok := true
			switch k := rng.Intn(5); {
			case k < 3:
				max := 1 + rng.Intn(100)
				ok = recordWith(tr, probe, "sector", "AllocateContiguous", "", func() string {
					first, n, err := sa.AllocateContiguous(max)
					if err == nil {
						runs = append(runs, run{first, n})
					}
					return grpcClass(err)
				})
			case k == 3 && len(runs) > 0:
				x := rng.Intn(len(runs))
				r := runs[x]
				runs = append(runs[:x], runs[x+1:]...)
				ok = recordWith(tr, probe, "sector", "FreeContiguous", "", func() string {
					sa.FreeContiguous(r.first, r.n)
					return "ok"
				})
			case k == 4 && len(runs) > 0:
				n := 1 + rng.Intn(len(runs))
				var list []uint32
				for _, r := range runs[:n] {
					for s := 0; s < r.n; s++ {
						list = append(list, r.first+uint32(s))
					}
				}
				list = append(list, 0) // holes are permitted
				rng.Shuffle(len(list), func(a, b int) { list[a], list[b] = list[b], list[a] })
				runs = runs[n:]
				ok = recordWith(tr, probe, "sector", "FreeList", "", func() string {
					sa.FreeList(list)
					return "ok"
				})
			default:
				continue
			}
			calls++
			if !ok {
				break
			}
		}
	}
	common.WriteJSON("meta.json", map[string]any{"traces": traces, "calls": calls})
}

// ---------------------------------------------------------------------------
// UserSettableSymlink. Its mutex has no TryLock hook: it is probed by the
// next call that needs it (VirtualGetAttributes of the change ID), which
// must return.

func TestUserSettableSymlinkRandom(t *testing.T) {
	traces := common.EnvInt("VERIF_N", 30)
	steps := common.EnvInt("VERIF_STEPS", 30)
	tr := common.NewTrace("trace.ndjson")
	defer tr.Close()
	calls := 0
	for i := 0; i < traces && hangCount.Load() < maxHangs; i++ {
		rng := common.Rand(int64(15000 + i))
		tr.Emit(common.Ev{"ev": "reset", "trace": i, "mode": "usymlink"})
		buildDirectory, scopeWalker := path.EmptyBuilder.Join(path.VoidScopeWalker)
		mustErr(path.Resolve(path.UNIXFormat.NewParser("/worker/build"), scopeWalker), "build directory")
		sl := virtual.NewUserSettableSymlink(buildDirectory, path.UNIXFormat.NewParser("/invalid"))
		noProbe := func() []string { return []string{} }
		for j := 0; j < steps; j++ {
			var call, variant string
			var f func() string
			switch rng.Intn(4) {
			case 0:
				dir := []string{"tmp/a", "b", "../escape", "/absolute", "a/../b", ""}[rng.Intn(6)]
				call, variant = "InstallTemporaryDirectory", "dir="+dir
				f = func() string {
					_, err := sl.InstallTemporaryDirectory(ctxBG, &tmp_installer.InstallTemporaryDirectoryRequest{TemporaryDirectory: dir})
					return grpcClass(err)
				}
			case 1, 2:
				mask := []virtual.AttributesMask{
					virtual.AttributesMaskFileType,
					virtual.AttributesMaskChangeID,
					virtual.AttributesMaskSymlinkTarget,
					virtual.AttributesMaskChangeID | virtual.AttributesMaskSymlinkTarget | virtual.AttributesMaskPermissions,
				}[rng.Intn(4)]
				call, variant = "VirtualGetAttributes", fmt.Sprintf("mask=%d", mask)
				f = func() string {
					var out virtual.Attributes
					sl.VirtualGetAttributes(ctxBG, mask, &out)
					return "ok"
				}
			default:
				kind := rng.Intn(4)
				call, variant = "VirtualSetAttributes", []string{"none", "size", "uid", "gid"}[kind]
				f = func() string {
					in := &virtual.Attributes{}
					switch kind {
					case 1:
						in.SetSizeBytes(1)
					case 2:
						in.SetOwnerUserID(1)
					case 3:
						in.SetOwnerGroupID(1)
					}
					var out virtual.Attributes
					return st(sl.VirtualSetAttributes(ctxBG, in, virtual.AttributesMaskChangeID|virtual.AttributesMaskSymlinkTarget, &out))
				}
			}
			calls++
			if !recordWith(tr, noProbe, "usymlink", call, variant, f) {
				break
			}
			// The probe: a later call that takes the lock must return.
			if !recordWith(tr, noProbe, "usymlink", "VirtualGetAttributes", "probe;after="+call, func() string {
				var out virtual.Attributes
				sl.VirtualGetAttributes(ctxBG, virtual.AttributesMaskChangeID, &out)
				return "ok"
			}) {
				break
			}
		}
	}
	common.WriteJSON("meta.json", map[string]any{"traces": traces, "calls": calls})
}

// ---------------------------------------------------------------------------
// The allocation API of the handle allocators (NFS: every conversion
// takes the lock of the handle pool; FUSE: lock free except for removal
// notification), and the calls of the decorators they return.

func TestHandleAllocatorRandom(t *testing.T) {
	traces := common.EnvInt("VERIF_N", 30)
	steps := common.EnvInt("VERIF_STEPS", 60)
	tr := common.NewTrace("trace.ndjson")
	defer tr.Close()
	calls := 0
	for i := 0; i < traces && hangCount.Load() < maxHangs; i++ {
		rng := common.Rand(int64(19000 + i))
		fuse := i%2 == 1
		e := newEnvWith(tr, envOptions{fuse: fuse})
		tr.Emit(common.Ev{"ev": "reset", "trace": i, "mode": "handle", "fuse": fuse})
		resolver := func(r io.ByteReader) (virtual.DirectoryChild, virtual.Status) {
			return virtual.DirectoryChild{}.FromLeaf(plainLeaf{}), virtual.StatusOK
		}
		staticDir := func() virtual.Directory {
			return virtual.NewStaticDirectory(virtual.CaseSensitiveComponentNormalizer, map[path.Component]virtual.DirectoryChild{})
		}
		var stateless []virtual.StatelessHandleAllocator
		var resolvable []virtual.ResolvableHandleAllocator
		var dirHandles []virtual.StatefulDirectoryHandle
		var linkable []virtual.LinkableLeaf // with a link count > 0 as far as the driver knows
		links := map[virtual.LinkableLeaf]int{}
		var nodes []virtual.Node
		id := func() handleIdentifier { return handleIdentifier(fmt.Sprintf("id%d", rng.Intn(4))) }
		for j := 0; j < steps; j++ {
			var call, variant string
			var f func() string
			switch k := rng.Intn(16); {
			case k == 0:
				call, variant = "Allocation.AsStatelessAllocator", "stateful"
				f = func() string {
					stateless = append(stateless, e.handleAllocator.New().AsStatelessAllocator())
					return "ok"
				}
			case k == 1:
				call, variant = "Allocation.AsResolvableAllocator", "stateful"
				f = func() string {
					resolvable = append(resolvable, e.handleAllocator.New().AsResolvableAllocator(resolver))
					return "ok"
				}
			case k == 2:
				call, variant = "Allocation.AsStatefulDirectory", "stateful"
				f = func() string {
					dirHandles = append(dirHandles, e.handleAllocator.New().AsStatefulDirectory(staticDir()))
					return "ok"
				}
			case k == 3:
				call, variant = "Allocation.AsStatelessDirectory", "stateful"
				f = func() string {
					nodes = append(nodes, e.handleAllocator.New().AsStatelessDirectory(staticDir()))
					return "ok"
				}
			case k == 4:
				call, variant = "Allocation.AsLinkableLeaf", "stateful"
				f = func() string {
					l := e.handleAllocator.New().AsLinkableLeaf(virtual.NewSpecialFile(filesystem.FileTypeFIFO, nil))
					linkable = append(linkable, l)
					links[l] = 1
					nodes = append(nodes, l)
					return "ok"
				}
			case k == 5 && len(stateless) > 0:
				a := stateless[rng.Intn(len(stateless))]
				switch rng.Intn(5) {
				case 0:
					call, variant = "Allocation.AsStatelessAllocator", "stateless"
					f = func() string { stateless = append(stateless, a.New(id()).AsStatelessAllocator()); return "ok" }
				case 1:
					call, variant = "Allocation.AsResolvableAllocator", "stateless"
					f = func() string {
						resolvable = append(resolvable, a.New(id()).AsResolvableAllocator(resolver))
						return "ok"
					}
				case 2:
					call, variant = "Allocation.AsStatelessDirectory", "stateless"
					f = func() string { nodes = append(nodes, a.New(id()).AsStatelessDirectory(staticDir())); return "ok" }
				case 3:
					// The same identifier twice yields the same leaf
					// with one more link.
					call, variant = "Allocation.AsLinkableLeaf", "stateless"
					f = func() string {
						l := a.New(id()).AsLinkableLeaf(virtual.NewSpecialFile(filesystem.FileTypeFIFO, nil))
						if links[l] == 0 {
							linkable = append(linkable, l)
						}
						links[l]++
						nodes = append(nodes, l)
						return "ok"
					}
				default:
					// (AsLeaf() is not part of the calling conventions of
					// stateless allocations: plain leaves cannot be linked)
				}
			case k == 6 && len(resolvable) > 0:
				a := resolvable[rng.Intn(len(resolvable))]
				switch rng.Intn(4) {
				case 0:
					call, variant = "Allocation.AsResolvableAllocator", "resolvable"
					f = func() string {
						resolvable = append(resolvable, a.New(id()).AsResolvableAllocator(resolver))
						return "ok"
					}
				case 1:
					call, variant = "Allocation.AsStatelessDirectory", "resolvable"
					f = func() string { nodes = append(nodes, a.New(id()).AsStatelessDirectory(staticDir())); return "ok" }
				case 2:
					call, variant = "Allocation.AsLinkableLeaf", "resolvable"
					f = func() string {
						nodes = append(nodes, a.New(id()).AsLinkableLeaf(virtual.NewSpecialFile(filesystem.FileTypeFIFO, nil)))
						return "ok"
					}
				default:
					call, variant = "Allocation.AsLeaf", "resolvable"
					f = func() string { nodes = append(nodes, a.New(id()).AsLeaf(plainLeaf{})); return "ok" }
				}
			case k == 7 && len(dirHandles) > 0:
				x := rng.Intn(len(dirHandles))
				h := dirHandles[x]
				switch rng.Intn(3) {
				case 0:
					dirHandles = append(dirHandles[:x], dirHandles[x+1:]...)
					call = "DirectoryHandle.Release"
					f = func() string { h.Release(); return "ok" }
				case 1:
					call = "DirectoryHandle.NotifyRemoval"
					f = func() string { h.NotifyRemoval(comp("x")); return "ok" }
				default:
					call = "DirectoryHandle.GetAttributes"
					f = func() string {
						var out virtual.Attributes
						h.GetAttributes(virtual.AttributesMaskFileHandle|virtual.AttributesMaskInodeNumber, &out)
						return "ok"
					}
				}
			case (k == 8 || k == 9) && len(linkable) > 0:
				x := rng.Intn(len(linkable))
				l := linkable[x]
				if rng.Intn(2) == 0 {
					call = "LinkableLeaf.Link"
					f = func() string {
						s := l.Link()
						if s == virtual.StatusOK {
							links[l]++
						}
						return st(s)
					}
				} else {
					call = "LinkableLeaf.Unlink"
					f = func() string {
						l.Unlink()
						links[l]--
						if links[l] == 0 {
							linkable = append(linkable[:x], linkable[x+1:]...)
							return "last"
						}
						return "not-last"
					}
				}
			case k == 10 && len(nodes) > 0:
				// Link() of a leaf that may have been unlinked already.
				if l, ok := nodes[rng.Intn(len(nodes))].(virtual.LinkableLeaf); ok {
					call, variant = "LinkableLeaf.Link", "any"
					f = func() string {
						s := l.Link()
						if s == virtual.StatusOK {
							if links[l] == 0 {
								linkable = append(linkable, l)
							}
							links[l]++
						}
						return st(s)
					}
				}
			case k >= 11 && k <= 13 && len(nodes) > 0:
				n := nodes[rng.Intn(len(nodes))]
				mask := []virtual.AttributesMask{maskLocked, maskUnlocked, maskLocked | maskUnlocked}[rng.Intn(3)]
				switch rng.Intn(3) {
				case 0:
					call, variant = "Node.VirtualGetAttributes", fmt.Sprintf("%T", n)
					f = func() string {
						var out virtual.Attributes
						n.VirtualGetAttributes(ctxBG, mask, &out)
						return "ok"
					}
				case 1:
					call, variant = "Node.VirtualSetAttributes", fmt.Sprintf("%T", n)
					f = func() string {
						var out virtual.Attributes
						n.VirtualSetAttributes(ctxBG, &virtual.Attributes{}, mask, &out)
						return "ok"
					}
				default:
					if l, ok := n.(virtual.Leaf); ok {
						call, variant = "Node.VirtualOpenSelf", fmt.Sprintf("%T", n)
						f = func() string {
							var out virtual.Attributes
							if s := l.VirtualOpenSelf(ctxBG, virtual.ShareMaskRead, &virtual.OpenExistingOptions{}, mask, &out); s == virtual.StatusOK {
								l.VirtualClose(virtual.ShareMaskRead)
							}
							return "ok"
						}
					}
				}
			case k == 14 && !fuse:
				var h []byte
				if len(nodes) > 0 && rng.Intn(3) > 0 {
					n := nodes[rng.Intn(len(nodes))]
					h = fileHandleOf(func(m virtual.AttributesMask, out *virtual.Attributes) { n.VirtualGetAttributes(ctxBG, m, out) })
				} else {
					h = []byte{9, 9, 9, 9, 9, 9, 9, 9}[:rng.Intn(9)]
				}
				call = "ResolveHandle"
				f = func() string {
					_, s := e.nfsAllocator.ResolveHandle(bytes.NewReader(h))
					return st(s)
				}
			}
			if f == nil {
				continue
			}
			calls++
			obj := "handle"
			if !e.record(obj, call, variant, f) {
				break
			}
		}
	}
	common.WriteJSON("meta.json", map[string]any{"traces": traces, "calls": calls})
}
