----------------------------- MODULE NFS41Trace -----------------------------
(***************************************************************************)
(* Validates traces recorded from the real NFSv4.1 server against          *)
(* NFS41.tla.  Every line is consumed.  `verdict` is "ok" or                *)
(* "<PID>:<reason>" where PID is the property whose predicate failed on    *)
(* the observed data, or "NC:<reason>" when the reference model cannot     *)
(* explain a step without any property predicate failing.                  *)
(***************************************************************************)
EXTENDS NFS41, Json, TLCExt

TraceLog == ndJsonDeserialize("trace.ndjson")

VARIABLES l,        \* next line of TraceLog
          verdict,
          expect,   \* [Ctxs -> what the end of a non-executed request must look like]
          lastk,    \* kind of the request that ended last ("new", "replay", ...)
          nonconf,  \* snapshots whose leaf open counts differ from the reference
                    \* without any predicate failing (counted, the trace goes on)
          stats,    \* how often the antecedents of the predicates were true (vacuity report)
          pleafnc,  \* the previous snapshot's leaf open counts differed from the reference
          lastb,    \* ghost: who was granted a lock covering the byte at offset 2^64-1
                    \* (which the reference's table cannot express): [f, i, lo, t]
          argh,     \* ghost: [session][slot] -> hash of the complete arguments of the
                    \* request that was executed last on that slot
          oldalt    \* this history may follow a server that gives one lock-owner a second
                    \* piece of lock state on a file (the scripted histories of finding K1)

tvars == <<vars, l, verdict, expect, lastk, nonconf, stats, pleafnc, lastb, argh, oldalt>>

Line == TraceLog[l]
IsEvent(e) == l <= Len(TraceLog) /\ Line.ev = e /\ l' = l + 1

\* sa: the arguments of the request are those of the request it repeats
NoExpect == [kind |-> "none", c |-> MisorderedCache, quiet |-> TRUE, sa |-> TRUE]
NoArgs == [s \in SessIds |-> [t \in Slots |-> ""]]
SameArgs == IF Line.sid \in SessIds /\ Line.slot \in Slots THEN Line.ah = argh[Line.sid][Line.slot] ELSE TRUE
\* Locks on the last byte die with the lock state of their owner on the file.
LiveLast == {h \in lastb : \E m \in lofs : m.i = h.i /\ m.lo = h.lo /\ m.f = h.f}

ZeroStats == [replays |-> 0, false_retries |-> 0, misordered |-> 0, seq_errors |-> 0,
              noeffect_with_expiry |-> 0, noeffect_snapshots |-> 0,
              crses_replays |-> 0, crses_out_of_order |-> 0,
              dup_same |-> 0, dup_different |-> 0, dup_uncached |-> 0,
              putfh_open_unlinked |-> 0, denied_replies |-> 0, io_held |-> 0,
              inflight_snapshots |-> 0, destroy_while_held |-> 0,
              expiry_with_open_state |-> 0, partial_expiry |-> 0, finals |-> 0,
              last_byte_requests |-> 0, last_byte_held_by_other |-> 0, same_types_other_arguments |-> 0,
              lock_state_shared_by_open_owners |-> 0, second_lock_state_followed |-> 0]
Inc(f) == [stats EXCEPT ![f] = @ + 1]
IncIf(c, f) == IF c THEN Inc(f) ELSE stats

ResetTo(names) ==
  /\ clock' = 0 /\ pnow' = 0
  /\ inc' = [k \in IncKeys |-> DeadInc]
  /\ sess' = [s \in SessIds |-> DeadSess]
  /\ oofs' = {} /\ lofs' = {} /\ held' = {} /\ ios' = {}
  /\ leaf' = ZeroLeaf /\ pend' = ZeroLeaf
  /\ dir' = [n \in Names |-> IF \E j \in 1 .. Len(names) : names[j] = n
                             THEN CHOOSE j \in 1 .. Len(names) : names[j] = n ELSE 0]
  /\ fst' = [f \in Files |-> IF f <= Len(names) THEN "linked" ELSE "absent"]
  /\ nfiles' = Len(names)
  /\ cx' = [x \in Ctxs |-> IdleCtx]
  /\ reply' = [op |-> "none", st |-> "OK"]
  /\ nextId' = [cid |-> 1, other |-> 1]
  /\ execd' = {} /\ twice' = FALSE

TInit ==
  /\ InitState(<<>>)
  /\ l = 1 /\ verdict = "ok" /\ expect = [x \in Ctxs |-> NoExpect] /\ lastk = "none" /\ nonconf = 0
  /\ stats = ZeroStats /\ pleafnc = FALSE /\ lastb = {} /\ argh = NoArgs /\ oldalt = FALSE

Skip(v) == /\ UNCHANGED vars /\ verdict' = v

KeepT == UNCHANGED <<expect, lastk, nonconf, stats, pleafnc, lastb, argh, oldalt>>
KeepS == UNCHANGED <<expect, lastk, nonconf, pleafnc, lastb, argh, oldalt>>   \* the action counts something in stats

\* Lease expiry that the next enter() of the server performs.
ExpiringNow == ExpiredAt(NowAt)
ExpiryStats(st) ==
  LET X == ExpiringNow
      a == IF \E r \in oofs : r.i \in X THEN [st EXCEPT !.expiry_with_open_state = @ + 1] ELSE st
  IN IF X # {} /\ \E k \in IncKeys : inc[k].live /\ k \notin X THEN [a EXCEPT !.partial_expiry = @ + 1] ELSE a

TReset ==
  /\ IsEvent("reset")
  /\ ResetTo(Line.names)
  /\ verdict' = "ok" /\ expect' = [x \in Ctxs |-> NoExpect] /\ lastk' = "none" /\ UNCHANGED <<nonconf, stats>> /\ pleafnc' = FALSE
  /\ lastb' = {} /\ argh' = NoArgs /\ oldalt' = Line.oldalt

TClock ==
  /\ IsEvent("clock")
  /\ clock' = Line.now
  /\ UNCHANGED <<pnow, inc, sess, oofs, lofs, held, ios, leaf, pend, dir, fst, nfiles, cx, reply, nextId, execd, twice>>
  /\ verdict' = "ok" /\ KeepT

-----------------------------------------------------------------------------
(* Classification of a status that differs from the reference.             *)

StateErr == {"BAD_STATEID", "OLD_STATEID", "OPENMODE", "STALE_STATEID", "EXPIRED"}

Classify(op, want, got) ==
  IF op \in {"LOCK", "LOCKT"} /\ want = "OK" /\ got = "DENIED" THEN "C20:lock-denied-without-conflicting-lock"
  ELSE IF op \in {"LOCK", "LOCKT"} /\ want = "DENIED" /\ got = "OK" THEN "C20:conflicting-lock-granted"
  ELSE IF want \in StateErr /\ got = "OK" THEN "C18:state-id-honoured-outside-its-file-client-or-sequence"
  ELSE IF op = "FREE_STATEID" /\ want = "LOCKS_HELD" /\ got = "OK" THEN "C20:lock-state-freed-while-locks-held"
  ELSE IF op = "PUTFH-open-unlinked" /\ want = "OK" THEN "C18:open-file-not-reachable-by-handle"
  ELSE "NC:status-differs-from-reference"

Status(op) == IF reply'.st = Line.st THEN "ok" ELSE Classify(op, reply'.st, Line.st)

SidOf(r) == [k |-> r.k, o |-> r.o, q |-> r.q]

\* The state ID returned must be the one the reference computes; a new
\* state ID must not coincide with one that is in use by the incarnation.
SidReply(op, x) ==
  IF reply'.st # Line.st THEN Classify(op, reply'.st, Line.st)
  ELSE IF Line.st # "OK" THEN "ok"
  ELSE IF Line.rsid.k # "reg" THEN "NC:returned-state-id-malformed"
  ELSE IF reply'.newState /\ \E r \in StateRecs(cx[x].i) : r.o = Line.rsid.o
       THEN "C18:state-id-issued-twice"
  ELSE IF Line.rsid.o # reply'.rsid.o THEN "NC:returned-state-id-other"
  ELSE IF Line.rsid.q # reply'.rsid.q THEN "NC:returned-state-id-seqid"
  ELSE "ok"

LtName(t) == IF t = "S" THEN "R" ELSE "W"

\* A denied reply must report a lock that really conflicts: a range that the
\* reported owner holds with the reported type (not necessarily a maximal
\* one: how the table merges adjacent ranges is left open) and that contains
\* a byte on which the request conflicts with that owner.
DeniedOK(d) ==
  /\ d.s < d.e
  /\ \E h \in reply'.confl :
       /\ inc[h.i].cid = d.cid /\ h.lo = d.lo
       /\ d.s <= h.b /\ h.b < d.e
       /\ LtName(h.t) = d.lt
       /\ \A b \in d.s .. (d.e - 1) : TypeAt(held, h.f, h.i, h.lo, b) = h.t

Denied(op) ==
  IF reply'.st # Line.st THEN Classify(op, reply'.st, Line.st)
  ELSE IF Line.st = "DENIED" /\ ~DeniedOK(Line.den) THEN "C20:denied-reply-reports-a-lock-that-does-not-conflict"
  ELSE "ok"

-----------------------------------------------------------------------------
(* Stand-alone operations.                                                 *)

LiveCids == {inc[k].cid : k \in {k \in IncKeys : inc[k].live}}

TExid ==
  /\ IsEvent("exid")
  /\ IF Line.own \notin Owners \/ Line.ver \notin Vers THEN Skip("NC:harness-domain")
     ELSE /\ ExchangeID(Line.own, Line.ver, Line.cid)
          /\ verdict' =
               IF Line.st # "OK" THEN "NC:status-differs-from-reference"
               ELSE IF reply'.fresh /\ Line.cid \in {Entered.inc[k].cid : k \in {k \in IncKeys : Entered.inc[k].live}}
                    THEN "C18:client-id-issued-twice"
               ELSE IF Line.cid # reply'.cid THEN "NC:client-id-differs"
               ELSE IF Line.conf # reply'.conf THEN "NC:confirmed-flag-differs"
               ELSE IF Line.sq # reply'.sq THEN "NC:create-session-sequence-differs"
               ELSE "ok"
  /\ stats' = ExpiryStats(stats) /\ KeepS

\* CREATE_SESSION has its own replay cache (one entry per client incarnation):
\* a retransmission (sequence = the last one executed) must get the first
\* reply and must not create another session; any sequence other than the
\* next one must not execute.
TCrses ==
  /\ IsEvent("crses")
  /\ CreateSession(Line.cid, Line.sq, IF Line.sid \in SessIds THEN Line.sid ELSE NewSid)
  /\ LET E == Entered
         ks == IncByCid(E, Line.cid)
         r == E.inc[CHOOSE k \in ks : TRUE]
         retrans == ks # {} /\ Line.sq = r.cs /\ r.csst = "OK"
         outOfOrder == ks # {} /\ Line.sq # r.cs + 1
     IN /\ verdict' =
             IF outOfOrder /\ Line.st = "OK" /\ ~(retrans /\ Line.sid = r.cssid)
               THEN "C19:create-session-retransmission-or-out-of-order-request-executed"
             ELSE IF retrans /\ (Line.st # "OK" \/ Line.sid # r.cssid)
               THEN "C19:retransmitted-create-session-got-a-different-reply"
             ELSE IF reply'.st # Line.st THEN Classify("CREATE_SESSION", reply'.st, Line.st)
             ELSE IF Line.st = "OK" /\ Line.sid # reply'.sid THEN "NC:session-id-differs"
             ELSE IF Line.st = "OK" /\ Line.nslots # NSlots THEN "NC:slot-count"
             ELSE "ok"
        /\ lastk' = IF ~outOfOrder THEN "new"
                    ELSE IF ExpiringNow # {} THEN "expiry"
                    ELSE IF retrans THEN "replay" ELSE "misordered"
        /\ stats' = ExpiryStats(IF retrans THEN Inc("crses_replays")
                                ELSE IF outOfOrder THEN Inc("crses_out_of_order") ELSE stats)
  /\ UNCHANGED <<expect, nonconf, pleafnc, lastb, argh, oldalt>>

TDsess ==
  /\ IsEvent("dsess")
  /\ DestroySession(Line.sid)
  /\ verdict' = Status("DESTROY_SESSION")
  /\ stats' = ExpiryStats(stats) /\ KeepS

TDcid ==
  /\ IsEvent("dcid")
  /\ DestroyClientID(Line.cid)
  /\ verdict' = Status("DESTROY_CLIENTID")
  /\ stats' = ExpiryStats(IncIf(\E k \in IncByCid(Entered, Line.cid) : Entered.inc[k].hold > 0, "destroy_while_held"))
  /\ KeepS

TTrigger ==
  /\ IsEvent("trigger")
  /\ Trigger
  /\ verdict' = IF Line.st = "BADSESSION" THEN "ok" ELSE "NC:status-differs-from-reference"
  /\ stats' = ExpiryStats(stats) /\ KeepS

-----------------------------------------------------------------------------
(* SEQUENCE and the end of a COMPOUND.                                     *)

TSeq ==
  /\ IsEvent("seq")
  /\ IF Line.x \notin Ctxs \/ cx[Line.x].kind # "idle" THEN Skip("NC:harness-context") /\ KeepT
     ELSE /\ SeqStart(Line.x, Line.sid, Line.slot, Line.sq, Line.cache, Line.shape)
          /\ expect' = [expect EXCEPT ![Line.x] = [kind |-> reply'.kind, c |-> reply'.c, quiet |-> (ExpiringNow = {}),
                                                  sa |-> SameArgs]]
          /\ argh' = IF reply'.kind = "new" THEN [argh EXCEPT ![Line.sid][Line.slot] = Line.ah] ELSE argh
          /\ UNCHANGED <<lastk, nonconf, pleafnc, lastb, oldalt>>
          /\ stats' = ExpiryStats(IncIf(reply'.kind = "replay" /\ ~SameArgs, "same_types_other_arguments"))
          /\ verdict' =
               IF Line.st = "PANIC" THEN "ok"   \* the panic event follows
               \* The lease of a client is renewed by every SEQUENCE it sends and a
               \* COMPOUND that is still executing keeps the client alive, so the
               \* lease runs from the completion of the client's last COMPOUND.  A
               \* session that was not destroyed and whose client is within its
               \* lease must be known; if it is not, the server discarded the
               \* client's opens and locks (closed its files) while its state IDs
               \* still entitled it to them.
               ELSE IF reply'.kind = "new" THEN
                 (IF Line.st = "OK" THEN "ok"
                  ELSE IF Line.st = "BADSESSION" /\ \E r \in oofs' : r.i = sess'[Line.sid].i
                    THEN "C18:client-state-discarded-although-its-lease-had-not-run-out"
                  ELSE "NC:new-request-rejected")
               ELSE IF reply'.kind = "wait" THEN "C19:duplicate-of-request-in-flight-did-not-wait"
               ELSE "ok"   \* judged when the COMPOUND ends

SameAs(c) ==
  \/ (Line.sts = c.sts /\ Line.rops = c.ops /\ (c.rh = "" \/ Line.rh = c.rh))
  \/ (Line.sts = c.fsts /\ Line.rops = c.fops /\ (c.frh = "" \/ Line.rh = c.frh))

TEnd ==
  /\ IsEvent("end")
  /\ LET x == Line.x IN
     IF x \notin Ctxs THEN Skip("NC:harness-context") /\ KeepT
     ELSE IF expect[x].kind = "new" /\ cx[x].kind = "run" /\ ~\E io \in ios : io.x = x THEN
       /\ SeqEnd(x, Line.rh)
       /\ verdict' = IF Line.sts # reply'.res.sts \/ Line.rops # reply'.res.ops THEN "NC:reply-summary" ELSE "ok"
       /\ expect' = [expect EXCEPT ![x] = NoExpect]
       /\ lastk' = "new" /\ UNCHANGED <<nonconf, pleafnc, lastb, argh, oldalt>>
       /\ stats' = ExpiryStats(stats)
     ELSE
       /\ UNCHANGED vars
       /\ expect' = [expect EXCEPT ![x] = NoExpect]
       \* a request that was not executed but made the server expire leases
       \* is not a witness for "no side effects"
       /\ lastk' = IF expect[x].quiet THEN expect[x].kind ELSE "expiry"
       /\ UNCHANGED <<nonconf, pleafnc, lastb, argh, oldalt>>
       /\ stats' = LET k == expect[x].kind IN
                   IF k \in {"replay", "false", "misordered", "error"} /\ ~expect[x].quiet THEN Inc("noeffect_with_expiry")
                   ELSE IF k = "replay" THEN Inc("replays")
                   ELSE IF k = "false" THEN Inc("false_retries")
                   ELSE IF k = "misordered" THEN Inc("misordered")
                   ELSE IF k = "error" THEN Inc("seq_errors")
                   ELSE stats
       /\ verdict' =
            LET k == expect[x].kind  c == expect[x].c IN
            IF k = "replay" THEN
              \* (same operation types but other arguments: the cached reply
              \* or a rejection, the statement leaves that open)
              (IF SameAs(c) \/ (~expect[x].sa /\ Line.sts[1] # "OK") THEN "ok"
               ELSE "C19:retransmission-got-a-different-reply")
            ELSE IF k = "false" THEN
              (IF Line.sts[1] = "OK" \/ (c.frh # "" /\ Line.rh = c.frh) \/ (c.rh # "" /\ Line.rh = c.rh)
                 THEN "C19:request-with-different-content-answered-from-the-reply-cache"
               ELSE IF Line.sts # <<"SEQ_FALSE_RETRY">> THEN "NC:status-differs-from-reference" ELSE "ok")
            ELSE IF k = "misordered" THEN
              (IF Line.sts[1] = "OK" THEN "C19:misordered-request-executed"
               ELSE IF Line.sts # <<"SEQ_MISORDERED">> THEN "NC:status-differs-from-reference" ELSE "ok")
            ELSE IF k = "error" THEN
              (IF Line.sts # c.sts THEN "NC:status-differs-from-reference" ELSE "ok")
            ELSE "NC:harness-end-without-sequence"

\* Duplicate of a request that is in flight.
TDupStart ==
  /\ IsEvent("dupstart")
  /\ IF Line.x \notin Ctxs \/ cx[Line.x].kind # "idle" THEN Skip("NC:harness-context")
     ELSE /\ SeqStart(Line.x, Line.sid, Line.slot, Line.sq, Line.cache, Line.shape)
          /\ verdict' = IF reply'.kind = "wait" THEN "ok" ELSE "NC:harness-duplicate-not-in-flight"
  /\ expect' = IF Line.x \in Ctxs THEN [expect EXCEPT ![Line.x] = [NoExpect EXCEPT !.kind = "wait", !.sa = SameArgs]] ELSE expect
  /\ UNCHANGED <<lastk, nonconf, stats, pleafnc, lastb, argh, oldalt>>

TDupEnd ==
  /\ IsEvent("dupend")
  /\ LET x == Line.x IN
     IF x \notin Ctxs \/ cx[x].kind \notin {"wait", "woken"} THEN Skip("NC:harness-context")
     ELSE IF cx[x].kind = "wait" THEN Skip("C19:duplicate-returned-before-its-original-finished")
     ELSE /\ DupReturn(x)
          /\ verdict' =
               LET r == cx[x].res IN
               IF cx[x].same THEN
                 (IF Line.sts = r.sts /\ Line.rops = r.ops /\ Line.rh = r.rh THEN "ok"
                  ELSE IF ~expect[x].sa /\ Line.sts[1] # "OK" THEN "ok"   \* other arguments: may be rejected
                  ELSE "C19:duplicate-in-flight-did-not-get-the-originals-reply")
               ELSE IF Line.sts[1] = "OK" \/ Line.rh = r.rh
                 THEN "C19:duplicate-in-flight-with-different-content-answered-with-the-originals-reply"
               ELSE IF Line.sts # <<"SEQ_FALSE_RETRY">> THEN "NC:status-differs-from-reference"
               ELSE "ok"
  /\ stats' = LET x == Line.x IN
              IF x \notin Ctxs \/ cx[x].kind # "woken" THEN stats
              ELSE IF ~cx[x].same THEN Inc("dup_different")
              ELSE IF cx[x].res.sts # sess[cx[x].sid].slots[cx[x].slot].c.sts THEN Inc("dup_uncached")
              ELSE Inc("dup_same")
  /\ KeepS

\* A request that was sent while others were held in flight did not return:
\* the server makes it wait for one of them.
TBlocked ==
  /\ IsEvent("blocked")
  /\ IF Line.x \notin Ctxs \/ cx[Line.x].kind # "idle" THEN Skip("NC:harness-context")
     ELSE /\ SeqStart(Line.x, Line.sid, Line.slot, Line.sq, Line.cache, Line.shape)
          /\ verdict' = IF reply'.kind = "wait" THEN "NC:harness-sent-a-duplicate-of-a-request-in-flight-synchronously"
                        ELSE "C19:request-that-does-not-repeat-the-request-in-flight-waits-for-it"
  /\ KeepT

TDupHang ==
  /\ IsEvent("duphang")
  /\ Skip("C19:duplicate-of-request-in-flight-never-returned")
  /\ KeepT

TPanic ==
  /\ IsEvent("panic")
  /\ Skip(IF Len(Line.ops) = 0 \/ Line.ops = <<"SEQUENCE">> \/ ~Line.fresh THEN "C19:server-panic-while-answering-a-retransmission-or-duplicate"
          ELSE IF \E j \in 1 .. Len(Line.ops) : Line.ops[j] \in {"LOCK", "LOCKT", "LOCKU"}
            THEN "C20:server-panic-in-compound-ending-with-" \o Line.ops[Len(Line.ops)]
          ELSE "C18:server-panic-in-compound-ending-with-" \o Line.ops[Len(Line.ops)])
  /\ KeepT

TAnomaly ==
  /\ IsEvent("anomaly")
  /\ Skip("NC:harness-anomaly")
  /\ KeepT

-----------------------------------------------------------------------------
(* Operations.                                                             *)

OpLine(name) == IsEvent(name) /\ KeepT
CanOp == Line.x \in Ctxs /\ Running(Line.x)
NoStep == Skip("NC:harness-operation-outside-running-compound")

TPutRootFH == OpLine("PUTROOTFH") /\ IF CanOp THEN PutRootFH(Line.x) /\ verdict' = Status("PUTROOTFH") ELSE NoStep
TPutFH     == IsEvent("PUTFH") /\ KeepS /\
                stats' = IncIf(CanOp /\ Line.fh \in Files /\ fst[Line.fh] = "unlinked" /\ InPool(oofs, Line.fh), "putfh_open_unlinked") /\
                IF CanOp THEN /\ PutFH(Line.x, Line.fh)
                              /\ verdict' = Status(IF Line.fh \in Files /\ fst[Line.fh] = "unlinked" /\ InPool(oofs, Line.fh)
                                                   THEN "PUTFH-open-unlinked" ELSE "PUTFH")
                ELSE NoStep
TLookup    == OpLine("LOOKUP") /\ IF CanOp THEN Lookup(Line.x, Line.name) /\ verdict' = Status("LOOKUP") ELSE NoStep
TGetFH     == OpLine("GETFH") /\
                IF CanOp THEN /\ GetFH(Line.x)
                              /\ verdict' = IF reply'.st # Line.st THEN Classify("GETFH", reply'.st, Line.st)
                                            ELSE IF Line.st = "OK" /\ Line.fh # reply'.fh THEN "NC:file-handle-differs"
                                            ELSE "ok"
                ELSE NoStep
TSaveFH    == OpLine("SAVEFH") /\ IF CanOp THEN SaveFH(Line.x) /\ verdict' = Status("SAVEFH") ELSE NoStep
TRestoreFH == OpLine("RESTOREFH") /\ IF CanOp THEN RestoreFH(Line.x) /\ verdict' = Status("RESTOREFH") ELSE NoStep

TOpen ==
  OpLine("OPEN") /\
    IF CanOp THEN /\ Open(Line.x, Line.oo, Line.share, Line.deny, Line.how, Line.claim, Line.name, Line.rsid.o)
                  /\ verdict' = SidReply("OPEN", Line.x)
    ELSE NoStep

TOpenDowngrade ==
  OpLine("OPEN_DOWNGRADE") /\
    IF CanOp THEN /\ OpenDowngrade(Line.x, SidOf(Line.sid), Line.share, Line.deny)
                  /\ verdict' = IF reply'.st # Line.st THEN Classify("OPEN_DOWNGRADE", reply'.st, Line.st)
                                ELSE IF Line.st # "OK" THEN "ok"
                                ELSE IF Line.rsid.o # reply'.rsid.o \/ Line.rsid.q # reply'.rsid.q THEN "NC:returned-state-id-seqid"
                                ELSE "ok"
    ELSE NoStep

TClose == OpLine("CLOSE") /\ IF CanOp THEN Close(Line.x, SidOf(Line.sid)) /\ verdict' = Status("CLOSE") ELSE NoStep

\* The byte at offset 2^64-1.  The lockable offsets are 0 .. 2^64-2: an
\* explicit range cannot end beyond 2^64-2, and with exclusive end offsets
\* [x, 2^64-1) and "x through end of file" are the same table entry, so
\* "through end of file" means through offset 2^64-2 and never involves the
\* byte at 2^64-1.  Only a request that STARTS at 2^64-1 addresses that byte.
\* The reference refuses it (any error code of the server is fine); a server
\* may accept it: then (MRk) the reference follows and the byte is kept as
\* ghost state (lastb), judged like any other byte: two different owners must
\* not both be granted it unless both locks are shared, and a lock test must
\* not report "no conflict" against another owner's conflicting lock on it.
MRk == IF Line.rk = "last" /\ Line.st = "OK" THEN "lastok" ELSE Line.rk
CoversLast == Line.rk = "last"
LStats == LET a == IncIf(Line.st = "DENIED", "denied_replies")
              b == IF Line.rk \in {"last", "last1"} THEN [a EXCEPT !.last_byte_requests = @ + 1] ELSE a
          IN IF Line.rk = "last" /\ LiveLast # {} THEN [b EXCEPT !.last_byte_held_by_other = @ + 1] ELSE b
\* the lock state that a successful LOCK / LOCKU acted on
LofOfReply(x) == CHOOSE m \in lofs' : m.i = cx[x].i /\ m.o = reply'.rsid.o

\* LOCK with a new lock-owner that already has lock state on the file through
\* another open-owner of the client: that lock state is re-used.  A server
\* that answers with a new lock state ID instead is followed in the histories
\* that are marked for it (oldalt), elsewhere the reference cannot follow (NC).
SharedLockState ==
  LET ro == ResolveOpen(Line.x, SidOf(Line.osid), FALSE) IN
  IF ~Line.newo \/ ro.st # "OK" THEN {}
  ELSE {m \in LofsOfOwner(ro.r.i, ro.r.f, Line.lo) : m.oo # ro.r.oo}
FollowSecond ==
  /\ oldalt /\ Line.st = "OK" /\ SharedLockState # {}
  /\ ~\E m \in SharedLockState : m.o = Line.rsid.o

TLock ==
  IsEvent("LOCK") /\ UNCHANGED <<expect, lastk, nonconf, pleafnc, argh, oldalt>> /\
    stats' = (LET a == LStats
                  b == IF CanOp /\ SharedLockState # {} THEN [a EXCEPT !.lock_state_shared_by_open_owners = @ + 1] ELSE a
              IN IF CanOp /\ FollowSecond THEN [b EXCEPT !.second_lock_state_followed = @ + 1] ELSE b) /\
    IF CanOp THEN
      /\ LockR(Line.x, Line.lt, MRk, Line.s, Line.e, Line.newo, SidOf(Line.osid), Line.lo, SidOf(Line.lsid), Line.rsid.o,
               ~FollowSecond)
      /\ LET granted == reply'.st = "OK" /\ Line.st = "OK"
             me == LofOfReply(Line.x)
             t == LockT(Line.lt)
             clash == granted /\ CoversLast /\
                        \E h \in LiveLast : h.f = me.f /\ ~(h.i = me.i /\ h.lo = me.lo) /\ (h.t = "X" \/ t = "X")
         IN /\ verdict' = IF clash THEN "C20:two-owners-granted-conflicting-locks-covering-the-very-last-byte"
                          ELSE IF granted THEN SidReply("LOCK", Line.x) ELSE Denied("LOCK")
            /\ lastb' = IF granted /\ CoversLast
                        THEN {h \in LiveLast : ~(h.f = me.f /\ h.i = me.i /\ h.lo = me.lo)}
                               \cup {[f |-> me.f, i |-> me.i, lo |-> me.lo, t |-> t]}
                        ELSE LiveLast
    ELSE NoStep /\ UNCHANGED lastb

TLockT == IsEvent("LOCKT") /\ KeepS /\ stats' = LStats /\
            IF CanOp THEN
              /\ LockTest(Line.x, Line.lt, MRk, Line.s, Line.e, Line.lo)
              /\ verdict' =
                   IF /\ Line.rk = "last" /\ Line.st = "OK" /\ reply'.st = "OK"
                      /\ \E h \in LiveLast : /\ h.f = cx[Line.x].fh
                                             /\ ~(h.i = cx[Line.x].i /\ h.lo = Line.lo)
                                             /\ (h.t = "X" \/ LockT(Line.lt) = "X")
                   THEN "C20:lock-test-reports-no-conflict-on-the-very-last-byte-held-by-another-owner"
                   ELSE Denied("LOCKT")
            ELSE NoStep

TLockU ==
  IsEvent("LOCKU") /\ UNCHANGED <<expect, lastk, nonconf, pleafnc, argh, oldalt>> /\ stats' = LStats /\
    IF CanOp THEN /\ LockU(Line.x, SidOf(Line.sid), MRk, Line.s, Line.e)
                  /\ lastb' = IF reply'.st = "OK" /\ Line.st = "OK" /\ CoversLast
                              THEN LET me == LofOfReply(Line.x) IN
                                   {h \in LiveLast : ~(h.f = me.f /\ h.i = me.i /\ h.lo = me.lo)}
                              ELSE LiveLast
                  /\ verdict' = IF reply'.st # Line.st THEN Classify("LOCKU", reply'.st, Line.st)
                                ELSE IF Line.st # "OK" THEN "ok"
                                ELSE IF Line.rsid.o # reply'.rsid.o \/ Line.rsid.q # reply'.rsid.q THEN "NC:returned-state-id-seqid"
                                ELSE "ok"
    ELSE NoStep

TFreeStateID == OpLine("FREE_STATEID") /\
                  IF CanOp THEN FreeStateID(Line.x, SidOf(Line.sid)) /\ verdict' = Status("FREE_STATEID") ELSE NoStep

TTestStateID ==
  OpLine("TEST_STATEID") /\
    IF CanOp THEN
      /\ TestStateID(Line.x, [j \in 1 .. Len(Line.sids) |-> SidOf(Line.sids[j])])
      /\ verdict' = IF Line.st # "OK" \/ Len(Line.sts) # Len(reply'.sts) THEN "NC:status-differs-from-reference"
                    ELSE IF \E j \in 1 .. Len(Line.sts) : reply'.sts[j] # "OK" /\ Line.sts[j] = "OK"
                      THEN "C18:state-id-honoured-outside-its-file-client-or-sequence"
                    ELSE IF Line.sts # reply'.sts THEN "NC:status-differs-from-reference"
                    ELSE "ok"
    ELSE NoStep

\* READ / WRITE: either the whole operation, or the end of an I/O that was
\* logged as started (held inside the leaf).
TIO(kind) ==
  OpLine(kind) /\
    IF Line.x \in Ctxs /\ cx[Line.x].kind = "run" /\ \E io \in ios : io.x = Line.x
    THEN IOEnd(Line.x, kind) /\ verdict' = Status(kind)
    ELSE IF CanOp THEN IO(Line.x, kind, SidOf(Line.sid)) /\ verdict' = Status(kind)
    ELSE NoStep

TIOStart ==
  /\ IsEvent("iostart") /\ KeepS /\ stats' = Inc("io_held")
  /\ IF CanOp /\ ~\E io \in ios : io.x = Line.x THEN
       /\ IOStart(Line.x, Line.op, SidOf(Line.sid))
       /\ verdict' = IF reply'.st = "OK" THEN "ok" ELSE Classify(Line.op, reply'.st, "OK")
     ELSE NoStep

TSetAttr == OpLine("SETATTR") /\ IF CanOp THEN SetAttr(Line.x, SidOf(Line.sid)) /\ verdict' = Status("SETATTR") ELSE NoStep
TRemove  == OpLine("REMOVE") /\ IF CanOp THEN Remove(Line.x, Line.name) /\ verdict' = Status("REMOVE") ELSE NoStep
TRename  == OpLine("RENAME") /\
              IF CanOp /\ Line.new \in Names THEN Rename(Line.x, Line.old, Line.new) /\ verdict' = Status("RENAME") ELSE NoStep

\* An operation the reference does not model in detail (e.g. SEQUENCE in the
\* middle of a COMPOUND): only the context is advanced.
TOther ==
  /\ IsEvent("SEQUENCE") /\ KeepT
  /\ IF CanOp THEN /\ Keep(Line.x, "SEQUENCE", "SEQUENCE_POS") /\ OpFrame /\ NoState
                   /\ reply' = [op |-> "SEQUENCE_POS", st |-> "SEQUENCE_POS"]
                   /\ verdict' = Status("SEQUENCE")
     ELSE NoStep

-----------------------------------------------------------------------------
(* Snapshots of the real server: the property predicates are evaluated on  *)
(* the observed leaf counters, lock table and records.                     *)

Rng(s) == {s[j] : j \in 1 .. Len(s)}

CidOf(i) == inc[i].cid

ModelOofs == {[cid |-> CidOf(r.i), oo |-> r.oo, f |-> r.f, sh |-> r.sh, q |-> r.q, o |-> r.o] : r \in oofs}
ModelLofs == {[cid |-> CidOf(r.i), oo |-> r.oo, f |-> r.f, lo |-> r.lo, sh |-> r.sh, q |-> r.q, o |-> r.o] : r \in lofs}
ModelLocks == {[f |-> e.f, cid |-> CidOf(e.i), lo |-> e.lo, s |-> e.s, e |-> e.e, t |-> e.t] : e \in EntriesOf(held)}
\* Client incarnation records including the owner bookkeeping: an incarnation
\* is idle iff nothing holds it; it has an open-owner record per open-owner
\* with an open file, a lock-owner record per lock-owner with lock state.
ModelIncs == {[own |-> k[1], ver |-> k[2], cid |-> inc[k].cid, conf |-> inc[k].conf, hold |-> inc[k].hold,
               idle |-> (inc[k].hold = 0),
               noo |-> Cardinality({r.oo : r \in {r \in oofs : r.i = k}}),
               nlofs |-> Cardinality({m \in lofs : m.i = k}),
               los |-> {m.lo : m \in {m \in lofs : m.i = k}}] :
                k \in {k \in IncKeys : inc[k].live}}
ModelSess == {[sid |-> s, cid |-> CidOf(sess[s].i)] : s \in {s \in SessIds : sess[s].live}}
\* Slot records: sequence number, busy flag, number of waiting duplicates and
\* the shape of the cached reply (number of results, status of the last one).
ModelSlots ==
  UNION {{[sid |-> s, t |-> t, q |-> sess[s].slots[t].q, busy |-> sess[s].slots[t].busy,
           w |-> Len(sess[s].slots[t].w), clen |-> Len(sess[s].slots[t].c.sts),
           cst |-> sess[s].slots[t].c.sts[Len(sess[s].slots[t].c.sts)]] : t \in Slots}
         : s \in {s \in SessIds : sess[s].live}}
\* The lock table as a set of locked bytes (what the entries denote).
ModelHeld == {[f |-> h.f, cid |-> CidOf(h.i), lo |-> h.lo, b |-> h.b, t |-> h.t] : h \in held}
ModelDir == {[name |-> n, f |-> dir[n]] : n \in {n \in Names : dir[n] # 0}}

ShSet(s) == (IF s \in {"R", "RW"} THEN {"R"} ELSE {}) \cup (IF s \in {"W", "RW"} THEN {"W"} ELSE {})

ObsOofs == {[cid |-> r.cid, oo |-> r.oo, f |-> r.f, sh |-> ShSet(r.sh), q |-> r.q, o |-> r.o] : r \in Rng(Line.oofs)}
ObsLofs == {[cid |-> r.cid, oo |-> r.oo, f |-> r.f, lo |-> r.lo, sh |-> ShSet(r.sh), q |-> r.q, o |-> r.o] : r \in Rng(Line.lofs)}
ObsLocksAll == {[f |-> r.f, cid |-> r.cid, lo |-> r.lo, s |-> r.s, e |-> r.e, t |-> r.t] : r \in Rng(Line.locks)}
\* (an entry [2^64-1, 2^64-1) is how a table of half-open ranges keeps a lock
\* on the very last byte: it denotes no byte of Bytes, see lastb)
ObsLocks == {r \in ObsLocksAll : ~(r.s = N /\ r.e = N)}
ObsIncs == {[own |-> r.own, ver |-> r.ver, cid |-> r.cid, conf |-> r.conf, hold |-> r.hold, idle |-> r.idle,
             noo |-> r.noo, nlofs |-> r.nlofs, los |-> Rng(r.los)] : r \in Rng(Line.incs)}
ObsSess == {[sid |-> r.sid, cid |-> r.cid] : r \in Rng(Line.sess)}
ObsSlots ==
  UNION {{[sid |-> r.sid, t |-> j - 1, q |-> r.slots[j].q, busy |-> r.slots[j].busy, w |-> r.slots[j].w,
           clen |-> r.slots[j].clen, cst |-> r.slots[j].cst] : j \in 1 .. Len(r.slots)}
         : r \in Rng(Line.sess)}
ObsHeld ==
  UNION {{[f |-> r.f, cid |-> r.cid, lo |-> r.lo, b |-> b, t |-> r.t] : b \in {x \in Bytes : r.s <= x /\ x < r.e}}
         : r \in ObsLocks}
ObsDir == {[name |-> r.name, f |-> r.f] : r \in Rng(Line.linked)}

Open1(lf, b) == IF b = "R" THEN lf.or - lf.cr ELSE lf.ow - lf.cw

LeafVerdict ==
  LET L == {lf \in Rng(Line.leaves) : lf.f \in Files} IN
  IF \E lf \in L : \E b \in Bits : Open1(lf, b) < 0
    THEN "C18:leaf-closed-more-often-than-opened"
  ELSE IF \E lf \in L : \E b \in Bits : Entitled(lf.f, b) /\ Open1(lf, b) < 1
    THEN "C18:leaf-closed-while-a-state-id-or-running-io-still-entitles-to-it"
  ELSE IF \E lf \in L : lf.bad > 0
    THEN "C18:io-reached-a-leaf-that-is-not-open-for-it"
  ELSE IF \E lf \in L : \E b \in Bits : leaf[lf.f][b] = 0 /\ Open1(lf, b) > 0
    THEN "C18:leaf-left-open-although-nothing-entitles-to-it"
  ELSE IF \E lf \in L : \E b \in Bits : leaf[lf.f][b] # Open1(lf, b)
    THEN "NC:leaf-open-count-differs-from-reference"
  ELSE "ok"

\* lockCount of a lock-owner file = number of table entries of that owner on
\* that file (when the owner has one lock-owner file on the file).
LockCountVerdict ==
  IF \E r \in Rng(Line.lofs) : r.lc < 0 THEN "C20:negative-lock-count"
  ELSE IF \E r \in Rng(Line.lofs) :
            /\ Cardinality({q \in Rng(Line.lofs) : q.cid = r.cid /\ q.lo = r.lo /\ q.f = r.f}) = 1
            /\ r.lc # Cardinality({e \in ObsLocksAll : e.cid = r.cid /\ e.lo = r.lo /\ e.f = r.f})
    THEN "C20:lock-count-differs-from-number-of-table-entries"
  ELSE "ok"

ObsExclusion ==
  \A a, b \in ObsLocks :
    (a.f = b.f /\ ~(a.cid = b.cid /\ a.lo = b.lo) /\ a.s < b.e /\ b.s < a.e) => (a.t = "S" /\ b.t = "S")

Retained ==
  \/ Line.incs # <<>> \/ Line.sess # <<>> \/ Line.oofs # <<>> \/ Line.lofs # <<>>
  \/ Line.locks # <<>> \/ Line.pool # <<>> \/ Line.nclients # 0 \/ Line.nbyid # 0 \/ Line.nidle # 0
  \/ \E lf \in Rng(Line.leaves) : lf.or # lf.cr \/ lf.ow # lf.cw

NoEffectKinds == {"replay", "false", "misordered", "error"}

LeafNC == "NC:leaf-open-count-differs-from-reference"

TSnap ==
  /\ IsEvent("snap")
  /\ UNCHANGED <<vars, expect, lastk, lastb, argh, oldalt>>
  /\ nonconf' = IF LeafVerdict = LeafNC THEN nonconf + 1 ELSE nonconf
  /\ pleafnc' = (LeafVerdict = LeafNC)
  /\ stats' = LET a == IF lastk \in NoEffectKinds /\ Line.why = "c" THEN Inc("noeffect_snapshots") ELSE stats
                  b == IF Line.why = "h" THEN [a EXCEPT !.inflight_snapshots = @ + 1] ELSE a
              IN IF Line.why = "final" THEN [b EXCEPT !.finals = @ + 1] ELSE b
  /\ verdict' =
       LET after == lastk \in NoEffectKinds /\ Line.why = "c" IN
       \* No request executes inside the server when a snapshot is taken (the
       \* requests in flight are parked inside a leaf or wait for the request
       \* they repeat, without any server lock): a lock that cannot be taken
       \* was left held by a request that returned.  The line has no state.
       IF Line.lockleak THEN "C14:server-lock-left-held-after-a-request-returned"
       ELSE IF Line.hookpanic # "" THEN "NC:state-hook-panicked"
       ELSE IF Line.why = "final" /\ Retained THEN "C18:state-retained-after-all-leases-expired"
       ELSE IF LeafVerdict \notin {"ok", LeafNC} THEN LeafVerdict
       ELSE IF ~ObsExclusion THEN "C20:two-owners-hold-conflicting-locks"
       ELSE IF LockCountVerdict # "ok" THEN LockCountVerdict
       ELSE IF \/ \E p \in Rng(Line.pool) : p.use # Cardinality({r \in ObsOofs : r.f = p.f})
               \/ \E r \in ObsOofs : ~\E p \in Rng(Line.pool) : p.f = r.f
         THEN "C18:opened-files-pool-does-not-account-for-the-open-files"
       \* (every snapshot is compared with the reference, so a difference seen
       \* right after a request that must not execute was caused by it)
       ELSE IF after /\ (ObsOofs # ModelOofs \/ ObsLofs # ModelLofs \/ ObsHeld # ModelHeld \/ ObsDir # ModelDir
                           \/ (LeafVerdict = LeafNC /\ ~pleafnc))
         THEN "C19:request-that-must-not-execute-changed-state"
       ELSE IF after /\ (ObsSlots # ModelSlots \/ ObsSess # ModelSess)
         THEN "C19:request-that-must-not-execute-changed-slot-or-session-state"
       ELSE IF ObsHeld # ModelHeld THEN "C20:lock-table-differs-from-reference"
       ELSE IF ObsLocks # ModelLocks THEN "NC:lock-table-entries-differ-from-reference"
       ELSE IF ObsOofs # ModelOofs THEN "NC:open-state-differs-from-reference"
       ELSE IF ObsLofs # ModelLofs THEN "NC:lock-state-differs-from-reference"
       ELSE IF ObsIncs # ModelIncs THEN "NC:client-records-differ-from-reference"
       ELSE IF ObsSess # ModelSess THEN "NC:session-records-differ-from-reference"
       ELSE IF ObsSlots # ModelSlots THEN "NC:slot-records-differ-from-reference"
       ELSE IF ObsDir # ModelDir THEN "NC:directory-differs-from-reference"
       ELSE IF ~Line.lk THEN "NC:server-lock-left-held"
       ELSE "ok"

TNext ==
  \/ TReset \/ TClock \/ TExid \/ TCrses \/ TDsess \/ TDcid \/ TTrigger
  \/ TSeq \/ TEnd \/ TDupStart \/ TDupEnd \/ TDupHang \/ TBlocked \/ TPanic \/ TAnomaly
  \/ TPutRootFH \/ TPutFH \/ TLookup \/ TGetFH \/ TSaveFH \/ TRestoreFH
  \/ TOpen \/ TOpenDowngrade \/ TClose \/ TLock \/ TLockT \/ TLockU
  \/ TFreeStateID \/ TTestStateID \/ TIO("READ") \/ TIO("WRITE") \/ TIOStart
  \/ TSetAttr \/ TRemove \/ TRename \/ TOther \/ TSnap

TraceSpec == TInit /\ [][TNext]_tvars

-----------------------------------------------------------------------------
VerdictOK == verdict = "ok"

\* Only what the python side needs is printed for a failing trace.
TraceAlias == [l |-> l, verdict |-> verdict, nonconf |-> nonconf]

NonconfReport == (l <= Len(TraceLog)) \/ (PrintT(<<"NONCONF", nonconf>>) /\ PrintT(<<"STATS", ToJson(stats)>>))

Accepted ==
  /\ TLCGet("stats").diameter - 1 = Len(TraceLog)
  /\ PrintT(<<"TRACE_ACCEPTED", Len(TraceLog)>>)
=============================================================================
