---------------------------- MODULE VFSDirTrace ----------------------------
(***************************************************************************)
(* Validates traces recorded from the real in-memory directory hierarchy   *)
(* (harness/vfsdir) against the reference model VFSDir.tla (property C13). *)
(*                                                                         *)
(* Every "call" line carries the call, its arguments, its reply and the    *)
(* projection of all directories and leaves the driver knows, taken after  *)
(* the call through the public interface and the state hook.  The model    *)
(* computes the set of outcomes the reference hierarchy permits for the    *)
(* call in the current state; the verdict says whether the observed status,*)
(* reply, contents, cookies, change counters and link counts are among     *)
(* them.  The model state then adopts the observed counters (cookies and   *)
(* change ids are abstract: only order / increase is prescribed).          *)
(***************************************************************************)
EXTENDS VFSDir, Json, TLCExt

TraceLog == ndJsonDeserialize("trace.ndjson")

CONSTANTS Sids          \* ids of the driver's concurrent paginated listings

VARIABLES l,            \* next line of TraceLog
          verdict,      \* "ok" or "<property>:<reason>" for the last consumed line
          sess,         \* paginated listings in progress: [Sids -> record]
          nonconf       \* number of calls after which a directory was instantiated earlier/later than in the model

tvars == <<dirs, leaves, mode, reply, lst, hist, l, verdict, sess, nonconf>>

Line == TraceLog[l]
IsEvent(e) == l <= Len(TraceLog) /\ Line.ev = e /\ l' = l + 1

IdleSess == [on |-> FALSE, d |-> 0, thr |-> {}, rep |-> {}, dup |-> FALSE]

MaxCk(es) == IF es = <<>> THEN 0 ELSE es[Len(es)].ck
Ent(e) == [n |-> e.n, k |-> e.k, c |-> e.c, ck |-> e.ck]
Ents(es) == [i \in 1 .. Len(es) |-> Ent(es[i])]
StripSeq(es) == [i \in 1 .. Len(es) |-> Strip(es[i])]
Max(a, b) == IF a > b THEN a ELSE b

\* children descriptions as logged -> as used by the model
RECURSIVE Children(_)
Children(ch) == [i \in 1 .. Len(ch) |->
                   [n |-> ch[i].n, k |-> ch[i].k, c |-> ch[i].c, t |-> ch[i].t, sub |-> Children(ch[i].sub)]]

ProjOf(proj, d) == LET I == {i \in 1 .. Len(proj) : proj[i].id = d /\ ~proj[i].busy}
                   IN IF I = {} THEN <<>> ELSE <<proj[CHOOSE i \in I : TRUE]>>

-----------------------------------------------------------------------------
(* What the reference permits for the logged call.                         *)

NewId == IF Line.new >= 0 THEN Line.new ELSE -2

OutsOf ==
  LET d == Line.d  n == Line.n  op == Line.op IN
  CASE op \in {"lookup", "lookupchild"} -> LookupRes(S0, d, n)
    [] op = "mkdir"     -> MkdirRes(S0, d, n, NewId)
    [] op = "mknod"     -> MknodRes(S0, d, n, Line.k, NewId, Line.t)
    [] op = "link"      -> LinkRes(S0, d, n, Line.c)
    [] op = "open"      -> OpenChildRes(S0, d, n, Line.a, Line.b, NewId)
    [] op = "vremove"   -> RemoveRes(S0, d, n, Line.a, Line.b)
    [] op = "remove"    -> RemoveRes(S0, d, n, TRUE, TRUE)
    [] op = "rename"    -> RenameRes(S0, d, n, Line.d2, Line.n2)
    [] op = "readdir"   -> ReadDirRes(S0, d, Line.ck, Line.page)
    [] op = "setattr"   -> SetAttrRes(S0, d, Line.k)
    [] op = "removeall" -> RemoveAllRes(S0, d, n)
    [] op = "clear"     -> RemoveAllChildrenRes(S0, d, Line.a)
    [] op = "create"    -> CreateChildrenRes(S0, d, Children(Line.ch), Line.a)
    [] op = "enter"     -> CreateAndEnterRes(S0, d, n, NewId)
    [] op \in {"listall", "readdirbulk"} -> ListAllRes(S0, d)
    [] op = "filter"    -> FilterChildrenRes(S0, d, Len(Line.cb), {Line.rm[i] : i \in 1 .. Len(Line.rm)})

\* the call's arguments refer to objects the model knows
ArgsKnown ==
  /\ Line.d \in DOMAIN dirs
  /\ Line.op = "rename" => Line.d2 \in DOMAIN dirs
  /\ Line.op = "link" => Line.c \in DOMAIN leaves
  /\ Line.op \in {"mkdir", "enter", "open"} /\ Line.new >= 0 =>
       (IF Line.op = "open" THEN Line.new \notin DOMAIN leaves ELSE Line.new \notin DOMAIN dirs)

-----------------------------------------------------------------------------
(* Comparison of one permitted outcome with what was observed.             *)

VisibleEnts(es) == SelectSeq(es, LAMBDA e : e.k = "d" \/ ~Hidden(e.n))

\* one projected directory against the outcome's directory
DirProblem(o, p) ==
  LET d == p.id IN
  IF p.busy THEN "C14:directory-lock-left-held"
  ELSE IF d \notin DOMAIN o.S.dirs THEN "C13:contents-unexpected-directory"
  ELSE IF p.same
  THEN \* raw state identical to the previous event: the reference must not expect a change
       IF d \notin DOMAIN dirs THEN "C13:contents"
       ELSE IF dirs[d].lazy /\ ~o.S.dirs[d].lazy /\ o.S.dirs[d].ents # <<>> THEN "NC:real-directory-not-instantiated"
       ELSE IF o.S.dirs[d].ents # dirs[d].ents \/ o.S.dirs[d].deleted # dirs[d].deleted THEN "C13:contents"
       ELSE IF o.S.dirs[d].chg > dirs[d].chg THEN "C13:changeid-not-increased-by-modification"
       ELSE "ok"
  ELSE
    LET E == o.S.dirs[d]
        isOld == d \in DOMAIN dirs
        B == IF isOld THEN dirs[d] ELSE NewDir(<<>>)
        pe == Ents(p.ents)
        q(e) == pe[CHOOSE i \in 1 .. Len(pe) : pe[i].n = e.n]
        inc == E.chg > B.chg
        vis == VisibleEnts(pe)
    IN
    IF p.deleted # E.deleted THEN "C13:deleted-flag"
    ELSE IF p.lazy /\ ~E.lazy /\ E.ents # <<>> THEN "NC:real-directory-not-instantiated"
    ELSE IF Len(pe) # Len(E.ents) \/ Range(StripSeq(pe)) # Range(StripSeq(E.ents)) THEN "C13:contents"
    ELSE IF \E i \in 1 .. (Len(pe) - 1) : pe[i].ck >= pe[i + 1].ck THEN "C13:cookie-order"
    ELSE IF \E e \in Range(E.ents) : e.ck <= B.nc /\ q(e).ck # e.ck THEN "C13:cookie-of-existing-entry-changed"
    ELSE IF \E e \in Range(E.ents) : e.ck > B.nc /\ q(e).ck <= B.nc THEN "C13:cookie-reused"
    ELSE IF isOld /\ p.chg < B.chg THEN "C13:changeid-decreased"
    ELSE IF isOld /\ inc /\ ~(p.chg > B.chg) THEN "C13:changeid-not-increased-by-modification"
    ELSE IF isOld /\ ~inc /\ d \notin o.S.mat /\ p.chg # B.chg THEN "C13:changeid-increased-without-modification"
    ELSE IF \/ Len(p.map) # Len(pe)
            \/ {m.n : m \in Range(p.map)} # {e.n : e \in Range(pe)}
            \/ \E m \in Range(p.map) : m.key # Norm(m.n)
         THEN "C13:map-list-disagree"
    ELSE IF p.ft # "d" \/ p.links < 1 \/ p.achg # p.chg THEN "C13:getattr"
    ELSE IF ~p.lazy /\ (Ents(p.pub) # vis \/ ~p.pubend) THEN "C13:listing-page-size-1"
    ELSE IF ~p.lazy /\ StripSeq(p.alld) # StripSeq(SortedByName(SelectSeq(vis, LAMBDA e : e.k = "d")))
         THEN "C13:lookup-all-children-directories"
    ELSE IF ~p.lazy /\ StripSeq(p.alll) # StripSeq(SortedByName(SelectSeq(vis, LAMBDA e : e.k # "d")))
         THEN "C13:lookup-all-children-leaves"
    ELSE "ok"

RECURSIVE FirstDirProblem(_, _, _)
FirstDirProblem(o, proj, i) ==
  IF i > Len(proj) THEN "ok"
  ELSE LET r == DirProblem(o, proj[i]) IN
       IF r # "ok" THEN r ELSE FirstDirProblem(o, proj, i + 1)

\* When a directory is instantiated is not part of the property: if the
\* real code instantiated a directory that is still lazy in the outcome,
\* the outcome is instantiated too before it is compared (counted in
\* nonconf); the opposite case is only tolerated while it is unobservable.
RECURSIVE InstantiateObserved(_, _, _)
InstantiateObserved(S_, proj, i) ==
  LET S == S_ IN
  IF i > Len(proj) THEN S
  ELSE LET p == proj[i] IN
       InstantiateObserved(IF ~p.busy /\ ~p.same /\ p.id \in DOMAIN S.dirs /\ ~p.lazy /\ S.dirs[p.id].lazy
                           THEN Mat(S, p.id) ELSE S, proj, i + 1)
Normalized(o) == [o EXCEPT !.S = InstantiateObserved(o.S, Line.proj, 1)]

LazyMismatch(o, proj) ==
  \E i \in 1 .. Len(proj) :
     /\ ~proj[i].busy /\ proj[i].id \in DOMAIN o.S.dirs
     /\ IF proj[i].same THEN proj[i].id \in DOMAIN dirs /\ dirs[proj[i].id].lazy # o.S.dirs[proj[i].id].lazy
        ELSE proj[i].lazy # o.S.dirs[proj[i].id].lazy

LeafProblem(o, lp) ==
  IF lp.id \notin DOMAIN o.S.leaves
  THEN (IF lp.k = "symlink" THEN "ok" ELSE "C13:contents-unknown-leaf")   \* a symlink object may exist outside the hierarchy
  ELSE IF lp.k # o.S.leaves[lp.id].k THEN "C13:leaf-kind"
  ELSE IF Stateful(lp.k) /\ lp.links # o.S.leaves[lp.id].links THEN "C13:linkcount"
  ELSE "ok"

RECURSIVE FirstLeafProblem(_, _, _)
FirstLeafProblem(o, ls, i) ==
  IF i > Len(ls) THEN "ok"
  ELSE LET r == LeafProblem(o, ls[i]) IN IF r # "ok" THEN r ELSE FirstLeafProblem(o, ls, i + 1)

\* the state after the call: the outcome, with the observed counters
AdoptDir(o, d, proj) ==
  LET P == ProjOf(proj, d)
      E == o.S.dirs[d]
      B == IF d \in DOMAIN dirs THEN dirs[d] ELSE NewDir(<<>>)
  IN IF P = <<>> THEN E
     ELSE IF P[1].same THEN (IF d \in DOMAIN dirs THEN [E EXCEPT !.lazy = dirs[d].lazy] ELSE E)
     ELSE [deleted |-> P[1].deleted, lazy |-> P[1].lazy, pend |-> E.pend, chg |-> P[1].chg,
           nc |-> Max(B.nc, MaxCk(P[1].ents)), ents |-> Ents(P[1].ents)]
Adopt(o, proj) == [d \in DOMAIN o.S.dirs |-> AdoptDir(o, d, proj)]

\* entries of directory d after the call, as observed if projected
After(o, d) == AdoptDir(o, d, Line.proj).ents

ChangeInfoProblem(o, d, ci) ==
  LET P == ProjOf(Line.proj, d) IN
  IF P = <<>> \/ P[1].same \/ d \notin DOMAIN dirs THEN "ok"
  ELSE LET B == dirs[d]
           inc == o.S.dirs[d].chg > B.chg
       IN IF /\ ci[2] = P[1].chg
             /\ ci[1] >= B.chg
             /\ (d \notin o.S.mat => ci[1] = B.chg)
             /\ (inc <=> ci[2] > ci[1])
          THEN "ok" ELSE "C13:changeinfo"

\* The change counter of directory c after the call, as observed (a call
\* never modifies a directory after it has read its change counter).
ChgKnown(o, c) == c \in DOMAIN o.S.dirs /\ ~(\E i \in 1 .. Len(Line.proj) : Line.proj[i].id = c /\ Line.proj[i].busy)
ChgAfter(o, c) == AdoptDir(o, c, Line.proj).chg

\* Attributes that come with a child (lookup: Line.oak / Line.ochg; listing:
\* the chg of an entry; -1 = the change counter was not requested).  They
\* must be those of the very node that is returned: its type, and for a
\* directory its own change counter - not the parent's, not a stale one.
ListedChgProblem(o) ==
  \E i \in 1 .. Len(Line.list) :
     LET e == Line.list[i] IN
     e.k = "d" /\ e.chg >= 0 /\ ChgKnown(o, e.c) /\ e.chg # ChgAfter(o, e.c)

\* reply of the call against the outcome
ReplyProblem(o) ==
  LET op == Line.op  d == Line.d IN
  IF op \in {"lookup", "lookupchild", "mkdir", "mknod", "open", "enter"} /\ o.st = "OK"
     /\ (Line.ret.k # o.ret.k \/ Line.ret.c # o.ret.c)
  THEN "C13:wrong-child-returned"
  ELSE IF op = "lookup" /\ o.st = "OK" /\ Line.oak # "" /\ Line.oak # o.ret.k
  THEN "C13:lookup-returned-attributes-of-another-node"
  ELSE IF op = "lookup" /\ o.st = "OK" /\ o.ret.k = "d" /\ Line.ochg >= 0
          /\ ChgKnown(o, o.ret.c) /\ Line.ochg # ChgAfter(o, o.ret.c)
  THEN "C13:lookup-reported-wrong-change-counter"
  ELSE IF op \in {"mkdir", "mknod", "link", "open", "vremove"} /\ o.st = "OK"
          /\ ChangeInfoProblem(o, d, Line.ci) # "ok"
  THEN "C13:changeinfo"
  ELSE IF op = "rename" /\ o.st = "OK"
          /\ (ChangeInfoProblem(o, d, Line.ci) # "ok" \/ ChangeInfoProblem(o, Line.d2, Line.ci2) # "ok")
  THEN "C13:changeinfo"
  ELSE IF op = "readdir"
  THEN LET rest == SelectSeq(VisibleEnts(After(o, d)), LAMBDA e : e.ck > Line.ck)
           want == SubSeq(rest, 1, IF Len(rest) < Line.page THEN Len(rest) ELSE Line.page)
       IN IF Ents(Line.list) # want THEN "C13:listing-page"
          ELSE IF Line.more # (Len(rest) > Line.page) THEN "C13:listing-end"
          ELSE IF ListedChgProblem(o) THEN "C13:listing-reported-wrong-change-counter"
          ELSE "ok"
  ELSE IF op = "listall" /\ o.st = "OK"
  THEN LET vis == VisibleEnts(After(o, d)) IN
       IF StripSeq(Line.list) # StripSeq(SortedByName(SelectSeq(vis, LAMBDA e : e.k = "d")))
          \/ StripSeq(Line.list2) # StripSeq(SortedByName(SelectSeq(vis, LAMBDA e : e.k # "d")))
       THEN "C13:lookup-all-children" ELSE "ok"
  ELSE IF op = "readdirbulk" /\ o.st = "OK"
  THEN LET want == SortedByName(VisibleEnts(After(o, d))) IN
       IF [i \in 1 .. Len(Line.list) |-> <<Line.list[i].n, Line.list[i].k>>]
          # [i \in 1 .. Len(want) |-> <<want[i].n, want[i].k>>]
       THEN "C13:readdir-bulk" ELSE "ok"
  ELSE IF op = "filter"
  THEN LET w == Walk(S0, d, {}) IN
       IF Len(Line.cb) > Len(w) THEN "C13:filter-callbacks"
       ELSE IF \E i \in 1 .. Len(Line.cb) :
                 \/ Line.cb[i].t # w[i].t
                 \/ (w[i].t = "leaf" /\ Line.cb[i].c # w[i].c)
                 \/ (w[i].t = "lazy" /\ Line.cb[i].c \notin {-1, w[i].d})
            THEN "C13:filter-callbacks"
       ELSE IF Len(Line.cb) < Len(w) /\ ~Line.more THEN "C13:filter-stopped-early"
       ELSE IF \E i \in 1 .. Len(Line.rm) : Line.rm[i] < 0 THEN "C13:filter-remover-failed"
       ELSE "ok"
  ELSE "ok"

Problem(o) ==
  LET r == ReplyProblem(o) IN
  IF r # "ok" THEN r
  ELSE LET dp == FirstDirProblem(o, Line.proj, 1) IN
       IF dp # "ok" THEN dp ELSE FirstLeafProblem(o, Line.leaves, 1)

-----------------------------------------------------------------------------
(* Paginated listings, judged on the observed data alone: an entry (its    *)
(* cookie) that is present from the first page to the last must have been  *)
(* reported exactly once; nothing is reported twice.                       *)

VisCookies(es) == {e.ck : e \in Range(VisibleEnts(es))}

SessStep(o, nd) ==
  [s \in Sids |->
     LET old == sess[s]
         mine == Line.op = "readdir" /\ Line.sid = s
         base == IF mine /\ Line.first
                 THEN [on |-> TRUE, d |-> Line.d, thr |-> VisCookies(nd[Line.d].ents), rep |-> {}, dup |-> FALSE]
                 ELSE old
         shr == IF base.on /\ base.d \in DOMAIN nd
                THEN [base EXCEPT !.thr = @ \cap VisCookies(nd[base.d].ents)] ELSE base
         cks == {Line.list[i].ck : i \in 1 .. Len(Line.list)}
     IN IF mine /\ shr.on
        THEN [shr EXCEPT !.rep = @ \cup cks, !.dup = @ \/ (cks \cap shr.rep # {}) \/ Cardinality(cks) # Len(Line.list),
                         !.on = Line.more]
        ELSE shr]

SessProblem(ns) ==
  IF Line.op = "readdir" /\ Line.sid \in Sids
  THEN LET s == ns[Line.sid] IN
       IF s.dup THEN "C13:pagination-entry-reported-twice"
       ELSE IF ~s.on /\ ~(s.thr \subseteq s.rep) THEN "C13:pagination-entry-omitted"
       ELSE "ok"
  ELSE "ok"

-----------------------------------------------------------------------------

FromProj(p, pend) ==
  [deleted |-> p.deleted, lazy |-> p.lazy, pend |-> pend, chg |-> p.chg,
   nc |-> MaxCk(p.ents), ents |-> Ents(p.ents)]

TInit ==
  /\ Init /\ l = 1 /\ verdict = "ok" /\ sess = [s \in Sids |-> IdleSess] /\ nonconf = 0

\* a new hierarchy
TReset ==
  /\ IsEvent("reset")
  /\ mode' = [ci |-> Line.ci, hid |-> Line.hid]
  /\ dirs' = (Root :> FromProj(Line.proj[1], <<>>))
  /\ leaves' = [x \in {} |-> 0]
  /\ sess' = [s \in Sids |-> IdleSess]
  /\ verdict' = IF Line.proj[1].deleted \/ Line.proj[1].ents # <<>> THEN "C13:root-not-empty" ELSE "ok"
  /\ UNCHANGED <<reply, lst, hist, nonconf>>

\* the driver re-established a state reached by an earlier validated trace
TJump ==
  /\ IsEvent("jump")
  /\ mode' = [ci |-> Line.ci, hid |-> Line.hid]
  /\ dirs' = [d \in {Line.dirs[i].id : i \in 1 .. Len(Line.dirs)} |->
                LET p == Line.dirs[CHOOSE i \in 1 .. Len(Line.dirs) : Line.dirs[i].id = d]
                IN FromProj(p, Children(p.pend))]
  /\ leaves' = [c \in {Line.leaves[i].id : i \in 1 .. Len(Line.leaves)} |->
                  LET x == Line.leaves[CHOOSE i \in 1 .. Len(Line.leaves) : Line.leaves[i].id = c]
                  IN [k |-> x.k, links |-> x.links, t |-> x.t]]
  /\ sess' = [s \in Sids |-> IdleSess]
  /\ verdict' = "ok"
  /\ UNCHANGED <<reply, lst, hist, nonconf>>

\* (TLC re-evaluates a LET definition at every use; binding the
\* intermediate results with \E over singleton sets evaluates them once.)
Judge(outs, cands, probs) ==
  LET good == {x \in cands : probs[x] = "ok"}
      o == IF good # {} THEN CHOOSE x \in good : TRUE
           ELSE IF cands # {} THEN CHOOSE x \in cands : TRUE
           ELSE CHOOSE x \in outs : TRUE
  IN [o |-> o, p |-> IF cands = {} THEN "C13:status" ELSE probs[o]]

TCall ==
  /\ IsEvent("call")
  /\ IF ~ArgsKnown
     THEN /\ verdict' = "NC:call-on-object-unknown-to-the-model"
          /\ UNCHANGED <<dirs, leaves, sess, nonconf>>
     ELSE \E raw \in {OutsOf} :
          \E outs \in {{Normalized(x) : x \in raw}} :
          \E cands \in {{x \in outs : x.st = Line.st}} :
          \E probs \in {[x \in cands |-> Problem(x)]} :
          \E j \in {Judge(outs, cands, probs)} :
          \E nd \in {Adopt(j.o, Line.proj)} :
          \E ns \in {SessStep(j.o, nd)} :
          \E sp \in {SessProblem(ns)} :
             /\ dirs' = nd
             /\ leaves' = j.o.S.leaves
             /\ sess' = ns
             /\ verdict' = IF j.p # "ok" THEN j.p ELSE sp
             /\ nonconf' = IF (\E x \in raw : x.st = j.o.st /\ LazyMismatch(x, Line.proj)) THEN nonconf + 1 ELSE nonconf
  /\ UNCHANGED <<mode, reply, lst, hist>>

\* the real code panicked inside a call
TPanic ==
  /\ IsEvent("panic")
  /\ verdict' = "C13:panic"
  /\ UNCHANGED <<dirs, leaves, mode, reply, lst, hist, sess, nonconf>>

TNext == TReset \/ TJump \/ TCall \/ TPanic

TraceSpec == TInit /\ [][TNext]_tvars

-----------------------------------------------------------------------------
VerdictOK == verdict = "ok"

\* the invariants of the reference hold on the state reconstructed from
\* the observations (redundant with the verdict, kept as a cross-check)
C13_ObservedMapListAgreement == verdict = "ok" => C13_MapListAgreement
C13_ObservedDeletedIsEmpty == verdict = "ok" => C13_DeletedIsEmpty
C13_ObservedLinkCounts == verdict = "ok" => C13_LinkCounts

NonconfReport == (l <= Len(TraceLog)) \/ PrintT(<<"NONCONF", nonconf>>)

Accepted ==
  /\ TLCGet("stats").diameter - 1 = Len(TraceLog)
  /\ PrintT(<<"TRACE_ACCEPTED", Len(TraceLog)>>)
=============================================================================
