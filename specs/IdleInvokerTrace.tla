-------------------------- MODULE IdleInvokerTrace --------------------------
(***************************************************************************)
(* Validates traces recorded from the real IdleInvoker (directly, under    *)
(* CleanRunner, under CleanBuildDirectoryCreator and under the             *)
(* Shared(Clean(Root(dir))) creator chain) against IdleInvoker.tla.        *)
(*                                                                         *)
(* The drivers log what is visible at the call boundary (AcqStart,         *)
(* CleanStart, CleanEnd, AcqEnd, RelStart, RelEnd, Cancel), the raw state  *)
(* of the invoker whenever every goroutine is durably blocked (Quiescent), *)
(* and the directory operations of the creator chain.  What happens inside *)
(* the invoker between two logged events (which critical section ran       *)
(* first when several goroutines were woken at once) is not logged and is  *)
(* not guessed: `S` is the set of *all* specification states that are      *)
(* consistent with the log so far (the specification's transition          *)
(* operators are applied to every member; S is kept closed under the       *)
(* steps inside the invoker).  A logged event that no member of S allows   *)
(* is what the specification forbids; `verdict` names the clause.          *)
(* Every line is consumed; exactly one step per line.                      *)
(***************************************************************************)
EXTENDS IdleInvoker, Json, TLCExt

TraceLog == ndJsonDeserialize("trace.ndjson")

VARIABLES l,        \* next line of TraceLog
          verdict,  \* "ok" or "<PID>:<reason>" for the last consumed line
          S,        \* specification states consistent with the log
          D         \* observed state of the build directories

tvars == <<st, l, verdict, S, D>>

Line == TraceLog[l]
IsEvent(e) == l <= Len(TraceLog) /\ Line.ev = e /\ l' = l + 1

Range(q) == {q[i] : i \in 1 .. Len(q)}

D0 == [root    |-> {},                               \* names that must be in the root directory
       live    |-> [t \in Threads |-> None],         \* name of t's build directory
       req     |-> [t \in Threads |-> None],         \* digest t asked for (None = may run in parallel)
       excuse  |-> [t \in Threads |-> FALSE],        \* t's request may legitimately fail
       rmfault |-> [t \in Threads |-> FALSE],        \* a removal on behalf of t was made to fail
       made    |-> [t \in Threads |-> None],        \* directory created during t's pending request
       mkerr   |-> [t \in Threads |-> None],        \* name for which t's Mkdir failed by itself
       busy    |-> [t \in Threads |-> FALSE],       \* between the request and the end of Close
       closing |-> [t \in Threads |-> FALSE],       \* Close has been called
       overlap |-> [t \in Threads |-> FALSE]]       \* another request for the same digest overlapped t's

\* S is non-empty; what is visible at the call boundary is the same in all
\* of its members
AnyS == CHOOSE s \in S : TRUE

Good(N, d) == S' = Closure(N) /\ D' = d /\ verdict' = "ok"
Bad(v)     == S' = S /\ D' = D /\ verdict' = v

TInit == st = S0 /\ l = 1 /\ verdict = "ok" /\ S = {S0} /\ D = D0

TReset ==
  /\ IsEvent("reset")
  /\ S' = {S0} /\ D' = D0 /\ verdict' = "ok"

TAcqStart ==
  /\ IsEvent("AcqStart")
  /\ LET t == Line.t
         N == UNION {AcqStartS(s, t, Line.cancelled) : s \in S}
     IN IF t \notin Threads THEN Bad("NC:unknown-thread")
        ELSE IF N = {} THEN Bad("NC:driver-started-acquire-on-busy-thread")
        ELSE LET same == {u \in Threads \ {t} : D.busy[u] /\ D.req[u] = Line.digest /\ Line.digest # None} IN
             Good(N, [D EXCEPT !.req[t] = Line.digest, !.excuse[t] = FALSE,
                               !.rmfault[t] = FALSE, !.made[t] = None, !.mkerr[t] = None,
                               !.busy[t] = TRUE, !.closing[t] = FALSE,
                               !.overlap = [u \in Threads |-> IF u = t THEN same # {}
                                                              ELSE IF u \in same THEN TRUE ELSE @[u]]])

TCancel ==
  /\ IsEvent("Cancel")
  /\ LET t == Line.t IN
     IF t \notin Threads THEN Bad("NC:unknown-thread")
     ELSE Good(UNION {CancelS(s, t) : s \in S}, D)

TCleanStart ==
  /\ IsEvent("CleanStart")
  /\ LET t == Line.t
         N == UNION {CleanStartS(s, t) : s \in S}
     IN IF t \notin Threads THEN Bad("NC:cleaner-called-from-unknown-goroutine")
        ELSE IF N # {} THEN Good(N, D)
        ELSE IF Running(AnyS) \ {t} # {} THEN Bad("C12:second-cleaner-while-cleaning")
        \* (also on behalf of a thread whose own action has not ended yet)
        ELSE IF Using(AnyS) # {} THEN Bad("C12:cleaning-while-action-running")
        ELSE IF AnyS.pc[t] \in {"idle", "ac1", "rc1"} THEN Bad("NC:cleaner-called-outside-acquire-release")
        ELSE Bad("C12:cleaning-not-at-idle-busy-edge")

TCleanEnd ==
  /\ IsEvent("CleanEnd")
  /\ LET t == Line.t
         N == UNION {CleanEndS(s, t, Line.res) : s \in S}
     IN IF t \notin Threads \/ Line.res \notin {"ok", "fail"} \/ N = {} THEN Bad("NC:driver-cleaner-bookkeeping")
        ELSE IF Line.res = "ok" /\ Line.root # <<>> THEN Bad("C12:cleaner-left-entries-in-build-directory")
        ELSE Good(N, IF Line.res = "ok" THEN [D EXCEPT !.root = {}] ELSE D)

TAcqEnd ==
  /\ IsEvent("AcqEnd")
  /\ LET t == Line.t
         r == Line.res
         N == UNION {AcqEndS(s, t, r) : s \in S}
     IN IF t \notin Threads THEN Bad("NC:unknown-thread")
        ELSE IF N # {} THEN Good(N, IF r = "ok" THEN D ELSE [D EXCEPT !.excuse[t] = TRUE])
        ELSE IF AnyS.pc[t] \notin AcqPCs THEN Bad("NC:driver-acquire-end-without-start")
        ELSE IF r = "ok" THEN
               IF \E s \in S : (s.pc[t] = "ac2" /\ s.res[t] = "fail") \/ s.pc[t] = "aerr"
                 THEN Bad("C12:action-started-after-failed-cleaning")
               ELSE IF Running(AnyS) # {} THEN Bad("C12:action-started-while-cleaning")
               ELSE IF \E s \in S : s.pc[t] = "acx" THEN Bad("NC:acquire-result-differs")
               ELSE Bad("C12:acquired-without-cleaning-at-idle-busy-edge")
        ELSE Bad("NC:acquire-failed-without-cause")

TRelStart ==
  /\ IsEvent("RelStart")
  /\ LET t == Line.t
         N == UNION {RelStartS(s, t) : s \in S}
     IN IF t \notin Threads THEN Bad("NC:unknown-thread")
        ELSE IF N = {} THEN Bad("NC:driver-released-without-holding")
        ELSE Good(N, D)

TRelEnd ==
  /\ IsEvent("RelEnd")
  /\ LET t == Line.t
         N == UNION {RelEndS(s, t, Line.res) : s \in S}
     IN IF t \notin Threads THEN Bad("NC:unknown-thread")
        ELSE IF N # {} THEN Good(N, D)
        ELSE IF AnyS.pc[t] \notin RelPCs THEN Bad("NC:driver-release-end-without-start")
        ELSE IF \E s \in S : s.pc[t] = "rc0" THEN Bad("C12:no-cleaning-at-busy-idle-edge")
        ELSE IF AnyS.pc[t] = "rc1" THEN Bad("NC:release-returned-while-cleaner-runs")
        ELSE Bad("NC:release-result-differs")

\* Every goroutine is durably blocked: the implementation cannot move by
\* itself, its raw state is the specification's.
TQuiescent ==
  /\ IsEvent("Quiescent")
  /\ LET St == {s \in S : Stable(s)}
         N  == {s \in St : s.uc = Line.uc /\ s.cl = Line.cl}
         \* would be stable if cancelled waiters had returned
         Lazy(s) == \A t \in Threads : \/ s.pc[t] \in {"idle", "using", "ac1", "rc1"}
                                       \/ s.pc[t] = "aw" /\ ~s.sig[t]
     IN IF ~Line.lockfree THEN Bad("C12:invoker-lock-held-while-everything-is-blocked")
        ELSE IF N # {} THEN
               \* the listing of a quiescent directory is authoritative
               Good(N, [D EXCEPT !.root = Range(Line.root)])
        ELSE IF St = {} THEN
               IF \E s \in S : Lazy(s) THEN Bad("NC:cancelled-waiter-did-not-return")
               ELSE IF Line.cl /\ Running(AnyS) = {} THEN Bad("C12:waiters-never-woken-after-cleaning")
               ELSE Bad("C12:thread-blocked-while-no-cleaning-in-progress")
        ELSE IF \A s \in St : s.uc # Line.uc THEN Bad("C12:usecount-differs-from-number-of-running-actions")
        ELSE Bad("NC:cleaning-flag-differs")

TPanic ==
  /\ IsEvent("Panic")
  /\ Bad(IF Line.kind = "invoker" THEN "C12:panic-in-idle-invoker" ELSE "NC:panic")

-----------------------------------------------------------------------------
(* The creator chain.  All of this is visible, so D is a function of the   *)
(* log.                                                                    *)

DirOp(t) == t \in Threads /\ AnyS.pc[t] = "using"

\* The directory operations of different threads are logged after they took
\* effect, not atomically with them, so nothing below depends on the order
\* in which operations of *different* threads on the same name were logged:
\* AcqStart is logged by the harness before the call is made, and a thread
\* is busy until its last event was logged, so D.overlap[t] is TRUE whenever
\* a request for the same digest really overlapped t's; the checks that
\* would need the order of the two threads' operations are skipped then.
SameDigestBusy(t) == D.overlap[t]

TMkdir ==
  /\ IsEvent("Mkdir")
  /\ LET t == Line.t  n == Line.name  r == Line.res IN
     IF ~DirOp(t) THEN Bad("NC:directory-operation-outside-use")
     ELSE IF r = "ok" THEN Good(S, [D EXCEPT !.root = @ \cup {n}, !.made[t] = n])
     ELSE IF r = "inj" THEN Good(S, [D EXCEPT !.excuse[t] = TRUE])
     \* failed by itself: legitimate only for a digest-named directory that
     \* exists (see MkdirExcused; decided here, because a cleaning at the end
     \* of this very request may empty the root before GetEnd is logged, and
     \* again at GetEnd for operations of other threads that are logged late)
     ELSE Good(S, [D EXCEPT !.mkerr[t] = n,
                            !.excuse[t] = @ \/ (D.req[t] # None /\ (n \in D.root \/ SameDigestBusy(t)))])

TEnter ==
  /\ IsEvent("Enter")
  /\ LET t == Line.t IN
     IF ~DirOp(t) THEN Bad("NC:directory-operation-outside-use")
     ELSE Good(S, IF Line.res = "inj" THEN [D EXCEPT !.excuse[t] = TRUE] ELSE D)

TRemove ==
  /\ (IsEvent("Remove") \/ IsEvent("RemoveAll"))
  /\ LET t == Line.t  n == Line.name  r == Line.res IN
     IF ~DirOp(t) THEN Bad("NC:directory-operation-outside-use")
     ELSE IF r = "ok" THEN Good(S, [D EXCEPT !.root = @ \ {n},
                                            !.made[t] = IF @ = n THEN None ELSE @])
     ELSE IF r = "inj" THEN Good(S, [D EXCEPT !.rmfault[t] = TRUE])
     ELSE Good(S, D)

\* A digest-named directory may legitimately exist already (the same digest
\* is being executed by another thread although the scheduler promises it is
\* not, or it was left by a removal that was made to fail); a counter-named
\* one may not.
MkdirExcused(t, rootNow) ==
  /\ D.mkerr[t] # None /\ D.req[t] # None
  /\ \/ D.mkerr[t] \in D.root \/ D.mkerr[t] \in rootNow \/ SameDigestBusy(t)

TGetEnd ==
  /\ IsEvent("GetEnd")
  /\ LET t == Line.t  n == Line.name IN
     IF t \notin Threads THEN Bad("NC:unknown-thread")
     ELSE IF Line.res = "ok" THEN
            IF AnyS.pc[t] # "using" THEN Bad("C12:action-started-without-acquiring")
            ELSE IF \E u \in Threads \ {t} : D.live[u] = n /\ ~D.closing[u] THEN Bad("C12:directory-shared-by-concurrent-actions")
            ELSE IF Line.entries # <<>> THEN Bad("C12:directory-not-empty-at-start")
            ELSE IF n \notin Range(Line.root) THEN Bad("NC:build-directory-not-in-root")
            ELSE Good(S, [D EXCEPT !.live[t] = n, !.made[t] = None])
     ELSE IF AnyS.pc[t] # "idle" THEN Bad("NC:failed-request-still-holds")
     ELSE IF ~D.excuse[t] /\ ~MkdirExcused(t, Range(Line.root)) THEN Bad("C12:no-build-directory-for-action")
     ELSE IF D.made[t] # None /\ ~D.rmfault[t] /\ D.made[t] \in Range(Line.root) /\ ~SameDigestBusy(t)
       THEN Bad("C12:directory-left-behind-after-failed-start")
     ELSE Good(S, [D EXCEPT !.made[t] = None, !.busy[t] = FALSE])

TNote == (IsEvent("Populate") \/ IsEvent("Note")) /\ Good(S, D)

TCloseStart ==
  /\ IsEvent("CloseStart")
  /\ IF Line.t \in Threads THEN Good(S, [D EXCEPT !.closing[Line.t] = TRUE]) ELSE Bad("NC:unknown-thread")

TCloseEnd ==
  /\ IsEvent("CloseEnd")
  /\ LET t == Line.t IN
     IF t \notin Threads THEN Bad("NC:unknown-thread")
     ELSE IF D.live[t] = None THEN Bad("NC:driver-closed-without-directory")
     ELSE IF ~D.rmfault[t] /\ D.live[t] \in Range(Line.root) /\ ~SameDigestBusy(t)
       THEN Bad("C12:directory-left-behind-after-close")
     ELSE IF ~D.rmfault[t] /\ Line.detached > 0 THEN Bad("C12:contents-left-behind-after-close")
     ELSE IF AnyS.pc[t] # "idle" THEN Bad("NC:closed-directory-still-holds")
     ELSE Good(S, [D EXCEPT !.live[t] = None, !.busy[t] = FALSE, !.closing[t] = FALSE])

\* Executor level (harness/idleinv/exec_test.go): Execute of the real
\* localBuildExecutor has returned - the action has ended, normally, by an
\* error or by cancellation.  Its build directory must have been closed
\* (what closing has to achieve is judged at CloseEnd) and the invoker
\* given back.
TExecEnd ==
  /\ IsEvent("ExecEnd")
  /\ LET t == Line.t IN
     IF t \notin Threads THEN Bad("NC:unknown-thread")
     ELSE IF D.live[t] # None THEN Bad("C12:build-directory-not-removed-when-action-ended")
     ELSE IF AnyS.pc[t] # "idle" THEN Bad("C12:action-ended-without-releasing-the-invoker")
     ELSE Good(S, D)

Known == {"reset", "AcqStart", "Cancel", "CleanStart", "CleanEnd", "AcqEnd", "RelStart", "RelEnd",
          "Quiescent", "Panic", "Mkdir", "Enter", "Remove", "RemoveAll", "GetEnd", "Populate",
          "CloseStart", "Note", "CloseEnd", "ExecEnd"}

TUnknown ==
  /\ l <= Len(TraceLog) /\ Line.ev \notin Known /\ l' = l + 1
  /\ Bad("NC:unknown-event")

TNext == /\ \/ TReset \/ TAcqStart \/ TCancel \/ TCleanStart \/ TCleanEnd \/ TAcqEnd
            \/ TRelStart \/ TRelEnd \/ TQuiescent \/ TPanic
            \/ TMkdir \/ TEnter \/ TRemove \/ TGetEnd \/ TNote \/ TCloseStart \/ TCloseEnd \/ TExecEnd \/ TUnknown
         /\ UNCHANGED st

TraceSpec == TInit /\ [][TNext]_tvars

-----------------------------------------------------------------------------
VerdictOK == verdict = "ok"

\* The clauses of C12 that can be read off the call boundary, evaluated on
\* every state that is consistent with the log.
C12_ObsMutex == \A s \in S : ObsMutexP(s)
C12_LiveDirsDistinct ==
  \A t, u \in Threads : (t # u /\ D.live[t] # None /\ ~D.closing[t] /\ ~D.closing[u]) => D.live[t] # D.live[u]

Accepted ==
  /\ TLCGet("stats").diameter - 1 = Len(TraceLog)
  /\ PrintT(<<"TRACE_ACCEPTED", Len(TraceLog)>>)
=============================================================================
