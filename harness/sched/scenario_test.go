package sched

import (
	"fmt"
	"math/rand"
	"testing"
	"testing/synctest"

	"verif/harness/common"
)

// fixedScript answers the analyzer's questions in a fixed way.
type fixedScript struct {
	idx        int
	background bool
	bgIdx      int
	retry      bool
}

func (s *fixedScript) selectClass(sizeClasses []uint32, actionTimeout int) (int, int, int) {
	i := s.idx
	if i >= len(sizeClasses) {
		i = len(sizeClasses) - 1
	}
	return i, 2, 30
}

func (s *fixedScript) succeeded(sizeClasses []uint32) (bool, int, int, int) {
	return s.background, s.bgIdx, 2, 20
}

func (s *fixedScript) failed(isLargest bool) (bool, int, int) { return s.retry, 2, 50 }

func find(w *World, label string) *actionDef {
	for _, a := range w.actions {
		if a.label == label {
			return a
		}
	}
	panic(label)
}

// scripted runs f as one trace with a fixed analyzer script.
func scripted(t *testing.T, tr *common.Trace, idx int, name string, script isccScript, f func(sc *scenario)) {
	synctest.Test(t, func(t *testing.T) {
		tr.Emit(common.Ev{"ev": "reset", "trace": idx, "flavour": -1, "scenario": name})
		w := NewWorld(tr, DefaultConfig, script)
		sc := &scenario{w: w, rng: rand.New(rand.NewSource(int64(idx)))}
		cfg := w.cfg
		tr.Emit(common.Ev{"ev": "config", "update": int(cfg.ExecutionUpdateInterval / Unit), "no_waiter": int(cfg.OperationWithNoWaitersTimeout / Unit),
			"queue": int(cfg.PlatformQueueWithNoWorkersTimeout / Unit), "busy": int(cfg.BusyWorkerSynchronizationInterval / Unit),
			"idle": int(cfg.GetIdleWorkerSynchronizationInterval() / Unit), "retry": cfg.WorkerTaskRetryCount, "worker": int(cfg.WorkerWithNoSynchronizationsTimeout / Unit)})
		w.AddAction("d1", "p1", false)
		w.AddAction("d2", "p1", false)
		w.AddAction("d3", "p1", true)
		w.AddAction("d4", "p2", false)
		w.AddAction("d5", "p1", false)
		w.AddAction("d6", "p1", false)
		func() {
			// A script that cannot go on because the real code is in
			// another state than it assumes ends here; the trace is
			// still drained and judged.
			defer func() {
				if r := recover(); r != nil {
					sc.bail() // the real code panicked: the trace ends there
					tr.Emit(common.Ev{"ev": "script_abort", "msg": fmt.Sprint(r)})
				}
			}()
			f(sc)
		}()
		sc.drain()
	})
}

func (sc *scenario) worker(label, host, prefix, plat string, class uint32) *WorkerDef {
	d := &WorkerDef{Label: label, ID: map[string]string{"host": host, "rack": "r0"}, Prefix: prefix, Platform: plat, SizeClass: class}
	sc.workers = append(sc.workers, d)
	sc.w.RegisterWorkerLabel(d)
	return d
}

// complete lets worker d report completion of what it is executing.
func (sc *scenario) complete(d *WorkerDef, code, exit int) {
	if d.Executing == "" {
		sc.idle(d)
		return
	}
	sc.tokenSeq++
	sc.w.StartSynchronize(d, SyncArgs{State: "completed", Digest: find(sc.w, d.Executing), Token: "s" + string(rune('0'+sc.tokenSeq)), Code: code, ExitCode: exit, Duration: 1})
	sc.settle()
}

func (sc *scenario) idle(d *WorkerDef) {
	sc.w.StartSynchronize(d, SyncArgs{State: "idle"})
	sc.settle()
}

// TestScenarios: hand-written histories for corners that random schedules
// reach only rarely.
func TestScenarios(t *testing.T) {
	tr := common.NewTrace("trace.ndjson")
	defer tr.Close()
	stallWatchdog(tr)
	n := 0
	next := func() int { n++; return 1000 + n }

	// A background learning run shares the digest of its foreground task.
	// Its completion must not disturb the in-flight deduplication of a
	// newer request for the same action.
	scripted(t, tr, next(), "background-run-vs-dedup", &fixedScript{idx: 0, background: true, bgIdx: 0}, func(sc *scenario) {
		w := sc.w
		w.Predeclare("", "p1", nil, 1, 50, []uint32{1, 2})
		w1 := sc.worker("w1", "h1", "", "p1", 1)
		sc.idle(w1)
		w.StartExecute("c1", find(w, "d1"), "", []string{"a", "t1"}, 0)
		sc.settle()
		sc.complete(w1, 0, 0) // foreground done; background run starts on w1
		w.StartExecute("c2", find(w, "d1"), "", []string{"a", "t1"}, 0)
		sc.settle() // new foreground task, queued
		sc.complete(w1, 0, 0) // background run done; w1 takes the queued task
		w.StartExecute("c3", find(w, "d1"), "", []string{"b", "t3"}, 0)
		sc.settle() // must attach to the executing task
		sc.complete(w1, 0, 0)
	})

	// Duplicate requests in every stage, one client leaving.
	scripted(t, tr, next(), "dedup-stages", &fixedScript{}, func(sc *scenario) {
		w := sc.w
		w1 := sc.worker("w1", "h1", "", "p1", 0)
		sc.idle(w1)
		a := w.StartExecute("c1", find(w, "d1"), "", []string{"a", "t1"}, 0)
		sc.settle()
		w.StartExecute("c2", find(w, "d1"), "", []string{"a", "t2"}, 0)
		sc.settle()
		w.StartExecute("c3", find(w, "d1"), "", []string{"a", "t1"}, 100)
		sc.settle()
		w.Cancel(a)
		sc.settle()
		w.Advance(12)
		w.Poke()
		sc.settle()
		sc.complete(w1, 0, 0)
		w.StartExecute("c1", find(w, "d1"), "", []string{"a", "t1"}, 0)
		sc.settle()
	})

	// Per-level stickiness windows: the window of level k is measured from
	// the moment the worker started serving its current level-k invocation.
	scripted(t, tr, next(), "stickiness-levels", &fixedScript{idx: 0}, func(sc *scenario) {
		w := sc.w
		w.Predeclare("", "p1", []int{100, 4}, 0, 50, []uint32{1})
		w1 := sc.worker("w1", "h1", "", "p1", 1)
		sc.idle(w1) // blocks waiting for work
		w.StartExecute("c1", find(w, "d1"), "", []string{"a", "t1"}, 0)
		sc.settle() // handed to w1 at t=0
		w.StartExecute("c2", find(w, "d2"), "", []string{"a", "t2"}, 0)
		sc.settle() // queued in a/t2
		w.Advance(10)
		sc.complete(w1, 0, 0) // t=10: takes d2; level 1 switches from t1 to t2
		w.StartExecute("c3", find(w, "d5"), "", []string{"a", "t1"}, 0)
		sc.settle()
		w.StartExecute("c4", find(w, "d6"), "", []string{"a", "t2"}, 0)
		sc.settle()
		w.Advance(2)
		sc.complete(w1, 0, 0) // t=12: a/t1 is least recently served, but a/t2 is within its window
		sc.complete(w1, 0, 0)
		sc.complete(w1, 0, 0)
	})

	// A client of a deduplicated task leaves, the task is retried on the
	// largest size class, and only then the departed client's operation
	// expires: the remaining client must not be disturbed.
	scripted(t, tr, next(), "dedup-retry-abandon", &fixedScript{idx: 0, retry: true}, func(sc *scenario) {
		w := sc.w
		w.Predeclare("", "p1", nil, 0, 50, []uint32{1, 2})
		w1 := sc.worker("w1", "h1", "", "p1", 1)
		w2 := sc.worker("w2", "h2", "", "p1", 2)
		sc.idle(w1)
		a := w.StartExecute("c1", find(w, "d1"), "", []string{"a", "t1"}, 0)
		sc.settle()
		w.StartExecute("c2", find(w, "d1"), "", []string{"b", "t3"}, 0)
		sc.settle()
		w.Cancel(a) // c1 leaves; its operation now has a no-waiter time-out pending
		sc.settle()
		w.Advance(3)
		sc.complete(w1, 0, 1) // fails on the small class: retried on class 2
		w.Advance(12)         // the departed client's operation expires
		w.Poke()
		sc.settle()
		sc.idle(w2) // the large worker takes the retried task
		sc.complete(w2, 0, 0)
		sc.settle()
	})

	// The stickiness window of a level keeps running while the worker keeps
	// serving the same invocation (also when that invocation wins on merit
	// after the window expired), so a later tie goes to the least recently
	// served sibling.
	scripted(t, tr, next(), "stickiness-window-not-restarted", &fixedScript{idx: 0}, func(sc *scenario) {
		w := sc.w
		w.Predeclare("", "p1", []int{5}, 0, 50, []uint32{1})
		w1 := sc.worker("w1", "h1", "", "p1", 1)
		w2 := sc.worker("w2", "h2", "", "p1", 1)
		// w2 serves invocation b once at t=0 and then stays away
		w.StartExecute("c0", find(w, "d2"), "", []string{"b", "t3"}, 0)
		sc.settle()
		sc.idle(w2)
		w.StartSynchronize(w2, SyncArgs{State: "completed", Digest: find(w, "d2"), Token: "u0", Duration: 1, PreferIdle: true})
		sc.settle()
		// w1 serves invocation a from t=0 on
		w.StartExecute("c1", find(w, "d1"), "", []string{"a", "t1"}, 0)
		sc.settle()
		sc.idle(w1)
		w.Advance(8) // the window of 5 has expired
		w.StartExecute("c2", find(w, "d5"), "", []string{"a", "t1"}, 0)
		sc.settle()
		sc.complete(w1, 0, 0) // only a is queued: w1 gets d5 on merit, the window must not restart
		w.StartExecute("c3", find(w, "d6"), "", []string{"a", "t1"}, 0)
		sc.settle()
		w.StartExecute("c4", find(w, "d3"), "", []string{"b", "t3"}, 0)
		sc.settle()
		w.Advance(2)
		sc.complete(w1, 0, 0) // tie between a and b: b was served least recently and a's window is long over
		sc.complete(w1, 0, 0)
		sc.complete(w1, 0, 0)
	})

	// A drained worker waits; work queues up; removing the drain wakes the
	// worker, which must pick the queued task by the ordinary policy. A
	// second worker stays drained by another pattern and must get nothing.
	scripted(t, tr, next(), "undrain-picks-queued", &fixedScript{}, func(sc *scenario) {
		w := sc.w
		w1 := sc.worker("w1", "h1", "", "p1", 0)
		w2 := sc.worker("w2", "h2", "", "p1", 0)
		sc.idle(w1)
		w.Cancel(w1.call)
		sc.settle()
		w.Drain(true, "", "p1", 0, map[string]string{"host": "h1"})
		sc.settle()
		w.Drain(true, "", "p1", 0, map[string]string{"host": "h2"})
		sc.settle()
		sc.idle(w1) // drained: waits for an undrain
		sc.idle(w2)
		w.StartExecute("c1", find(w, "d1"), "", []string{"a", "t1"}, 0)
		sc.settle()
		w.StartExecute("c2", find(w, "d2"), "", []string{"a", "t2"}, -100)
		sc.settle()
		w.Quiescent(sc.parked())
		w.Drain(false, "", "p1", 0, map[string]string{"host": "h1"})
		sc.settle() // w1 wakes up and takes d2 (higher priority)
		w.Quiescent(sc.parked())
		w.Listing()
		sc.complete(w1, 0, 0)
		sc.complete(w1, 0, 0)
		w.Drain(false, "", "p1", 0, map[string]string{"host": "h2"})
		sc.settle()
	})

	// The same worker synchronizing twice at once: the second call is
	// refused and must not disturb the first one, neither while it waits
	// nor after it was handed a task.
	scripted(t, tr, next(), "duplicate-synchronize", &fixedScript{}, func(sc *scenario) {
		w := sc.w
		w1 := sc.worker("w1", "h1", "", "p1", 0)
		sc.idle(w1) // waits for work
		w.StartSynchronize(w1, SyncArgs{State: "idle"})
		sc.settle() // refused
		w.StartExecute("c1", find(w, "d1"), "", []string{"a", "t1"}, 0)
		// the task is handed to w1; before its call continues, a duplicate arrives
		for len(sc.actorsIn("gate")) > 0 && sc.actorsIn("gate")[0].kind != "sync" {
			w.Release(sc.actorsIn("gate")[0])
		}
		w.StartSynchronize(w1, SyncArgs{State: "completed", Digest: find(w, "d1"), Token: "dup", Duration: 1})
		for _, a := range sc.actorsIn("gate") {
			if a != w1.call {
				w.Release(a)
			}
		}
		sc.settle()
		w.Quiescent(sc.parked())
		sc.complete(w1, 0, 0)
	})

	// Retry on the largest size class with attached duplicate.
	scripted(t, tr, next(), "retry-largest", &fixedScript{idx: 0, retry: true}, func(sc *scenario) {
		w := sc.w
		w.Predeclare("", "p1", []int{4}, 0, 50, []uint32{1, 2})
		w1 := sc.worker("w1", "h1", "", "p1", 1)
		w2 := sc.worker("w2", "h2", "", "p1", 2)
		sc.idle(w1)
		w.StartExecute("c1", find(w, "d1"), "", []string{"a", "t1"}, 0)
		sc.settle()
		w.StartExecute("c2", find(w, "d1"), "", []string{"b", "t3"}, 0)
		sc.settle()
		sc.idle(w1)           // w1 restarted and lost the task: re-issued once (within its budget)
		sc.complete(w1, 4, 0) // DEADLINE_EXCEEDED on the small class: falls back to QUEUED on class 2
		w.StartExecute("c3", find(w, "d1"), "", []string{"a", "t2"}, 0)
		sc.settle()
		sc.idle(w2)
		sc.idle(w2)           // w2 restarted as well: its own budget starts at zero, so the task is re-issued
		sc.complete(w2, 0, 1) // fails on the largest: final
	})

	// A worker that crash-loops *after* reporting progress: it takes the task,
	// reports EXECUTING, restarts (idle: the task is re-issued), reports
	// EXECUTING again, restarts again, ... The re-issues count towards the
	// retry limit whatever the worker reports in between, so the task fails
	// with INTERNAL once the configured number of re-issues is used up.
	scripted(t, tr, next(), "crash-loop-with-executing-reports", &fixedScript{}, func(sc *scenario) {
		w := sc.w
		w1 := sc.worker("w1", "h1", "main", "p1", 0)
		sc.bogus(w1)
		w.Advance(1)
		sc.exec("c1", "d1", "main", noInv, 0)
		w.Advance(1)
		sc.idle(w1) // assigned
		for i := 0; i < 2; i++ {
			w.Advance(1)
			sc.running(w1, "d1") // progress report
			w.Advance(1)
			sc.idle(w1) // restarted: re-issue (or, beyond the limit, INTERNAL)
		}
	})
}
