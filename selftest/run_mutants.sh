#!/bin/bash
# selftest/run_mutants.sh <list-file>: lines "name|props|file|old|new" (\n in old/new encoded as literal "\n")
# or "name|props|PATCH|path-to-diff". Runs sequentially.
while IFS='|' read -r name props file old new; do
  [ -z "$name" ] && continue
  case "$name" in \#*) continue;; esac
  if [ "$file" = "PATCH" ]; then
    d=/tmp/mut-$name; rm -rf $d; cp -r /repo $d; (cd $d && patch -p1 -s < "$old") || { echo "MUTANT $name: patch failed"; rm -rf $d; continue; }
    for p in ${props//,/ }; do
      out=$(cd /verif && VERIF_REPO=$d bin/check $p 2>&1 | grep -E "^(VIOLATION|OK |INCONCLUSIVE|KNOWN)" | cut -c1-250 | head -4)
      echo "MUTANT $name on $p: $out"
    done
    rm -rf $d; case "$name" in BENIGN*) ;; *) rm -rf /tmp/verif-evidence-_tmp_mut_$name;; esac   # replays of benign changes are kept for inspection
  else
    python3 /verif/selftest/mutant.py "$name" "$props" "$file" "$(printf '%b' "$old")" "$(printf '%b' "$new")"
  fi
done < "$1"
