---------------------------- MODULE InputRootOps ----------------------------
(***************************************************************************)
(* Data model and pure operators of the reference model for property C17  *)
(* ("the input root is exactly the requested tree and cannot be altered"). *)
(* InputRoot.tla is the state machine, InputRootTrace.tla validates traces *)
(* of the real code with the same operators.                               *)
(*                                                                         *)
(* Real code: pkg/builder/virtual_build_directory.go (MergeDirectory-      *)
(* Contents), pkg/filesystem/virtual/cas_initial_contents_fetcher.go,      *)
(* in_memory_prepopulated_directory.go (getContents: lazy initialisation), *)
(* blob_access_cas_file_factory.go, pkg/cas/*directory_fetcher.go.         *)
(*                                                                         *)
(* The Content Addressable Storage is a value `cas`:                       *)
(*   cas.dirs  : digest id -> raw Directory message                        *)
(*   cas.trees : digest id -> [root: raw, kids: digest id -> raw]          *)
(*   cas.blobs : blob id   -> sequence of bytes                            *)
(* A raw Directory message is what is stored, malformed or not:            *)
(*   [state: "ok"|"missing"|"bad" (does not parse), dirs: Seq([name,digest]),*)
(*    files: Seq([name, blob, size, exec]), symlinks: Seq([name, target])] *)
(* digest/blob = "BAD" stands for a Digest message that cannot be parsed.  *)
(*                                                                         *)
(* An action's tree is a function from paths (sequences of names) to       *)
(* nodes.  A directory node is "lazy" (its children are not in the domain  *)
(* yet, they are denoted by its source in the CAS) or "mat"erialised.      *)
(* All operators are pure functions of (cas, tree, arguments) so that the  *)
(* trace specification can re-use them on logged data.                     *)
(***************************************************************************)
EXTENDS Integers, Sequences, FiniteSets, TLC

CONSTANTS InvalidNames   \* names path.NewComponent refuses ("", ".", "..", "a/b", ...)

-----------------------------------------------------------------------------
(* Paths                                                                   *)

IsPrefix(p, q) == Len(p) <= Len(q) /\ SubSeq(q, 1, Len(p)) = p
Kid(p, n)      == Append(p, n)
LastOf(q)      == q[Len(q)]
KidPaths(t, p) == {q \in DOMAIN t : Len(q) = Len(p) + 1 /\ IsPrefix(p, q)}
Subtree(t, p)  == {q \in DOMAIN t : IsPrefix(p, q)}
Min2(a, b)     == IF a < b THEN a ELSE b

-----------------------------------------------------------------------------
(* Nodes                                                                   *)

NoSrc == [mode |-> "none", tree |-> "", id |-> ""]
DirSrc(d)     == [mode |-> "dir", tree |-> "", id |-> d]
TreeSrc(T, d) == [mode |-> "tree", tree |-> T, id |-> d]

LazyDir(src)     == [kind |-> "dir", st |-> "lazy", src |-> src, blob |-> "", size |-> -1, exec |-> FALSE, target |-> ""]
MatDir           == [kind |-> "dir", st |-> "mat", src |-> NoSrc, blob |-> "", size |-> -1, exec |-> FALSE, target |-> ""]
CasFile(b, s, x) == [kind |-> "file", st |-> "cas", src |-> NoSrc, blob |-> b, size |-> s, exec |-> x, target |-> ""]
LocalFile(x)     == [kind |-> "file", st |-> "local", src |-> NoSrc, blob |-> "", size |-> -1, exec |-> x, target |-> ""]
Symlink(tg)      == [kind |-> "symlink", st |-> "", src |-> NoSrc, blob |-> "", size |-> -1, exec |-> FALSE, target |-> tg]

\* What the kernel / the worker can see of a node without descending.
\* size = -1: not prescribed by this property (local files, symlinks, dirs).
AttrOf(n) == [kind |-> n.kind, exec |-> n.exec, size |-> n.size, target |-> n.target]
NoAttr    == [kind |-> "none", exec |-> FALSE, size |-> -1, target |-> ""]

EmptyTree == (<<>> :> MatDir)

-----------------------------------------------------------------------------
(* The CAS: fetching and validating Directory messages                     *)

MissingRaw == [state |-> "missing", dirs |-> <<>>, files |-> <<>>, symlinks |-> <<>>]

Fetch(cas, src) ==
  IF src.mode = "dir" THEN
    IF src.id \in DOMAIN cas.dirs THEN cas.dirs[src.id] ELSE MissingRaw
  ELSE IF src.mode = "tree" THEN
    IF src.tree \notin DOMAIN cas.trees THEN MissingRaw
    ELSE IF src.id = "ROOT" THEN cas.trees[src.tree].root
    ELSE IF src.id \in DOMAIN cas.trees[src.tree].kids THEN cas.trees[src.tree].kids[src.id]
    ELSE MissingRaw
  ELSE MissingRaw

RawCount(r) == Len(r.dirs) + Len(r.files) + Len(r.symlinks)
RawNames(r) == {r.dirs[i].name : i \in 1 .. Len(r.dirs)}
                 \cup {r.files[i].name : i \in 1 .. Len(r.files)}
                 \cup {r.symlinks[i].name : i \in 1 .. Len(r.symlinks)}

\* A Directory message denotes a directory only if it is there, every name
\* is a valid component, no name occurs twice (across all three lists) and
\* every digest can be parsed.
WellFormed(r) ==
  /\ r.state = "ok"
  /\ RawNames(r) \cap InvalidNames = {}
  /\ Cardinality(RawNames(r)) = RawCount(r)
  /\ \A i \in 1 .. Len(r.dirs) : r.dirs[i].digest # "BAD"
  /\ \A i \in 1 .. Len(r.files) : r.files[i].blob # "BAD"

Available(cas, src) == WellFormed(Fetch(cas, src))

ChildSrc(src, d) == IF src.mode = "tree" THEN TreeSrc(src.tree, d) ELSE DirSrc(d)

\* The children a well-formed Directory message denotes: name -> node.
RawChildNode(r, src, n) ==
  IF \E i \in 1 .. Len(r.dirs) : r.dirs[i].name = n THEN
    LazyDir(ChildSrc(src, r.dirs[CHOOSE i \in 1 .. Len(r.dirs) : r.dirs[i].name = n].digest))
  ELSE IF \E i \in 1 .. Len(r.files) : r.files[i].name = n THEN
    LET f == r.files[CHOOSE i \in 1 .. Len(r.files) : r.files[i].name = n]
    IN CasFile(f.blob, f.size, f.exec)
  ELSE
    Symlink(r.symlinks[CHOOSE i \in 1 .. Len(r.symlinks) : r.symlinks[i].name = n].target)

-----------------------------------------------------------------------------
(* Tree surgery                                                            *)

IsDir(t, p) == p \in DOMAIN t /\ t[p].kind = "dir"

\* Add the children denoted by raw message r below p (p must have no
\* children with these names).
AddRaw(t, p, r, src) ==
  LET new == {Kid(p, n) : n \in RawNames(r)}
  IN [q \in DOMAIN t \cup new |->
        IF q \in new THEN RawChildNode(r, src, LastOf(q)) ELSE t[q]]

\* First access of a lazy directory whose message is available.
Materialize(cas, t, p) ==
  LET src == t[p].src
      t1  == AddRaw(t, p, Fetch(cas, src), src)
  IN [t1 EXCEPT ![p] = MatDir]

\* Can the contents of directory p be obtained?
Accessible(cas, t, p) == t[p].st = "mat" \/ Available(cas, t[p].src)
Acc(cas, t, p)        == IF t[p].st = "lazy" THEN Materialize(cas, t, p) ELSE t

Drop(t, p) == [q \in DOMAIN t \ Subtree(t, p) |-> t[q]]
Put(t, q, node) == [r \in (DOMAIN t \ Subtree(t, q)) \cup {q} |-> IF r = q THEN node ELSE t[r]]

\* Move the subtree at `from` to `to` (anything at `to` is replaced).
Move(t, from, to) ==
  LET S    == Subtree(t, from)
      keep == (DOMAIN t \ S) \ Subtree(t, to)
      newk == {to \o SubSeq(q, Len(from) + 1, Len(q)) : q \in S}
  IN [q \in keep \cup newk |->
        IF q \in newk THEN t[from \o SubSeq(q, Len(to) + 1, Len(q))] ELSE t[q]]

\* The fully explored tree: every available lazy directory materialised.
\* Unavailable ones stay lazy (they can only ever produce errors).
RECURSIVE Expand(_, _)
Expand(cas, t) ==
  LET L == {p \in DOMAIN t : t[p].kind = "dir" /\ t[p].st = "lazy" /\ Available(cas, t[p].src)}
  IN IF L = {} THEN t ELSE Expand(cas, Materialize(cas, t, CHOOSE p \in L : TRUE))

-----------------------------------------------------------------------------
(* Operations.  Every operation returns                                    *)
(*   [ok, why, t, val, lazy]                                               *)
(* ok: succeeded; why: reason of failure ("unavail" = the contents of a    *)
(* directory that the operation needs cannot be obtained from the CAS);    *)
(* t: tree afterwards; val: what is reported; lazy: the outcome depended   *)
(* on a directory that was not materialised yet.                           *)

Res(ok, why, t, val, lz) == [ok |-> ok, why |-> why, t |-> t, val |-> val, lazy |-> lz]
Fail(why, t, lz) == Res(FALSE, why, t, NoAttr, lz)

\* Common prelude: p must be a directory whose contents can be obtained.
DirProblem(cas, t, p) ==
  IF ~IsDir(t, p) THEN "unknowndir"
  ELSE IF ~Accessible(cas, t, p) THEN "unavail"
  ELSE ""

WasLazy(t, p) == IsDir(t, p) /\ t[p].st = "lazy"

\* VirtualLookup / LookupChild / Lstat
OpLookup(cas, t, p, n) ==
  LET pr == DirProblem(cas, t, p) IN
  IF pr # "" THEN Fail(pr, t, WasLazy(t, p))
  ELSE LET t2 == Acc(cas, t, p)  q == Kid(p, n) IN
       IF q \in DOMAIN t2 THEN Res(TRUE, "", t2, AttrOf(t2[q]), WasLazy(t, p))
       ELSE Fail("noent", t2, WasLazy(t, p))

\* VirtualReadDir (all pages) / ReadDir / LookupAllChildren
Entry(t, q) == [name |-> LastOf(q), kind |-> t[q].kind, exec |-> t[q].exec,
                size |-> t[q].size, target |-> t[q].target]
OpList(cas, t, p) ==
  LET pr == DirProblem(cas, t, p) IN
  IF pr # "" THEN Res(FALSE, pr, t, {}, WasLazy(t, p))
  ELSE LET t2 == Acc(cas, t, p) IN
       Res(TRUE, "", t2, {Entry(t2, q) : q \in KidPaths(t2, p)}, WasLazy(t, p))

\* VirtualRemove(name, removeDirectory, removeLeaf) / Remove
OpRemove(cas, t, p, n, rd, rl) ==
  LET pr == DirProblem(cas, t, p) IN
  IF pr # "" THEN Fail(pr, t, WasLazy(t, p))
  ELSE LET t2 == Acc(cas, t, p)  q == Kid(p, n)  lz == WasLazy(t, p) IN
       IF q \notin DOMAIN t2 THEN Fail("noent", t2, lz)
       ELSE IF t2[q].kind = "dir" THEN
         IF ~rd THEN Fail("perm", t2, lz)
         ELSE IF ~Accessible(cas, t2, q) THEN Fail("unavail", t2, TRUE)
         ELSE LET t3 == Acc(cas, t2, q)  lz2 == lz \/ WasLazy(t2, q) IN
              IF KidPaths(t3, q) # {} THEN Fail("notempty", t3, lz2)
              ELSE Res(TRUE, "", Drop(t3, q), NoAttr, lz2)
       ELSE IF ~rl THEN Fail("notdir", t2, lz)
       ELSE Res(TRUE, "", Drop(t2, q), NoAttr, lz)

\* VirtualRename(oldName, newDirectory, newName).  "illegal": moving a
\* directory into itself, which the driver must not attempt (the real code
\* documents the missing cycle check as a TODO; POSIX hierarchy is C13).
\* val.same: source and target are leaves that the handle allocator may
\* have deduplicated into one object (same blob and executable bit, or
\* same symlink target); POSIX then allows "no effect".
OpRename(cas, t, p, n, p2, n2) ==
  LET pr1 == DirProblem(cas, t, p)
      pr2 == DirProblem(cas, t, p2)
      lz  == WasLazy(t, p) \/ WasLazy(t, p2)
  IN
  IF pr1 # "" THEN Fail(pr1, t, lz)
  ELSE IF pr2 # "" THEN Fail(pr2, t, lz)
  ELSE LET t2 == Acc(cas, Acc(cas, t, p), p2)
           s  == Kid(p, n)
           d  == Kid(p2, n2)
       IN
       IF s \notin DOMAIN t2 THEN Fail("noent", t2, lz)
       ELSE IF t2[s].kind = "dir" /\ s # d /\ IsPrefix(s, d) THEN Fail("illegal", t2, lz)
       ELSE IF d \notin DOMAIN t2 THEN Res(TRUE, "", Move(t2, s, d), NoAttr, lz)
       ELSE IF s = d THEN Res(TRUE, "", t2, NoAttr, lz)
       ELSE IF t2[d].kind = "dir" THEN
         IF t2[s].kind # "dir" THEN Fail("isdir", t2, lz)
         ELSE IF ~Accessible(cas, t2, d) THEN Fail("unavail", t2, TRUE)
         ELSE LET t3 == Acc(cas, t2, d)  lz2 == lz \/ WasLazy(t2, d) IN
              IF KidPaths(t3, d) # {} THEN Fail("notempty", t3, lz2)
              ELSE Res(TRUE, "", Move(t3, s, d), NoAttr, lz2)
       ELSE IF t2[s].kind = "dir" THEN Fail("notdir", t2, lz)
       ELSE Res(TRUE, "", Move(t2, s, d),
                [NoAttr EXCEPT !.kind = IF /\ t2[s].kind = t2[d].kind
                                           /\ t2[s].st = t2[d].st
                                           /\ t2[s].st # "local"
                                           /\ t2[s].blob = t2[d].blob
                                           /\ t2[s].exec = t2[d].exec
                                           /\ t2[s].target = t2[d].target
                                        THEN "same" ELSE "none"], lz)
\* Outcome of a rename onto a deduplicated leaf that had "no effect".
RenameNoEffect(r) == r.val.kind = "same"

\* VirtualMkdir / VirtualOpenChild(create) / Mkdir: a new entry `node`
\* that must not exist yet.
OpCreate(cas, t, p, n, node) ==
  LET pr == DirProblem(cas, t, p) IN
  IF pr # "" THEN Fail(pr, t, WasLazy(t, p))
  ELSE LET t2 == Acc(cas, t, p)  q == Kid(p, n) IN
       IF q \in DOMAIN t2 THEN Fail("exist", t2, WasLazy(t, p))
       ELSE Res(TRUE, "", Put(t2, q, node), NoAttr, WasLazy(t, p))

\* CreateChildren(children, overwrite): kids is a sequence of [name, node].
OpPut(cas, t, p, kids, overwrite) ==
  LET pr == DirProblem(cas, t, p)  lz == WasLazy(t, p) IN
  IF pr # "" THEN Fail(pr, t, lz)
  ELSE LET t2 == Acc(cas, t, p)
           names == {kids[i].name : i \in 1 .. Len(kids)}
           clash == {n \in names : Kid(p, n) \in DOMAIN t2}
       IN
       IF ~overwrite /\ clash # {} THEN Fail("exist", t2, lz)
       ELSE
         LET gone == UNION {Subtree(t2, Kid(p, n)) : n \in names}
             new  == {Kid(p, n) : n \in names}
         IN Res(TRUE, "",
                [q \in (DOMAIN t2 \ gone) \cup new |->
                   IF q \in new
                   THEN kids[CHOOSE i \in 1 .. Len(kids) : kids[i].name = LastOf(q)].node
                   ELSE t2[q]],
                NoAttr, lz)

\* MergeDirectoryContents(digest) into directory p: the Directory message is
\* fetched eagerly; its children are added, none may exist already.
OpMerge(cas, t, p, src) ==
  LET r == Fetch(cas, src) IN
  IF ~WellFormed(r) THEN Fail("unavail", t, TRUE)
  ELSE LET pr == DirProblem(cas, t, p)  lz == TRUE IN
       IF pr # "" THEN Fail(pr, t, lz)
       ELSE LET t2 == Acc(cas, t, p) IN
            IF \E n \in RawNames(r) : Kid(p, n) \in DOMAIN t2 THEN Fail("exist", t2, lz)
            ELSE Res(TRUE, "", AddRaw(t2, p, r, src), NoAttr, lz)

\* The input root an action starts with.
InitialTree(cas, src) == OpMerge(cas, EmptyTree, <<>>, src)

-----------------------------------------------------------------------------
(* Leaves                                                                  *)

IsCasFile(t, q) == q \in DOMAIN t /\ t[q].kind = "file" /\ t[q].st = "cas"

\* VirtualRead(off, n) on a CAS-backed file: the bytes of the blob.
ReadOf(cas, t, q, off, n) ==
  LET b == cas.blobs[t[q].blob]  hi == Min2(off + n, Len(b)) IN
  [data |-> IF off >= Len(b) THEN <<>> ELSE SubSeq(b, off + 1, hi),
   eof  |-> off + n >= Len(b)]
BlobPresent(cas, t, q) == t[q].blob \in DOMAIN cas.blobs

\* Attempts to alter a file: open for writing, truncate on open, set
\* size, allocate, write.
AlterKinds == {"open_w", "open_rw", "open_trunc", "openchild_w", "openchild_trunc",
               "setsize", "allocate", "write"}

=============================================================================
