"""C10 — reported outputs are exactly what the action produced
(reference model OutputHierarchy.tla)."""
import json
import os

from lib import vlib

DEPS = ["OutputHierarchy.tla"]
TRACE = "OutputHierarchyTrace.tla"
TCFG = "Trace_OutputHierarchy.cfg"

classify = vlib.classify_for("C10")


PARALLEL = int(os.environ.get("VERIF_C10_PARALLEL", "1"))


def _validate_chunk(ctx, path, label, max_failures):
    """Validate one chunk in a private context (so that chunks can be
    validated concurrently); returns the private context."""
    sub = vlib.Ctx(ctx.prop, ctx.tier, ctx.seed)
    try:
        vlib.validate_traces(sub, path, TRACE, TCFG, DEPS, label,
                             classify=classify, timeout=6000, max_failures=max_failures)
        sub.error = None
    except Exception as e:  # re-raised by the caller, in chunk order
        sub.error = e
    return sub


def _merge(ctx, sub):
    for k in ("states", "transitions", "traces_validated_against_impl", "nonconformances"):
        ctx.cov[k] += sub.cov[k]
    for k in ("events_validated", "other_property_verdicts"):
        if k in sub.cov:
            ctx.cov[k] = ctx.cov.get(k, 0) + sub.cov[k]
    ctx.cov["tlc_runs"] += sub.cov["tlc_runs"]
    ctx.violations += sub.violations
    ctx.known_hits += sub.known_hits
    sub.cleanup()


def _drive(ctx, binary, test, label, env, timeout=3600, max_failures=3):
    """Run one case generator and validate every chunk it wrote."""
    from concurrent.futures import ThreadPoolExecutor
    out = ctx.sub(label)
    rc, o = vlib.run_driver(binary, test, out, ctx.seed, env=env, timeout=timeout)
    if rc != 0:
        raise vlib.Infra("outputs driver %s failed:\n%s" % (test, o[-3000:]))
    meta = json.load(open(os.path.join(out, "meta.json")))
    if not meta.get("files"):
        raise vlib.Infra("outputs driver %s wrote no trace" % test)
    paths = [os.path.join(out, name) for name in meta["files"]]
    ctx.cov["samples"] += vlib.sample_lines(paths[0], 4, maxlen=600)
    with ThreadPoolExecutor(max_workers=max(1, PARALLEL)) as ex:
        subs = list(ex.map(lambda kp: _validate_chunk(ctx, kp[1], "%s_%d" % (label, kp[0]), max_failures),
                           enumerate(paths)))
    err = None
    for sub in subs:
        err = err or sub.error
        _merge(ctx, sub)
    for p in paths:
        os.remove(p)
    if err:
        raise err
    return meta


def run(ctx):
    quick = ctx.quick()
    # 1. design check: the reference model is internally consistent
    #    (resolution lemmas, Expected within Declared, canonical Trees are
    #    well-formed and denote their directory, damaged Trees are rejected).
    cfgs = ["MC_OutputHierarchy.cfg", "MC_OutputHierarchy_trees.cfg"]
    if not quick:
        cfgs.append("MC_OutputHierarchy_full.cfg")
    for cfg in cfgs:
        vlib.design_check(ctx, "OutputHierarchy.tla", cfg, [], timeout=3000, heap="3g")

    # 2. the real code, case by case
    binary = vlib.go_build_test(ctx, "outputs")
    metas = {}
    metas["commands"] = _drive(ctx, binary, "TestCommands", "commands",
                               {"VERIF_MAXPATHS": 2 if quick else 3, "VERIF_STRIDE": 4 if quick else 1, "VERIF_STRIDE3": 3})
    metas["trees"] = _drive(ctx, binary, "TestTrees", "trees",
                            {"VERIF_WIDE": 0 if quick else 1, "VERIF_CMDS_PER_TREE": 1 if quick else 2})
    metas["random"] = _drive(ctx, binary, "TestRandom", "random",
                             {"VERIF_N": 1000 if quick else 6000})
    for m in metas.values():
        m.pop("files", None)
    return vlib.finish(
        ctx,
        rule="OutputHierarchy.tla is a reference model of NewOutputHierarchy / CreateParentDirectories / UploadOutputs as a pure "
             "function (Resolve with escape detection, ParentDirs, Expected, Tree well-formedness and denotation). TLC checks its "
             "internal consistency (resolution normalised/idempotent/compositional, escapes final, parent directories = proper "
             "prefixes, Expected within Declared, canonical Trees well-formed and denoting, damaged Trees rejected) over every command "
             "with working directory <=1 (thorough: <=2) component and <=2 output paths of <=2 components over {a,b,.,..} and over "
             "every tree of depth <=2 on two names. The real code runs (a) directly: NewOutputHierarchy, CreateParentDirectories, "
             "UploadOutputs on a real virtual build directory (in-memory prepopulated directory, pool-backed files written through "
             "the VFS API, input roots merged lazily from the CAS) or a naive build directory on the local file system, and (b) "
             "through the real localBuildExecutor with a fake runner, against an in-memory CAS, on: the commands of the small space "
             "(quick: all with <=1 path and every 4th with 2; thorough: all with <=2 and every 3rd multiset of 3; one catalogue tree "
             "each), every tree of a small family (1 resp. 2 of 5 fixed commands each), seeded random deeper cases. The harness decodes ActionResult and "
             "Tree blobs at wire level into plain records; TLC compares every case with Expected() and the Tree operators. "
             "Distinct = distinct specification states + validated events.",
        explanation="reference-model conformance of output_hierarchy.go over virtual_build_directory.go / naive_build_directory.go / local_build_executor.go",
        exhaustive=True,
        extra={"generators": metas},
    )


def replay(ctx, path):
    vlib.validate_traces(ctx, path, TRACE, TCFG, DEPS, "replay", classify=classify)
    return vlib.finish(ctx, rule="replay of a saved trace", explanation="replay")
