SPECIFICATION TraceSpec
INVARIANTS
  VerdictOK
POSTCONDITION TraceAccepted
CHECK_DEADLOCK FALSE
