package locks

// Gated lock-order scenarios on the real directory tree.
//
// The directory calls its ComponentNormalizer while it holds its locks.
// A normalizer that parks on chosen names therefore lets the driver keep
// the lock of any directory held ("holder": LookupChild of a gate name)
// for as long as it wants, with the real sync.Mutex. A scenario holds two
// directories, starts two calls that need several locks each (renames in
// opposite directions, between parent and child, onto a directory,
// removals, listings with child attributes, bulk removals, entering), and
// releases the holders one after the other, waiting in between until
// every call is parked in a mutex again. This steers the calls into the
// states "holds one lock, needs the other" from both sides, which random
// timing reaches only by luck. All calls must return; afterwards all
// locks are probed. The driver only records; LockBalanceTrace judges.

import (
	"fmt"
	"strings"
	"sync"
	"testing"
	"time"

	"github.com/buildbarn/bb-remote-execution/pkg/filesystem/virtual"
	"github.com/buildbarn/bb-storage/pkg/filesystem/path"

	"verif/harness/common"
)

type gate struct {
	entered chan struct{}
	release chan struct{}
}

type gateNormalizer struct {
	mu    sync.Mutex
	gates map[string]*gate
}

func (g *gateNormalizer) Normalize(c path.Component) virtual.NormalizedComponent {
	g.mu.Lock()
	gt := g.gates[c.String()]
	delete(g.gates, c.String())
	g.mu.Unlock()
	if gt != nil {
		close(gt.entered)
		<-gt.release
	}
	return virtual.CaseSensitiveComponentNormalizer.Normalize(c)
}

func (g *gateNormalizer) arm(name string) *gate {
	gt := &gate{entered: make(chan struct{}), release: make(chan struct{})}
	g.mu.Lock()
	g.gates[name] = gt
	g.mu.Unlock()
	return gt
}

// gtree is the fixture: root/{A,B}; A/{f,g,n/{x,y/},e/}; B likewise.
type gtree struct {
	e    *env
	dirs map[string]virtual.PrepopulatedDirectory
}

func newGTree(tr *common.Trace, gn *gateNormalizer, fuse bool) *gtree {
	e := newEnvWith(tr, envOptions{normalizer: gn, fuse: fuse, quiet: true})
	t := &gtree{e: e, dirs: map[string]virtual.PrepopulatedDirectory{"root": e.root}}
	for _, c := range []string{"A", "B"} {
		d := e.mkdir(e.root, c)
		t.dirs[c] = d
		e.mkfile(d, "f")
		e.mkfile(d, "g")
		n := e.mkdir(d, "n")
		t.dirs[c+"n"] = n
		e.mkfile(n, "x")
		e.mkdir(n, "y")
		t.dirs[c+"e"] = e.mkdir(d, "e")
	}
	// (FUSE: registers the notifier that models the kernel)
	e.probeFUSE("fixture")
	return t
}

type gOp struct {
	name string
	call string
	f    func(t *gtree) string
}

func gRename(from, old, to, new string) gOp {
	return gOp{fmt.Sprintf("rename %s/%s->%s/%s", from, old, to, new), "VirtualRename", func(t *gtree) string {
		_, _, s := t.dirs[from].VirtualRename(ctxBG, comp(old), t.dirs[to], comp(new))
		return st(s)
	}}
}

// gOps are the calls the scenarios combine. Directories are only moved
// where no directory can end up inside itself.
var gOps = []gOp{
	gRename("A", "f", "B", "f2"),       // siblings, one direction
	gRename("B", "f", "A", "f2"),       // siblings, the other direction
	gRename("A", "g", "An", "g2"),      // parent -> child
	gRename("An", "x", "A", "x2"),      // child -> parent
	gRename("B", "g", "A", "n"),        // leaf onto a directory: third lock
	gRename("An", "x", "B", "n"),       // out of a directory onto a directory
	gRename("A", "e", "B", "e"),        // directory replaces an empty directory
	gRename("B", "e", "An", "e3"),      // directory into a directory further down
	gRename("root", "A", "root", "A2"), // rename of a container in the root
	gRename("A", "f", "root", "rf"),    // up into the root
	{"lookup A/n (child attributes)", "VirtualLookup", func(t *gtree) string {
		var out virtual.Attributes
		_, s := t.dirs["A"].VirtualLookup(ctxBG, comp("n"), maskLocked, &out)
		return st(s)
	}},
	{"readdir A (child attributes)", "VirtualReadDir", func(t *gtree) string {
		return st(t.dirs["A"].VirtualReadDir(ctxBG, 0, maskLocked, &reporter{}))
	}},
	{"readdir root (child attributes)", "VirtualReadDir", func(t *gtree) string {
		return st(t.dirs["root"].VirtualReadDir(ctxBG, 0, maskLocked, &reporter{}))
	}},
	{"rmdir A/e", "VirtualRemove", func(t *gtree) string {
		_, s := t.dirs["A"].VirtualRemove(ctxBG, comp("e"), true, true)
		return st(s)
	}},
	{"rmdir A/n (not empty)", "VirtualRemove", func(t *gtree) string {
		_, s := t.dirs["A"].VirtualRemove(ctxBG, comp("n"), true, true)
		return st(s)
	}},
	{"Remove A/e", "Remove", func(t *gtree) string { return errClass(t.dirs["A"].Remove(comp("e"))) }},
	{"RemoveAll root/A", "RemoveAll", func(t *gtree) string { return errClass(t.dirs["root"].RemoveAll(comp("A"))) }},
	{"RemoveAll A/n", "RemoveAll", func(t *gtree) string { return errClass(t.dirs["A"].RemoveAll(comp("n"))) }},
	{"RemoveAllChildren A", "RemoveAllChildren", func(t *gtree) string { return errClass(t.dirs["A"].RemoveAllChildren(true)) }},
	{"enter root/A", "CreateAndEnterPrepopulatedDirectory", func(t *gtree) string {
		d, err := t.dirs["root"].CreateAndEnterPrepopulatedDirectory(comp("A"))
		if err == nil {
			t.e.addDir(d)
		}
		return errClass(err)
	}},
	{"enter A/e", "CreateAndEnterPrepopulatedDirectory", func(t *gtree) string {
		d, err := t.dirs["A"].CreateAndEnterPrepopulatedDirectory(comp("e"))
		if err == nil {
			t.e.addDir(d)
		}
		return errClass(err)
	}},
	{"mkdir A/n/z", "VirtualMkdir", func(t *gtree) string {
		var out virtual.Attributes
		d, _, s := t.dirs["An"].VirtualMkdir(ctxBG, comp("z"), &virtual.Attributes{}, maskLocked, &out)
		if s == virtual.StatusOK {
			t.e.addDirectory(d)
		}
		return st(s)
	}},
	{"CreateChildren A (overwrite n)", "CreateChildren", func(t *gtree) string {
		return errClass(t.dirs["A"].CreateChildren(map[path.Component]virtual.InitialChild{
			comp("n"): dirChild(t.e.okFetcher(nil)),
		}, true))
	}},
	{"FilterChildren root (remove all)", "FilterChildren", func(t *gtree) string {
		return errClass(t.dirs["root"].FilterChildren(func(node virtual.InitialChild, remove virtual.ChildRemover) bool {
			remove()
			return true
		}))
	}},
}

var gHoldable = []string{"root", "A", "B", "An", "Bn", "Ae"}

type gScenario struct {
	hold [2]string // directories held, released in this order
	ops  [2]int
	fuse bool
}

func (sc gScenario) String() string {
	return fmt.Sprintf("hold=%s,%s;%s | %s", sc.hold[0], sc.hold[1], gOps[sc.ops[0]].name, gOps[sc.ops[1]].name)
}

// gNamed are the scenarios of the property statement, always run: renames
// in opposite directions (siblings; parent and child) with the source
// and the target directory held in both orders, and removals of the
// directory that is being entered or listed.
func gNamed() []gScenario {
	var out []gScenario
	add := func(a, b int, h1, h2 string) {
		out = append(out, gScenario{hold: [2]string{h1, h2}, ops: [2]int{a, b}}, gScenario{hold: [2]string{h2, h1}, ops: [2]int{a, b}})
	}
	add(0, 1, "A", "B")      // opposite, siblings
	add(2, 3, "A", "An")     // opposite, parent and child
	add(4, 5, "An", "Bn")    // onto directories
	add(4, 3, "A", "An")     // third lock against child -> parent
	add(0, 6, "A", "B")      // file and directory the same way
	add(7, 5, "An", "B")     // into and out of A/n
	add(9, 8, "root", "A")   // with the root
	add(16, 20, "root", "A") // bulk removal of a directory being entered
	add(16, 19, "root", "A")
	add(18, 2, "A", "An")
	add(13, 20, "A", "Ae") // rmdir against enter
	add(12, 8, "root", "A")
	add(11, 3, "A", "An")
	add(10, 3, "A", "An")
	add(23, 0, "root", "A")
	add(22, 5, "A", "An")
	return out
}

// gSettle gives the calls that were started or woken time to run until
// each of them waits again (for a mutex) or has finished. It only
// sequences the scenario; it never decides anything, and a scenario that
// is steered less precisely on a busy machine is still a valid one.
func gSettle(hs []*inflight) {
	stable := 0
	for i := 0; i < 60 && stable < 2; i++ {
		time.Sleep(100 * time.Microsecond)
		dump := goroutineDump()
		all := true
		for _, h := range hs {
			if len(h.done) > 0 {
				continue
			}
			for _, g := range dump {
				if strings.HasPrefix(g.stack, h.id+" [") && !isMutexWait(g.state) && !isChannelWait(g.state) {
					all = false
				}
			}
		}
		if all {
			stable++
		} else {
			stable = 0
		}
	}
}

func runGated(tr *common.Trace, trace int, sc gScenario) {
	gn := &gateNormalizer{gates: map[string]*gate{}}
	t := newGTree(tr, gn, sc.fuse)
	e := t.e
	tr.Emit(common.Ev{"ev": "reset", "trace": trace, "mode": "gated", "scenario": sc.String(), "fuse": sc.fuse})
	// The holders.
	var gates []*gate
	var hs []*inflight
	var names, calls []string
	for k, d := range sc.hold {
		gname := fmt.Sprintf("gate%d", k)
		gt := gn.arm(gname)
		dir := t.dirs[d]
		hs = append(hs, startWatched(func() string {
			_, err := dir.LookupChild(comp(gname))
			return errClass(err)
		}))
		names = append(names, "holder of "+d)
		calls = append(calls, "LookupChild")
		<-gt.entered
		gates = append(gates, gt)
	}
	// The calls.
	nHolders := len(hs)
	for _, oi := range sc.ops {
		o := gOps[oi]
		hs = append(hs, startWatched(func() string { return o.f(t) }))
		names = append(names, o.name)
		calls = append(calls, o.call)
	}
	gSettle(hs[nHolders:])
	for k, gt := range gates {
		close(gt.release)
		gSettle(hs[k+1:])
	}
	// Every gate is open: everything must return now. A deadlock is read
	// off one consistent snapshot of all goroutines (see blockedKind);
	// the clock only bounds a run that is neither finished nor blocked.
	results := make([]callResult, len(hs))
	got := make([]bool, len(hs))
	lastProgress := time.Now()
	pause := 100 * time.Microsecond
	for {
		var pending []string
		for k, h := range hs {
			if got[k] {
				continue
			}
			select {
			case r := <-h.done:
				results[k], got[k] = r, true
				lastProgress = time.Now()
				pause = 100 * time.Microsecond
			default:
				pending = append(pending, h.id)
			}
		}
		if len(pending) == 0 {
			break
		}
		if time.Since(lastProgress) > 20*time.Millisecond {
			kind, stacks := blockedKind(goroutineDump(), pending)
			if kind == "mutex" {
				// (a result may have arrived just before the snapshot)
				arrived := false
				for k, h := range hs {
					if !got[k] && len(h.done) > 0 {
						arrived = true
					}
				}
				if !arrived {
					hangCount.Add(1)
					tr.Emit(common.Ev{"ev": "deadlock", "obj": "dir", "workers": len(hs), "unfinished": len(pending), "parked": len(pending), "progress": len(hs) - len(pending), "stacks": "scenario " + sc.String() + "\n" + stacks})
					return
				}
			}
			if kind == "channel" || time.Since(lastProgress) > 6*watchdog {
				panic(fmt.Sprintf("INFRA: gated scenario %s makes no progress but its calls are not waiting for mutexes (%s)", sc, kind))
			}
		}
		time.Sleep(pause)
		if pause < 50*time.Millisecond {
			pause *= 2
		}
	}
	e.discover()
	busy := e.busy()
	for k := range hs {
		if results[k].panic != "" {
			tr.Emit(common.Ev{"ev": "panic", "obj": "dir", "call": calls[k], "variant": "gated;" + names[k], "msg": results[k].panic, "locks_free": len(busy) == 0, "busy": busy})
			continue
		}
		tr.Emit(common.Ev{"ev": "call", "obj": "dir", "call": calls[k], "variant": "gated;" + names[k], "outcome": results[k].outcome, "locks_free": len(busy) == 0, "busy": busy})
	}
	if len(busy) == 0 {
		e.probeFUSE("gated-scenario")
	}
}

// TestDirGated runs the named scenarios and a seeded sample (VERIF_N) of
// all combinations of two held directories (in both release orders) and
// two calls.
func TestDirGated(t *testing.T) {
	n := common.EnvInt("VERIF_N", 300)
	tr := common.NewTrace("trace.ndjson")
	defer tr.Close()
	scenarios := gNamed()
	rng := common.Rand(17000)
	for i := 0; i < n; i++ {
		var sc gScenario
		h := rng.Perm(len(gHoldable))
		sc.hold = [2]string{gHoldable[h[0]], gHoldable[h[1]]}
		sc.ops = [2]int{rng.Intn(len(gOps)), rng.Intn(len(gOps))}
		sc.fuse = i%4 == 3
		scenarios = append(scenarios, sc)
	}
	ran := 0
	for i, sc := range scenarios {
		if hangCount.Load() >= maxHangs {
			break
		}
		runGated(tr, i, sc)
		ran++
	}
	common.WriteJSON("meta.json", map[string]any{"scenarios": ran, "named": len(gNamed())})
}
