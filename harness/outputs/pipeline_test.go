// The composed worker pipeline for property C09, with the REAL base
// executor: the decorator order of cmd/bb_worker/main.go
//
//	Caching(Metrics(FilePoolStats(Timestamped(StorageFlushing(
//	  localBuildExecutor, flush)))))
//
// where localBuildExecutor, its OutputHierarchy and its build directory
// (virtual or native) upload through the real BatchedStoreBlobAccess (as
// contentAddressableStorageWriter does in bb_worker), on top of an
// instrumented CAS / AC with fault injection. harness/execpipe drives the
// same stack with a scripted, well-behaved base executor; here nothing is
// assumed about the base: every Put it makes through the batching writer is
// logged, and so is every blob its response references (the files inside
// output directories and, with root_directory_digest, the Directory
// messages included).
//
// The events have the format of harness/execpipe and are judged by
// specs/ExecPipelineTrace.tla: reset, cas, bput, bret, flush, mid, ac,
// resp, end (panic). Nothing is judged here.
package outputs

import (
	"context"
	"fmt"
	"net/url"
	"os"
	"path/filepath"
	"sort"
	"strings"
	"sync"
	"testing"
	"time"

	remoteexecution "github.com/bazelbuild/remote-apis/build/bazel/remote/execution/v2"
	re_blobstore "github.com/buildbarn/bb-remote-execution/pkg/blobstore"
	"github.com/buildbarn/bb-remote-execution/pkg/builder"
	"github.com/buildbarn/bb-remote-execution/pkg/filesystem/access"
	"github.com/buildbarn/bb-remote-execution/pkg/filesystem/pool"
	"github.com/buildbarn/bb-remote-execution/pkg/filesystem/virtual"
	"github.com/buildbarn/bb-remote-execution/pkg/proto/remoteworker"
	"github.com/buildbarn/bb-storage/pkg/blobstore"
	"github.com/buildbarn/bb-storage/pkg/blobstore/buffer"
	"github.com/buildbarn/bb-storage/pkg/blobstore/slicing"
	"github.com/buildbarn/bb-storage/pkg/clock"
	"github.com/buildbarn/bb-storage/pkg/digest"
	"github.com/buildbarn/bb-storage/pkg/filesystem/path"

	"golang.org/x/sync/semaphore"
	"google.golang.org/grpc/codes"
	"google.golang.org/grpc/status"
	"google.golang.org/protobuf/proto"
	"google.golang.org/protobuf/types/known/durationpb"

	"verif/harness/common"
)

// ---------------------------------------------------------------------
// Scenario and faults (as in harness/execpipe).

type pipeScenario struct {
	c      *caseT
	batch  int
	sem    int
	dnc    bool
	exit   int
	stdout int // index into contents (0: prints nothing)
	stderr int
	slog   int // server log
}

type pfault struct {
	Kind string // batch.fm | batch.put | caching.put | ac.put
	K    int
	What string // fail | cancel | okcancel
}

type pcall struct {
	Kind string
	K    int
	Res  string
}

var pfaultKinds = []string{"fail", "cancel", "okcancel"}

func psucceeded(res string) bool { return res == "ok" || res == "okcancel" }

func perrorFor(res string) error {
	switch res {
	case "fail":
		return status.Error(codes.Unavailable, "injected storage failure")
	case "cancel", "ctxdone":
		return status.Error(codes.Canceled, "context canceled")
	case "baddata":
		return status.Error(codes.InvalidArgument, "contents do not match digest")
	}
	return nil
}

// ---------------------------------------------------------------------
// The world: blob store, AC, fault script, log.

type pipeWorld struct {
	mu     sync.Mutex
	tr     *common.Trace
	store  *fakeCAS
	hist   map[string]bool // names stored by the caching executor (historical responses)
	ac     []common.Ev
	faults map[string]map[int]string
	counts map[string]int
	calls  []pcall
	cancel context.CancelFunc
	nbput  int
}

// blobName is the identity of a digest in the trace.
func blobName(hash string, size int64) string {
	if len(hash) > 10 {
		hash = hash[:10]
	}
	return fmt.Sprintf("%s/%d", hash, size)
}

func nameOfDigest(d digest.Digest) string { return blobName(d.GetHashString(), d.GetSizeBytes()) }

func nameOfProto(d *remoteexecution.Digest) string {
	if d == nil {
		return "nil"
	}
	return blobName(d.Hash, d.SizeBytes)
}

func (w *pipeWorld) outcome(ctx context.Context, kind string) (string, int) {
	w.counts[kind]++
	k := w.counts[kind]
	res := "ok"
	if ctx.Err() != nil {
		res = "ctxdone"
	} else if f, ok := w.faults[kind][k]; ok {
		res = f
		if f == "cancel" {
			w.cancel()
		}
	}
	w.calls = append(w.calls, pcall{kind, k, res})
	return res, k
}

func (w *pipeWorld) after(res string) {
	if res == "okcancel" {
		w.cancel()
	}
}

func (w *pipeWorld) emit(ev common.Ev) {
	w.mu.Lock()
	w.tr.Emit(ev)
	w.mu.Unlock()
}

// storedNames lists what the CAS holds (historical responses aside).
func (w *pipeWorld) storedNames() []string {
	w.store.mu.Lock()
	defer w.store.mu.Unlock()
	out := []string{}
	for _, data := range w.store.blobs {
		n := blobName(hashOf(data), int64(len(data)))
		if !w.hist[n] {
			out = append(out, n)
		}
	}
	sort.Strings(out)
	return out
}

// pipeView is the CAS as seen by one user: the batching layer ("batch")
// or the caching executor ("caching"). Reads are neither logged nor
// fault-injected: the property is about writes.
type pipeView struct {
	w   *pipeWorld
	via string
}

func (v *pipeView) GetCapabilities(ctx context.Context, instanceName digest.InstanceName) (*remoteexecution.ServerCapabilities, error) {
	return nil, status.Error(codes.Unimplemented, "not needed")
}

func (v *pipeView) Get(ctx context.Context, d digest.Digest) buffer.Buffer {
	return v.w.store.Get(ctx, d)
}

func (v *pipeView) GetFromComposite(ctx context.Context, parentDigest, childDigest digest.Digest, slicer slicing.BlobSlicer) buffer.Buffer {
	return v.w.store.Get(ctx, childDigest)
}

func (v *pipeView) Put(ctx context.Context, d digest.Digest, b buffer.Buffer) error {
	w := v.w
	w.mu.Lock()
	defer w.mu.Unlock()
	res, k := w.outcome(ctx, v.via+".put")
	n := nameOfDigest(d)
	if psucceeded(res) {
		// Consuming the buffer validates the contents against the digest.
		data, err := b.ToByteSlice(1 << 24)
		if err != nil || hashOf(data) != d.GetHashString() || int64(len(data)) != d.GetSizeBytes() {
			res = "baddata"
		} else {
			w.store.mu.Lock()
			w.store.blobs[casKey(d.GetHashString(), d.GetSizeBytes())] = data
			w.store.mu.Unlock()
			if v.via == "caching" {
				w.hist[n] = true
			}
		}
	} else {
		b.Discard()
	}
	w.tr.Emit(common.Ev{"ev": "cas", "via": v.via, "op": "put", "ds": []string{n}, "res": res, "missing": []string{}, "k": k})
	w.after(res)
	return perrorFor(res)
}

func (v *pipeView) FindMissing(ctx context.Context, digests digest.Set) (digest.Set, error) {
	w := v.w
	w.mu.Lock()
	defer w.mu.Unlock()
	res, k := w.outcome(ctx, v.via+".fm")
	ds, missing := []string{}, []string{}
	mb := digest.NewSetBuilder(0)
	for _, d := range digests.Items() {
		n := nameOfDigest(d)
		ds = append(ds, n)
		if _, ok := w.store.lookup(d.GetProto()); psucceeded(res) && !ok {
			missing = append(missing, n)
			mb.Add(d)
		}
	}
	w.tr.Emit(common.Ev{"ev": "cas", "via": v.via, "op": "fm", "ds": ds, "res": res, "missing": missing, "k": k})
	w.after(res)
	if !psucceeded(res) {
		return digest.EmptySet, perrorFor(res)
	}
	return mb.Build(), nil
}

// bputLogger logs every Put the base executor (and its build directory)
// makes through the batching writer, with the reply it got.
type bputLogger struct {
	blobstore.BlobAccess
	w *pipeWorld
}

func (l *bputLogger) Put(ctx context.Context, d digest.Digest, b buffer.Buffer) error {
	err := l.BlobAccess.Put(ctx, d, b)
	w := l.w
	w.mu.Lock()
	w.nbput++
	w.tr.Emit(common.Ev{"ev": "bput", "i": w.nbput, "d": nameOfDigest(d), "role": "", "err": err != nil, "code": int(status.Code(err))})
	w.mu.Unlock()
	return err
}

// pipeAC is the Action Cache.
type pipeAC struct{ w *pipeWorld }

func (a *pipeAC) GetCapabilities(ctx context.Context, instanceName digest.InstanceName) (*remoteexecution.ServerCapabilities, error) {
	return nil, status.Error(codes.Unimplemented, "not needed")
}

func pemptyResult() common.Ev {
	return common.Ev{"exit": 0, "files": []string{}, "dirs": []string{}, "stdout": []string{}, "stderr": []string{}, "decoded": false}
}

func (a *pipeAC) other(ctx context.Context, op string) {
	w := a.w
	w.mu.Lock()
	defer w.mu.Unlock()
	res, k := w.outcome(ctx, "ac."+op)
	w.tr.Emit(common.Ev{"ev": "ac", "op": op, "res": res, "result": pemptyResult(), "k": k})
	w.after(res)
}

func (a *pipeAC) Get(ctx context.Context, d digest.Digest) buffer.Buffer {
	a.other(ctx, "get")
	return buffer.NewBufferFromError(status.Error(codes.NotFound, "no such action result"))
}

func (a *pipeAC) GetFromComposite(ctx context.Context, parentDigest, childDigest digest.Digest, slicer slicing.BlobSlicer) buffer.Buffer {
	return a.Get(ctx, childDigest)
}

func (a *pipeAC) FindMissing(ctx context.Context, digests digest.Set) (digest.Set, error) {
	a.other(ctx, "fm")
	return digests, nil
}

func (a *pipeAC) Put(ctx context.Context, d digest.Digest, b buffer.Buffer) error {
	w := a.w
	w.mu.Lock()
	defer w.mu.Unlock()
	res, k := w.outcome(ctx, "ac.put")
	p := pemptyResult()
	if m, err := b.ToProto(&remoteexecution.ActionResult{}, 1<<20); err == nil {
		p = w.projectResult(m.(*remoteexecution.ActionResult))
	} else if psucceeded(res) {
		res = "baddata"
	}
	if psucceeded(res) {
		w.ac = append(w.ac, p)
	}
	w.tr.Emit(common.Ev{"ev": "ac", "op": "put", "res": res, "result": p, "k": k})
	w.after(res)
	return perrorFor(res)
}

var (
	_ blobstore.BlobAccess = (*pipeView)(nil)
	_ blobstore.BlobAccess = (*pipeAC)(nil)
)

// ---------------------------------------------------------------------
// Projections: every blob a result references, directly or through a
// Tree (files inside output directories; with root_directory_digest also
// the Directory messages, which the client then fetches one by one).

func (w *pipeWorld) treeRefs(od *remoteexecution.OutputDirectory, add func(string)) {
	blob, ok := w.store.lookup(od.TreeDigest)
	if !ok {
		return // the Tree itself is listed and will be found missing
	}
	var tree remoteexecution.Tree
	if err := proto.Unmarshal(blob, &tree); err != nil {
		add("undecodable-tree:" + nameOfProto(od.TreeDigest))
		return
	}
	dirs := append([]*remoteexecution.Directory{}, tree.Children...)
	if tree.Root != nil {
		dirs = append(dirs, tree.Root)
	}
	for _, d := range dirs {
		for _, f := range d.Files {
			add(nameOfProto(f.Digest))
		}
		if od.RootDirectoryDigest != nil {
			for _, s := range d.Directories {
				add(nameOfProto(s.Digest))
			}
		}
	}
}

func (w *pipeWorld) projectResult(r *remoteexecution.ActionResult) common.Ev {
	p := pemptyResult()
	if r == nil {
		return p
	}
	p["decoded"] = true
	p["exit"] = int(r.ExitCode)
	files, dirs := []string{}, []string{}
	seen := map[string]bool{}
	addDir := func(n string) {
		if !seen[n] {
			seen[n] = true
			dirs = append(dirs, n)
		}
	}
	for _, f := range r.OutputFiles {
		if f.Digest != nil {
			files = append(files, nameOfProto(f.Digest))
		}
	}
	for _, d := range r.OutputDirectories {
		if d.TreeDigest != nil {
			addDir(nameOfProto(d.TreeDigest))
			w.treeRefs(d, addDir)
		}
		if d.RootDirectoryDigest != nil {
			addDir(nameOfProto(d.RootDirectoryDigest))
		}
	}
	p["files"], p["dirs"] = files, dirs
	if r.StdoutDigest != nil {
		p["stdout"] = []string{nameOfProto(r.StdoutDigest)}
	}
	if r.StderrDigest != nil {
		p["stderr"] = []string{nameOfProto(r.StderrDigest)}
	}
	return p
}

func (w *pipeWorld) projectResponse(r *remoteexecution.ExecuteResponse) common.Ev {
	p := w.projectResult(r.GetResult())
	p["hasresult"] = r.GetResult() != nil
	delete(p, "decoded")
	p["code"] = int(r.GetStatus().GetCode())
	logs := []string{}
	for _, l := range r.GetServerLogs() {
		if l.GetDigest() != nil {
			logs = append(logs, nameOfProto(l.Digest))
		}
	}
	sort.Strings(logs)
	p["logs"] = logs
	msg := ""
	switch {
	case strings.HasPrefix(r.GetMessage(), "Action details (cached result)"):
		msg = "cached"
	case strings.HasPrefix(r.GetMessage(), "Action details (uncached result)"):
		msg = "uncached"
	case r.GetMessage() != "":
		msg = "other"
	}
	p["msg"] = msg
	p["status"] = errMsg(status.ErrorProto(r.GetStatus()))
	return p
}

// ---------------------------------------------------------------------
// Observers around the real executors.

type pipeObserver struct {
	builder.BuildExecutor
	w  *pipeWorld
	ev string // "bret": the base executor returned; "mid": the response enters the caching executor
}

func (o *pipeObserver) Execute(ctx context.Context, filePool pool.FilePool, monitor access.UnreadDirectoryMonitor, digestFunction digest.Function, request *remoteworker.DesiredState_Executing, executionStateUpdates chan<- *remoteworker.CurrentState_Executing) *remoteexecution.ExecuteResponse {
	response := o.BuildExecutor.Execute(ctx, filePool, monitor, digestFunction, request, executionStateUpdates)
	o.w.mu.Lock()
	o.w.tr.Emit(common.Ev{"ev": o.ev, "resp": o.w.projectResponse(response)})
	o.w.mu.Unlock()
	return response
}

// writeBuildFile writes a file of the build directory (stdout, stderr, a
// server log) the way the runner / the command would.
func (e *env) writeBuildFile(p string, data []byte) error {
	if e.nativeBase != "" {
		return os.WriteFile(filepath.Join(e.nativeBase, p), data, 0o644)
	}
	comps := strings.Split(p, "/")
	d := e.top
	for _, c := range comps[:len(comps)-1] {
		child, err := d.LookupChild(path.MustNewComponent(c))
		if err != nil {
			return err
		}
		sub, _ := child.GetPair()
		if sub == nil {
			return fmt.Errorf("%q is not a directory", c)
		}
		d = sub
	}
	name := path.MustNewComponent(comps[len(comps)-1])
	var out virtual.Attributes
	leaf, _, _, s := d.VirtualOpenChild(e.ctx, name, virtual.ShareMaskWrite,
		(&virtual.Attributes{}).SetPermissions(virtual.PermissionsRead|virtual.PermissionsWrite), &virtual.OpenExistingOptions{}, 0, &out)
	if s != virtual.StatusOK {
		return vfsErr("create", name, s)
	}
	defer leaf.VirtualClose(virtual.ShareMaskWrite)
	if n, s := leaf.VirtualWrite(e.ctx, data, 0); s != virtual.StatusOK || n != len(data) {
		return vfsErr("write", name, s)
	}
	return nil
}

// ---------------------------------------------------------------------
// One run.

var pipeBrowserURL = &url.URL{Scheme: "http", Host: "browser.example.com"}

func describeFaults(script []pfault) string {
	parts := []string{}
	for _, f := range script {
		parts = append(parts, fmt.Sprintf("%s#%d=%s", f.Kind, f.K, f.What))
	}
	return strings.Join(parts, ",")
}

var pipeRunCounter int

// pipeExecuteWatchdog bounds one Execute call in real time
// (VERIF_EXEC_WATCHDOG_S seconds, default 900). Exceeding it is an
// infrastructure failure.
var pipeExecuteWatchdog = time.Duration(common.EnvInt("VERIF_EXEC_WATCHDOG_S", 900)) * time.Second

func runPipeline(t *testing.T, tr *common.Trace, sc *pipeScenario, script []pfault) []pcall {
	pipeRunCounter++
	c := sc.c
	ctx, cancel := context.WithCancel(context.Background())
	defer cancel()
	w := &pipeWorld{tr: tr, store: newFakeCAS(), hist: map[string]bool{}, faults: map[string]map[int]string{}, counts: map[string]int{}, cancel: cancel}
	for _, f := range script {
		if w.faults[f.Kind] == nil {
			w.faults[f.Kind] = map[int]string{}
		}
		w.faults[f.Kind][f.K] = f.What
	}

	writer, flusher := re_blobstore.NewBatchedStoreBlobAccess(
		&pipeView{w: w, via: "batch"}, digest.KeyWithoutInstance, sc.batch, semaphore.NewWeighted(int64(sc.sem)))
	logged := &bputLogger{BlobAccess: writer, w: w}
	x, err := newExecEnvWith(c.native, w.store, logged, c.force)
	if err != nil {
		panic(harnessError{err})
	}
	defer x.releaseExec()
	x.runner.exit = sc.exit
	x.runner.stdout, x.runner.stderr, x.runner.serverLog = contents[sc.stdout], contents[sc.stderr], contents[sc.slog]
	x.runner.onRun = func() error {
		if err := x.bindInputRoot(); err != nil {
			return err
		}
		if c.prod != nil {
			return x.produce(c.prod)
		}
		return nil
	}
	loggedFlusher := func(ctx context.Context) error {
		err := flusher(ctx)
		w.emit(common.Ev{"ev": "flush", "err": err != nil, "code": int(status.Code(err))})
		return err
	}
	var executor builder.BuildExecutor = builder.NewMetricsBuildExecutor(
		builder.NewFilePoolStatsBuildExecutor(
			builder.NewTimestampedBuildExecutor(
				builder.NewStorageFlushingBuildExecutor(
					&pipeObserver{BuildExecutor: x.executor, w: w, ev: "bret"}, loggedFlusher),
				clock.SystemClock, "verif-worker")))
	executor = builder.NewCachingBuildExecutor(
		&pipeObserver{BuildExecutor: executor, w: w, ev: "mid"},
		&pipeView{w: w, via: "caching"}, &pipeAC{w: w}, pipeBrowserURL)

	// The action, as a client would have uploaded it.
	pre := c.pre
	if pre == nil {
		pre = dirN()
	}
	inputRootDigest := x.storeDirectory(pre)
	commandData, err := proto.Marshal(c.command())
	if err != nil {
		panic(harnessError{err})
	}
	action := &remoteexecution.Action{
		CommandDigest:   w.store.putRaw(commandData),
		InputRootDigest: inputRootDigest,
		Timeout:         durationpb.New(time.Hour),
		DoNotCache:      sc.dnc,
	}
	actionData, err := proto.Marshal(action)
	if err != nil {
		panic(harnessError{err})
	}
	request := &remoteworker.DesiredState_Executing{
		ActionDigest: w.store.putRaw(actionData),
		Action:       action,
	}

	paths := []string{}
	for _, p := range c.paths {
		paths = append(paths, strings.Join(p, "/"))
	}
	prodDesc := ""
	if c.prod != nil {
		prodDesc = c.prod.describe()
	}
	w.emit(common.Ev{
		"ev": "reset", "trace": pipeRunCounter, "batch": sc.batch, "sem": sc.sem, "dnc": sc.dnc, "req": "good",
		"baseok": true, "exit": 0, "pre": w.storedNames(), "puts": []string{}, "script": describeFaults(script),
		"base": "localBuildExecutor", "native": c.native, "force": c.force, "format": formatName(c.format),
		"wd": strings.Join(c.wd, "/"), "paths": paths, "prod": prodDesc, "cmdexit": sc.exit,
	})

	updates := make(chan *remoteworker.CurrentState_Executing, 64)
	type outcome struct {
		response *remoteexecution.ExecuteResponse
		panicked any
	}
	done := make(chan outcome, 1)
	go func() {
		var o outcome
		defer func() {
			if r := recover(); r != nil {
				if he, ok := r.(harnessError); ok {
					panic(he.err)
				}
				o.panicked = r
			}
			done <- o
		}()
		o.response = executor.Execute(ctx, x.filePool, nil, x.df, request, updates)
	}()
	var o outcome
	select {
	case o = <-done:
	case <-time.After(pipeExecuteWatchdog):
		// Real time, so this is never a verdict: the driver fails, which
		// the check reports as inconclusive (exit 2). One run takes
		// milliseconds; the limit only ends a genuinely wedged process.
		tr.Close()
		t.Fatalf("INFRASTRUCTURE: Execute did not return within %s (case %s, script %s)", pipeExecuteWatchdog, prodDesc, describeFaults(script))
	}
	if x.runner.err != nil {
		panic(fmt.Errorf("fake runner: %w", x.runner.err))
	}

	if o.panicked != nil {
		w.emit(common.Ev{"ev": "panic", "msg": fmt.Sprint(o.panicked)})
	} else if o.response == nil {
		w.emit(common.Ev{"ev": "panic", "msg": "Execute returned a nil response"})
	} else {
		w.mu.Lock()
		w.tr.Emit(common.Ev{"ev": "resp", "resp": w.projectResponse(o.response)})
		w.mu.Unlock()
	}
	w.mu.Lock()
	calls := append([]pcall{}, w.calls...)
	tr.Emit(common.Ev{"ev": "end", "cas": w.storedNames(), "ac": append([]common.Ev{}, w.ac...), "bufs": []common.Ev{}, "calls": len(calls), "ran": x.runner.ran})
	w.mu.Unlock()
	return calls
}

// explorePipeline: the scenario without faults, then with every kind of
// fault at every storage call the fault-free run made (one fault per run).
func explorePipeline(t *testing.T, s *sink, sc *pipeScenario, runs *int) {
	calls := runPipeline(t, s.trace(), sc, nil)
	*runs++
	for _, c := range calls {
		for _, what := range pfaultKinds {
			runPipeline(t, s.trace(), sc, []pfault{{c.Kind, c.K, what}})
			*runs++
		}
	}
}

// trace returns the chunk to write the next run to.
func (s *sink) trace() *common.Trace {
	if s.tr == nil || s.inChunk >= s.chunk {
		if s.tr != nil {
			s.tr.Close()
		}
		name := fmt.Sprintf("trace_%03d.ndjson", len(s.files))
		s.files = append(s.files, name)
		s.tr = common.NewTrace(name)
		s.inChunk = 0
	}
	s.inChunk++
	s.cases++
	return s.tr
}

// pipelineCases: commands x produced trees that exercise every kind of
// referenced blob: output files (also empty ones), symlinks, output
// directories with nested / repeated / empty subdirectories, the input
// root itself as output directory, outputs taken over unchanged from the
// input root, stdout, stderr, server logs.
func pipelineCases() []*caseT {
	prods := prodCatalogue()
	pres := preCatalogue()
	type cmdT struct {
		wd    []string
		paths [][]string
	}
	cmds := []cmdT{
		{[]string{}, [][]string{{"a"}, {"b"}}},
		{[]string{}, [][]string{{}}},
		{[]string{"a"}, [][]string{{"a"}, {"b"}, {"..", "b"}}},
		{[]string{}, [][]string{{"a", "a"}, {"b", "a"}, {"b", "b"}, {"a"}}},
	}
	out := []*caseT{}
	// Empty files as outputs while the CAS does not hold the empty blob
	// beforehand (an empty Directory message is the empty blob, so the
	// input root must not be or contain an empty directory).
	emptyFiles := dirN("a", fileN(false, 0), "b", dirN("a", fileS(true, 0, 1), "b", fileN(false, 1)))
	for i, native := range []bool{false, true} {
		out = append(out, &caseT{gen: "pipeline-always", wd: []string{}, paths: [][]string{{"a"}, {"b"}}, prod: emptyFiles,
			pre: pres[2], native: native, format: i, exec: true})
	}
	n := 0
	for pi, prod := range prods {
		for ci, cm := range cmds {
			if (pi+ci)%2 != 0 {
				continue
			}
			c := &caseT{gen: "pipeline", wd: cm.wd, paths: cm.paths, prod: prod, exec: true}
			c.format = n % 3
			c.force = n%5 == 0
			c.native = n%4 == 1
			if n%3 == 0 {
				c.pre = pres[2+(n/3)%3] // roots that keep directories where parents are needed
			}
			out = append(out, c)
			n++
		}
	}
	return out
}

// TestPipeline: every case under batch sizes 1, 2 and 5 and every fault
// position (VERIF_PIPE_STRIDE=k keeps every k-th case; VERIF_PIPE_SEMS).
func TestPipeline(t *testing.T) {
	stride := common.EnvInt("VERIF_PIPE_STRIDE", 1)
	seed := int(common.Seed())
	sems := []int{1}
	if common.EnvInt("VERIF_PIPE_SEM2", 0) != 0 {
		sems = append(sems, 2)
	}
	s := newSink()
	s.chunk = common.EnvInt("VERIF_CHUNK", 1500)
	scenarios, runs := 0, 0
	for i, c := range pipelineCases() {
		if stride > 1 && (i+seed)%stride != 0 && c.gen != "pipeline-always" {
			continue
		}
		for bi, batch := range []int{1, 2, 5} {
			for _, sem := range sems {
				if sem > 1 && batch < 2 {
					continue
				}
				k := i + bi + seed
				sc := &pipeScenario{c: c, batch: batch, sem: sem}
				// Mostly the cacheable outcome; the others take turns.
				switch k % 7 {
				case 0:
					sc.exit = 1
				case 1:
					sc.dnc = true
				}
				sc.stdout = []int{0, 1, 3}[k%3]
				sc.stderr = []int{0, 0, 2}[(k/3)%3]
				sc.slog = []int{0, 2}[(k/2)%2]
				explorePipeline(t, s, sc, &runs)
				scenarios++
			}
		}
	}
	s.close(map[string]any{"scenarios": scenarios, "runs": runs, "exhaustive": false})
}
