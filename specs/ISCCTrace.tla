----------------------------- MODULE ISCCTrace -----------------------------
(***************************************************************************)
(* Validates traces recorded from the real code against ISCC.tla           *)
(* (property C07, parts 2 and 3).  Every line is consumed.                 *)
(*                                                                         *)
(* `verdict` is set only by predicates of the property evaluated on what   *)
(* the real code was observed to do ("C07:<reason>").  Whether the model   *)
(* explains a step (same next state / same learner and choice) is counted  *)
(* in `nonconf` and never decides anything.                                *)
(*                                                                         *)
(* Store traces (part 3): one line per scheduler command of the driver     *)
(* with the complete bookkeeping of the real store after it (hook) - the   *)
(* predicates of ISCC.tla are evaluated on that observed state.  The model *)
(* state `st` follows along: the candidates are the model steps under      *)
(* every allowed version rule / write guard; the one that equals the       *)
(* observation is kept, otherwise `st` is re-seated on the observation.    *)
(* Analyzer traces (part 2): one line per call on Analyzer / Selector /    *)
(* Learner, per consultation of the StrategyCalculator, per draw of the    *)
(* random number generator and per Release() of the stats handle.          *)
(***************************************************************************)
EXTENDS ISCC, Json, TLCExt

CONSTANT Slack     \* ppm of rounding tolerated in probabilities

TraceLog == ndJsonDeserialize("trace.ndjson")

VARIABLES l,        \* next line of TraceLog
          verdict,  \* "ok" or "C07:<reason>" for the last consumed line
          nonconf,  \* steps the model does not explain (never a verdict)
          synced,   \* store part: st was derived by model steps only
          pend      \* analyzer part: observations since the last call

tvars == <<st, an, hist, l, verdict, nonconf, synced, pend>>

Line == TraceLog[l]
IsEvent(e) == l <= Len(TraceLog) /\ Line.ev = e /\ l' = l + 1

Pend0 == [strat |-> <<>>, bucket |-> 0, nstrat |-> 0, bgto |-> 0, rels |-> <<>>, learned |-> FALSE]

TInit ==
  /\ st = StoreInit0 /\ an = AnInit0 /\ hist = <<>>
  /\ l = 1 /\ verdict = "ok" /\ nonconf = 0 /\ synced = TRUE /\ pend = Pend0

TReset ==
  /\ IsEvent("reset")
  /\ st' = StoreInit0 /\ an' = AnInit0 /\ synced' = TRUE /\ pend' = Pend0
  /\ verdict' = "ok" /\ UNCHANGED <<hist, nonconf>>

-----------------------------------------------------------------------------
(* Part 3: the store.                                                      *)

\* (content is logged as a bit mask: update u = bit u)
ObsOps(q) == {[k |-> q[i].k, h |-> q[i].h, c |-> Bits(q[i].c), v |-> 0, st |-> q[i].st] : i \in 1 .. Len(q)}

\* The observed state in the shape of the model state.
ObsState(o) ==
  [hs |-> [i \in 1 .. Len(o.hs) |->
             [dg |-> o.hs[i].dg, use |-> o.hs[i].use, wr |-> o.hs[i].wr,
              cur |-> o.hs[i].cur, c |-> Bits(o.hs[i].c)]],
   hmap |-> [d \in Digests |-> o.hmap[d]],
   queue |-> o.queue,
   backing |-> [d \in Digests |-> Bits(o.backing[d])],
   latest |-> [d \in Digests |-> Bits(o.latest[d])],
   th |-> [t \in Threads |->
             IF t \in DOMAIN o.th
             THEN [pc |-> o.th[t].pc, dg |-> o.th[t].dg, h |-> o.th[t].h, ex |-> o.th[t].ex,
                   ops |-> ObsOps(o.th[t].ops), err |-> FALSE, rc |-> {}]
             ELSE IdleThread],       \* the driver lists only threads that are not idle
   ng |-> o.ng, nu |-> o.nu]

\* What of a model state can be observed (writingVersion, the content a
\* pending Get() has read and its error flag are locals of goroutines).
Proj(S) ==
  [S EXCEPT !.th = [t \in Threads |->
     [S.th[t] EXCEPT !.ops = {[o EXCEPT !.v = 0] : o \in @}, !.err = FALSE, !.rc = {}]]]

WriteOps(S, t, d, c, s) ==
  {o \in S.th[t].ops : o.k = "w" /\ o.st = s /\ o.c = Bits(c) /\ o.h \in 1 .. Len(S.hs) /\ S.hs[o.h].dg = d}

\* The model step for a command of the driver (S itself if the model cannot
\* take it).  The end of Get() follows its last BlobAccess call at once
\* (EagerFinish = TRUE in the configuration).
ModelStep(S, e, r, g) ==
  IF e.t \notin Threads THEN S
  ELSE IF e.a = "get"
  THEN IF e.d \in Digests /\ En_GetStart(S, e.t, e.d) THEN Do_GetStart(S, e.t, e.d) ELSE S
  ELSE IF e.a = "rd"
  THEN IF En_ReadDone(S, e.t) THEN Fin(Do_ReadDone(S, e.t, e.ok), e.t, g) ELSE S
  ELSE IF e.a = "wa"
  THEN LET os == WriteOps(S, e.t, e.d, e.c, "flight") IN
       IF os = {} THEN S
       ELSE LET o == CHOOSE x \in os : TRUE IN
            IF e.ok THEN Do_PutApply(S, e.t, o) ELSE Fin(Do_WriteFail(S, e.t, o, g), e.t, g)
  ELSE IF e.a = "wd"
  THEN LET os == WriteOps(S, e.t, e.d, e.c, "applied") IN
       IF os = {} THEN S
       ELSE Fin(Do_WriteDone(S, e.t, CHOOSE x \in os : TRUE, g), e.t, g)
  ELSE IF e.a = "rel"
  THEN IF En_Release(S, e.t) THEN Do_Release(S, e.t, e.ok, r, g) ELSE S
  ELSE S

StoreVerdict(O, e) ==
  IF ~UseCountBalance(O) THEN "C07:usecount-imbalance"
  ELSE IF ~InUseInMap(O) THEN "C07:handle-in-use-not-in-map-or-queued"
  ELSE IF e.a = "wa" /\ e.ok /\ e.d \in Digests /\ ~(st.backing[e.d] \subseteq O.backing[e.d])
       THEN "C07:write-replaced-newer-content"
  ELSE IF ~NoLostUpdate(O) THEN "C07:lost-update"
  ELSE "ok"

TStore ==
  /\ IsEvent("st")
  /\ LET e == Line
         O == ObsState(e.S)
         cands == {ModelStep(st, e, r, g) : r \in VersionRules, g \in WriteGuards}
         match == {c \in cands : Proj(c) = O}
         odd == ~QueuedInMap(O) \/ ~PendingCarried(O)
     IN /\ st' = IF match # {} THEN CHOOSE c \in match : TRUE ELSE O
        /\ synced' = (synced /\ match # {})
        /\ nonconf' = nonconf + (IF synced /\ match = {} THEN 1 ELSE 0)
                              + (IF odd /\ QueuedInMap(st) /\ PendingCarried(st) THEN 1 ELSE 0)
        /\ verdict' = StoreVerdict(O, e)
  /\ UNCHANGED <<an, hist, pend>>

\* A command of a replayed schedule that the real store could not take.
TSkip ==
  /\ IsEvent("skip")
  /\ verdict' = "ok"
  /\ UNCHANGED <<st, an, hist, nonconf, synced, pend>>

\* End of a store trace: the driver completed every call, released every
\* handle and called Get() (for a digest nobody updates) until the write
\* queue was empty.
TEnd ==
  /\ IsEvent("end")
  /\ LET O == ObsState(Line.S) IN
       /\ verdict' = IF ~NoLostUpdate(O) THEN "C07:lost-update" ELSE "ok"
       /\ nonconf' = nonconf + (IF Drained(O) THEN 0 ELSE 1)
  /\ UNCHANGED <<st, an, hist, synced, pend>>

TPanic ==
  /\ IsEvent("panic")
  /\ verdict' = "C07:panic-in-store"
  /\ UNCHANGED <<st, an, hist, nonconf, synced, pend>>

-----------------------------------------------------------------------------
(* Part 2: the analyzers.                                                  *)

Strat(q) == [i \in 1 .. Len(q) |-> [p |-> q[i].p, bg |-> q[i].bg, fto |-> q[i].fto]]
KnownKinds == FDAKinds \cup FBKinds
InRequest == an.kind \in KnownKinds \cup {"lost"}

\* Release() calls observed so far in this request against what the end
\* (terminal = TRUE) or continuation of a request allows.
ReleaseVerdict(terminal) ==
  IF an.az # "fda" THEN "ok"
  ELSE IF ~terminal
  THEN IF pend.rels # <<>> THEN "C07:stats-handle-released-before-the-request-ended" ELSE "ok"
  ELSE IF Len(pend.rels) = 0 THEN "C07:stats-handle-not-released"
  ELSE IF Len(pend.rels) > 1 THEN "C07:stats-handle-released-more-than-once"
  ELSE IF pend.learned /\ ~pend.rels[1] THEN "C07:recorded-outcome-released-clean"
  ELSE "ok"

ChoiceVerdict(c, T) ==
  IF c.idx < 0 \/ c.idx >= c.n THEN "C07:index-out-of-range"
  ELSE IF c.to < 0 \/ c.to > T THEN "C07:timeout-out-of-range"
  ELSE "ok"

First(vs) == IF \E i \in 1 .. Len(vs) : vs[i] # "ok"
             THEN vs[CHOOSE i \in 1 .. Len(vs) : vs[i] # "ok" /\ \A j \in 1 .. (i - 1) : vs[j] = "ok"]
             ELSE "ok"

\* The observed outcome of a call in the shape of the model record.
Lost(A, kind, c, from) ==
  [A EXCEPT !.kind = IF kind = "nil" THEN "done" ELSE "lost",
            !.ret = IF kind = "nil" THEN "nil" ELSE "learner",
            !.from = from, !.choice = IF kind = "nil" THEN @ ELSE c,
            !.nretry = IF from = "failed" /\ kind # "nil" THEN @ + 1 ELSE @,
            !.nbg = IF from = "succeeded" /\ kind # "nil" THEN @ + 1 ELSE @]

\* Does the model's next record m agree with the observed learner / choice?
Agrees(m, kind, c) ==
  IF kind = "nil" THEN m.ret = "nil"
  ELSE m.ret = "learner" /\ m.kind = kind /\ m.choice.idx = c.idx /\ m.choice.n = c.n /\ m.choice.to = c.to

TAnalyze ==
  /\ IsEvent("an_analyze")
  /\ an' = IF Line.err THEN AnInit0 ELSE An_Analyze(an, Line.az, Line.T)
  /\ pend' = Pend0
  /\ verdict' = "ok"
  /\ nonconf' = nonconf + (IF Line.err # Line.wantErr THEN 1 ELSE 0)
  /\ UNCHANGED <<st, hist, synced>>

TStrategies ==
  /\ IsEvent("an_strategies")
  /\ LET ss == Strat(Line.strat) IN
       /\ pend' = [pend EXCEPT !.strat = ss, !.nstrat = @ + 1]
       /\ verdict' = IF ~ProbabilitiesWF(ss, Slack) THEN "C07:probabilities-not-well-formed"
                     ELSE IF ~ForegroundTimeoutsWF(ss, Line.T) THEN "C07:strategy-timeout-out-of-range"
                     ELSE "ok"
       /\ nonconf' = nonconf + (IF Len(ss) > Line.n THEN 1 ELSE 0)
  /\ UNCHANGED <<st, an, hist, synced>>

TRng ==
  /\ IsEvent("an_rng")
  /\ pend' = [pend EXCEPT !.bucket = Line.bucket]
  /\ verdict' = "ok"
  /\ UNCHANGED <<st, an, hist, nonconf, synced>>

TBgTimeout ==
  /\ IsEvent("an_bgtimeout")
  /\ pend' = [pend EXCEPT !.bgto = Line.to]
  /\ verdict' = "ok"
  /\ UNCHANGED <<st, an, hist, nonconf, synced>>

TRelease ==
  /\ IsEvent("an_release")
  /\ pend' = [pend EXCEPT !.rels = Append(@, Line.dirty), !.learned = @ \/ Line.learned]
  /\ verdict' = "ok"
  /\ UNCHANGED <<st, an, hist, nonconf, synced>>

ClearCall == [pend EXCEPT !.strat = <<>>, !.bucket = 0, !.nstrat = 0, !.bgto = 0]

TSelect ==
  /\ IsEvent("an_select")
  /\ LET e == Line
         c == [idx |-> e.idx, n |-> Len(e.sc), to |-> e.to, exp |-> e.exp]
         m == IF an.kind # "sel" THEN an
              ELSE IF an.az = "fb" THEN An_SelectFB(an, e.sc)
              ELSE An_SelectFDA(an, e.sc, e.nstrat > 0, pend.strat, pend.bucket, e.exp)
         agrees == an.kind = "sel" /\ Agrees(m, e.kind, c)
     IN /\ verdict' = First(<<IF e.kind = "nil" THEN "C07:select-returned-no-learner" ELSE "ok",
                              ChoiceVerdict(c, an.T), ReleaseVerdict(FALSE)>>)
        /\ an' = IF agrees THEN m ELSE Lost(an, e.kind, c, "select")
        /\ nonconf' = nonconf + (IF agrees /\ ExpectedWF(c) /\ (e.recent = (e.nstrat = 0) \/ an.az = "fb") THEN 0 ELSE 1)
  /\ pend' = ClearCall
  /\ UNCHANGED <<st, hist, synced>>

TSucceeded ==
  /\ IsEvent("an_succeeded")
  /\ LET e == Line
         c == [idx |-> e.idx, n |-> Len(e.sc), to |-> e.to, exp |-> e.exp]
         m == IF an.kind \in KnownKinds THEN An_Succeeded(an, e.sc, pend.bgto, e.exp) ELSE an
         agrees == an.kind \in KnownKinds /\ Agrees(m, e.kind, c)
     IN /\ verdict' =
             IF ~InRequest THEN "ok"
             ELSE IF e.kind = "nil" THEN ReleaseVerdict(TRUE)
             ELSE First(<<ChoiceVerdict(c, an.T),
                          IF an.nbg >= 1 THEN "C07:more-than-one-background-run" ELSE "ok",
                          ReleaseVerdict(FALSE)>>)
        /\ an' = IF agrees THEN m ELSE Lost(an, e.kind, c, "succeeded")
        /\ nonconf' = nonconf + (IF agrees /\ (e.kind = "nil" \/ ExpectedWF(c)) THEN 0 ELSE 1)
  /\ pend' = ClearCall
  /\ UNCHANGED <<st, hist, synced>>

TFailed ==
  /\ IsEvent("an_failed")
  /\ LET e == Line
         \* Failed() hands back no index: the retry runs on the largest class.
         c == [idx |-> an.choice.n - 1, n |-> an.choice.n, to |-> e.to, exp |-> e.exp]
         m == IF an.kind \in KnownKinds THEN An_Failed(an, e.exp) ELSE an
         agrees == an.kind \in KnownKinds /\ Agrees(m, e.kind, c)
         onSmaller == an.from = "select" /\ an.choice.idx < an.choice.n - 1
     IN /\ verdict' =
             IF ~InRequest THEN "ok"
             ELSE IF e.kind = "nil"
             THEN First(<<IF onSmaller THEN "C07:failure-on-smaller-size-class-not-retried" ELSE "ok",
                          ReleaseVerdict(TRUE)>>)
             ELSE First(<<ChoiceVerdict(c, an.T),
                          IF an.nretry >= 1 \/ an.from = "failed" THEN "C07:retried-more-than-once" ELSE "ok",
                          ReleaseVerdict(FALSE)>>)
        /\ an' = IF agrees THEN m ELSE Lost(an, e.kind, c, "failed")
        /\ nonconf' = nonconf + (IF agrees /\ (e.kind = "nil" \/ ExpectedWF(c)) THEN 0 ELSE 1)
  /\ pend' = ClearCall
  /\ UNCHANGED <<st, hist, synced>>

TAbandoned ==
  /\ IsEvent("an_abandoned")
  /\ LET m == IF an.kind \in KnownKinds \cup {"sel"} THEN An_Abandoned(an) ELSE Lost(an, "nil", NoChoice, "none")
     IN /\ verdict' = IF an.kind \in KnownKinds \cup {"sel", "lost"} THEN ReleaseVerdict(TRUE) ELSE "ok"
        /\ an' = m
        /\ nonconf' = nonconf + (IF an.az = "fda" /\ an.kind \in KnownKinds \cup {"sel"} /\ m.rels # pend.rels THEN 1 ELSE 0)
  /\ pend' = ClearCall
  /\ UNCHANGED <<st, hist, synced>>

TAnPanic ==
  /\ IsEvent("an_panic")
  /\ verdict' = "C07:panic-in-analyzer-call"
  /\ an' = [an EXCEPT !.kind = "done"]
  /\ UNCHANGED <<st, hist, nonconf, synced, pend>>

TChainTooLong ==
  /\ IsEvent("an_chain_too_long")
  /\ verdict' = "C07:learner-chain-does-not-end"
  /\ UNCHANGED <<st, an, hist, nonconf, synced, pend>>

TNext == \/ TReset \/ TStore \/ TSkip \/ TEnd \/ TPanic
         \/ TAnalyze \/ TStrategies \/ TRng \/ TBgTimeout \/ TRelease
         \/ TSelect \/ TSucceeded \/ TFailed \/ TAbandoned \/ TAnPanic \/ TChainTooLong

TraceSpec == TInit /\ [][TNext]_tvars

-----------------------------------------------------------------------------
VerdictOK == verdict = "ok"

Accepted ==
  /\ TLCGet("stats").diameter - 1 = Len(TraceLog)
  /\ PrintT(<<"TRACE_ACCEPTED", Len(TraceLog)>>)

NonconfReport == (l <= Len(TraceLog)) \/ PrintT(<<"NONCONF", nonconf>>)
=============================================================================
