SPECIFICATION SimSpec
CONSTANTS
  Lease = 10
  NB = 6
  SimDepth = 30
  Clients = {1, 2}
  Verifs = {1, 2}
  OKeys = {"o1", "o2"}
  LKeys = {"l1", "l2"}
  Names = {"a", "b"}
  Ops <- AllOps
  Shares = {1, 2, 3}
  Hows <- AllHows
  SeqDev <- DevSeq
  SidDev <- DevSid
  WrongFh = TRUE
  RangeSet <- RangesSim
  LockTypes = {"R", "W"}
  TickSet = {}
  GateOpen = "prev"
  FirstSeqs <- FirstOne
  LaxSet = {"cache"}
  RejSet = {"BAD_RANGE"}
  AnonOps <- RW
  PreClients = {1, 2}
  MaxConf = 6
  MaxSid = 12
  MaxFile = 6
  MaxSeq = 20
  MaxLSeq = 20
  MaxClock = 200
  MaxIO = 2
CONSTRAINT Bounded
INVARIANT Dump
CHECK_DEADLOCK FALSE
