SPECIFICATION Spec
CONSTANTS
  Lease = 1
  NB = 2
  Clients = {1, 2}
  Verifs = {1}
  OKeys = {"o1"}
  LKeys = {"l1"}
  Names = {"a", "b"}
  Ops = {"SETCLIENTID", "SETCLIENTID_CONFIRM", "OPEN", "OPEN_CONFIRM", "OPEN_DOWNGRADE", "CLOSE", "READ", "WRITE", "REMOVE"}
  Shares = {1, 2, 3}
  Hows = {"UNCHECKED"}
  SeqDev = {0}
  SidDev = {0}
  WrongFh = FALSE
  RangeSet = {}
  LockTypes = {}
  TickSet = {2}
  MaxConf = 2
  MaxSid = 2
  MaxFile = 2
  MaxSeq = 4
  MaxClock = 2
  MaxIO = 1
CONSTRAINT Bounded
INVARIANTS
  Inv_C18_Balance
  Inv_C18_Counts
  Inv_C18_Reach
  Inv_C18_Struct
  Inv_C18_Final
  Inv_C20_LockCount
  Inv_C20_Exclusion
PROPERTIES
  Act_C19_Once
  Act_C19_Same
  Act_C19_Misordered
  Act_C19_FalseRetry
  Act_C18_StateIds
  Act_C20_Replies
VIEW StateView
CHECK_DEADLOCK FALSE
