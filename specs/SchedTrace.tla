----------------------------- MODULE SchedTrace -----------------------------
(***************************************************************************)
(* Validates traces recorded from the real InMemoryBuildQueue.  Events:    *)
(*   reset, config, predeclare, call, sec (one critical section, with the  *)
(*   snapshot at its end and the analyzer calls made in it), send, ret,    *)
(*   cancel, advance, fire, phase, quiescent, final.                       *)
(* Every line is consumed.  `verdict` names the first failing predicate    *)
(* ("<property>:<reason>").                                                *)
(***************************************************************************)
EXTENDS SchedPreds, Json, TLCExt

TraceLog == ndJsonDeserialize("trace.ndjson")

VARIABLES l, verdict,
          fails,    \* failed predicates of the current trace: label -> line at which it first failed
          S,        \* last snapshot
          cfg,      \* configuration of the trace
          calls,    \* actor -> call event of calls in flight or finished
          stm,      \* stream actor -> [op, msgs, requeues]
          acc,      \* task id -> completion last accepted from a worker
          requeue,  \* task id -> number of times it fell back to QUEUED
          route,    \* task id -> [instance, platform] of the creating request
          lrnOf,    \* task id -> current learner id
          sels,     \* selector id -> number of terminal calls
          lrns,     \* learner id -> number of terminal calls (created => in domain)
          nsel,     \* number of Execute calls so far (= selector ids handed out)
          selOf,    \* execute actor -> selector id
          bgprio,   \* priority of background learning operations
          gone,     \* actors that were cancelled
          nonconf,  \* number of sections whose structure the model could not explain
          stats,    \* how often the interesting predicates were exercised (vacuity report)
          insync,   \* workers with a Synchronize call past its first section and not yet returned
          wlast,    \* worker -> scheduler time at which its last Synchronize call returned
          clock

tvars == <<l, verdict, fails, S, cfg, calls, stm, acc, requeue, route, lrnOf, sels, lrns, nsel, selOf, bgprio, gone, nonconf, stats, insync, wlast, clock>>

Line == TraceLog[l]
IsEvent(e) == l <= Len(TraceLog) /\ Line.ev = e /\ l' = l + 1

EmptySnap == [now |-> 0, queues |-> <<>>, ops |-> <<>>, tasks |-> <<>>, dedup |-> <<>>,
              cleanup |-> <<>>, cleanup_ok |-> TRUE, platform_queues |-> 0, hard_failure_at |-> 0]
EmptyFn == [x \in {} |-> 0]
NoCfg == [update |-> 0, no_waiter |-> 0, queue |-> 0, busy |-> 0, idle |-> 0, retry |-> 0, worker |-> 0]

Min(set) == CHOOSE x \in set : \A y \in set : x <= y
Max(set) == CHOOSE x \in set : \A y \in set : x >= y

\* First failing check of a list of <<condition, label>>.
FirstFail(checks) ==
  LET bad == {i \in DOMAIN checks : ~checks[i][1]}
  IN IF bad = {} THEN "ok" ELSE checks[Min(bad)][2]

Upd(f, k, v) == (k :> v) @@ f
Get(f, k, d) == IF k \in DOMAIN f THEN f[k] ELSE d

\* Every failing predicate of a trace is collected (one property's failure
\* must not hide a later failure of another property); the collected set is
\* reported at the last line of the trace.
NewFails(checks) ==
  LET bad == {checks[i][2] : i \in {j \in DOMAIN checks : ~checks[j][1]}}
  IN [lab \in DOMAIN fails \cup bad |-> IF lab \in DOMAIN fails THEN fails[lab] ELSE l]
LastOfTrace == l = Len(TraceLog) \/ TraceLog[l + 1].ev = "reset"
Conclude(nf) == IF LastOfTrace /\ DOMAIN nf # {} THEN "MULTI" ELSE "ok"

TInit ==
  /\ l = 1 /\ verdict = "ok" /\ fails = EmptyFn /\ S = EmptySnap /\ cfg = NoCfg /\ calls = EmptyFn /\ stm = EmptyFn
  /\ acc = EmptyFn /\ requeue = EmptyFn /\ route = EmptyFn /\ lrnOf = EmptyFn /\ sels = EmptyFn
  /\ lrns = EmptyFn /\ nsel = 0 /\ selOf = EmptyFn /\ bgprio = 0 /\ gone = {} /\ nonconf = 0 /\ clock = 0 /\ insync = {} /\ wlast = EmptyFn
  /\ stats = [sections |-> 0, picks |-> 0, handoffs |-> 0, merged |-> 0, requeued |-> 0, background |-> 0,
              completed_by_worker |-> 0, completed_by_scheduler |-> 0, cleanups |-> 0, quiescent |-> 0, finals |-> 0, listings |-> 0, design_steps |-> 0, dup_syncs |-> 0]

Keep(vs) == UNCHANGED vs

TReset ==
  /\ IsEvent("reset")
  /\ verdict' = "ok" /\ fails' = EmptyFn /\ S' = EmptySnap /\ cfg' = NoCfg /\ calls' = EmptyFn /\ stm' = EmptyFn
  /\ acc' = EmptyFn /\ requeue' = EmptyFn /\ route' = EmptyFn /\ lrnOf' = EmptyFn /\ sels' = EmptyFn
  /\ lrns' = EmptyFn /\ nsel' = 0 /\ selOf' = EmptyFn /\ bgprio' = 0 /\ gone' = {} /\ clock' = 0 /\ insync' = {} /\ wlast' = EmptyFn /\ UNCHANGED <<nonconf, stats>>

TConfig ==
  /\ IsEvent("config")
  /\ cfg' = [update |-> Line.update, no_waiter |-> Line.no_waiter, queue |-> Line.queue, busy |-> Line.busy,
             idle |-> Line.idle, retry |-> Line.retry, worker |-> Line.worker]
  /\ fails' = fails /\ verdict' = Conclude(fails)
  /\ UNCHANGED <<S, calls, stm, acc, requeue, route, lrnOf, sels, lrns, nsel, selOf, bgprio, gone, nonconf, stats, insync, wlast, clock>>

TPredeclare ==
  /\ IsEvent("predeclare")
  /\ bgprio' = Line.bg_prio
  /\ fails' = fails /\ verdict' = Conclude(fails)
  /\ UNCHANGED <<S, cfg, calls, stm, acc, requeue, route, lrnOf, sels, lrns, nsel, selOf, gone, nonconf, stats, insync, wlast, clock>>

TNoop ==
  /\ (IsEvent("phase") \/ IsEvent("fire"))
  /\ fails' = fails /\ verdict' = Conclude(fails)
  /\ UNCHANGED <<S, cfg, calls, stm, acc, requeue, route, lrnOf, sels, lrns, nsel, selOf, bgprio, gone, nonconf, stats, insync, wlast, clock>>

\* A scripted history could not be continued as written, because the real
\* code was in another state than the script assumes (e.g. the worker that
\* was to report a completion had not been given a task).  That is a
\* deviation from the expected behaviour, not by itself a property failure:
\* it is counted, the history ends with the ordinary drain phase, and the
\* predicates judge what was observed.
TScriptAbort ==
  /\ IsEvent("script_abort")
  /\ fails' = fails /\ verdict' = Conclude(fails)
  /\ nonconf' = nonconf + 1
  /\ UNCHANGED <<S, cfg, calls, stm, acc, requeue, route, lrnOf, sels, lrns, nsel, selOf, bgprio, gone, stats, insync, wlast, clock>>

TAdvance ==
  /\ IsEvent("advance")
  /\ clock' = Line.clock
  /\ fails' = fails /\ verdict' = Conclude(fails)
  /\ UNCHANGED <<S, cfg, calls, stm, acc, requeue, route, lrnOf, sels, lrns, nsel, selOf, bgprio, gone, nonconf, stats, insync, wlast>>

TCancel ==
  /\ IsEvent("cancel")
  /\ gone' = gone \cup {Line.actor}
  /\ fails' = fails /\ verdict' = Conclude(fails)
  /\ UNCHANGED <<S, cfg, calls, stm, acc, requeue, route, lrnOf, sels, lrns, nsel, selOf, bgprio, nonconf, stats, insync, wlast, clock>>

IsStream(kind) == kind \in {"execute", "wait"}

TCall ==
  /\ IsEvent("call")
  /\ calls' = Upd(calls, Line.actor, Line)
  /\ stm' = IF IsStream(Line.kind) THEN Upd(stm, Line.actor, [op |-> "", msgs |-> <<>>, rq |-> 0]) ELSE stm
  /\ nsel' = IF Line.kind = "execute" THEN nsel + 1 ELSE nsel
  /\ selOf' = IF Line.kind = "execute" THEN Upd(selOf, Line.actor, nsel + 1) ELSE selOf
  /\ fails' = fails /\ verdict' = Conclude(fails)
  /\ UNCHANGED <<S, cfg, acc, requeue, route, lrnOf, sels, lrns, bgprio, gone, nonconf, stats, insync, wlast, clock>>

-----------------------------------------------------------------------------
(* Messages sent to clients (C02, C03).                                    *)

StageRank(st) == CASE st = "Q" -> 1 [] st = "E" -> 2 [] st = "C" -> 3 [] OTHER -> 0

TSend ==
  /\ IsEvent("send")
  /\ LET a == Line.actor
         st == stm[a]
         n == Len(st.msgs)
         prev == IF n = 0 THEN [stage |-> "", done |-> FALSE] ELSE st.msgs[n]
         o == IF HasOp(S, Line.op) THEN OpOf(S, Line.op) ELSE [task |-> 0]
         known == o.task # 0 /\ HasTask(S, o.task)
         t == IF known THEN TaskOf(S, o.task) ELSE [stage |-> "", resp |-> "", code |-> 0, id |-> 0]
         rqNow == Get(requeue, o.task, 0)
     IN
       /\ stm' = Upd(stm, a, [op |-> Line.op, msgs |-> Append(st.msgs, [stage |-> Line.stage, done |-> Line.done, token |-> Line.token, code |-> Line.code]), rq |-> rqNow])
       /\ fails' = NewFails(<<
            <<~prev.done, "C02:message-sent-after-done">>,
            <<n = 0 \/ st.op = Line.op, "C02:stream-switched-operation">>,
            <<known, "C02:message-for-unknown-operation">>,
            <<Line.stage \in {"Q", "E", "C"}, "C02:unknown-stage">>,
            <<known => Line.stage = t.stage, "C02:reported-stage-differs-from-task-stage">>,
            <<Line.done <=> Line.stage = "C", "C02:done-flag-inconsistent-with-stage">>,
            <<(n > 0 /\ StageRank(Line.stage) < StageRank(prev.stage)) =>
                 (prev.stage = "E" /\ Line.stage = "Q" /\ rqNow > st.rq), "C02:stage-went-backwards">>,
            <<(known /\ Line.done) => (Line.token = t.resp /\ Line.code = t.code), "C02:final-message-differs-from-task-result">>,
            \* "all attached clients receive the same final response": the
            \* one recorded for the task they are attached to
            <<(known /\ Line.done /\ Len(t.ops) >= 2) => (Line.token = t.resp /\ Line.code = t.code),
              "C03:attached-client-got-a-different-final-response">>
          >>)
  /\ verdict' = Conclude(fails')
  /\ UNCHANGED <<S, cfg, calls, acc, requeue, route, lrnOf, sels, lrns, nsel, selOf, bgprio, gone, nonconf, stats, insync, wlast, clock>>

-----------------------------------------------------------------------------
(* Call returns.                                                           *)

WorkerIn(s, id) == {x \in WorkersOf(s) : x[2].id = id}

RetChecks ==
  LET a == Line.actor
      c == calls[a]
  IN
  CASE IsStream(Line.kind) ->
         LET st == stm[a]
             n == Len(st.msgs)
             dones == {i \in 1 .. n : st.msgs[i].done}
         IN <<
           <<Line.code = 0 => (n > 0 /\ st.msgs[n].done /\ Cardinality(dones) = 1), "C02:stream-ended-without-final-message">>,
           <<(Line.code # 0 /\ ~Line.cancelled /\ ~Line.send_failed) => n = 0, "C02:stream-failed-although-client-did-nothing-wrong">>,
           <<(Line.kind = "execute" /\ n = 0 /\ Line.code \in {9, 14}) => ((S.now < S.hard_failure_at) <=> Line.code = 14),
              "C05:wrong-rejection-code-for-missing-queue">>,
           <<(Line.kind = "execute" /\ selOf[a] \in DOMAIN sels) => sels[selOf[a]] = 1, "C07:selector-not-called-exactly-once">>,
           <<(Line.kind = "execute" /\ selOf[a] \notin DOMAIN sels) => Line.code # 0, "C07:selector-never-called">>
         >>
    [] Line.kind = "sync" ->
         LET ws == WorkerIn(S, c.owner)
             x == CHOOSE x \in ws : TRUE
         IN <<
           <<Line.code \in {0, 3} =>
               LET same == {q \in Rng(S.queues) : q.prefix = c.prefix /\ q.platform = c.platform}
                   qmax == CHOOSE q \in same : \A r \in same : r.size_class <= q.size_class
                   invalid == /\ same # {}
                              /\ ~\E q \in same : q.size_class = c.size_class
                              /\ (qmax.may_be_removed \/ c.size_class > qmax.size_class \/ (qmax.size_class > 0 /\ c.size_class < 1))
               IN invalid <=> Line.code = 3,
             "C05:size-class-registration-rule-broken">>,
           <<(Line.code = 0 /\ Line.desired = "execute") =>
               (ws # {} /\ x[2].task # 0 /\ HasTask(S, x[2].task)), "C01:told-to-execute-without-assigned-task">>,
           <<(Line.code = 0 /\ Line.desired = "execute" /\ ws # {} /\ x[2].task # 0 /\ HasTask(S, x[2].task)) =>
               LET t == TaskOf(S, x[2].task) IN
                 /\ t.stage = "E" /\ t.worker = c.owner
                 /\ \E k \in 1 .. Len(t.digest) : SubSeq(t.digest, 1, k) = Line.digest \o "@",
              "C01:told-to-execute-a-task-not-assigned-to-this-worker">>,
           <<(Line.code = 0 /\ Line.desired = "idle" /\ ws # {}) => x[2].task = 0,
              "C01:worker-keeps-task-it-was-not-told-to-execute">>,
           <<(Line.code = 0 /\ ws # {}) => x[2].cleanup_at = S.now + cfg.worker, "C06:worker-timeout-not-armed-at-now-plus-timeout">>,
           <<Line.code = 8 => c.owner \in insync, "NC:synchronize-refused-as-duplicate-without-one-in-progress">>,
           <<(Line.code = 0 /\ Line.desired = "execute" /\ ws # {} /\ x[2].task # 0 /\ HasTask(S, x[2].task)) =>
               LET t == TaskOf(S, x[2].task) IN Line.suffix = t.suffix, "C05:instance-name-suffix-differs">>
         >>
    [] OTHER -> << <<TRUE, "ok">> >>

TRet ==
  /\ IsEvent("ret")
  /\ fails' = NewFails(RetChecks) /\ verdict' = Conclude(fails')
  \* (a call refused as a duplicate, code 8, ends nothing: the original is still in progress)
  /\ insync' = IF Line.kind = "sync" /\ Line.code # 8 THEN insync \ {Line.owner} ELSE insync
  /\ wlast' = IF Line.kind = "sync" /\ Line.code # 8 /\ Line.owner \in insync THEN Upd(wlast, Line.owner, S.now) ELSE wlast
  /\ UNCHANGED <<S, cfg, calls, stm, acc, requeue, route, lrnOf, sels, lrns, nsel, selOf, bgprio, gone, nonconf, stats, clock>>

-----------------------------------------------------------------------------
(* One critical section.                                                   *)

Post == Line.s
Isc == Line.iscc

\* Tasks that exist before and after.
Both(s, p) == TaskIds(s) \cap TaskIds(p)

\* Ghost updates ------------------------------------------------------------

\* The completion a worker reports in this section, if it is accepted.
AcceptedCompletion(c) ==
  /\ c.kind = "sync" /\ c.state = "completed"
  /\ \E x \in WorkerIn(S, c.owner) :
       /\ x[2].task # 0 /\ HasTask(S, x[2].task)
       /\ \E k \in 1 .. Len(TaskOf(S, x[2].task).digest) : SubSeq(TaskOf(S, x[2].task).digest, 1, k) = c.digest \o "@"

CompletedTaskId(c) == (CHOOSE x \in WorkerIn(S, c.owner) : TRUE)[2].task

NewRequeue ==
  LET back == {id \in Both(S, Post) : TaskOf(S, id).stage = "E" /\ TaskOf(Post, id).stage = "Q"}
  IN [id \in DOMAIN requeue \cup back |-> Get(requeue, id, 0) + (IF id \in back THEN 1 ELSE 0)]

\* Analyzer bookkeeping.
IscOf(kinds) == {i \in DOMAIN Isc : Isc[i].k \in kinds}
NewSels ==
  LET touched == {Isc[i].sel : i \in IscOf({"select", "sel_abandoned"})}
  IN [s \in DOMAIN sels \cup touched |->
        Get(sels, s, 0) + Cardinality({i \in IscOf({"select", "sel_abandoned"}) : Isc[i].sel = s})]
NewLrns ==
  LET created == {Isc[i].next : i \in {j \in DOMAIN Isc : Isc[j].next # 0}}
      term == IscOf({"succeeded", "failed", "lrn_abandoned"})
      touched == {Isc[i].lrn : i \in term}
  IN [x \in DOMAIN lrns \cup created \cup touched |->
        Get(lrns, x, 0) + Cardinality({i \in term : Isc[i].lrn = x})]

\* Checks -------------------------------------------------------------------

Actor == Line.actor
Call == IF Actor \in DOMAIN calls THEN calls[Actor] ELSE [kind |-> "driver", owner |-> "driver"]
Now2 == Post.now

\* A Synchronize call for a worker that already has one in progress (past
\* its first section, not yet returned): the scheduler refuses it with
\* RESOURCE_EXHAUSTED and leaves the worker alone.
IsDupSync == Call.kind = "sync" /\ Line.first /\ Call.owner \in insync

\* Cleanups that must have run at the start of this section.
DueWorkers == {x \in WorkersOf(S) : x[2].cleanup_at >= 0 /\ x[2].cleanup_at <= Now2}
DueOps == {o \in Ops(S) : o.cleanup_at >= 0 /\ o.cleanup_at <= Now2}
DueQueues == {qi \in QIdx(S) : S.queues[qi].cleanup_at >= 0 /\ S.queues[qi].cleanup_at <= Now2}
\* No cleanup runs at the start of this section.
Simple == DueWorkers = {} /\ DueOps = {} /\ DueQueues = {}

CommonPrefix(paths) ==
  LET one == CHOOSE q \in paths : TRUE
      ks == {k \in 0 .. Len(one) : \A q \in paths : Len(q) >= k /\ SubSeq(q, 1, k) = SubSeq(one, 1, k)}
  IN SubSeq(one, 1, Max(ks))


QueueKey(q) == <<q.prefix, q.platform, q.size_class>>
QueueKeys(s) == {QueueKey(s.queues[qi]) : qi \in QIdx(s)}
WorkerKeys(s) == {<<QueueKey(s.queues[x[1]]), x[2].id>> : x \in WorkersOf(s)}
InvIn(s, qkey, p) ==
  {i \in UNION {Rng(s.queues[qi].invs) : qi \in {k \in QIdx(s) : QueueKey(s.queues[k]) = qkey}} : i.path = p}

\* A task that became COMPLETED in this section with a scheduler-made result.
NewlyCompleted == {id \in Both(S, Post) : TaskOf(S, id).stage # "C" /\ TaskOf(Post, id).stage = "C"}

OpsOfTaskDue(t) == \A n \in Rng(t.ops) : HasOp(S, n) => OpOf(S, n) \in DueOps

\* The completion reported by the calling worker is accepted in this
\* section: it is the first section of the call, and the worker and its
\* task survive the cleanups that run at the start of the section.
Accepted ==
  /\ AcceptedCompletion(Call) /\ Line.first /\ ~IsDupSync
  /\ ~(\E x \in DueWorkers : x[2].id = Call.owner)
  /\ ~OpsOfTaskDue(TaskOf(S, CompletedTaskId(Call)))

WorkerOfTaskDue(t) == t.stage = "E" /\ \E x \in DueWorkers : x[2].id = t.worker /\ x[1] = t.worker_queue + 1

\* "The worker disappeared" is a true cause only if the worker has no
\* Synchronize call in progress and its last one returned at least the
\* worker time-out ago (computed from the observed call returns, not from
\* the time-out the scheduler armed).
WorkerReallyGone(t) ==
  /\ t.stage = "E"
  /\ t.worker \notin insync
  /\ t.worker \in DOMAIN wlast
  /\ Now2 >= wlast[t.worker] + cfg.worker

TaskQueueIdx(s, t) == OpOf(s, t.ops[1]).queue + 1

\* Queue removal: the queue of the task is due, or it becomes due in the
\* same run of cleanups because its last worker is removed now and the
\* queue time-out has passed as well.
QueueOfTaskDue(t) ==
  /\ t.stage = "Q" /\ Len(t.ops) > 0 /\ HasOp(S, t.ops[1])
  /\ LET qi == TaskQueueIdx(S, t) IN
       \/ qi \in DueQueues
       \/ /\ S.queues[qi].may_be_removed
          /\ \A w \in Rng(S.queues[qi].workers) : <<qi, w>> \in DueWorkers
          /\ Len(S.queues[qi].workers) > 0
          /\ Max({w.cleanup_at : w \in Rng(S.queues[qi].workers)}) + cfg.queue <= Now2

SchedulerMadeOK(id) ==
  LET t == TaskOf(S, id)
      p == TaskOf(Post, id)
      c == Call
  IN
  \/ /\ p.code = 1                                   \* CANCELED: no waiting clients
     /\ OpsOfTaskDue(t)
  \/ /\ p.code = 14                                  \* UNAVAILABLE: worker vanished / queue removed
     /\ (WorkerReallyGone(t) \/ QueueOfTaskDue(t))
  \/ /\ p.code = 13                                  \* INTERNAL: retry limit
     /\ c.kind = "sync" /\ t.stage = "E" /\ t.worker = c.owner /\ t.retry >= cfg.retry
  \/ /\ c.kind = "kill" /\ p.code = c.code           \* operator
     /\ c.op \in Rng(t.ops)
  \/ /\ c.kind = "killqueue" /\ p.code = c.code
     /\ t.stage = "Q"

WorkerMadeOK(id) ==
  LET p == TaskOf(Post, id)
      c == Call
  IN /\ Accepted /\ CompletedTaskId(c) = id
     /\ p.resp = c.token /\ p.code = c.code /\ p.exit_code = c.exit_code

\* Tasks that get a worker in this section.
NewlyAssigned ==
  {id \in TaskIds(Post) : TaskOf(Post, id).stage = "E" /\
      (~HasTask(S, id) \/ TaskOf(S, id).stage # "E" \/ TaskOf(S, id).worker # TaskOf(Post, id).worker)}

PostWorker(id) ==
  LET p == TaskOf(Post, id) IN
    CHOOSE x \in WorkersOf(Post) : x[2].id = p.worker /\ x[1] = p.worker_queue + 1

\* Longest registered prefix (of queues with the right platform) of an instance name.
SplitOK(prefix, inst) ==
  \/ prefix = ""
  \/ prefix = inst
  \/ (Len(prefix) < Len(inst) /\ SubSeq(inst, 1, Len(prefix)) = prefix /\ SubSeq(inst, Len(prefix) + 1, Len(prefix) + 1) = "/")
Candidates(s, inst, plat) == {qi \in QIdx(s) : s.queues[qi].platform = plat /\ SplitOK(s.queues[qi].prefix, inst)}
LongestPrefixLen(s, inst, plat) == Max({Len(s.queues[qi].prefix) : qi \in Candidates(s, inst, plat)})

StripPrefix(prefix, inst) ==
  IF prefix = "" THEN inst
  ELSE IF prefix = inst THEN ""
  ELSE SubSeq(inst, Len(prefix) + 2, Len(inst))

\* New tasks created by an Execute section.
NewTasks == TaskIds(Post) \ TaskIds(S)

ExecChecks ==
  LET c == Call
      fresh == {id \in NewTasks : ~TaskOf(Post, id).dnc \/ c.dnc}   \* not a background task
      sel == {i \in DOMAIN Isc : Isc[i].k = "select"}
      \* in-flight tasks for the same action that survive the cleanups run at the start of this section
      dup == {t \in Tasks(S) : Live(t) /\ ~t.dnc /\ t.digest = c.digest \o "@" \o c.instance
                                /\ ~OpsOfTaskDue(t) /\ ~WorkerOfTaskDue(t) /\ ~QueueOfTaskDue(t)}
      cands == Candidates(Post, c.instance, c.platform)
  IN <<
    <<(~c.dnc /\ dup # {}) => fresh = {}, "C03:duplicate-request-created-a-second-task">>,
    <<(~c.dnc /\ dup # {} /\ Line.first) =>
        \* (operations of the task whose no-waiter time-out is due are removed at the start of the section)
        \E t \in dup : /\ HasTask(Post, t.id) /\ Live(TaskOf(Post, t.id))
                        /\ Len(TaskOf(Post, t.id).ops) >= Cardinality({n \in Rng(t.ops) : HasOp(S, n) /\ OpOf(S, n) \notin DueOps}),
      "C03:duplicate-request-disturbed-the-existing-task">>,
    <<(c.dnc /\ cands # {} /\ Line.first) => fresh # {}, "C03:do-not-cache-request-was-merged">>,
    <<(dup = {} /\ cands # {} /\ Line.first) => Cardinality(fresh) = 1, "C05:request-with-matching-queue-not-accepted">>,
    <<(cands = {}) => fresh = {}, "C05:request-without-matching-queue-was-queued">>,
    <<\A id \in fresh :
        LET p == TaskOf(Post, id)
            qi == TaskQueueIdx(Post, p)
            q == Post.queues[qi]
        IN /\ q.platform = c.platform
           /\ SplitOK(q.prefix, c.instance)
           /\ Len(q.prefix) = LongestPrefixLen(Post, c.instance, c.platform)
           /\ p.suffix = StripPrefix(q.prefix, c.instance),
      "C05:task-routed-to-wrong-queue">>,
    <<\A id \in fresh : sel # {} =>
        LET p == TaskOf(Post, id)
            q == Post.queues[TaskQueueIdx(Post, p)]
            e == Isc[CHOOSE i \in sel : TRUE]
        IN e.idx + 1 \in DOMAIN q.classes /\ q.size_class = q.classes[e.idx + 1] /\ p.timeout = e.to /\ p.exp_dur = e.exp,
      "C07:task-not-placed-on-selected-size-class">>,
    \* C05: "whose size class is the one selected for the current attempt"
    <<\A id \in fresh : sel # {} =>
        LET p == TaskOf(Post, id)
            q == Post.queues[TaskQueueIdx(Post, p)]
            e == Isc[CHOOSE i \in sel : TRUE]
        IN e.idx + 1 \in DOMAIN q.classes /\ q.size_class = q.classes[e.idx + 1],
      "C05:task-not-placed-on-the-selected-size-class">>,
    <<fresh # {} => Cardinality(sel) = 1, "C07:task-created-without-select">>,
    <<(fresh = {} /\ Line.first) => \E i \in DOMAIN Isc : Isc[i].k = "sel_abandoned" /\ Isc[i].sel = selOf[Actor],
      "C07:selector-not-abandoned-for-merged-or-rejected-request">>
  >>

\* What a Synchronize section must do with the worker's current task.
SyncChecks ==
  LET c == Call
      ws == WorkerIn(S, c.owner)
      had == IF ws = {} THEN 0 ELSE (CHOOSE x \in ws : TRUE)[2].task
      hadTask == had # 0 /\ HasTask(S, had)
      t == IF hadTask THEN TaskOf(S, had) ELSE [stage |-> "", retry |-> 0, id |-> 0]
      accepted == Accepted
      wrong == hadTask /\ ~AcceptedCompletion(c) /\ Line.first /\ ~OpsOfTaskDue(t) /\
               (c.state = "idle" \/ ~(\E k \in 1 .. Len(t.digest) : SubSeq(t.digest, 1, k) = c.digest \o "@"))
      vanished == \E x \in DueWorkers : x[2].id = c.owner
  IN <<
    <<accepted =>
        (HasTask(Post, had) => (TaskOf(Post, had).worker # c.owner \/ TaskOf(Post, had).stage # "E")),
      "C01:completed-task-still-assigned-to-worker">>,
    <<(wrong /\ ~vanished /\ t.retry < cfg.retry) =>
        (HasTask(Post, had) /\ TaskOf(Post, had).stage = "E" /\ TaskOf(Post, had).worker = c.owner /\ TaskOf(Post, had).retry = t.retry + 1),
      "C06:task-not-reissued-below-retry-limit">>,
    \* "the invocation it last served": a worker that is idle after its
    \* completion was accepted is remembered under the closest common
    \* ancestor of the invocations of the task it ran (computed here from the
    \* operations of the task, not taken from the scheduler's bookkeeping)
    <<(accepted /\ Simple) =>
        \A x \in WorkerIn(Post, c.owner) :
          (x[2].task = 0 /\ x[2].has_last) =>
            x[2].last = CommonPrefix({OpOf(S, n).inv : n \in {m \in Rng(t.ops) : HasOp(S, m)}}),
      "C04:last-served-invocation-not-recorded">>,
    <<(wrong /\ ~vanished /\ t.retry >= cfg.retry) =>
        (HasTask(Post, had) => (TaskOf(Post, had).stage # "E" \/ TaskOf(Post, had).worker # c.owner)),
      "C06:task-reissued-beyond-retry-limit">>
  >>

\* The section of a refused duplicate Synchronize leaves the worker as it was.
DupSyncChecks == <<
    <<{x[2] : x \in WorkerIn(Post, Call.owner)} = {x[2] : x \in WorkerIn(S, Call.owner)},
      "NC:duplicate-synchronize-changed-the-worker">>
  >>

\* Retry on the largest size class.
RetryChecks ==
  LET back == IF Accepted /\ HasTask(Post, CompletedTaskId(Call)) /\ Live(TaskOf(Post, CompletedTaskId(Call)))
              THEN {CompletedTaskId(Call)} ELSE {}
      fl == {i \in DOMAIN Isc : Isc[i].k = "failed" /\ Isc[i].next # 0}
  IN <<
    <<\A id \in back : fl # {}, "C07:task-rerun-without-learner-asking">>,
    <<\A id \in back :
        LET p == TaskOf(Post, id)
            q == Post.queues[TaskQueueIdx(Post, p)]
            old == S.queues[TaskOf(S, id).worker_queue + 1]
        IN /\ q.prefix = old.prefix /\ q.platform = old.platform
           /\ q.size_class = q.classes[Len(q.classes)],
      "C07:retry-not-on-largest-size-class">>,
    \* C05: the size class of the retry attempt is the largest of the same platform queue
    <<\A id \in back :
        LET p == TaskOf(Post, id)
            q == Post.queues[TaskQueueIdx(Post, p)]
            old == S.queues[TaskOf(S, id).worker_queue + 1]
        IN /\ q.prefix = old.prefix /\ q.platform = old.platform
           /\ q.size_class = q.classes[Len(q.classes)],
      "C05:retry-attempt-not-placed-on-the-largest-size-class">>,
    <<(fl # {} /\ Accepted) =>
        LET id == CompletedTaskId(Call) IN HasTask(Post, id) /\ Live(TaskOf(Post, id)) /\
          TaskOf(Post, id).timeout = Isc[CHOOSE i \in fl : TRUE].to,
      "C07:failed-on-smaller-class-not-retried">>
  >>

\* Background learning.
BgChecks ==
  LET c == Call
      bg == {id \in NewTasks : TaskOf(Post, id).dnc /\ ~(c.kind = "execute" /\ c.dnc)}
      asks == {i \in DOMAIN Isc : Isc[i].k = "succeeded" /\ Isc[i].next # 0}
  IN <<
    <<bg # {} => asks # {}, "C07:background-run-without-learner-asking">>,
    <<\A id \in bg :
        LET p == TaskOf(Post, id)
            o == OpOf(Post, p.ops[1])
            q == Post.queues[o.queue + 1]
        IN /\ Len(p.ops) = 1 /\ o.inv = <<"BG">> /\ o.prio = bgprio
           /\ Cardinality({n \in OpNames(Post) : OpOf(Post, n).inv = <<"BG">> /\ OpOf(Post, n).queue = o.queue /\ QueuedAt(Post, n) # {}}) <= q.max_bg
           /\ Accepted /\ HasTask(Post, CompletedTaskId(c)) /\ TaskOf(Post, CompletedTaskId(c)).stage = "C",
      "C07:background-run-malformed-unbounded-or-delaying-client">>,
    <<\A o \in Ops(Post) : (o.inv = <<"BG">> /\ HasTask(Post, o.task) /\ Live(TaskOf(Post, o.task))) => TaskOf(Post, o.task).dnc,
      "C07:background-run-is-cacheable">>,
    <<\A id \in bg : asks # {} => TaskOf(Post, id).timeout = Isc[CHOOSE i \in asks : TRUE].to /\ TaskOf(Post, id).exp_dur = Isc[CHOOSE i \in asks : TRUE].exp,
      "C07:background-run-ignores-learners-timeout">>,
    <<(asks # {} /\ bg = {}) =>
        \E i \in DOMAIN Isc : Isc[i].k = "lrn_abandoned" /\ Isc[i].lrn = Isc[CHOOSE j \in asks : TRUE].next,
      "C07:declined-background-learner-not-abandoned">>
  >>

\* Terminal learner calls must match what happened.
LearnerChecks ==
  LET c == Call
      accepted == Accepted
      good == accepted /\ c.code = 0 /\ c.exit_code = 0
      succ == {i \in DOMAIN Isc : Isc[i].k = "succeeded"}
      fail == {i \in DOMAIN Isc : Isc[i].k = "failed"}
      term == IscOf({"succeeded", "failed", "lrn_abandoned"})
  IN <<
    <<\A i \in term : Isc[i].lrn \in DOMAIN lrns \cup {Isc[j].next : j \in {k \in DOMAIN Isc : Isc[k].next # 0}},
      "C07:terminal-call-on-unknown-learner">>,
    <<\A x \in DOMAIN NewLrns : NewLrns[x] <= 1, "C07:learner-got-two-terminal-calls">>,
    <<\A s \in DOMAIN NewSels : NewSels[s] <= 1, "C07:selector-got-two-calls">>,
    <<succ # {} => (good /\ Cardinality(succ) = 1 /\ Isc[CHOOSE i \in succ : TRUE].arg = c.duration
                    /\ Get(lrnOf, CompletedTaskId(c), 0) = Isc[CHOOSE i \in succ : TRUE].lrn), "C07:succeeded-call-does-not-match-outcome">>,
    <<fail # {} => (accepted /\ ~good /\ Cardinality(fail) = 1 /\ (Isc[CHOOSE i \in fail : TRUE].arg = 1 <=> c.code = 4)
                    /\ Get(lrnOf, CompletedTaskId(c), 0) = Isc[CHOOSE i \in fail : TRUE].lrn), "C07:failed-call-does-not-match-outcome">>,
    <<(good /\ Get(lrnOf, CompletedTaskId(c), 0) # 0) => succ # {}, "C07:success-not-reported-to-learner">>,
    <<(accepted /\ ~good /\ Get(lrnOf, CompletedTaskId(c), 0) # 0) => fail # {}, "C07:failure-not-reported-to-learner">>,
    <<\A id \in NewlyCompleted : (~(accepted /\ CompletedTaskId(c) = id) /\ Get(lrnOf, id, 0) # 0) =>
         \E i \in DOMAIN Isc : Isc[i].k = "lrn_abandoned" /\ Isc[i].lrn = lrnOf[id], "C07:learner-of-abandoned-task-not-abandoned">>
  >>

NewLrnOf ==
  LET c == Call
      created == IF c.kind = "execute" THEN {id \in NewTasks : ~TaskOf(Post, id).dnc \/ c.dnc} ELSE {}
      sel == {i \in DOMAIN Isc : Isc[i].k = "select"}
      bg == {id \in NewTasks : id \notin created}
      asks == {i \in DOMAIN Isc : Isc[i].k = "succeeded" /\ Isc[i].next # 0}
      fl == {i \in DOMAIN Isc : Isc[i].k = "failed"}
      term == {Isc[i].lrn : i \in IscOf({"succeeded", "failed", "lrn_abandoned"})}
      base == [id \in DOMAIN lrnOf |-> IF lrnOf[id] \in term THEN 0 ELSE lrnOf[id]]
      a1 == IF created # {} /\ sel # {} THEN Upd(base, CHOOSE id \in created : TRUE, Isc[CHOOSE i \in sel : TRUE].lrn) ELSE base
      a2 == IF bg # {} /\ asks # {} THEN Upd(a1, CHOOSE id \in bg : TRUE, Isc[CHOOSE i \in asks : TRUE].next) ELSE a1
      a3 == IF fl # {} /\ Accepted /\ Isc[CHOOSE i \in fl : TRUE].next # 0
            THEN Upd(a2, CompletedTaskId(c), Isc[CHOOSE i \in fl : TRUE].next) ELSE a2
  IN a3

\* Reference for "this worker is drained": terminating, or its id is a
\* superset of some drain pattern.
DrainedRef(q, w) ==
  \/ w.terminating
  \/ \E di \in DOMAIN q.drain_patterns :
       \A kv \in Rng(q.drain_patterns[di]) : \E kw \in Rng(w.idp) : kw.k = kv.k /\ kw.v = kv.v

\* Every invocation object that exists is justified: something is queued or
\* executing below it, or an idle worker last served it.
InvJustified(s, qi, p) ==
  \/ p = <<>>
  \/ \E o \in Ops(s) : o.queue + 1 = qi /\ PathPrefix(p, o.inv) /\ TaskOf(s, o.task).stage \in {"Q", "E"}
  \/ \E w \in Rng(s.queues[qi].workers) : w.has_last /\ PathPrefix(p, w.last)
C06_NoStaleInvocations(s) ==
  \A qi \in QIdx(s) : \A ii \in DOMAIN s.queues[qi].invs : InvJustified(s, qi, s.queues[qi].invs[ii].path)

\* "Least recently served": an invocation counts as served at the moment an
\* operation below it starts executing (a task is given to a worker, or a
\* request is merged into a task that is executing).  The scheduling checks
\* read these times from the snapshot, so their bookkeeping is checked here.
\* (operations of completed tasks whose queue is gone have queue = -1)
OpInQueue(s, o, qkey) == o.queue + 1 \in QIdx(s) /\ QueueKey(s.queues[o.queue + 1]) = qkey
StartedNow(qkey, p) ==
  \E o \in Ops(Post) :
    /\ OpInQueue(Post, o, qkey) /\ PathPrefix(p, o.inv)
    /\ TaskOf(Post, o.task).stage = "E"
    /\ (o.task \in NewlyAssigned \/ ~HasOp(S, o.name))
\* a queued task that is completed directly (cancelled, killed, queue removed)
\* passes through a temporary worker
CompletedFromQueued(qkey, p) ==
  \E o \in Ops(S) :
    /\ OpInQueue(S, o, qkey) /\ PathPrefix(p, o.inv)
    /\ TaskOf(S, o.task).stage = "Q" /\ o.task \in NewlyCompleted
LastStartedChecks == <<
    \* "after the configured number of retries" / stated cause "retry limit
    \* reached": the count of re-issues belongs to the assignment of the task
    \* to its current worker, so it starts at zero with every assignment (the
    \* cause check of SchedulerMadeOK reads it from the snapshot)
    <<\A id \in NewlyAssigned : TaskOf(Post, id).retry = 0, "C02:retry-count-carried-over-to-a-new-assignment">>,
    <<\A id \in NewlyAssigned : TaskOf(Post, id).retry = 0, "C06:retry-count-carried-over-to-a-new-assignment">>,
    \* ... and within one assignment (the task stays EXECUTING on the same
    \* worker from S to Post) the count only ever grows, by at most one per
    \* section, and only in a Synchronize section of that worker: whatever
    \* the worker reports in between (Executing updates included), re-issues
    \* already made keep counting towards the limit
    <<\A id \in Both(S, Post) \ NewlyAssigned :
        (TaskOf(S, id).stage = "E" /\ TaskOf(Post, id).stage = "E") =>
          /\ TaskOf(Post, id).retry >= TaskOf(S, id).retry
          /\ TaskOf(Post, id).retry <= TaskOf(S, id).retry + 1
          /\ (TaskOf(Post, id).retry # TaskOf(S, id).retry =>
                (Call.kind = "sync" /\ Call.owner = TaskOf(S, id).worker)),
      "C06:retry-count-changed-within-an-assignment-other-than-by-a-reissue">>,
    \* "then oldest": the age of a task counts from the section that created it
    \* (a background learning run inherits the time of its foreground task)
    <<(\A id \in NewTasks : (Call.kind = "execute" /\ (~TaskOf(Post, id).dnc \/ Call.dnc)) => TaskOf(Post, id).queued_at = Post.now)
        /\ (\A id \in Both(S, Post) : TaskOf(Post, id).queued_at = TaskOf(S, id).queued_at),
      "C04:queued-timestamp-is-not-the-creation-time-of-the-task">>,
    <<\A qi \in QIdx(Post) : \A i \in Rng(Post.queues[qi].invs) :
        \* (the root has no siblings; the hook does not export its times)
        (i.path # <<>> /\ StartedNow(QueueKey(Post.queues[qi]), i.path)) => i.last_started = Post.now,
      "C04:invocation-not-marked-as-served-when-its-operation-started">>,
    <<Simple =>
        \A qi \in QIdx(Post) : \A i \in Rng(Post.queues[qi].invs) :
          LET qkey == QueueKey(Post.queues[qi])
              old == InvIn(S, qkey, i.path)
          IN (i.path # <<>> /\ old # {} /\ ~StartedNow(qkey, i.path) /\ ~CompletedFromQueued(qkey, i.path)) =>
               \A j \in old : i.last_started = j.last_started,
      "C04:invocation-marked-as-served-without-an-operation-starting">>
  >>

\* Drains and termination marks are read from the snapshot by the checks
\* above; here their bookkeeping is tied to the operator calls that were
\* observed: a drain exists from a successful AddDrain until the RemoveDrain
\* of the same pattern, a worker is marked by the TerminateWorkers calls
\* whose pattern it matches, and nothing else changes either.
PatSet(kvs) == {<<kvs[i].k, kvs[i].v>> : i \in DOMAIN kvs}
DrainsOf(q) == {PatSet(q.drain_patterns[di]) : di \in DOMAIN q.drain_patterns}
QueueByKey(s, qkey) == {qi \in QIdx(s) : QueueKey(s.queues[qi]) = qkey}
CallQueueKey == <<Call.prefix, Call.platform, Call.size_class>>
DrainCall == Call.kind \in {"drain", "undrain"} /\ Line.first
Matches(pat, w) == pat \subseteq PatSet(w.idp)
DrainBookChecks ==
  IF ~Simple THEN <<>>
  ELSE <<
    <<\A qi \in QIdx(Post) :
        LET qkey == QueueKey(Post.queues[qi])
            old == QueueByKey(S, qkey)
        IN old # {} =>
             \A qj \in old :
               DrainsOf(Post.queues[qi]) =
                 IF DrainCall /\ qkey = CallQueueKey
                 THEN IF Call.kind = "drain" THEN DrainsOf(S.queues[qj]) \cup {PatSet(Call.pattern_kv)}
                      ELSE DrainsOf(S.queues[qj]) \ {PatSet(Call.pattern_kv)}
                 ELSE DrainsOf(S.queues[qj]),
      "C05:drains-do-not-follow-the-add-and-remove-calls">>,
    <<\A x \in WorkersOf(Post) :
        LET qkey == QueueKey(Post.queues[x[1]])
            old == {y \in WorkersOf(S) : QueueKey(S.queues[y[1]]) = qkey /\ y[2].id = x[2].id}
        IN \A y \in old :
             x[2].terminating =
               (y[2].terminating \/ (Call.kind = "terminate" /\ Line.first /\ Matches(PatSet(Call.pattern_kv), x[2]))),
      "C05:terminating-mark-does-not-follow-the-terminate-calls">>
  >>

CommonChecks == <<
    <<C06_NoStaleInvocations(Post), "C06:invocation-retained-without-operations-or-workers">>,
    <<\A qi \in QIdx(Post) : \A w \in Rng(Post.queues[qi].workers) : w.drained = DrainedRef(Post.queues[qi], w),
      "C05:drained-flag-differs-from-drain-patterns">>,
    <<C01_Inv(Post), "C01:task-not-held-by-exactly-one-queue-or-worker">>,
    <<C03_Inv(Post), "C03:two-live-tasks-for-one-cacheable-action">>,
    <<C04_NoIdleWhileQueued(Post), "C04:task-queued-while-undrained-worker-waits">>,
    <<C05_WorkerQueueMatches(Post), "C05:task-held-by-worker-of-another-queue">>,
    <<C06_NoOverdue(Post), "C06:due-cleanup-not-run">>,
    <<\A id \in Both(S, Post) : TaskOf(S, id).stage = "C" =>
        (TaskOf(Post, id).stage = "C" /\ TaskOf(Post, id).resp = TaskOf(S, id).resp /\ TaskOf(Post, id).code = TaskOf(S, id).code),
      "C01:completed-task-changed-or-restarted">>,
    <<\A id \in NewlyCompleted :
        IF TaskOf(Post, id).resp = "" THEN SchedulerMadeOK(id) ELSE WorkerMadeOK(id),
      "C02:task-completed-with-unexplained-result">>,
    \* "the task is cancelled only when its last operation is abandoned":
    \* every operation that points to the task (whether or not the task
    \* still lists it) has lost its clients and timed out
    <<\A id \in NewlyCompleted :
        (TaskOf(Post, id).resp = "" /\ TaskOf(Post, id).code = 1 /\ Call.kind \notin {"kill", "killqueue"}) =>
          \A o \in Ops(S) : o.task = id => o \in DueOps,
      "C03:task-cancelled-while-a-client-is-still-attached">>,
    \* "a worker-created queue without workers is removed after its timeout,
    \* failing what it still holds"
    <<\A qi \in DueQueues : \A t \in Tasks(S) :
        (t.stage = "Q" /\ Len(t.ops) > 0 /\ HasOp(S, t.ops[1]) /\ TaskQueueIdx(S, t) = qi) =>
          (HasTask(Post, t.id) => TaskOf(Post, t.id).stage = "C"),
      "C06:queue-removed-without-failing-the-tasks-it-held">>,
    <<\A id \in NewlyAssigned : ~PostWorker(id)[2].drained /\ ~PostWorker(id)[2].terminating,
      "C05:task-assigned-to-drained-or-terminating-worker">>,
    <<\A id \in NewlyAssigned :
        LET p == TaskOf(Post, id) IN
          \A n \in Rng(p.ops) : OpOf(Post, n).queue = p.worker_queue,
      "C05:task-assigned-to-worker-of-another-queue">>,
    \* time-outs: due things are gone, others stay
    <<\A x \in DueWorkers : <<QueueKey(S.queues[x[1]]), x[2].id>> \notin WorkerKeys(Post) \/
                             (Call.kind = "sync" /\ Call.owner = x[2].id), "C06:stale-worker-not-removed">>,
    <<\A x \in DueWorkers : (x[2].task # 0 /\ HasTask(Post, x[2].task)) =>
         TaskOf(Post, x[2].task).stage # "E" \/ TaskOf(Post, x[2].task).worker # x[2].id, "C06:task-of-vanished-worker-not-failed">>,
    <<\A x \in WorkersOf(S) : (x \notin DueWorkers /\ QueueKey(S.queues[x[1]]) \in QueueKeys(Post)) =>
         <<QueueKey(S.queues[x[1]]), x[2].id>> \in WorkerKeys(Post), "C06:worker-removed-before-its-timeout">>,
    <<\A o \in DueOps : ~HasOp(Post, o.name), "C06:abandoned-operation-not-removed">>,
    <<\A o \in Ops(S) : o \notin DueOps => HasOp(Post, o.name), "C06:operation-removed-before-its-timeout">>,
    <<\A qi \in DueQueues : QueueKey(S.queues[qi]) \notin QueueKeys(Post) \/
         (Call.kind = "sync" /\ QueueKey(S.queues[qi]) = <<Call.prefix, Call.platform, Call.size_class>>), "C06:queue-without-workers-not-removed">>,
    <<\A qi \in QIdx(S) : (qi \notin DueQueues /\ ~(S.queues[qi].may_be_removed /\ \A w \in Rng(S.queues[qi].workers) : <<qi, w>> \in DueWorkers)) =>
         QueueKey(S.queues[qi]) \in QueueKeys(Post), "C06:queue-removed-before-its-timeout">>,
    <<\A o \in Ops(Post) : (o.waiters = 0 /\ ~o.may_exist) => o.cleanup_at >= 0, "C06:operation-without-waiters-has-no-timeout">>,
    <<\A o \in Ops(Post) : (HasOp(S, o.name) /\ OpOf(S, o.name).cleanup_at < 0 /\ o.cleanup_at >= 0) => o.cleanup_at = Post.now + cfg.no_waiter,
      "C06:no-waiter-timeout-not-armed-at-now-plus-timeout">>,
    <<TRUE, "ok">>
  >>


-----------------------------------------------------------------------------
(* C04: reference model of the fair order (documented in                   *)
(* bb_scheduler.proto and in the comments of the scheduler).  It is        *)
(* evaluated on the state the scheduler chose from: the state at the end   *)
(* of the section with the chosen task put back into its queue.            *)

\* The task a Synchronize section took out of the queue for its own worker.
Picked ==
  {id \in NewlyAssigned : Call.kind = "sync" /\ TaskOf(Post, id).worker = Call.owner}
PickTid == CHOOSE id \in Picked : TRUE
PickQ == TaskOf(Post, PickTid).worker_queue + 1

\* Context of the reference operators: for a section it is the snapshot at
\* its end with the picked task put back; for a listing it is the current
\* snapshot as it is.
CSnap == IF Line.ev = "sec" THEN Post ELSE S
CTid == IF Line.ev = "sec" /\ Picked # {} THEN PickTid ELSE 0
CQ == IF Line.ev = "sec" THEN PickQ ELSE Line.queue + 1

QOpsI == {o \in Ops(CSnap) : o.queue + 1 = CQ /\ (TaskOf(CSnap, o.task).stage = "Q" \/ o.task = CTid)}
DirectI(p) == {o \in QOpsI : o.inv = p}
UnderI(p) == {o \in QOpsI : PathPrefix(p, o.inv)}
ChildKeysI(p) == {o.inv[Len(p) + 1] : o \in {o \in UnderI(p) : Len(o.inv) > Len(p)}}
ExecWI(p) ==
  {t.worker : t \in {t \in Tasks(CSnap) : t.stage = "E" /\ t.id # CTid /\ t.worker_queue + 1 = CQ /\
                        \E n \in Rng(t.ops) : PathPrefix(p, OpOf(CSnap, n).inv)}}

OpLess(o1, o2) ==
  LET t1 == TaskOf(CSnap, o1.task)
      t2 == TaskOf(CSnap, o2.task)
  IN \/ o1.prio < o2.prio
     \/ o1.prio = o2.prio /\ t1.exp_dur > t2.exp_dur
     \/ o1.prio = o2.prio /\ t1.exp_dur = t2.exp_dur /\ t1.queued_at < t2.queued_at
BestOps(p) == {o \in DirectI(p) : \A e \in DirectI(p) : ~OpLess(e, o)}

OnPickedPath(p) == CTid # 0 /\ \E n \in Rng(TaskOf(CSnap, CTid).ops) : PathPrefix(p, OpOf(CSnap, n).inv)

LastStartedI(p) ==
  LET qkey == QueueKey(CSnap.queues[CQ])
      src == IF OnPickedPath(p) THEN S ELSE CSnap
      found == InvIn(src, qkey, p)
  IN IF found = {} THEN CSnap.now ELSE (CHOOSE i \in found : TRUE).last_started

Pow2(k) == 2 ^ k

\* Priority of the operation an invocation would run next; scores are
\* compared exactly, which is possible when priorities differ by multiples
\* of 100 (other cases are not decided).
RECURSIVE FirstPrioI(_)
ScoreLt(e1, p1, e2, p2) ==
  IF p1 = p2 THEN e1 < e2
  ELSE IF p1 < p2 THEN e1 < e2 * Pow2((p2 - p1) \div 100)
  ELSE e1 * Pow2((p1 - p2) \div 100) < e2
ScoreEq(e1, p1, e2, p2) ==
  IF p1 = p2 THEN e1 = e2
  ELSE IF p1 < p2 THEN e1 = e2 * Pow2((p2 - p1) \div 100)
  ELSE e1 * Pow2((p1 - p2) \div 100) = e2
PrefI(a, b, tb) ==
  LET ea == Cardinality(ExecWI(a)) + 1
      eb == Cardinality(ExecWI(b)) + 1
      pa == FirstPrioI(a)
      pb == FirstPrioI(b)
  IN ScoreLt(ea, pa, eb, pb) \/ (ScoreEq(ea, pa, eb, pb) /\ tb)
BestChildren(p) ==
  LET C == ChildKeysI(p) IN
    {c \in C : \A e \in C : ~PrefI(Append(p, e), Append(p, c), LastStartedI(Append(p, e)) < LastStartedI(Append(p, c)))}
FirstPrioI(p) ==
  IF DirectI(p) # {} THEN Min({o.prio : o \in DirectI(p)})
  ELSE IF ChildKeysI(p) = {} THEN 0
  ELSE FirstPrioI(Append(p, CHOOSE c \in BestChildren(p) : TRUE))

\* Situations the exact reference cannot decide: priorities that are not
\* multiples of 100, and scores of invocations with different priorities
\* that are exactly equal (the implementation compares them in floating
\* point).
AllPaths == UNION {{SubSeq(o.inv, 1, k) : k \in 0 .. Len(o.inv)} : o \in QOpsI}
Undecidable ==
  \/ \E o \in QOpsI : o.prio % 100 # 0
  \/ \E p \in AllPaths : \E a, b \in ChildKeysI(p) :
       LET pa == FirstPrioI(Append(p, a))
           pb == FirstPrioI(Append(p, b))
       IN pa # pb /\ ScoreEq(Cardinality(ExecWI(Append(p, a))) + 1, pa, Cardinality(ExecWI(Append(p, b))) + 1, pb)

RECURSIVE AllowedAt(_, _, _, _)
AllowedAt(p, keys, lims, sts) ==
  IF DirectI(p) # {} THEN {o.task : o \in BestOps(p)}
  ELSE UNION {
         LET sticky == Len(keys) > 0 /\ Len(lims) > 0 /\ keys[1] \in ChildKeysI(p)
             chosen == IF sticky /\ PrefI(Append(p, keys[1]), Append(p, b), sts[1] >= 0 /\ sts[1] + lims[1] > CSnap.now)
                       THEN keys[1] ELSE b
             cont == Len(keys) > 0 /\ Len(lims) > 0 /\ chosen = keys[1]
         IN AllowedAt(Append(p, chosen),
                      IF cont THEN Tail(keys) ELSE <<>>,
                      IF cont THEN Tail(lims) ELSE <<>>,
                      IF cont THEN Tail(sts) ELSE <<>>)
         : b \in BestChildren(p)}

\* The invocation the worker last served, as of the moment it chooses.
PickLast ==
  LET ws == WorkerIn(S, Call.owner)
      x == CHOOSE x \in ws : TRUE
  IN IF ws = {} THEN <<>>
     ELSE IF x[2].task # 0 /\ HasTask(S, x[2].task)
          THEN IF Accepted THEN CommonPrefix({OpOf(S, n).inv : n \in Rng(TaskOf(S, x[2].task).ops)}) ELSE <<>>
          ELSE IF x[2].has_last THEN x[2].last ELSE <<>>
PickStick ==
  LET ws == WorkerIn(S, Call.owner) IN
    IF ws = {} THEN [k \in 1 .. Len(Post.queues[PickQ].limits) |-> -1] ELSE (CHOOSE x \in ws : TRUE)[2].stick

PickChecks ==
  IF Picked = {} \/ ~Simple \/ Cardinality(NewlyAssigned) # 1 THEN <<>>
  ELSE IF Undecidable THEN <<>>
  ELSE <<
    <<PickTid \in AllowedAt(<<>>, PickLast, Post.queues[PickQ].limits, PickStick), "C04:worker-did-not-receive-the-prescribed-task">>,
    \* The stickiness window of level k keeps running while the worker keeps
    \* serving its level-k invocation, and restarts when it switches.
    <<LET t == TaskOf(Post, PickTid)
          lims == Post.queues[PickQ].limits
          path == OpOf(Post, t.ops[1]).inv
          maxk == Min({Len(PickLast), Len(lims), Len(path)})
          retained == Max({k \in 0 .. maxk : \A j \in 1 .. k : path[j] = PickLast[j]})
          after == PostWorker(PickTid)[2].stick
      IN Len(t.ops) = 1 =>
           \A i \in 1 .. Len(lims) :
             IF i <= retained THEN after[i] = PickStick[i] ELSE after[i] = Post.now,
      "C04:stickiness-window-not-kept-or-not-restarted">>
  >>

\* Direct hand-off of a new task to a worker that is blocked waiting.
HandedOff == {id \in NewlyAssigned : ~(Call.kind = "sync" /\ TaskOf(Post, id).worker = Call.owner)}

HandOffOK(id) ==
  LET p == TaskOf(Post, id)
      qkey == QueueKey(Post.queues[p.worker_queue + 1])
      pre == {x \in WorkersOf(S) : QueueKey(S.queues[x[1]]) = qkey}
      chosen == {x \in pre : x[2].id = p.worker}
      waiting == {x \in pre : x[2].parked /\ ~x[2].drained}
      path == OpOf(Post, p.ops[1]).inv
      A == CommonPrefix({path} \cup {SubSeq(path, 1, Max({k \in 0 .. Len(path) : \E y \in waiting : PathPrefix(SubSeq(path, 1, k), y[2].last)}))})
  IN /\ chosen # {} /\ chosen \subseteq waiting
     /\ Len(p.ops) = 1 =>
          \A x \in chosen :
            /\ PathPrefix(A, x[2].last)
            /\ (\E y \in waiting : y[2].last = A) => x[2].last = A

HandOffChecks ==
  IF ~Simple THEN <<>>
  ELSE <<
    <<\A id \in HandedOff : HandOffOK(id), "C04:task-not-handed-to-the-most-closely-related-waiting-worker">>
  >>

SecChecks ==
  CommonChecks
  \o (IF Call.kind = "execute" /\ Line.first THEN ExecChecks ELSE <<>>)
  \o (IF Call.kind = "sync" /\ ~IsDupSync THEN SyncChecks ELSE <<>>)
  \o (IF IsDupSync THEN DupSyncChecks ELSE <<>>)
  \o RetryChecks \o BgChecks \o LearnerChecks \o PickChecks \o HandOffChecks \o LastStartedChecks \o DrainBookChecks

TSec ==
  /\ IsEvent("sec")
  /\ S' = Post
  /\ acc' = acc
  /\ requeue' = NewRequeue
  /\ lrnOf' = NewLrnOf
  /\ sels' = NewSels
  /\ lrns' = NewLrns
  /\ fails' = NewFails(SecChecks) /\ verdict' = Conclude(fails')
  /\ nonconf' = IF NC_Structure(Post) THEN nonconf ELSE nonconf + 1
  /\ stats' = [stats EXCEPT
        !.sections = @ + 1,
        !.picks = @ + (IF PickChecks # <<>> THEN 1 ELSE 0),
        !.handoffs = @ + (IF Simple THEN Cardinality(HandedOff) ELSE 0),
        !.merged = @ + (IF Call.kind = "execute" /\ Line.first /\ \E i \in DOMAIN Isc : Isc[i].k = "sel_abandoned" THEN 1 ELSE 0),
        !.requeued = @ + Cardinality({id \in Both(S, Post) : TaskOf(S, id).stage = "E" /\ TaskOf(Post, id).stage = "Q"}),
        !.background = @ + Cardinality({id \in NewTasks : TaskOf(Post, id).dnc /\ Call.kind = "sync"}),
        !.completed_by_worker = @ + Cardinality({id \in NewlyCompleted : TaskOf(Post, id).resp # ""}),
        !.completed_by_scheduler = @ + Cardinality({id \in NewlyCompleted : TaskOf(Post, id).resp = ""}),
        !.cleanups = @ + Cardinality(DueWorkers) + Cardinality(DueOps) + Cardinality(DueQueues),
        !.dup_syncs = @ + (IF IsDupSync THEN 1 ELSE 0)]
  /\ insync' = IF Call.kind = "sync" /\ Line.first THEN insync \cup {Call.owner} ELSE insync
  /\ UNCHANGED <<cfg, calls, stm, route, nsel, selOf, bgprio, gone, wlast, clock>>

-----------------------------------------------------------------------------
(* Quiescence: nobody is blocked while their wake-up condition holds.      *)

ParkedChecks ==
  LET parked == {Line.parked[i] : i \in DOMAIN Line.parked}
  IN <<
    <<\A a \in parked : (a \in DOMAIN stm /\ Len(stm[a].msgs) > 0) =>
        LET st == stm[a]
            m == st.msgs[Len(st.msgs)]
        IN HasOp(S, st.op) /\ TaskOf(S, OpOf(S, st.op).task).stage = m.stage /\ ~m.done,
      "C02:client-not-woken-after-stage-change">>,
    <<\A a \in parked : (a \in DOMAIN calls /\ calls[a].kind = "sync") =>
        LET ws == WorkerIn(S, calls[a].owner) IN
          ws # {} /\ \A x \in ws : x[2].task = 0 /\ (x[2].parked \/ x[2].drained),
      "C06:worker-not-woken">>,
    \* "no task stays queued while an undrained worker of its queue is
    \* waiting": judged by the blocked Synchronize call itself, not by the
    \* scheduler's own list of waiting workers
    <<\A a \in parked : (a \in DOMAIN calls /\ calls[a].kind = "sync") =>
        \A x \in WorkerIn(S, calls[a].owner) :
          (x[2].task = 0 /\ ~x[2].drained) =>
            ~\E id \in TaskIds(S) :
               LET t == TaskOf(S, id) IN
                 t.stage = "Q" /\ Len(t.ops) > 0 /\ HasOp(S, t.ops[1]) /\ TaskQueueIdx(S, t) = x[1],
      "C04:task-stays-queued-while-an-undrained-worker-of-its-queue-waits">>,
    <<\A a \in parked : (a \in DOMAIN calls /\ calls[a].kind = "terminate") =>
        \E x \in WorkersOf(S) : x[2].task # 0 /\ x[2].terminating,
      "C06:terminate-workers-not-woken">>,
    <<\A a \in parked : a \in DOMAIN calls /\ calls[a].kind \in {"execute", "wait", "sync", "terminate"},
      "C06:non-blocking-call-blocked">>
  >>

TQuiescent ==
  /\ IsEvent("quiescent")
  /\ fails' = NewFails(ParkedChecks) /\ verdict' = Conclude(fails')
  /\ stats' = [stats EXCEPT !.quiescent = @ + 1]
  /\ UNCHANGED <<S, cfg, calls, stm, acc, requeue, route, lrnOf, sels, lrns, nsel, selOf, bgprio, gone, nonconf, insync, wlast, clock>>

TFinal ==
  /\ IsEvent("final")
  /\ fails' = NewFails(<<
       <<Line.actors_left = 0, "C06:blocked-call-never-returned">>,
       <<Line.lock_free, "C14:scheduler-lock-left-behind">>,
       <<C06_Empty(S), "C06:state-retained-after-everybody-left">>,
       <<\A x \in DOMAIN lrns : lrns[x] = 1 \/ (lrns[x] = 0 /\ \E id \in TaskIds(S) : Live(TaskOf(S, id)) /\ Get(lrnOf, id, 0) = x),
         "C07:learner-without-terminal-call">>,
       <<\A s \in DOMAIN sels : sels[s] = 1, "C07:selector-without-call">>
     >>)
  /\ verdict' = Conclude(fails')
  /\ stats' = [stats EXCEPT !.finals = @ + 1]
  /\ UNCHANGED <<S, cfg, calls, stm, acc, requeue, route, lrnOf, sels, lrns, nsel, selOf, bgprio, gone, nonconf, insync, wlast, clock>>


-----------------------------------------------------------------------------
(* Read-only BuildQueueState API: what it reports must agree with what the *)
(* specification derives from the snapshot (growth beyond the listed       *)
(* properties; the orderings are those of C04, the counts those of C01).   *)

SeqSet(q) == {q[i] : i \in DOMAIN q}
NoDup(q) == \A i, j \in DOMAIN q : i # j => q[i] # q[j]
OpNum(n) == CHOOSE k \in 0 .. 999 : n = "o" \o ToString(k)

ListingChecks ==
  CASE Line.what = "invocation" ->
         LET p == Line.path
             q == S.queues[CQ]
             direct == {o.name : o \in DirectI(p)}
             keysDistinct == \A a, b \in DirectI(p) : a # b => (OpLess(a, b) \/ OpLess(b, a))
             idle == Cardinality({w \in Rng(q.workers) : w.has_last /\ PathPrefix(p, w.last)})
             idleSync == Cardinality({w \in Rng(q.workers) : w.parked /\ w.has_last /\ w.last = p})
             node == CHOOSE i \in Rng(q.invs) : i.path = p
         IN <<
           <<Line.ok, "NC:listing-failed">>,
           <<SeqSet(Line.ops) = direct /\ NoDup(Line.ops), "C04:listed-queued-operations-differ-from-queue">>,
           <<\A i, j \in DOMAIN Line.ops : i < j => ~OpLess(OpOf(S, Line.ops[j]), OpOf(S, Line.ops[i])), "C04:queued-operations-not-listed-in-scheduling-order">>,
           <<SeqSet(Line.paged) \subseteq direct /\ (keysDistinct => Line.paged = Line.ops), "C04:paginated-listing-of-queued-operations-differs">>,
           <<SeqSet(Line.children) = ChildKeysI(p) /\ NoDup(Line.children), "C04:listed-queued-invocations-differ-from-queue">>,
           <<Undecidable \/ \A i, j \in DOMAIN Line.children : i < j =>
                ~PrefI(Append(p, Line.children[j]), Append(p, Line.children[i]),
                       LastStartedI(Append(p, Line.children[j])) < LastStartedI(Append(p, Line.children[i]))),
             "C04:queued-invocations-not-listed-in-scheduling-order">>,
           <<Line.executing = Cardinality(ExecWI(p)), "NC:listed-executing-workers-count-differs-from-executing-tasks">>,
           <<Line.idle = idle /\ Line.idle_sync = idleSync, "NC:listed-idle-workers-count-differs-from-workers">>,
           <<Line.queued_direct = Cardinality(DirectI(p)) /\ Line.queued_indirect = Cardinality(UnderI(p)) - Cardinality(DirectI(p)),
             "NC:listed-queued-operations-count-differs-from-queue">>,
           <<SeqSet(Line.all) = SeqSet(node.children) /\ Line.n_children = Len(node.children), "NC:children-listing">>,
           <<SeqSet(Line.active) = {c \in SeqSet(node.children) : UnderI(Append(p, c)) # {} \/ ExecWI(Append(p, c)) # {}}, "NC:active-invocations-listing-differs">>
         >>
    [] Line.what = "workers" ->
         LET q == S.queues[Line.queue + 1] IN <<
           <<Line.ok, "NC:listing-failed">>,
           <<SeqSet(Line.ids) = {w.id : w \in Rng(q.workers)} /\ NoDup(Line.ids), "NC:listed-workers-differ">>,
           <<\A i \in DOMAIN Line.ids : \A w \in Rng(q.workers) : w.id = Line.ids[i] =>
               /\ Line.drained[i] = DrainedRef(q, w)
               /\ Line.timeouts[i] = w.cleanup_at
               /\ (w.task = 0 <=> Line.ops[i] = "")
               /\ (w.task # 0 => Line.ops[i] \in Rng(TaskOf(S, w.task).ops)),
             "NC:listed-worker-state-differs">>
         >>
    [] Line.what = "operations" -> <<
           <<SeqSet(Line.names) = OpNames(S) /\ NoDup(Line.names) /\ Line.total = Cardinality(OpNames(S)), "NC:paginated-operations-listing-differs">>,
           <<\A i, j \in DOMAIN Line.names : i < j => OpNum(Line.names[i]) < OpNum(Line.names[j]), "NC:operations-not-sorted">>,
           <<\A i \in DOMAIN Line.names : HasOp(S, Line.names[i]) => Line.stages[i] = TaskOf(S, OpOf(S, Line.names[i]).task).stage,
             "NC:listed-stage-differs-from-task-stage">>
         >>
    [] Line.what = "drains" ->
         LET q == S.queues[Line.queue + 1] IN <<
           <<Line.ok, "NC:listing-failed">>,
           <<{PatSet(Line.patterns[i]) : i \in DOMAIN Line.patterns} = DrainsOf(q) /\ Len(Line.patterns) = Cardinality(DrainsOf(q)),
             "NC:listed-drains-differ">>
         >>
    [] Line.what = "getop" -> <<
           <<Line.ok <=> HasOp(S, Line.name), "NC:get-operation-finds-exactly-the-existing-operations">>,
           <<(Line.ok /\ HasOp(S, Line.name)) =>
               LET o == OpOf(S, Line.name) IN
                 /\ Line.stage = TaskOf(S, o.task).stage
                 /\ Line.prio = o.prio
                 /\ Line.inv = o.inv,
             "NC:get-operation-state-differs">>
         >>
    [] Line.what = "workers_filtered" ->
         LET q == S.queues[Line.queue + 1]
             p == Line.path
             execs == {t.worker : t \in {t \in Tasks(S) : t.stage = "E" /\ t.worker_queue = Line.queue /\
                                             \E n \in Rng(t.ops) : HasOp(S, n) /\ PathPrefix(p, OpOf(S, n).inv)}}
             parkedAt == {w.id : w \in {w \in Rng(q.workers) : w.parked /\ w.has_last /\ w.last = p}}
         IN <<
           <<Line.ok, "NC:listing-failed">>,
           <<SeqSet(Line.executing) = execs /\ NoDup(Line.executing), "NC:listed-executing-workers-differ">>,
           <<SeqSet(Line.idle_sync) = parkedAt /\ NoDup(Line.idle_sync), "NC:listed-idle-synchronizing-workers-differ">>
         >>
    [] OTHER -> << <<TRUE, "ok">> >>

\* Non-conformances of listings are counted, property failures are verdicts.
TListing ==
  /\ IsEvent("listing")
  /\ LET checks == ListingChecks
         hard == SelectSeq(checks, LAMBDA c : SubSeq(c[2], 1, 3) # "NC:")
         soft == SelectSeq(checks, LAMBDA c : SubSeq(c[2], 1, 3) = "NC:" /\ ~c[1])
     IN /\ fails' = NewFails(hard) /\ verdict' = Conclude(fails')
        /\ nonconf' = nonconf + Len(soft)
  /\ stats' = [stats EXCEPT !.listings = @ + 1]
  /\ UNCHANGED <<S, cfg, calls, stm, acc, requeue, route, lrnOf, sels, lrns, nsel, selOf, bgprio, gone, insync, wlast, clock>>

\* Spec -> code replay: the abstract state the design model expects after an
\* action, compared with the real snapshot. The design leaves the choice
\* among queued tasks open, so a difference is a non-conformance of the
\* replay (counted), never a verdict.
TDesign ==
  /\ IsEvent("design")
  /\ fails' = fails /\ verdict' = Conclude(fails)
  /\ LET agree == \A t \in Tasks(S) :
                    t.id \in DOMAIN Line.stages =>
                      (Line.stages[t.id] = t.stage /\ Line.workers[t.id] = t.worker)
     IN nonconf' = IF Line.done /\ agree THEN nonconf ELSE nonconf + 1
  /\ stats' = [stats EXCEPT !.design_steps = @ + 1]
  /\ UNCHANGED <<S, cfg, calls, stm, acc, requeue, route, lrnOf, sels, lrns, nsel, selOf, bgprio, gone, insync, wlast, clock>>

\* The real code panicked, or stopped making progress in the middle of a
\* step (for instance a loop that never ends inside a critical section).
TPanic ==
  /\ (IsEvent("panic") \/ IsEvent("stall"))
  /\ fails' = NewFails(<< <<FALSE, IF Line.ev = "panic" THEN "PANIC:scheduler-panicked" ELSE "PANIC:scheduler-stopped-making-progress">> >>)
  /\ verdict' = Conclude(fails')
  /\ UNCHANGED <<S, cfg, calls, stm, acc, requeue, route, lrnOf, sels, lrns, nsel, selOf, bgprio, gone, nonconf, stats, insync, wlast, clock>>

TNext == TScriptAbort \/ TDesign \/ TListing \/ TPanic \/ TReset \/ TConfig \/ TPredeclare \/ TNoop \/ TAdvance \/ TCancel \/ TCall \/ TSend \/ TRet \/ TSec \/ TQuiescent \/ TFinal

TraceSpec == TInit /\ [][TNext]_tvars

VerdictOK == verdict = "ok"

NonconfReport == (l <= Len(TraceLog)) \/ (PrintT(<<"NONCONF", nonconf>>) /\ PrintT(<<"STATS", ToJson(stats)>>))

TraceAccepted ==
  /\ TLCGet("stats").diameter - 1 = Len(TraceLog)
  /\ PrintT(<<"TRACE_ACCEPTED", Len(TraceLog)>>)
=============================================================================
