\* Every command (working directory <= 1 component, <= 2 output paths of
\* <= 2 components over {a, b, ., ..}) against the hand-picked trees.
\* (Working directories of 2 components: MC_OutputHierarchy_full.cfg.)
SPECIFICATION Spec
CONSTANTS
  Names = {"a", "b"}
  MaxWD = 1
  MaxPaths = 2
  MaxLen = 2
  K1Kinds = {"none"}
  K2Kinds = {"none"}
  PickedOnly = TRUE
  PreAll = TRUE
INVARIANTS
  TypeOK
  C10_EscapesRejected
  C10_ParentsExistBeforeRun
  C10_Reported
  C10_Trees
  L_Resolve
  L_EscapeIsFinal
  L_ParentDirs
  L_TreesOK
  L_Expected
  L_CanonTree
VIEW
  CaseView
CHECK_DEADLOCK FALSE
