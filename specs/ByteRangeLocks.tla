--------------------------- MODULE ByteRangeLocks ---------------------------
(***************************************************************************)
(* Reference model of pkg/filesystem/virtual/byte_range_lock_set.go        *)
(* (property C20).  The abstract state is a per-byte lock table; the       *)
(* implementation's sorted linked list must *denote* that table.           *)
(*                                                                         *)
(* Positions are 0..N.  A range is [s, e) with 0 <= s < e <= N.  Position  *)
(* N stands for "the maximum offset" (the Go driver maps it to 2^64-1),    *)
(* so byte N-1 is the byte just below the maximum.                         *)
(***************************************************************************)
EXTENDS Integers, Sequences, FiniteSets

CONSTANTS Owners,   \* set of lock owners
          N         \* number of byte positions

Bytes  == 0 .. (N - 1)
Types  == {"S", "X"}            \* shared, exclusive
Ranges == {r \in (0 .. N) \X (0 .. N) : r[1] < r[2]}

VARIABLES held,     \* [Bytes -> [Owners -> {"N","S","X"}]]
          reply     \* reply of the last call (for trace validation / replay)

vars == <<held, reply>>

NoLocks == [b \in Bytes |-> [o \in Owners |-> "N"]]

-----------------------------------------------------------------------------
(* What POSIX record locking promises.                                     *)

\* Two different owners never both hold a byte unless both locks are shared.
C20_Exclusion ==
  \A b \in Bytes : \A o1, o2 \in Owners :
    (o1 # o2 /\ held[b][o1] # "N" /\ held[b][o2] # "N")
      => (held[b][o1] = "S" /\ held[b][o2] = "S")

\* Would a request (o, [s,e), t) be denied?
Conflicts(h, o, s, e, t) ==
  \E b \in Bytes : \E o2 \in Owners :
    /\ s <= b /\ b < e
    /\ o2 # o
    /\ h[b][o2] # "N"
    /\ (h[b][o2] = "X" \/ t = "X")

\* The table after owner o sets [s,e) to t ("N" = unlock).
Apply(h, o, s, e, t) ==
  [b \in Bytes |-> IF s <= b /\ b < e THEN [h[b] EXCEPT ![o] = t] ELSE h[b]]

-----------------------------------------------------------------------------
(* The canonical list form of a table: per owner the maximal runs of equal *)
(* type.  The implementation's list must contain exactly these entries.    *)

IsRun(h, o, s, e) ==
  /\ s < e
  /\ h[s][o] # "N"
  /\ \A b \in s .. (e - 1) : h[b][o] = h[s][o]
  /\ (s = 0 \/ h[s - 1][o] # h[s][o])
  /\ (e = N \/ h[e][o] # h[s][o])

Canon(h) ==
  {[start |-> r[1], end |-> r[2], owner |-> o, type |-> h[r[1]][o]] :
      <<r, o>> \in {x \in Ranges \X Owners : IsRun(h, x[2], x[1][1], x[1][2])}}

-----------------------------------------------------------------------------
(* Actions: one per public method.                                         *)

Init == held = NoLocks /\ reply = [kind |-> "init"]

\* Set() may only be called for a lock that Test() does not deny (this is
\* the documented calling convention), or for an unlock.
Set(o, s, e, t) ==
  /\ t \in Types => ~Conflicts(held, o, s, e, t)
  /\ held' = Apply(held, o, s, e, t)
  /\ reply' = [kind |-> "set",
               delta |-> Cardinality(Canon(held')) - Cardinality(Canon(held))]

Test(o, s, e, t) ==
  /\ reply' = [kind |-> "test", denied |-> Conflicts(held, o, s, e, t)]
  /\ UNCHANGED held

Next ==
  \E o \in Owners : \E r \in Ranges :
    \/ \E t \in Types \cup {"N"} : Set(o, r[1], r[2], t)
    \/ \E t \in Types : Test(o, r[1], r[2], t)

Spec == Init /\ [][Next]_vars

HeldView == held

-----------------------------------------------------------------------------
(* Properties checked on the specification.                                *)

TypeOK == held \in [Bytes -> [Owners -> {"N", "S", "X"}]]

\* An owner's own locks never block it: a request conflicts only because of
\* other owners, hence a request by the sole holder is never denied.
C20_OwnNeverConflicts ==
  \A o \in Owners : \A r \in Ranges : \A t \in Types :
    (\A b \in Bytes : \A o2 \in Owners : o2 # o => held[b][o2] = "N")
      => ~Conflicts(held, o, r[1], r[2], t)

\* A test denies exactly when granting would break exclusion.
C20_TestIffSetWouldBreak ==
  \A o \in Owners : \A r \in Ranges : \A t \in Types :
    Conflicts(held, o, r[1], r[2], t) <=>
      (\E b \in Bytes : \E o1, o2 \in Owners :
         LET h2 == Apply(held, o, r[1], r[2], t) IN
           /\ o1 # o2 /\ h2[b][o1] # "N" /\ h2[b][o2] # "N"
           /\ ~(h2[b][o1] = "S" /\ h2[b][o2] = "S"))

\* Setting changes only the caller's bytes in the range.
C20_SetLocal ==
  [][\A b \in Bytes : \A o \in Owners :
        held'[b][o] # held[b][o] =>
          \E r \in Ranges : r[1] <= b /\ b < r[2] /\
             held' \in {Apply(held, o, r[1], r[2], t) : t \in {"N", "S", "X"}}]_vars

\* Canonical entries of one owner are disjoint and non-adjacent when equal.
C20_CanonDisjoint ==
  \A e1, e2 \in Canon(held) :
    (e1 # e2 /\ e1.owner = e2.owner) => (e1.end <= e2.start \/ e2.end <= e1.start)
=============================================================================
