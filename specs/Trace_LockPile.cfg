SPECIFICATION TraceSpec
CONSTANTS
  Threads = {"t1", "t2", "t3"}
  Locks = {"l1", "l2", "l3"}
  None = "none"
  MaxReq = 3
  MaxRec = 3
  Budget = 0
  Multi = {"t1", "t2", "t3"}
INVARIANTS
  VerdictOK
  C14_ObservedBoundary
  NonconfReport
POSTCONDITION Accepted
CHECK_DEADLOCK FALSE
