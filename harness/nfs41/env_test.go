// Package nfs41 drives the real NFSv4.1 server (nfs41_program.go) over a
// real in-memory directory, the real NFS handle allocator and the real
// OpenedFilesPool, and records traces that specs/NFS41Trace.tla
// validates (properties C18, C19 and the NFS level of C20).
//
// No judgement happens here: the Go side builds requests, reduces
// replies, copies the server's state through the verif hooks and logs
// everything as NDJSON.
package nfs41

import (
	"bytes"
	"context"
	"crypto/sha256"
	"encoding/binary"
	"encoding/hex"
	"fmt"
	"io"
	"math"
	"math/rand"
	"sort"
	"strings"
	"sync"
	"sync/atomic"
	"time"

	"github.com/buildbarn/bb-remote-execution/pkg/filesystem/pool"
	"github.com/buildbarn/bb-remote-execution/pkg/filesystem/virtual"
	nfsserver "github.com/buildbarn/bb-remote-execution/pkg/filesystem/virtual/nfsv4"
	"github.com/buildbarn/bb-storage/pkg/clock"
	"github.com/buildbarn/bb-storage/pkg/filesystem"
	"github.com/buildbarn/bb-storage/pkg/filesystem/path"
	"github.com/buildbarn/bb-storage/pkg/util"
	"github.com/buildbarn/go-xdr/pkg/protocols/nfsv4"
	"github.com/buildbarn/go-xdr/pkg/protocols/rpcv2"

	"verif/harness/common"
)

// ---------------------------------------------------------------------
// Deterministic random number generator (random.SingleThreadedGenerator).

type detRand struct{ r *rand.Rand }

func (d detRand) Float64() float64                   { return d.r.Float64() }
func (d detRand) Int64N(n int64) int64               { return d.r.Int63n(n) }
func (d detRand) IntN(n int) int                     { return d.r.Intn(n) }
func (d detRand) Read(p []byte) (int, error)         { return d.r.Read(p) }
func (d detRand) Shuffle(n int, swap func(i, j int)) { d.r.Shuffle(n, swap) }
func (d detRand) Uint32() uint32                     { return d.r.Uint32() }
func (d detRand) Uint64() uint64                     { return d.r.Uint64() }

// ---------------------------------------------------------------------
// Fake clock. One tick is one second; the lease is leaseTicks and a half
// so that "exactly at the boundary" cannot occur.

type fakeClock struct {
	mu    sync.Mutex
	ticks int
}

var clockBase = time.Unix(1700000000, 0)

func (c *fakeClock) Now() time.Time {
	c.mu.Lock()
	defer c.mu.Unlock()
	return clockBase.Add(time.Duration(c.ticks) * time.Second)
}

func (c *fakeClock) NewContextWithTimeout(parent context.Context, timeout time.Duration) (context.Context, context.CancelFunc) {
	return context.WithCancel(parent)
}

type fakeTimer struct{}

func (fakeTimer) Stop() bool { return true }

type fakeTicker struct{}

func (fakeTicker) Stop() {}

func (c *fakeClock) NewTimer(d time.Duration) (clock.Timer, <-chan time.Time) {
	return fakeTimer{}, make(chan time.Time)
}

func (c *fakeClock) NewTicker(d time.Duration) (clock.Ticker, <-chan time.Time) {
	return fakeTicker{}, make(chan time.Time)
}

// ---------------------------------------------------------------------
// In-memory FilePool below the real pool-backed file allocator.

type memPool struct{}

type memFile struct {
	mu   sync.Mutex
	data []byte
}

func (memPool) NewFile(holeSource pool.HoleSource, size uint64) (filesystem.FileReadWriter, error) {
	return &memFile{data: make([]byte, size)}, nil
}

func (f *memFile) Close() error { return nil }
func (f *memFile) Sync() error  { return nil }
func (f *memFile) Len() (int64, error) {
	f.mu.Lock()
	defer f.mu.Unlock()
	return int64(len(f.data)), nil
}

func (f *memFile) ReadAt(p []byte, off int64) (int, error) {
	f.mu.Lock()
	defer f.mu.Unlock()
	if off >= int64(len(f.data)) {
		return 0, io.EOF
	}
	n := copy(p, f.data[off:])
	if n < len(p) {
		return n, io.EOF
	}
	return n, nil
}

func (f *memFile) WriteAt(p []byte, off int64) (int, error) {
	f.mu.Lock()
	defer f.mu.Unlock()
	if end := int(off) + len(p); end > len(f.data) {
		f.data = append(f.data, make([]byte, end-len(f.data))...)
	}
	copy(f.data[off:], p)
	return len(p), nil
}

func (f *memFile) Truncate(size int64) error {
	f.mu.Lock()
	defer f.mu.Unlock()
	if int(size) <= len(f.data) {
		f.data = f.data[:size]
	} else {
		f.data = append(f.data, make([]byte, int(size)-len(f.data))...)
	}
	return nil
}

func (f *memFile) GetNextRegionOffset(offset int64, regionType filesystem.RegionType) (int64, error) {
	f.mu.Lock()
	defer f.mu.Unlock()
	if offset >= int64(len(f.data)) {
		return 0, io.EOF
	}
	if regionType == filesystem.Data {
		return offset, nil
	}
	return int64(len(f.data)), nil
}

// ---------------------------------------------------------------------
// Instrumented leaves: count every open and close per access bit and
// allow VirtualRead/VirtualWrite to be held (I/O in flight).

type leafStats struct {
	idx            int
	openR, openW   int
	closeR, closeW int
	unlinked       bool
	ioWhileClosed  int // reads/writes that arrived while the bit was not open
}

type whoAreYou struct{ idx int }

type instrLeaf struct {
	virtual.LinkableLeaf
	env *env
	st  *leafStats
}

func (l *instrLeaf) VirtualApply(data any) bool {
	if w, ok := data.(*whoAreYou); ok {
		w.idx = l.st.idx
		return true
	}
	return l.LinkableLeaf.VirtualApply(data)
}

func (l *instrLeaf) VirtualOpenSelf(ctx context.Context, shareAccess virtual.ShareMask, options *virtual.OpenExistingOptions, requested virtual.AttributesMask, attributes *virtual.Attributes) virtual.Status {
	s := l.LinkableLeaf.VirtualOpenSelf(ctx, shareAccess, options, requested, attributes)
	if s == virtual.StatusOK {
		l.env.mu.Lock()
		if shareAccess&virtual.ShareMaskRead != 0 {
			l.st.openR++
		}
		if shareAccess&virtual.ShareMaskWrite != 0 {
			l.st.openW++
		}
		l.env.mu.Unlock()
	}
	return s
}

func (l *instrLeaf) VirtualClose(shareAccess virtual.ShareMask) {
	l.env.mu.Lock()
	if shareAccess&virtual.ShareMaskRead != 0 {
		l.st.closeR++
	}
	if shareAccess&virtual.ShareMaskWrite != 0 {
		l.st.closeW++
	}
	over := l.st.closeR > l.st.openR || l.st.closeW > l.st.openW
	l.env.mu.Unlock()
	if over {
		// Do not forward: the real leaf would panic on its own
		// reference count. The counters carry the information.
		return
	}
	l.LinkableLeaf.VirtualClose(shareAccess)
}

func (l *instrLeaf) Unlink() {
	l.env.mu.Lock()
	l.st.unlinked = true
	l.env.mu.Unlock()
	l.LinkableLeaf.Unlink()
}

// notOpen reports (and counts) an I/O call on a leaf that is not open
// for the needed access at that moment.
func (l *instrLeaf) notOpen(write bool) bool {
	l.env.mu.Lock()
	defer l.env.mu.Unlock()
	closed := l.st.openR-l.st.closeR <= 0
	if write {
		closed = l.st.openW-l.st.closeW <= 0
	}
	if closed {
		l.st.ioWhileClosed++
	}
	return closed
}

func (l *instrLeaf) VirtualRead(ctx context.Context, buf []byte, offset uint64) (int, bool, virtual.Status) {
	before := l.notOpen(false)
	l.env.gate("READ", l.st.idx)
	if after := l.notOpen(false); before || after {
		// Do not forward: the real leaf may already have released
		// its backing file. The counter carries the information.
		return 0, false, virtual.StatusErrIO
	}
	return l.LinkableLeaf.VirtualRead(ctx, buf, offset)
}

func (l *instrLeaf) VirtualWrite(ctx context.Context, buf []byte, offset uint64) (int, virtual.Status) {
	before := l.notOpen(true)
	l.env.gate("WRITE", l.st.idx)
	if after := l.notOpen(true); before || after {
		return 0, virtual.StatusErrIO
	}
	return l.LinkableLeaf.VirtualWrite(ctx, buf, offset)
}

type instrAllocator struct {
	base virtual.FileAllocator
	env  *env
}

func (a *instrAllocator) NewFile(holeSource pool.HoleSource, isExecutable bool, size uint64, shareAccess virtual.ShareMask) (virtual.LinkableLeaf, error) {
	leaf, err := a.base.NewFile(holeSource, isExecutable, size, shareAccess)
	if err != nil {
		return nil, err
	}
	a.env.mu.Lock()
	st := &leafStats{idx: len(a.env.leaves) + 1}
	if shareAccess&virtual.ShareMaskRead != 0 {
		st.openR++
	}
	if shareAccess&virtual.ShareMaskWrite != 0 {
		st.openW++
	}
	a.env.leaves = append(a.env.leaves, st)
	a.env.mu.Unlock()
	return &instrLeaf{LinkableLeaf: leaf, env: a.env, st: st}, nil
}

// ---------------------------------------------------------------------
// The environment: one server instance plus token tables.

const (
	leaseTicks = 10 // enforced lease = 10.5 s
	nSlots     = 2
	maxOps     = 8
	nPos       = 4 // lock positions 0..nPos; nPos = end of file (2^64-1)
)

type heldIO struct {
	arrived chan struct{}
	release chan struct{}
}

type env struct {
	tr     *common.Trace
	prog   nfsv4.Nfs4Program
	pool   *nfsserver.OpenedFilesPool
	halloc *virtual.NFSStatefulHandleAllocator
	root   virtual.PrepopulatedDirectory
	clk    *fakeClock
	rootFH []byte

	mu     sync.Mutex
	leaves []*leafStats

	// gate: when armed, the next VirtualRead/VirtualWrite on the
	// given leaf blocks until released.
	gateMu   sync.Mutex
	gateLeaf int
	gateOp   string
	gateHeld *heldIO

	handleTok map[string]string
	cidTok    map[uint64]int
	sessTok   map[[16]byte]int
	otherTok  map[uint64]int
	ctxBusy   map[int]bool
	scen      string
	panicked  atomic.Bool
	async     bool // requests may be held in flight: no call may wait forever
	stuck     bool // a server lock was left held: nothing more is sent to this server
}

func (e *env) gate(op string, leaf int) {
	e.gateMu.Lock()
	h := e.gateHeld
	if h == nil || e.gateLeaf != leaf || e.gateOp != op {
		e.gateMu.Unlock()
		return
	}
	e.gateHeld = nil
	e.gateMu.Unlock()
	close(h.arrived)
	<-h.release
}

func (e *env) armGate(op string, leaf int) *heldIO {
	h := &heldIO{arrived: make(chan struct{}), release: make(chan struct{})}
	e.gateMu.Lock()
	e.gateLeaf, e.gateOp, e.gateHeld = leaf, op, h
	e.gateMu.Unlock()
	return h
}

func (e *env) disarmGate() {
	e.gateMu.Lock()
	e.gateHeld = nil
	e.gateMu.Unlock()
}

// followSecondLockState: the scripted histories of finding K1. A server
// that gives a lock-owner a second piece of lock state on a file is
// followed there (so that the history reaches the CLOSE that fails),
// everywhere else the reference expects the lock state to be shared.
var followSecondLockState = map[string]bool{
	"lock-owner-identity-F1":     true,
	"two-lofs-same-owner-probe":  true,
	"two-lofs-close-other-first": true,
}

var serverOwner = nfsv4.ServerOwner4{SoMinorId: 7, SoMajorId: []byte("verif-major")}

// newEnv creates a fresh server and emits the reset event. names are
// the files that exist initially; they become files 1..len(names).
func newEnv(tr *common.Trace, traceNo int, scen string, seed int64, names []string) *env {
	e := &env{
		tr:        tr,
		scen:      scen,
		clk:       &fakeClock{},
		handleTok: map[string]string{},
		cidTok:    map[uint64]int{},
		sessTok:   map[[16]byte]int{},
		otherTok:  map[uint64]int{},
	}
	e.halloc = virtual.NewNFSHandleAllocator(detRand{rand.New(rand.NewSource(seed*7 + 1))})
	noAttrs := func(requested virtual.AttributesMask, attributes *virtual.Attributes) {}
	fileAllocator := virtual.NewHandleAllocatingFileAllocator(
		&instrAllocator{
			base: virtual.NewPoolBackedFileAllocator(memPool{}, util.DefaultErrorLogger, noAttrs, virtual.NoNamedAttributesFactory),
			env:  e,
		},
		e.halloc,
	)
	e.root = virtual.NewInMemoryPrepopulatedDirectory(
		fileAllocator,
		virtual.NewBaseSymlinkFactory(noAttrs),
		util.DefaultErrorLogger,
		e.halloc,
		sort.Sort,
		func(string) bool { return false },
		e.clk,
		virtual.CaseSensitiveComponentNormalizer,
		noAttrs,
		virtual.NoNamedAttributesFactory,
	)
	e.pool = nfsserver.NewOpenedFilesPool(e.halloc.ResolveHandle)
	e.prog = nfsserver.NewNFS41Program(
		e.root,
		e.pool,
		serverOwner,
		[]byte("verif-scope"),
		&nfsv4.ChannelAttrs4{
			CaMaxrequestsize:        1 << 20,
			CaMaxresponsesize:       1 << 20,
			CaMaxresponsesizeCached: 1 << 16,
			CaMaxoperations:         maxOps,
			CaMaxrequests:           nSlots,
		},
		detRand{rand.New(rand.NewSource(seed*7 + 2))},
		nfsv4.Verifier4{1, 2, 3, 4, 5, 6, 7, 8},
		e.clk,
		leaseTicks*time.Second+500*time.Millisecond,
		leaseTicks*time.Second,
		path.UNIXFormat,
		[]nfsv4.Secinfo4{&nfsv4.Secinfo4_default{Flavor: rpcv2.AUTH_NONE}},
	)
	var attributes virtual.Attributes
	e.root.VirtualGetAttributes(context.Background(), virtual.AttributesMaskFileHandle, &attributes)
	e.rootFH = attributes.GetFileHandle()
	e.handleTok[string(e.rootFH)] = "root"

	for _, n := range names {
		var a virtual.Attributes
		leaf, _, _, s := e.root.VirtualOpenChild(context.Background(), path.MustNewComponent(n), virtual.ShareMaskWrite, (&virtual.Attributes{}).SetPermissions(virtual.PermissionsRead|virtual.PermissionsWrite), nil, virtual.AttributesMaskFileHandle, &a)
		if s != virtual.StatusOK {
			panic(fmt.Sprintf("cannot create initial file %s: %v", n, s))
		}
		leaf.VirtualWrite(context.Background(), []byte("0123456789abcdef"), 0)
		leaf.VirtualClose(virtual.ShareMaskWrite)
		e.tokOfHandle(a.GetFileHandle())
	}
	tr.Emit(common.Ev{"ev": "reset", "trace": traceNo, "scen": scen, "oldalt": followSecondLockState[scen], "names": names, "lease": leaseTicks, "nslots": nSlots, "maxops": maxOps, "leaves": e.leafCounters()})
	return e
}

// tokOfHandle maps a file handle to "root", "h<n>" (n = creation index
// of the instrumented leaf), or "h?" if it cannot be attributed.
func (e *env) tokOfHandle(h []byte) string {
	if t, ok := e.handleTok[string(h)]; ok {
		return t
	}
	child, st := e.pool.Resolve(h)
	if st != nfsv4.NFS4_OK {
		return "h?"
	}
	_, leaf := child.GetPair()
	if leaf == nil {
		return "h?"
	}
	var w whoAreYou
	if !leaf.VirtualApply(&w) || w.idx == 0 {
		return "h?"
	}
	t := fmt.Sprintf("h%d", w.idx)
	e.handleTok[string(h)] = t
	return t
}

// handleOfTok is the inverse; it returns nil for unknown tokens.
func (e *env) handleOfTok(tok string) []byte {
	for h, t := range e.handleTok {
		if t == tok {
			return []byte(h)
		}
	}
	return nil
}

// learnHandles attributes handles to every file that is currently
// linked in the root directory (called after compounds that may have
// created files).
func (e *env) learnHandles(names []string) {
	for _, n := range names {
		var a virtual.Attributes
		child, s := e.root.VirtualLookup(context.Background(), path.MustNewComponent(n), virtual.AttributesMaskFileHandle, &a)
		if s != virtual.StatusOK {
			continue
		}
		h := a.GetFileHandle()
		if _, ok := e.handleTok[string(h)]; ok {
			continue
		}
		if _, leaf := child.GetPair(); leaf != nil {
			var w whoAreYou
			if leaf.VirtualApply(&w) && w.idx != 0 {
				e.handleTok[string(h)] = fmt.Sprintf("h%d", w.idx)
			}
		}
	}
}

func fileNo(tok string) int {
	var n int
	if _, err := fmt.Sscanf(tok, "h%d", &n); err != nil {
		return 0
	}
	return n
}

func (e *env) cid(id uint64) int {
	if t, ok := e.cidTok[id]; ok {
		return t
	}
	t := len(e.cidTok) + 1
	e.cidTok[id] = t
	return t
}

func (e *env) sess(id [16]byte) int {
	if t, ok := e.sessTok[id]; ok {
		return t
	}
	t := len(e.sessTok) + 1
	e.sessTok[id] = t
	return t
}

func (e *env) other(o uint64) int {
	if t, ok := e.otherTok[o]; ok {
		return t
	}
	t := len(e.otherTok) + 1
	e.otherTok[o] = t
	return t
}

// newCtx returns the smallest free execution context number.
func (e *env) newCtx() int {
	e.mu.Lock()
	defer e.mu.Unlock()
	if e.ctxBusy == nil {
		e.ctxBusy = map[int]bool{}
	}
	for x := 1; ; x++ {
		if !e.ctxBusy[x] {
			e.ctxBusy[x] = true
			return x
		}
	}
}

func (e *env) freeCtx(x int) {
	e.mu.Lock()
	delete(e.ctxBusy, x)
	e.mu.Unlock()
}

func (e *env) advance(ticks int) {
	e.clk.mu.Lock()
	e.clk.ticks += ticks
	now := e.clk.ticks
	e.clk.mu.Unlock()
	e.tr.Emit(common.Ev{"ev": "clock", "now": now})
}

// ---------------------------------------------------------------------
// Lock positions: position p stands for offset 10*p, position nPos for
// the maximum offset.

func pos(p int) uint64 {
	if p >= nPos {
		return math.MaxUint64
	}
	return uint64(p) * 10
}

func unpos(v uint64) int {
	if v == math.MaxUint64 {
		return nPos
	}
	if v%10 != 0 || v/10 > uint64(nPos) {
		return -1
	}
	return int(v / 10)
}

// ---------------------------------------------------------------------
// Snapshots of the server state, the pool and the leaves.

func shareStr(m virtual.ShareMask) string {
	s := ""
	if m&virtual.ShareMaskRead != 0 {
		s += "R"
	}
	if m&virtual.ShareMaskWrite != 0 {
		s += "W"
	}
	if m&^(virtual.ShareMaskRead|virtual.ShareMaskWrite) != 0 {
		s += "?"
	}
	return s
}

func (e *env) leafCounters() []map[string]any {
	e.mu.Lock()
	defer e.mu.Unlock()
	out := []map[string]any{}
	for _, st := range e.leaves {
		out = append(out, map[string]any{"f": st.idx, "or": st.openR, "cr": st.closeR, "ow": st.openW, "cw": st.closeW, "bad": st.ioWhileClosed})
	}
	return out
}

func verifierNo(v [8]byte) int { return int(binary.BigEndian.Uint32(v[4:])) }

func clampU32(v uint32) int {
	if v > 1000000 {
		return 1000000
	}
	return int(v)
}

// snapshot emits a "snap" event. It must only be called when no
// compound is executing inside the server's locks.
func (e *env) snapshot(why string) {
	ev := common.Ev{"ev": "snap", "why": why, "lockleak": false}
	func() {
		defer func() {
			if r := recover(); r != nil {
				ev["hookpanic"] = fmt.Sprint(r)
			}
		}()
		// Snapshots are taken when no request executes inside the server:
		// every request has returned, is parked inside a leaf's
		// VirtualRead/VirtualWrite (the server holds none of its locks
		// while it calls the leaf) or waits for the result of the request
		// it duplicates (on a channel, after the server's locks were
		// dropped). So every lock of the server and of the pool must be
		// free. If one is not, the state hooks (which take the locks)
		// would block: the snapshot is logged without state and nothing
		// more is sent to this server.
		free := nfsserver.VerifNFS41LocksFree(e.prog) && e.pool.VerifLockProbeIsFree()
		ev["lk"] = free
		if !free {
			ev["lockleak"] = true
			e.stuck = true
			return
		}
		s, ok := nfsserver.VerifNFS41State(e.prog)
		if !ok {
			panic("not an NFSv4.1 program")
		}
		incs := []map[string]any{}
		oofs := []map[string]any{}
		lofs := []map[string]any{}
		sort.Slice(s.Incarnations, func(i, j int) bool {
			a, b := s.Incarnations[i], s.Incarnations[j]
			if a.OwnerID != b.OwnerID {
				return a.OwnerID < b.OwnerID
			}
			return verifierNo(a.Verifier) < verifierNo(b.Verifier)
		})
		for _, inc := range s.Incarnations {
			c := e.cid(inc.ClientID)
			incs = append(incs, map[string]any{
				"own": inc.OwnerID, "ver": verifierNo(inc.Verifier), "cid": c,
				"conf": inc.Confirmed, "hold": inc.HoldCount, "idle": inc.Idle,
				"seen":  int((inc.LastSeenUnixNano - clockBase.UnixNano()) / int64(time.Second)),
				"noo":   inc.OpenOwners,
				"los":   append([]string{}, inc.LockOwners...),
				"nlofs": inc.LockOwnerFiles,
				"nsess": len(inc.Sessions),
			})
			for _, o := range inc.OpenOwnerFiles {
				f := fileNo(e.tokOfHandle(o.Handle))
				oofs = append(oofs, map[string]any{
					"cid": c, "oo": string(o.OpenOwner), "f": f, "sh": shareStr(o.ShareAccess),
					"q": clampU32(o.SeqID), "o": e.other(o.Other), "rd": o.Readers, "wr": o.Writers,
				})
				for _, l := range o.LockOwnerFiles {
					lofs = append(lofs, map[string]any{
						"cid": c, "oo": string(o.OpenOwner), "f": f, "lo": string(l.LockOwner), "sh": shareStr(l.ShareAccess),
						"q": clampU32(l.SeqID), "o": e.other(l.Other), "lc": l.LockCount,
					})
				}
			}
		}
		sortMaps(oofs, "cid", "oo", "f")
		sortMaps(lofs, "cid", "oo", "f", "lo")
		sess := []map[string]any{}
		for _, ss := range s.Sessions {
			slots := []map[string]any{}
			for _, sl := range ss.Slots {
				slots = append(slots, map[string]any{"q": clampU32(sl.LastSequenceID), "busy": sl.InFlight, "w": sl.Waiters,
					"cst": statusName(sl.CachedStatus), "clen": sl.CachedLength})
			}
			sess = append(sess, map[string]any{"sid": e.sess(ss.SessionID), "cid": e.cid(ss.ClientID), "slots": slots})
		}
		sortMaps(sess, "sid")
		files := []map[string]any{}
		locks := []map[string]any{}
		for _, pf := range nfsserver.VerifNFS41PoolState(e.pool) {
			f := fileNo(e.tokOfHandle(pf.Handle))
			files = append(files, map[string]any{"f": f, "use": pf.UseCount})
			for _, l := range pf.Locks {
				t := "?"
				switch l.Type {
				case virtual.ByteRangeLockTypeLockedShared:
					t = "S"
				case virtual.ByteRangeLockTypeLockedExclusive:
					t = "X"
				}
				locks = append(locks, map[string]any{"f": f, "cid": e.cid(l.OwnerClientID), "lo": string(l.Owner), "s": unpos(l.Start), "e": unpos(l.End), "t": t})
			}
		}
		sortMaps(files, "f")
		sortMaps(locks, "f", "s", "cid", "lo")
		ev["nclients"] = s.Clients
		ev["nbyid"] = s.IncarnationsByID
		ev["nidle"] = s.IdleIncarnations
		ev["incs"] = incs
		ev["oofs"] = oofs
		ev["lofs"] = lofs
		ev["sess"] = sess
		ev["pool"] = files
		ev["locks"] = locks
	}()
	for _, k := range []string{"incs", "oofs", "lofs", "sess", "pool", "locks"} {
		if _, ok := ev[k]; !ok {
			ev[k] = []map[string]any{}
		}
	}
	for _, k := range []string{"nclients", "nbyid", "nidle"} {
		if _, ok := ev[k]; !ok {
			ev[k] = -1
		}
	}
	if _, ok := ev["lk"]; !ok {
		ev["lk"] = false
	}
	if _, ok := ev["hookpanic"]; !ok {
		ev["hookpanic"] = ""
	}
	ev["leaves"] = e.leafCounters()
	ev["linked"] = e.linkedNames()
	e.tr.Emit(ev)
}

// linkedNames reports which names exist in the root directory and which
// file each denotes.
func (e *env) linkedNames() []map[string]any {
	out := []map[string]any{}
	for _, n := range allNames {
		var a virtual.Attributes
		child, s := e.root.VirtualLookup(context.Background(), path.MustNewComponent(n), virtual.AttributesMaskFileHandle, &a)
		if s != virtual.StatusOK {
			continue
		}
		f := 0
		if _, leaf := child.GetPair(); leaf != nil {
			var w whoAreYou
			if leaf.VirtualApply(&w) {
				f = w.idx
				e.handleTok[string(a.GetFileHandle())] = fmt.Sprintf("h%d", w.idx)
			}
		}
		out = append(out, map[string]any{"name": n, "f": f})
	}
	return out
}

func sortMaps(ms []map[string]any, keys ...string) {
	sort.SliceStable(ms, func(i, j int) bool {
		for _, k := range keys {
			a, b := fmt.Sprint(ms[i][k]), fmt.Sprint(ms[j][k])
			if ai, ok := ms[i][k].(int); ok {
				bi := ms[j][k].(int)
				if ai != bi {
					return ai < bi
				}
				continue
			}
			if a != b {
				return a < b
			}
		}
		return false
	})
}

// ---------------------------------------------------------------------
// Reply reduction helpers.

func statusName(st nfsv4.Nfsstat4) string {
	if st == nfsv4.NFS4_OK {
		return "OK"
	}
	if n, ok := nfsv4.Nfsstat4_name[st]; ok {
		return strings.TrimPrefix(n, "NFS4ERR_")
	}
	return fmt.Sprintf("ERR_%d", int(st))
}

func opName(op nfsv4.NfsOpnum4) string {
	if n, ok := nfsv4.NfsOpnum4_name[op]; ok {
		return strings.TrimPrefix(n, "OP_")
	}
	return fmt.Sprintf("OP_%d", int(op))
}

// resopStatus extracts the status of any nfs_resop4: on the wire every
// result starts with the operation number followed by the status.
func resopStatus(r nfsv4.NfsResop4) nfsv4.Nfsstat4 {
	b := bytes.NewBuffer(nil)
	if _, err := r.WriteTo(b); err != nil || b.Len() < 8 {
		return nfsv4.Nfsstat4(-1)
	}
	return nfsv4.Nfsstat4(binary.BigEndian.Uint32(b.Bytes()[4:8]))
}

func replyHash(res *nfsv4.Compound4res) string {
	b := bytes.NewBuffer(nil)
	if _, err := res.WriteTo(b); err != nil {
		return "unencodable:" + err.Error()
	}
	h := sha256.Sum256(b.Bytes())
	return hex.EncodeToString(h[:8])
}
