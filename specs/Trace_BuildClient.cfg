SPECIFICATION TraceSpec
CONSTANTS
  Digests = {"d1", "d2"}
  MaxUpd = 3
  MaxExecs = 1000000
  MaxClock = 1000000
  Minute = 60
  Deltas = {0}
  Cap = 10
INVARIANTS
  VerdictOK
  C08_OneAtATimeObserved
  C08_Honest
  C08_NoSolicit
  C08_Shutdown
  NonconfReport
POSTCONDITION Accepted
CHECK_DEADLOCK FALSE
