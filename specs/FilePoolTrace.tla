---------------------------- MODULE FilePoolTrace ----------------------------
(***************************************************************************)
(* Validates traces recorded from the real file pool stack                 *)
(*   quotaEnforcingFilePool -> (failing base pool of the harness) ->       *)
(*   blockDeviceBackedFilePool -> logging wrapper -> bitmapSectorAllocator *)
(* against the abstract file of FilePoolOps.tla (property C15).            *)
(*                                                                         *)
(* Events.  Calls made *by* the real code on its collaborators are logged  *)
(* while the public call runs, so they precede the event of the call:      *)
(*   alloc / freec / freel   calls on the real sector allocator            *)
(*   dev                     block device access (sectors touched)         *)
(*   fault                   the harness made a collaborator fail          *)
(* Public calls (arguments, reply, raw counters read through the hook):    *)
(*   new write read trunc seek(s) close; probe = after closing everything,    *)
(*   the harness allocated sectors until the allocator refused.            *)
(*                                                                         *)
(* Every line is consumed.  `verdict` is "ok" or "C15:<reason>".           *)
(***************************************************************************)
EXTENDS FilePoolOps, Json, TLC, TLCExt

TraceLog == ndJsonDeserialize("trace.ndjson")

Slots == 1 .. 4

VARIABLES l,        \* next line of TraceLog
          verdict,  \* "ok" or why the last consumed line breaks C15
          nonconf,  \* lines the model does not decide (outside its assumptions)
          cfg,      \* configuration of the current trace (the reset event)
          fl,       \* [Slots -> abstract file]
          own,      \* [1 .. nsec -> owner]: 0 = free, else slot (99 = probe)
          pend      \* what happened inside the call in progress

tvars == <<l, verdict, nonconf, cfg, fl, own, pend>>

Line == TraceLog[l]
IsEvent(e) == l <= Len(TraceLog) /\ Line.ev = e /\ l' = l + 1

NoPend == [fault |-> FALSE, aerr |-> FALSE]

\* The first reason that is not "ok".
RECURSIVE FirstBad(_)
FirstBad(vs) == IF vs = <<>> THEN "ok" ELSE IF Head(vs) # "ok" THEN Head(vs) ELSE FirstBad(Tail(vs))

Check(cond, reason) == IF cond THEN "ok" ELSE reason

-----------------------------------------------------------------------------
(* Conservation, evaluated on the log.                                     *)

SumOpen(F) == F[1].size + F[2].size + F[3].size + F[4].size   \* closed files have size 0
NOpen(F) == Cardinality({s \in Slots : F[s].open})
FilesLeft(F) == cfg.mf - NOpen(F)
BytesLeft(F) == cfg.mb - SumOpen(F)

\* The quota counters of the real pool are what the open files leave.
QuotaVerdict(F, e) ==
  IF cfg.quota = 0 \/ e.fr = -1 THEN "ok"
  ELSE IF e.fr # FilesLeft(F) THEN "C15:file-quota-not-conserved"
  ELSE IF e.br # BytesLeft(F) THEN "C15:byte-quota-not-conserved"
  ELSE "ok"

OwnedBy(o, f) == {s \in DOMAIN o : o[s] = f}
FreeCount(o) == Cardinality(OwnedBy(o, 0))

\* The allocator's bitmap agrees with the calls made on it.
NfreeVerdict(e) ==
  Check(e.nfree = -1 \/ e.nfree = FreeCount(own), "C15:allocator-bitmap-differs-from-alloc-free-history")

\* A file never holds more sectors than its size needs, and none once it
\* is closed ("returned exactly once on truncate or close").
OwnVerdict(F, f) ==
  LET have == Cardinality(OwnedBy(own, f)) IN
    IF ~F[f].open THEN Check(have = 0, "C15:sectors-not-returned-on-close")
    ELSE Check(have <= SectorsFor(F[f].size, cfg.ss), "C15:sectors-not-returned-on-truncate")

\* The model also knows which blocks hold data under the real code's
\* allocation discipline (a block gets a sector on the first write that
\* touches it).  Holding a different number of sectors is not forbidden by
\* the statement (leaks and foreign sectors are caught by OwnVerdict, TDev
\* and the final probe), so it only counts as a non-conformance.
OwnOdd(F, f) ==
  F[f].open /\ F[f].unk = {} /\ Cardinality(OwnedBy(own, f)) # Cardinality(F[f].asec)

-----------------------------------------------------------------------------
TInit ==
  /\ l = 1 /\ verdict = "ok" /\ nonconf = 0
  /\ cfg = [ss |-> 1, nsec |-> 0, mo |-> 1, quota |-> 0, mf |-> 0, mb |-> 0]
  /\ fl = [s \in Slots |-> ClosedFile(1)]
  /\ own = <<>>
  /\ pend = NoPend

\* Start of a new trace: a fresh device, allocator and pool stack.
TReset ==
  /\ IsEvent("reset")
  /\ cfg' = [ss |-> Line.ss, nsec |-> Line.nsec, mo |-> Line.mo,
             quota |-> Line.quota, mf |-> Line.mf, mb |-> Line.mb]
  /\ fl' = [s \in Slots |-> ClosedFile(Line.mo)]
  /\ own' = [s \in 1 .. Line.nsec |-> 0]
  /\ pend' = NoPend
  /\ verdict' = "ok"
  /\ UNCHANGED nonconf

-----------------------------------------------------------------------------
(* Calls on the real sector allocator.                                     *)

TAlloc ==
  /\ IsEvent("alloc")
  /\ LET e == Line
         run == e.first .. (e.first + e.n - 1)
         inRange == e.n >= 1 /\ e.n <= e.max /\ e.first >= 1 /\ e.first + e.n - 1 <= cfg.nsec
     IN
       IF e.err = 1
       THEN /\ verdict' = Check(FreeCount(own) = 0, "C15:allocator-refuses-although-sectors-are-free")
            /\ pend' = [pend EXCEPT !.aerr = TRUE]
            /\ UNCHANGED own
       ELSE /\ verdict' = IF ~inRange THEN "C15:allocator-result-out-of-range"
                          ELSE Check(\A s \in run : own[s] = 0, "C15:sector-handed-out-twice")
            /\ own' = IF inRange THEN [s \in DOMAIN own |-> IF s \in run THEN e.f ELSE own[s]] ELSE own
            /\ UNCHANGED pend
  /\ UNCHANGED <<nonconf, cfg, fl>>

\* Giving back the set S of sectors on behalf of owner f.
FreeVerdict(S, f) ==
  IF \E s \in S : s < 1 \/ s > cfg.nsec THEN "C15:free-of-sector-out-of-range"
  ELSE IF \E s \in S : own[s] = 0 THEN "C15:sector-freed-twice"
  ELSE IF \E s \in S : own[s] # f THEN "C15:sector-of-another-file-freed"
  ELSE "ok"

FreeApply(S) == [s \in DOMAIN own |-> IF s \in S THEN 0 ELSE own[s]]

TFreeC ==
  /\ IsEvent("freec")
  /\ LET e == Line
         S == e.first .. (e.first + e.n - 1)
     IN /\ verdict' = IF e.n < 1 THEN "C15:free-of-sector-out-of-range" ELSE FreeVerdict(S, e.f)
        /\ own' = FreeApply(S)
  /\ UNCHANGED <<nonconf, cfg, fl, pend>>

TFreeL ==
  /\ IsEvent("freel")
  /\ LET e == Line
         nz == {i \in 1 .. Len(e.secs) : e.secs[i] # 0}    \* zero = hole, ignored
         S == {e.secs[i] : i \in nz}
     IN /\ verdict' = IF Cardinality(S) # Cardinality(nz) THEN "C15:sector-freed-twice"
                      ELSE FreeVerdict(S, e.f)
        /\ own' = FreeApply(S)
  /\ UNCHANGED <<nonconf, cfg, fl, pend>>

\* A file touches only device sectors it owns at that moment.
TDev ==
  /\ IsEvent("dev")
  /\ LET e == Line IN
       verdict' = IF e.oob = 1 \/ e.s0 < 1 \/ e.s1 > cfg.nsec THEN "C15:device-access-out-of-range"
                  ELSE Check(\A s \in e.s0 .. e.s1 : own[s] = e.f, "C15:device-access-outside-own-sectors")
  /\ UNCHANGED <<nonconf, cfg, fl, own, pend>>

TFault ==
  /\ IsEvent("fault")
  /\ pend' = [pend EXCEPT !.fault = TRUE]
  /\ verdict' = "ok"
  /\ UNCHANGED <<nonconf, cfg, fl, own>>

-----------------------------------------------------------------------------
(* Public calls.                                                           *)

PatOf(e) == [o \in 0 .. (cfg.mo - 1) |-> IF o < Len(e.pat) THEN e.pat[o + 1] ELSE 0]

TNew ==
  /\ IsEvent("new")
  /\ LET e == Line
         f == e.f
         refuse == cfg.quota = 1 /\ (FilesLeft(fl) < 1 \/ e.size > BytesLeft(fl))
         F == IF e.err = "ok" /\ ~fl[f].open
              THEN [fl EXCEPT ![f] = FNew(PatOf(e), Len(e.pat), e.size, cfg.mo)] ELSE fl
     IN
       /\ fl' = F
       /\ verdict' = FirstBad(<<
            Check(~fl[f].open, "NC:driver-created-file-in-open-slot"),
            Check(refuse => e.err = "err", "C15:quota-exceeded-but-file-created"),
            Check((e.err = "err" /\ ~refuse) => pend.fault, "C15:error-without-cause"),
            QuotaVerdict(F, e), NfreeVerdict(e), OwnVerdict(F, f) >>)
  /\ pend' = NoPend
  /\ UNCHANGED <<nonconf, cfg, own>>

TWrite ==
  /\ IsEvent("write")
  /\ LET e == Line
         f == e.f
         cnt == Len(e.data)
         want == e.off + cnt
         refuse == cfg.quota = 1 /\ want > fl[f].size /\ want - fl[f].size > BytesLeft(fl)
         rejected == e.off < 0 \/ refuse
         nOK == e.n >= 0 /\ e.n <= cnt
         F == IF rejected \/ ~nOK THEN fl
              ELSE [fl EXCEPT ![f] = FWrite(fl[f], e.off, e.data, e.n, cfg.ss)]
     IN
       /\ fl' = F
       /\ verdict' = FirstBad(<<
            Check(fl[f].open, "NC:driver-wrote-closed-file"),
            Check(refuse => (e.err = "err" /\ e.n = 0), "C15:quota-exceeded-but-write-accepted"),
            Check(e.off < 0 => (e.err = "err" /\ e.n = 0), "C15:negative-offset-accepted"),
            Check(nOK, "C15:write-count-out-of-range"),
            Check(e.err = "ok" => e.n = cnt, "C15:short-write-without-error"),
            Check((e.err = "err" /\ ~rejected) => (pend.fault \/ pend.aerr), "C15:error-without-cause"),
            Check(e.len = F[f].size, "C15:size-after-write"),
            QuotaVerdict(F, e), NfreeVerdict(e), OwnVerdict(F, f) >>)
  /\ pend' = NoPend
  /\ nonconf' = IF OwnOdd(fl', Line.f) THEN nonconf + 1 ELSE nonconf
  /\ UNCHANGED <<cfg, own>>

TRead ==
  /\ IsEvent("read")
  /\ LET e == Line
         f == e.f
         size == fl[f].size
         want == ReadCount(fl[f], e.off, e.cnt)
     IN
       verdict' = FirstBad(<<
         Check(fl[f].open, "NC:driver-read-closed-file"),
         Check(e.n >= 0 /\ e.n <= e.cnt /\ e.n = Len(e.data), "C15:read-count-out-of-range"),
         IF e.off < 0 THEN Check(e.err = "err" /\ e.n = 0, "C15:negative-offset-accepted")
         ELSE IF e.err = "err"
         THEN FirstBad(<< Check(pend.fault, "C15:error-without-cause"),
                          Check(e.n <= want, "C15:read-beyond-end-of-file"),
                          Check(ReadAgrees(fl[f], e.off, e.data), "C15:read-differs-from-last-write-or-hole-source") >>)
         ELSE FirstBad(<<
                Check(e.n = want, IF e.n > want THEN "C15:read-beyond-end-of-file" ELSE "C15:short-read-inside-file"),
                \* io.ReaderAt: a read that ends exactly at the end may or may not report EOF
                Check(e.off + e.cnt > size => e.eof = 1, "C15:short-read-without-eof"),
                Check(e.off + e.cnt < size => e.eof = 0, "C15:eof-inside-file"),
                Check(ReadAgrees(fl[f], e.off, e.data), "C15:read-differs-from-last-write-or-hole-source") >>) >>)
  /\ pend' = NoPend
  /\ UNCHANGED <<nonconf, cfg, fl, own>>

TTrunc ==
  /\ IsEvent("trunc")
  /\ LET e == Line
         f == e.f
         s == e.size
         refuse == cfg.quota = 1 /\ s > fl[f].size /\ s - fl[f].size > BytesLeft(fl)
         rejected == s < 0 \/ refuse
         F == IF rejected THEN fl
              ELSE IF e.err = "ok" THEN [fl EXCEPT ![f] = FTrunc(fl[f], s, cfg.ss)]
              ELSE [fl EXCEPT ![f] = FTruncFailed(fl[f], s)]
     IN
       /\ fl' = F
       /\ verdict' = FirstBad(<<
            Check(fl[f].open, "NC:driver-truncated-closed-file"),
            Check(refuse => e.err = "err", "C15:quota-exceeded-but-truncate-accepted"),
            Check(s < 0 => e.err = "err", "C15:negative-size-accepted"),
            Check((e.err = "err" /\ ~rejected) => pend.fault, "C15:error-without-cause"),
            Check(e.len = F[f].size, "C15:size-after-truncate"),
            QuotaVerdict(F, e), NfreeVerdict(e), OwnVerdict(F, f) >>)
  /\ pend' = NoPend
  /\ nonconf' = IF OwnOdd(fl', Line.f) THEN nonconf + 1 ELSE nonconf
  /\ UNCHANGED <<cfg, own>>

\* One region seek on abstract file F: reply (res, eof, err) to
\* GetNextRegionOffset(off, t).  While the contents of a region are open, or
\* outside the assumption hlen <= size, only sanity is required.
SeekWant(F, off, t) == IF t = "D" THEN SeekData(F, off, cfg.ss) ELSE SeekHole(F, off, cfg.ss)
SeekExact(F, off, t, res, eof) ==
  LET want == SeekWant(F, off, t) IN IF want = -1 THEN eof = 1 ELSE (eof = 0 /\ res = want)
SeekLoose(F) == F.unk # {} \/ F.hlen > F.size
SeekSane(F, off, t, res, eof) == IF eof = 1 THEN t = "D" ELSE (off <= res /\ res <= F.size)

SeekVerdict(F, off, t, res, eof, err, faulted) ==
  IF ~F.open THEN "NC:driver-seek-on-closed-file"
  ELSE IF off < 0 THEN Check(err = "err", "C15:negative-offset-accepted")
  ELSE IF err = "err" THEN Check(faulted, "C15:error-without-cause")
  ELSE IF off >= F.size THEN Check(eof = 1, "C15:seek-beyond-end-must-report-eof")
  ELSE IF SeekLoose(F) THEN Check(SeekSane(F, off, t, res, eof), "C15:seek-result-outside-file")
  ELSE Check(SeekExact(F, off, t, res, eof),
             IF t = "D" THEN "C15:seek-data-wrong-offset" ELSE "C15:seek-hole-wrong-offset")

\* (only counted outside the assumption; open contents are not a mismatch)
SeekUndecided(F, off, t, res, eof, err) ==
  /\ F.open /\ off >= 0 /\ err = "ok" /\ off < F.size /\ F.hlen > F.size
  /\ SeekSane(F, off, t, res, eof) /\ ~SeekExact(F, off, t, res, eof)

TSeek ==
  /\ IsEvent("seek")
  /\ LET e == Line
         F == fl[e.f]
     IN
       /\ verdict' = SeekVerdict(F, e.off, e.t, e.res, e.eof, e.err, pend.fault)
       /\ nonconf' = IF SeekUndecided(F, e.off, e.t, e.res, e.eof, e.err) THEN nonconf + 1 ELSE nonconf
  /\ pend' = NoPend
  /\ UNCHANGED <<cfg, fl, own>>

\* GetNextRegionOffset(off, t) for off = 0 .. Len(res)-1 in one event.
TSeeks ==
  /\ IsEvent("seeks")
  /\ LET e == Line
         F == fl[e.f]
         I == 1 .. Len(e.res)
     IN
       /\ verdict' = FirstBad([i \in I |-> SeekVerdict(F, i - 1, e.t, e.res[i], e.eof[i], e.err[i], pend.fault)])
       /\ nonconf' = nonconf + Cardinality({i \in I : SeekUndecided(F, i - 1, e.t, e.res[i], e.eof[i], e.err[i])})
  /\ pend' = NoPend
  /\ UNCHANGED <<cfg, fl, own>>

\* Close releases sectors and quota whatever it returns.
TClose ==
  /\ IsEvent("close")
  /\ LET e == Line
         f == e.f
         F == [fl EXCEPT ![f] = ClosedFile(cfg.mo)]
     IN
       /\ fl' = F
       /\ verdict' = FirstBad(<<
            Check(fl[f].open, "NC:driver-closed-closed-file"),
            Check(e.err = "err" => pend.fault, "C15:error-without-cause"),
            QuotaVerdict(F, e), NfreeVerdict(e), OwnVerdict(F, f) >>)
  /\ pend' = NoPend
  /\ UNCHANGED <<nonconf, cfg, own>>

\* Everything is closed and the harness took sectors (as owner 99) until
\* the allocator refused: it must have got all of them.
TProbe ==
  /\ IsEvent("probe")
  /\ verdict' = FirstBad(<<
       Check(\A s \in Slots : ~fl[s].open, "NC:probe-with-open-files"),
       Check(\A s \in DOMAIN own : own[s] = 99, "C15:capacity-not-restored-after-closing-everything"),
       Check(Line.total = cfg.nsec, "C15:capacity-not-restored-after-closing-everything"),
       NfreeVerdict(Line) >>)
  /\ pend' = NoPend
  /\ UNCHANGED <<nonconf, cfg, fl, own>>

\* Allocator-only traces: the bitmap after a batch of calls.
TACheck ==
  /\ IsEvent("acheck")
  /\ verdict' = NfreeVerdict(Line)
  /\ pend' = NoPend
  /\ UNCHANGED <<nonconf, cfg, fl, own>>

\* The real code panicked (double free detected by the allocator, index out
\* of range, ...): a sparse byte array does not.
TPanic ==
  /\ IsEvent("panic")
  /\ verdict' = "C15:panic-in-real-code"
  /\ pend' = NoPend
  /\ UNCHANGED <<nonconf, cfg, fl, own>>

TNext ==
  \/ TReset \/ TAlloc \/ TFreeC \/ TFreeL \/ TDev \/ TFault
  \/ TNew \/ TWrite \/ TRead \/ TTrunc \/ TSeek \/ TSeeks \/ TClose \/ TProbe \/ TACheck \/ TPanic

TraceSpec == TInit /\ [][TNext]_tvars

-----------------------------------------------------------------------------
VerdictOK == verdict = "ok"

Accepted ==
  /\ TLCGet("stats").diameter - 1 = Len(TraceLog)
  /\ PrintT(<<"TRACE_ACCEPTED", Len(TraceLog)>>)

NonconfReport == (l <= Len(TraceLog)) \/ PrintT(<<"NONCONF", nonconf>>)
=============================================================================
