// Package vfsdir drives the real in-memory PrepopulatedDirectory of
// pkg/filesystem/virtual and records traces that specs/VFSDirTrace.tla
// validates against the reference hierarchy specs/VFSDir.tla (property
// C13). Nothing is judged here: every event carries the call, its
// arguments, its reply and the projected state of the known directories.
package vfsdir

import (
	"context"
	"errors"
	"fmt"
	"regexp"
	"sort"
	"sync"
	"syscall"

	"github.com/buildbarn/bb-remote-execution/pkg/filesystem/pool"
	"github.com/buildbarn/bb-remote-execution/pkg/filesystem/virtual"
	"github.com/buildbarn/bb-storage/pkg/clock"
	"github.com/buildbarn/bb-storage/pkg/filesystem"
	"github.com/buildbarn/bb-storage/pkg/filesystem/path"
	"github.com/buildbarn/bb-storage/pkg/random"
	"github.com/buildbarn/bb-storage/pkg/util"

	"verif/harness/common"
)

var ctx = context.Background()

// ---------------------------------------------------------------------
// An in-memory block device for the real BlockDeviceBackedFilePool.

type memDevice struct {
	mu   sync.Mutex
	data []byte
}

func (m *memDevice) ReadAt(p []byte, off int64) (int, error) {
	m.mu.Lock()
	defer m.mu.Unlock()
	if off < 0 || off+int64(len(p)) > int64(len(m.data)) {
		return 0, errors.New("memDevice: read out of range")
	}
	return copy(p, m.data[off:]), nil
}

func (m *memDevice) WriteAt(p []byte, off int64) (int, error) {
	m.mu.Lock()
	defer m.mu.Unlock()
	if off < 0 || off+int64(len(p)) > int64(len(m.data)) {
		return 0, errors.New("memDevice: write out of range")
	}
	return copy(m.data[off:], p), nil
}

func (m *memDevice) Sync() error  { return nil }
func (m *memDevice) Close() error { return nil }

type quietLogger struct{}

func (quietLogger) Log(err error) {}

var _ util.ErrorLogger = quietLogger{}

// ---------------------------------------------------------------------
// Trace vocabulary.

// child describes a child passed to CreateChildren or produced lazily
// by an InitialContentsFetcher. Ids are reserved by the driver before
// the real objects exist.
type child struct {
	N   string  `json:"n"`
	K   string  `json:"k"` // "d" | "file" | "symlink"
	C   int     `json:"c"`
	T   string  `json:"t"`
	Sub []child `json:"sub"`
}

type ent struct {
	N  string `json:"n"`
	K  string `json:"k"`
	C  int    `json:"c"`
	Ck uint64 `json:"ck"`
	// Chg: the change id VirtualReadDir reported for a child directory
	// when the caller asked for it; -1 otherwise (only meaningful in the
	// "list" of a readdir call).
	Chg int `json:"chg"`
}

type mapEnt struct {
	Key string `json:"key"`
	N   string `json:"n"`
}

type dirProj struct {
	ID   int  `json:"id"`
	Busy bool `json:"busy"`
	// Same: the raw state is identical to the one of the previous
	// event and the directory was no argument of the call; the other
	// fields are not repeated then.
	Same    bool     `json:"same"`
	Deleted bool     `json:"deleted"`
	Lazy    bool     `json:"lazy"`
	Chg     uint64   `json:"chg"`
	Ents    []ent    `json:"ents"`
	Map     []mapEnt `json:"map"`
	// through the public interface (not for lazy directories, whose
	// contents the public interface would instantiate)
	Pub    []ent  `json:"pub"`    // VirtualReadDir, page size 1, resumed from each returned cookie
	PubEnd bool   `json:"pubend"` // the paging terminated
	AllD   []ent  `json:"alld"`   // LookupAllChildren: directories
	AllL   []ent  `json:"alll"`   // LookupAllChildren: leaves
	Ft     string `json:"ft"`     // VirtualGetAttributes
	Links  uint32 `json:"links"`
	AChg   uint64 `json:"achg"`
}

type leafProj struct {
	ID    int    `json:"id"`
	K     string `json:"k"`
	Links uint32 `json:"links"`
}

type cbRec struct {
	T string `json:"t"` // "leaf" | "lazy"
	C int    `json:"c"` // leaf id, or directory id of the fetcher (-1: the shared empty fetcher)
}

type ret struct {
	K string `json:"k"`
	C int    `json:"c"`
}

// call is one event of kind "call": all fields are always present.
type call struct {
	Ev     string     `json:"ev"`
	Op     string     `json:"op"`
	D      int        `json:"d"`
	N      string     `json:"n"`
	D2     int        `json:"d2"`
	N2     string     `json:"n2"`
	A      bool       `json:"a"`
	B      bool       `json:"b"`
	C      int        `json:"c"`
	K      string     `json:"k"`
	T      string     `json:"t"`
	Ck     uint64     `json:"ck"`
	Page   int        `json:"page"`
	Sid    int        `json:"sid"`
	First  bool       `json:"first"`
	New    int        `json:"new"`
	Ch     []child    `json:"ch"`
	St     string     `json:"st"`
	Ret    ret        `json:"ret"`
	Ci     [2]uint64  `json:"ci"`
	Ci2    [2]uint64  `json:"ci2"`
	List   []ent      `json:"list"`
	List2  []ent      `json:"list2"`
	More   bool       `json:"more"`
	Oak    string     `json:"oak"`  // lookup: file type in the attributes returned with the child ("" if none)
	Ochg   int        `json:"ochg"` // lookup of a directory with the change id requested: the value returned (-1: none)
	Cb     []cbRec    `json:"cb"`
	Rm     []int      `json:"rm"`
	Proj   []dirProj  `json:"proj"`
	Leaves []leafProj `json:"leaves"`
}

func statusName(s virtual.Status) string {
	names := map[virtual.Status]string{
		virtual.StatusOK: "OK", virtual.StatusErrAccess: "Access", virtual.StatusErrBadHandle: "BadHandle",
		virtual.StatusErrExist: "Exist", virtual.StatusErrInval: "Inval", virtual.StatusErrIO: "IO",
		virtual.StatusErrIsDir: "IsDir", virtual.StatusErrNoEnt: "NoEnt", virtual.StatusErrNotDir: "NotDir",
		virtual.StatusErrNotEmpty: "NotEmpty", virtual.StatusErrNXIO: "NXIO", virtual.StatusErrPerm: "Perm",
		virtual.StatusErrROFS: "ROFS", virtual.StatusErrStale: "Stale", virtual.StatusErrSymlink: "Symlink",
		virtual.StatusErrWrongType: "WrongType", virtual.StatusErrXDev: "XDev", virtual.StatusErrNameTooLong: "NameTooLong",
	}
	if n, ok := names[s]; ok {
		return n
	}
	return fmt.Sprintf("Status%d", int(s))
}

func errName(err error) string {
	switch {
	case err == nil:
		return "OK"
	case errors.Is(err, syscall.ENOENT):
		return "NoEnt"
	case errors.Is(err, syscall.EEXIST):
		return "Exist"
	case errors.Is(err, syscall.ENOTEMPTY):
		return "NotEmpty"
	case errors.Is(err, syscall.ENOTDIR):
		return "NotDir"
	case errors.Is(err, syscall.EISDIR):
		return "IsDir"
	case errors.Is(err, syscall.EPERM):
		return "Perm"
	case errors.Is(err, syscall.EINVAL):
		return "Inval"
	}
	return "Other"
}

func kindOf(ft filesystem.FileType) string {
	switch ft {
	case filesystem.FileTypeRegularFile:
		return "file"
	case filesystem.FileTypeDirectory:
		return "d"
	case filesystem.FileTypeSymlink:
		return "symlink"
	case filesystem.FileTypeFIFO:
		return "fifo"
	case filesystem.FileTypeSocket:
		return "socket"
	}
	return "other"
}

// ---------------------------------------------------------------------
// The world: the real hierarchy plus the driver's naming of its objects.

type verifDir interface {
	VerifState() virtual.VerifDirectoryState
}

type world struct {
	tr    *common.Trace
	ci    bool
	hid   bool
	alloc string

	fileAllocator  virtual.FileAllocator
	symlinkFactory virtual.SymlinkFactory

	dirs    []virtual.PrepopulatedDirectory // id -> object (nil: reserved, never seen)
	dirID   map[virtual.PrepopulatedDirectory]int
	pendOf  map[int][]child        // lazy contents of a directory that the driver handed out
	expDir  map[int]map[string]int // parent id -> name -> reserved directory id
	retired map[int]bool

	nextLeaf  int
	leafByIno map[uint64]int
	leafObj   map[int]virtual.LinkableLeaf // latest object seen for the id
	leafKind  map[int]string
	leafDead  map[int]bool
	leafSeen  map[int]bool // was seen as an entry of a directory
	symID     map[string]int

	cookies map[int][]uint64 // cookies ever returned per directory
	last    map[int]string   // raw state of each directory at the previous event
	broken  bool             // the real code panicked; the trace ends
}

var hiddenPattern = regexp.MustCompile("^_")

func newWorld(tr *common.Trace, alloc string, ci, hid, shuffle bool) *world {
	w := &world{
		tr: tr, ci: ci, hid: hid, alloc: alloc,
		dirID:     map[virtual.PrepopulatedDirectory]int{},
		pendOf:    map[int][]child{},
		expDir:    map[int]map[string]int{},
		retired:   map[int]bool{},
		leafByIno: map[uint64]int{},
		leafObj:   map[int]virtual.LinkableLeaf{},
		leafKind:  map[int]string{},
		leafDead:  map[int]bool{},
		leafSeen:  map[int]bool{},
		symID:     map[string]int{},
		cookies:   map[int][]uint64{},
		last:      map[int]string{},
	}
	var handleAllocator virtual.StatefulHandleAllocator
	if alloc == "nfs" {
		handleAllocator = virtual.NewNFSHandleAllocator(random.NewFastSingleThreadedGenerator())
	} else {
		handleAllocator = virtual.NewFUSEHandleAllocator(random.FastThreadSafeGenerator)
	}
	const sectorSize, sectorCount = 64, 4096
	filePool := pool.NewBlockDeviceBackedFilePool(
		&memDevice{data: make([]byte, sectorSize*sectorCount)},
		pool.NewBitmapSectorAllocator(sectorCount),
		sectorSize)
	setter := func(requested virtual.AttributesMask, attributes *virtual.Attributes) {}
	w.fileAllocator = virtual.NewHandleAllocatingFileAllocator(
		virtual.NewPoolBackedFileAllocator(filePool, quietLogger{}, setter, virtual.NoNamedAttributesFactory),
		handleAllocator)
	w.symlinkFactory = virtual.NewHandleAllocatingSymlinkFactory(
		virtual.NewBaseSymlinkFactory(setter), handleAllocator.New(), path.LocalFormat)
	normalizer := virtual.CaseSensitiveComponentNormalizer
	if ci {
		normalizer = virtual.CaseInsensitiveComponentNormalizer
	}
	matcher := virtual.StringMatcher(func(string) bool { return false })
	if hid {
		matcher = hiddenPattern.MatchString
	}
	sorter := virtual.Sorter(sort.Sort)
	if shuffle {
		sorter = virtual.Shuffle
	}
	root := virtual.NewInMemoryPrepopulatedDirectory(
		w.fileAllocator, w.symlinkFactory, quietLogger{}, handleAllocator, sorter, matcher,
		clock.SystemClock, normalizer, setter, virtual.NoNamedAttributesFactory)
	w.bindDir(root, -1)
	return w
}

func (w *world) reserveDir() int {
	w.dirs = append(w.dirs, nil)
	return len(w.dirs) - 1
}

// bindDir names a directory object; want is a reserved id or -1.
func (w *world) bindDir(d virtual.PrepopulatedDirectory, want int) int {
	if id, ok := w.dirID[d]; ok {
		return id
	}
	id := want
	if id < 0 || w.dirs[id] != nil {
		id = w.reserveDir()
	}
	w.dirs[id] = d
	w.dirID[d] = id
	return id
}

func (w *world) reserveLeaf() int {
	w.nextLeaf++
	return w.nextLeaf - 1
}

func (w *world) symLeaf(target string) int {
	if id, ok := w.symID[target]; ok {
		return id
	}
	id := w.reserveLeaf()
	w.symID[target] = id
	return id
}

const leafMask = virtual.AttributesMaskInodeNumber | virtual.AttributesMaskFileType | virtual.AttributesMaskLinkCount

// bindLeaf names a leaf object by its inode number; want is a reserved id
// for the case that the inode number was not seen before, or -1.
// It returns the id and whether the leaf was new.
func (w *world) bindLeaf(l virtual.Leaf, want int) (int, bool) {
	var a virtual.Attributes
	l.VirtualGetAttributes(ctx, leafMask, &a)
	ino := a.GetInodeNumber()
	id, ok := w.leafByIno[ino]
	if !ok {
		id = want
		if id < 0 {
			id = w.reserveLeaf()
		}
		w.leafByIno[ino] = id
		w.leafKind[id] = kindOf(a.GetFileType())
	}
	if ll, isLinkable := l.(virtual.LinkableLeaf); isLinkable {
		w.leafObj[id] = ll
	}
	return id, !ok
}

func comp(n string) path.Component { return path.MustNewComponent(n) }

// ---------------------------------------------------------------------
// Lazy contents.

type fetcher struct {
	w    *world
	id   int // reserved id of the directory these contents belong to
	spec []child
}

func (f *fetcher) VirtualApply(data any) bool { return false }

func (f *fetcher) FetchContents(virtual.FileReadMonitorFactory) (map[path.Component]virtual.InitialChild, error) {
	return f.w.instantiate(f.spec)
}

// instantiate creates the real initial children for a description.
func (w *world) instantiate(spec []child) (map[path.Component]virtual.InitialChild, error) {
	out := map[path.Component]virtual.InitialChild{}
	for _, c := range spec {
		switch c.K {
		case "d":
			out[comp(c.N)] = virtual.InitialChild{}.FromDirectory(&fetcher{w: w, id: c.C, spec: c.Sub})
		case "symlink":
			l, err := w.symlinkFactory.LookupSymlink(path.UNIXFormat.NewParser(c.T))
			if err != nil {
				return nil, err
			}
			w.bindLeaf(l, c.C)
			out[comp(c.N)] = virtual.InitialChild{}.FromLeaf(l)
		default:
			l, err := w.fileAllocator.NewFile(pool.ZeroHoleSource, false, 0, 0)
			if err != nil {
				return nil, err
			}
			w.bindLeaf(l, c.C)
			out[comp(c.N)] = virtual.InitialChild{}.FromLeaf(l)
		}
	}
	return out, nil
}

// ---------------------------------------------------------------------
// Projection.

// rawEnt is a listing entry before its child has been given an id (ids
// of objects that a call created are assigned by the scan after the call).
type rawEnt struct {
	name   string
	cookie uint64
	chg    int
	kind   string
	dir    virtual.PrepopulatedDirectory
	leaf   virtual.Leaf
}

func (w *world) resolve(raw []rawEnt) []ent {
	out := []ent{}
	for _, r := range raw {
		e := ent{N: r.name, K: r.kind, Ck: r.cookie, C: -1, Chg: r.chg}
		if r.dir != nil {
			e.C = w.bindDir(r.dir, -1)
		} else if r.leaf != nil {
			e.C, _ = w.bindLeaf(r.leaf, -1)
		}
		out = append(out, e)
	}
	return out
}

// pageReporter accepts at most cap entries.
type pageReporter struct {
	cap    int
	locked bool // the change id was requested
	ents   []rawEnt
	more   bool
}

func (r *pageReporter) ReportEntry(nextCookie uint64, name path.Component, c virtual.DirectoryChild, attributes *virtual.Attributes) bool {
	if len(r.ents) >= r.cap {
		r.more = true
		return false
	}
	e := rawEnt{name: name.String(), cookie: nextCookie, chg: -1}
	if d, l := c.GetPair(); d != nil {
		e.kind = "d"
		e.dir, _ = d.(virtual.PrepopulatedDirectory)
		if r.locked {
			e.chg = int(attributes.GetChangeID())
		}
	} else {
		e.kind = kindOf(attributes.GetFileType())
		e.leaf = l
	}
	r.ents = append(r.ents, e)
	return true
}

func (w *world) expected(parent int, name string) int {
	if m, ok := w.expDir[parent]; ok {
		if id, ok := m[name]; ok {
			delete(m, name)
			if w.dirs[id] == nil {
				return id
			}
		}
	}
	return -1
}

// scan projects one directory and names the objects found in it.
func (w *world) scan(id int, touched bool) dirProj {
	d := w.dirs[id]
	p := dirProj{ID: id, Ents: []ent{}, Map: []mapEnt{}, Pub: []ent{}, AllD: []ent{}, AllL: []ent{}, Ft: "?"}
	st := d.(verifDir).VerifState()
	if st.LockBusy {
		p.Busy = true
		return p
	}
	p.Deleted, p.Lazy, p.Chg = st.IsDeleted, st.IsLazy, st.ChangeID
	if !st.IsLazy {
		if pend, ok := w.pendOf[id]; ok {
			// The directory was instantiated: its lazy children now exist.
			delete(w.pendOf, id)
			for _, c := range pend {
				if c.K == "d" {
					w.expect(id, c.N, c.C)
					w.pendOf[c.C] = c.Sub
				}
			}
		}
	}
	for _, e := range st.ListEntries {
		x := ent{N: e.Name.String(), Ck: e.Cookie + 1}
		if e.Directory != nil {
			x.K = "d"
			x.C = w.bindDir(e.Directory, w.wantDir(e.Directory, id, x.N))
		} else {
			var a virtual.Attributes
			e.Leaf.VirtualGetAttributes(ctx, leafMask, &a)
			x.K = kindOf(a.GetFileType())
			x.C, _ = w.bindLeaf(e.Leaf, -1)
			w.leafSeen[x.C] = true
		}
		p.Ents = append(p.Ents, x)
	}
	for _, m := range st.MapEntries {
		p.Map = append(p.Map, mapEnt{Key: m.Key, N: m.Name.String()})
	}
	raw := fmt.Sprint(p.Deleted, p.Lazy, p.Chg, p.Ents, p.Map)
	if prev, ok := w.last[id]; ok && prev == raw && !touched {
		return dirProj{ID: id, Same: true, Ents: []ent{}, Map: []mapEnt{}, Pub: []ent{}, AllD: []ent{}, AllL: []ent{}, Ft: "?"}
	}
	w.last[id] = raw
	var a virtual.Attributes
	d.VirtualGetAttributes(ctx, virtual.AttributesMaskFileType|virtual.AttributesMaskLinkCount|virtual.AttributesMaskChangeID, &a)
	p.Ft, p.Links, p.AChg = kindOf(a.GetFileType()), a.GetLinkCount(), a.GetChangeID()
	if st.IsLazy {
		return p
	}
	// The same through the public interface.
	cookie := uint64(0)
	for i := 0; i < 64; i++ {
		r := pageReporter{cap: 1}
		if s := d.VirtualReadDir(ctx, cookie, virtual.AttributesMaskFileType|virtual.AttributesMaskInodeNumber, &r); s != virtual.StatusOK || len(r.ents) == 0 {
			p.PubEnd = s == virtual.StatusOK
			break
		}
		p.Pub = append(p.Pub, w.resolve(r.ents)...)
		cookie = r.ents[0].cookie
	}
	ds, ls, err := d.LookupAllChildren()
	if err == nil {
		for _, e := range ds {
			p.AllD = append(p.AllD, ent{N: e.Name.String(), K: "d", C: w.bindDir(e.Child, -1)})
		}
		for _, e := range ls {
			id, _ := w.bindLeaf(e.Child, -1)
			p.AllL = append(p.AllL, ent{N: e.Name.String(), K: w.leafKind[id], C: id})
		}
	}
	return p
}

// wantDir finds the reserved id of a directory object that is seen for
// the first time: by the fetcher it was created with (it may have been
// moved since), else by the place where it was expected to appear.
func (w *world) wantDir(d virtual.PrepopulatedDirectory, parent int, name string) int {
	if _, known := w.dirID[d]; known {
		return -1
	}
	want := w.expected(parent, name)
	if f, ok := d.(verifDir).VerifState().InitialContentsFetcher.(*fetcher); ok && f.id < len(w.dirs) && w.dirs[f.id] == nil {
		want = f.id
	}
	return want
}

func (w *world) expect(parent int, name string, id int) {
	if w.expDir[parent] == nil {
		w.expDir[parent] = map[string]int{}
	}
	w.expDir[parent][name] = id
}

// active returns the ids of the directories that are projected and used.
func (w *world) active() []int {
	out := []int{}
	for id, d := range w.dirs {
		if d != nil && !w.retired[id] {
			out = append(out, id)
		}
	}
	return out
}

// project scans all active directories (newly found ones included) and
// the known leaves, and retires directories that have been seen deleted
// when there are many.
func (w *world) project(touched ...int) ([]dirProj, []leafProj) {
	ps := []dirProj{}
	// Scanning a directory may name further directories (with reserved,
	// possibly smaller ids): repeat until every named directory was scanned.
	scanned := map[int]bool{}
	for again := true; again; {
		again = false
		for id := 0; id < len(w.dirs); id++ {
			if w.dirs[id] == nil || w.retired[id] || scanned[id] {
				continue
			}
			t := false
			for _, x := range touched {
				t = t || x == id
			}
			scanned[id] = true
			again = true
			ps = append(ps, w.scan(id, t))
		}
	}
	ls := []leafProj{}
	ids := []int{}
	for id := range w.leafObj {
		ids = append(ids, id)
	}
	sort.Ints(ids)
	for _, id := range ids {
		if w.leafDead[id] {
			continue
		}
		var a virtual.Attributes
		w.leafObj[id].VirtualGetAttributes(ctx, leafMask, &a)
		lp := leafProj{ID: id, K: kindOf(a.GetFileType()), Links: a.GetLinkCount()}
		ls = append(ls, lp)
	}
	return ps, ls
}

// housekeeping after an event was emitted: forget dead leaves and old
// deleted directories (they were reported once in that state).
func (w *world) housekeeping(ps []dirProj, ls []leafProj, keepLeaf int) {
	for _, l := range ls {
		if l.Links == 0 && l.K != "symlink" && l.ID != keepLeaf {
			w.leafDead[l.ID] = true
		}
	}
	deleted := []int{}
	for _, p := range ps {
		if p.ID != 0 && w.state(p.ID).IsDeleted {
			deleted = append(deleted, p.ID)
		}
	}
	for len(deleted) > 3 {
		w.retired[deleted[0]] = true
		deleted = deleted[1:]
	}
}
