SPECIFICATION TraceSpec
CONSTANTS
  Names = {"a"}
  MaxWD = 0
  MaxPaths = 0
  MaxLen = 0
  K1Kinds = {"none"}
  K2Kinds = {"none"}
  PickedOnly = TRUE
  PreAll = FALSE
INVARIANTS
  VerdictOK
  C10_EscapesRejected
  C10_ParentsExistBeforeRun
  C10_Reported
  C10_Trees
POSTCONDITION Accepted
CHECK_DEADLOCK FALSE
