SPECIFICATION TraceSpec
CONSTANTS
  Lease = 10
  NB = 6
  StrictReplayFh = FALSE
  GateOpen = "none"
  FirstSeqs = {}
  LaxSet = {}
  RejSet = {}
  AnonOps = {}
  PreClients = {}
  Names = {"a", "b", "c"}
  Clients = {}
  Verifs = {}
  OKeys = {}
  LKeys = {}
  Ops = {}
  Shares = {}
  Hows = {}
  SeqDev = {}
  SidDev = {}
  WrongFh = FALSE
  RangeSet = {}
  LockTypes = {}
  TickSet = {}
  MaxConf = 0
  MaxSid = 0
  MaxFile = 0
  MaxSeq = 0
  MaxLSeq = 0
  MaxClock = 0
  MaxIO = 0
INVARIANTS
  VerdictOK
  NonconfReport
POSTCONDITION Accepted
CHECK_DEADLOCK FALSE
