SPECIFICATION BSpec
CONSTANTS
  MaxParked = 2
  LockIds = {a, b, c}
INVARIANTS
  C14_Balance
CHECK_DEADLOCK FALSE
