SPECIFICATION StoreSpec
CONSTANTS
  Digests = {"d1", "d2"}
  Threads = {"t1", "t2", "t3"}
  NoDigest = "none"
  MaxGets = 14
  MaxUpd = 10
  WritesPerRead = 3
  VersionRules = {"wr+1"}
  WriteGuards = {FALSE}
  ReuseSlots = FALSE
  EagerFinish = TRUE
  RecordHist = TRUE
  MaxN = 1
  MaxT = 0
INVARIANTS
  SimDump
CHECK_DEADLOCK FALSE
