#!/bin/bash
# selftest/verify_seed.sh <worktree> <outdir>: confirm that the demo fails with
# patch.diff applied and passes without it, and that the baseline tests pass with it.
wt=$1; out=$2
export GOFLAGS=-mod=mod GOPROXY=off GOSUMDB=off GOTOOLCHAIN=local
cd $wt || exit 1
git checkout -q -- . && git apply $out/patch.diff || { echo "patch does not apply"; exit 1; }
rm -rf internal/seeddemo && mkdir -p internal/seeddemo && cp $out/demo/* internal/seeddemo/
go1.26.8 build ./pkg/... ./cmd/bb_scheduler ./cmd/bb_worker ./cmd/bb_runner || { echo "BUILD FAILS with patch"; exit 1; }
go1.26.8 test -vet=off -count=1 ./internal/seeddemo/ > /tmp/vs_with.log 2>&1; with=$?
go1.26.8 test -vet=off -count=1 ./pkg/filesystem/access/... ./pkg/scheduler/invocation/... ./pkg/scheduler/platform/... > /tmp/vs_base.log 2>&1; base=$?
git apply -R $out/patch.diff
go1.26.8 test -vet=off -count=1 ./internal/seeddemo/ > /tmp/vs_without.log 2>&1; without=$?
echo "demo with patch: exit=$with (want !=0); baseline with patch: exit=$base (want 0); demo without patch: exit=$without (want 0)"
grep -m3 -E "^\s+.*_test.go:[0-9]+:|--- FAIL" /tmp/vs_with.log | cut -c1-300
git checkout -q -- . ; rm -rf internal/seeddemo
