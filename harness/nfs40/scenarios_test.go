package nfs40

import (
	"encoding/json"
	"os"
	"path/filepath"
	"sort"
	"strings"
	"testing"

	"verif/harness/common"
)

// sc is a scripted history with a little client-side bookkeeping.
type sc struct {
	e *env
}

// client registers and confirms a client; returns its client id token.
func (x *sc) client(cl, cv int) int {
	c, _ := x.e.do(rSetclientid(cl, cv))
	x.e.do(rConfirm(c.Cid, c.Verf))
	return c.Cid
}

// openc opens (creating if needed) and confirms; returns the confirmed state id.
func (x *sc) openc(cid int, ok string, seq int, name string, share int) Rep {
	o, _ := x.e.do(rOpen(cid, ok, seq, name, share, "UNCHECKED"))
	if !o.Conf {
		return o
	}
	oc, _ := x.e.do(rSid("OPEN_CONFIRM", o.Fh, o.T, o.Q, seq+1))
	oc.Fh = o.Fh
	return oc
}

func (x *sc) do(r Req) Rep {
	rep, _ := x.e.do(r)
	return rep
}

type scenario struct {
	name string
	run  func(x *sc)
}

var scenarios = []scenario{
	{"replay-every-op", func(x *sc) {
		c := x.client(1, 1)
		ro := rOpen(c, "o1", 1, "a", 3, "UNCHECKED")
		o := x.do(ro)
		x.do(ro) // OPEN replay
		rc := rSid("OPEN_CONFIRM", o.Fh, o.T, o.Q, 2)
		oc := x.do(rc)
		x.do(rc)
		x.do(ro) // old seqid: misordered
		rl := rLockNew(o.Fh, oc.T, oc.Q, 3, c, "l1", 1, "W", 0, 2)
		l := x.do(rl)
		x.do(rl) // replay at the open-owner level
		rl2 := rLock(o.Fh, l.T, l.Q, 2, "R", 3, 5)
		l2 := x.do(rl2)
		x.do(rl2)
		ru := rLocku(o.Fh, l2.T, l2.Q, 3, 0, 1)
		u := x.do(ru)
		x.do(ru)
		x.do(rl2) // old lock seqid
		rd := rDowngrade(o.Fh, oc.T, oc.Q, 4, 1)
		d := x.do(rd)
		x.do(rd)
		rcl := rSid("CLOSE", o.Fh, d.T, d.Q, 5)
		x.do(rcl)
		x.do(rcl)
		x.do(rcl)
		_ = u
	}},
	{"same-seqid-other-operation", func(x *sc) {
		c := x.client(1, 1)
		o := x.openc(c, "o1", 1, "a", 3)
		// last seqid is 2 (OPEN_CONFIRM); send other operations with it
		x.do(rSid("CLOSE", o.Fh, o.T, o.Q, 2))
		x.do(rDowngrade(o.Fh, o.T, o.Q, 2, 1))
		x.do(rOpen(c, "o1", 2, "a", 1, "NOCREATE"))
		x.do(rLockNew(o.Fh, o.T, o.Q, 2, c, "l1", 1, "W", 0, 1))
		// now a real CLOSE (seqid 3) and other operations with seqid 3
		cl := x.do(rSid("CLOSE", o.Fh, o.T, o.Q, 3))
		x.do(rOpen(c, "o1", 3, "a", 1, "NOCREATE"))
		x.do(rSid("OPEN_CONFIRM", o.Fh, o.T, o.Q, 3))
		x.do(rDowngrade(o.Fh, o.T, o.Q, 3, 1))
		x.do(rSid("CLOSE", o.Fh, o.T, o.Q, 3)) // true replay still works
		_ = cl
	}},
	{"same-seqid-other-stateid", func(x *sc) {
		c := x.client(1, 1)
		a := x.openc(c, "o1", 1, "a", 3)
		b, _ := x.e.do(rOpen(c, "o1", 3, "b", 3, "UNCHECKED"))
		ca := x.do(rSid("CLOSE", a.Fh, a.T, a.Q, 4))
		// same seqid, the other file's state id: must not get a's reply
		x.do(rSid("CLOSE", b.Fh, b.T, b.Q, 4))
		// same seqid, same state id with another seqid of the state id
		x.do(rSid("CLOSE", a.Fh, a.T, a.Q+1, 4))
		x.do(rSid("CLOSE", a.Fh, a.T, a.Q, 4))
		x.do(rSid("CLOSE", b.Fh, b.T, b.Q, 5))
		_ = ca
	}},
	{"lock-same-seqid-other-stateid", func(x *sc) {
		c := x.client(1, 1)
		a := x.openc(c, "o1", 1, "a", 3)
		b, _ := x.e.do(rOpen(c, "o1", 3, "b", 3, "UNCHECKED"))
		la := x.do(rLockNew(a.Fh, a.T, a.Q, 4, c, "l1", 1, "W", 0, 1))
		lb := x.do(rLockNew(b.Fh, b.T, b.Q, 5, c, "l1", 2, "W", 0, 1))
		r := rLock(a.Fh, la.T, la.Q, 3, "W", 2, 3)
		la2 := x.do(r)
		x.do(r)                                     // true replay
		x.do(rLock(b.Fh, lb.T, lb.Q, 3, "W", 2, 3)) // same lock seqid, the other file's lock state id
		x.do(rLocku(a.Fh, la2.T, la2.Q, 3, 2, 3))   // same lock seqid, other operation
		x.do(rLock(a.Fh, la.T, la.Q+1, 3, "W", 2, 3))
		u := rLocku(b.Fh, lb.T, lb.Q, 4, 0, 1)
		ub := x.do(u)
		x.do(u)
		x.do(rLocku(a.Fh, la2.T, la2.Q, 4, 0, 1)) // same seqid as the LOCKU on b
		x.do(rLock(b.Fh, ub.T, ub.Q, 4, "W", 0, 1))
		// OPEN_CONFIRM and OPEN_DOWNGRADE with the seqid of the other file's operation
		d := rDowngrade(a.Fh, a.T, a.Q, 6, 1)
		x.do(d)
		x.do(rDowngrade(b.Fh, b.T, b.Q, 6, 1))
		x.do(d)
	}},
	{"misordered-seqids", func(x *sc) {
		c := x.client(1, 1)
		o := x.openc(c, "o1", 1, "a", 3)
		for _, q := range []int{4, 5, 1, 0, 9} {
			x.do(rSid("CLOSE", o.Fh, o.T, o.Q, q))
			x.do(rDowngrade(o.Fh, o.T, o.Q, q, 1))
			x.do(rOpen(c, "o1", q, "b", 3, "UNCHECKED"))
		}
		l := x.do(rLockNew(o.Fh, o.T, o.Q, 3, c, "l1", 1, "W", 0, 1))
		for _, q := range []int{3, 4, 0} {
			x.do(rLock(o.Fh, l.T, l.Q, q, "W", 2, 3))
			x.do(rLocku(o.Fh, l.T, l.Q, q, 0, 1))
		}
		x.do(rSid("CLOSE", o.Fh, o.T, o.Q, 4))
	}},
	{"replay-of-errors", func(x *sc) {
		c1, c2 := x.client(1, 1), x.client(2, 1)
		a := x.openc(c1, "o1", 1, "a", 3)
		b := x.openc(c2, "o1", 1, "a", 3)
		x.do(rLockNew(a.Fh, a.T, a.Q, 3, c1, "l1", 1, "W", 0, 3))
		rd := rLockNew(b.Fh, b.T, b.Q, 3, c2, "l1", 1, "R", 1, 2)
		x.do(rd) // DENIED advances the seqid and is cached
		x.do(rd)
		x.do(rLockNew(b.Fh, b.T, b.Q, 4, c2, "l1", 1, "R", 4, 5))
		ro := rSid("CLOSE", a.Fh, a.T, a.Q-1, 4) // OLD_STATEID advances the seqid
		x.do(ro)
		x.do(ro)
		rb := rSid("CLOSE", a.Fh, a.T, a.Q+3, 5) // BAD_STATEID does not
		x.do(rb)
		x.do(rb)
		x.do(rSid("CLOSE", a.Fh, a.T, a.Q, 5))
		ri := rDowngrade(b.Fh, b.T, b.Q, 5, 4) // INVAL advances
		x.do(ri)
		x.do(ri)
		x.do(rSid("CLOSE", b.Fh, b.T, b.Q, 6))
	}},
	{"lease-expiry-reclaims", func(x *sc) {
		c1, c2 := x.client(1, 1), x.client(2, 1)
		a := x.openc(c1, "o1", 1, "a", 3)
		x.openc(c1, "o2", 1, "b", 1)
		l := x.do(rLockNew(a.Fh, a.T, a.Q, 3, c1, "l1", 1, "W", 0, nPos))
		b := x.openc(c2, "o1", 1, "a", 3)
		x.do(rLockNew(b.Fh, b.T, b.Q, 3, c2, "l1", 1, "W", 0, 1)) // denied
		x.e.tick(6)
		x.do(rRenew(c2))
		x.e.tick(6)                                               // c1's lease is over, c2's is not
		x.do(rLockNew(b.Fh, b.T, b.Q, 4, c2, "l1", 1, "W", 0, 1)) // granted now
		x.do(rIO("READ", a.Fh, "reg", a.T, a.Q, false))
		x.do(rLock(a.Fh, l.T, l.Q, 2, "W", 0, 1))
		x.do(rRenew(c1))
	}},
	{"io-in-flight-holds-client", func(x *sc) {
		c1 := x.client(1, 1)
		a := x.openc(c1, "o1", 1, "a", 3)
		_, id := x.e.do(rIO("WRITE", a.Fh, "reg", a.T, a.Q, true))
		x.e.tick(leaseTicks + 2)
		x.client(2, 1) // enter(): c1 is held, must survive
		x.do(rIO("READ", a.Fh, "reg", a.T, a.Q, false))
		// the client re-registers while its I/O is in flight
		n, _ := x.e.do(rSetclientid(1, 2))
		x.do(rConfirm(n.Cid, n.Verf)) // DELAY
		x.e.finish(id)
		x.do(rConfirm(n.Cid, n.Verf)) // now the old state goes away
		x.do(rIO("READ", a.Fh, "reg", a.T, a.Q, false))
		x.do(rPutfh(a.Fh))
	}},
	{"client-reregisters", func(x *sc) {
		c1 := x.client(1, 1)
		a := x.openc(c1, "o1", 1, "a", 3)
		x.do(rLockNew(a.Fh, a.T, a.Q, 3, c1, "l1", 1, "W", 0, 2))
		x.do(rSetclientid(1, 1)) // same verifier: same record, nothing happens
		x.do(rConfirm(c1, c1))
		x.do(rIO("READ", a.Fh, "reg", a.T, a.Q, false))
		n, _ := x.e.do(rSetclientid(1, 2)) // rebooted client, unconfirmed
		x.do(rIO("READ", a.Fh, "reg", a.T, a.Q, false))
		x.do(rConfirm(n.Cid, 0))      // wrong verifier
		x.do(rConfirm(n.Cid, n.Verf)) // state of c1 is released
		x.do(rIO("READ", a.Fh, "reg", a.T, a.Q, false))
		x.do(rRenew(c1))
		x.do(rOpen(c1, "o1", 4, "a", 1, "NOCREATE"))
		b := x.openc(n.Cid, "o1", 1, "a", 3)
		x.do(rLockNew(b.Fh, b.T, b.Q, 3, n.Cid, "l1", 1, "W", 0, 2))
	}},
	{"unlinked-open-file-reachable", func(x *sc) {
		c := x.client(1, 1)
		a := x.openc(c, "o1", 1, "a", 3)
		x.do(rRemove("a"))
		x.do(rPutfh(a.Fh))
		x.do(rIO("WRITE", a.Fh, "reg", a.T, a.Q, false))
		x.do(rIO("READ", a.Fh, "anon", 0, 0, false))
		x.do(rOpen(c, "o1", 3, "a", 1, "NOCREATE"))
		b, _ := x.e.do(rOpen(c, "o1", 4, "a", 3, "GUARDED")) // a new file under the old name
		x.do(rOpenPrev(c, "o1", 5, a.Fh, 1))
		rcl := rSid("CLOSE", a.Fh, a.T, a.Q+1, 6)
		x.do(rcl)
		x.do(rPutfh(a.Fh)) // half-closed: still resolvable
		x.do(rIO("READ", a.Fh, "anon", 0, 0, false))
		x.do(rcl)
		x.do(rSid("CLOSE", b.Fh, b.T, b.Q, 7)) // finalizes the first close
		x.do(rPutfh(a.Fh))
		x.do(rcl)
		x.do(rRename("a", "b"))
		x.do(rPutfh(b.Fh))
	}},
	{"rename-over-open-file", func(x *sc) {
		c := x.client(1, 1)
		a := x.openc(c, "o1", 1, "a", 3)
		b, _ := x.e.do(rOpen(c, "o1", 3, "b", 1, "UNCHECKED"))
		x.do(rRename("a", "b")) // b's old file is unlinked, stays open
		x.do(rPutfh(b.Fh))
		x.do(rIO("READ", b.Fh, "reg", b.T, b.Q, false))
		x.do(rOpen(c, "o1", 4, "a", 1, "NOCREATE"))
		n, _ := x.e.do(rOpen(c, "o1", 5, "b", 1, "NOCREATE")) // a's file under the name b
		x.do(rSid("CLOSE", b.Fh, b.T, b.Q, 6))
		x.do(rSid("CLOSE", a.Fh, n.T, n.Q, 7))
		x.do(rPutfh(b.Fh))
	}},
	{"downgrade-with-lock-owner-clone", func(x *sc) {
		c := x.client(1, 1)
		a := x.openc(c, "o1", 1, "a", 3)
		l := x.do(rLockNew(a.Fh, a.T, a.Q, 3, c, "l1", 1, "W", 0, 1))
		d := x.do(rDowngrade(a.Fh, a.T, a.Q, 4, 1))
		x.do(rIO("WRITE", a.Fh, "reg", d.T, d.Q, false)) // OPENMODE
		x.do(rIO("WRITE", a.Fh, "reg", l.T, l.Q, false)) // lock state id keeps write access
		x.do(rRelease(c, "l1"))                          // LOCKS_HELD
		u := x.do(rLocku(a.Fh, l.T, l.Q, 2, 0, nPos))
		x.do(rRelease(c, "l1")) // closes the write bit
		x.do(rIO("WRITE", a.Fh, "reg", u.T, u.Q, false))
		x.do(rRelease(c, "l1"))
		u2, _ := x.e.do(rOpen(c, "o1", 5, "a", 2, "NOCREATE")) // upgrade again
		x.do(rIO("WRITE", a.Fh, "reg", u2.T, u2.Q, false))
		x.do(rSid("CLOSE", a.Fh, u2.T, u2.Q, 6))
	}},
	{"downgrade-while-locked-then-upgrade", func(x *sc) {
		c := x.client(1, 1)
		a := x.openc(c, "o1", 1, "a", 3)
		l := x.do(rLockNew(a.Fh, a.T, a.Q, 3, c, "l1", 1, "W", 0, 2)) // clones R and W
		d := x.do(rDowngrade(a.Fh, a.T, a.Q, 4, 1))                   // the lock-owner file alone keeps W
		u, _ := x.e.do(rOpen(c, "o1", 5, "a", 2, "NOCREATE"))         // upgrade: the new W open is redundant
		x.do(rIO("WRITE", a.Fh, "reg", u.T, u.Q, false))
		x.do(rIO("WRITE", a.Fh, "reg", l.T, l.Q, false))
		d2 := x.do(rDowngrade(a.Fh, u.T, u.Q, 6, 2)) // now to W only: lock-owner keeps R
		u2, _ := x.e.do(rOpenPrev(c, "o1", 7, a.Fh, 1))
		x.do(rSid("CLOSE", a.Fh, u2.T, u2.Q, 8))
		_, _ = d, d2
	}},
	{"downgrade-during-write-then-upgrade", func(x *sc) {
		c := x.client(1, 1)
		a := x.openc(c, "o1", 1, "a", 3)
		_, id := x.e.do(rIO("WRITE", a.Fh, "reg", a.T, a.Q, true)) // in-flight WRITE clones W
		d := x.do(rDowngrade(a.Fh, a.T, a.Q, 3, 1))                // the WRITE alone keeps W
		u, _ := x.e.do(rOpen(c, "o1", 4, "a", 3, "NOCREATE"))      // upgrade while the WRITE is inside
		x.e.finish(id)
		x.do(rIO("WRITE", a.Fh, "reg", u.T, u.Q, false))
		_, id2 := x.e.do(rIO("READ", a.Fh, "reg", u.T, u.Q, true)) // in-flight READ clones R
		d2 := x.do(rDowngrade(a.Fh, u.T, u.Q, 5, 2))
		u2, _ := x.e.do(rOpenPrev(c, "o1", 6, a.Fh, 1))
		x.do(rSid("CLOSE", a.Fh, u2.T, u2.Q, 7))
		x.e.finish(id2)
		_, _ = d, d2
	}},
	{"upgrade-overlap", func(x *sc) {
		c := x.client(1, 1)
		a := x.openc(c, "o1", 1, "a", 1)
		b, _ := x.e.do(rOpen(c, "o1", 3, "a", 3, "NOCREATE"))
		c3, _ := x.e.do(rOpen(c, "o1", 4, "a", 2, "UNCHECKED0"))
		p, _ := x.e.do(rOpenPrev(c, "o1", 5, a.Fh, 3))
		x.do(rOpenPrev(c, "o1", 6, a.Fh, 3))
		r := rOpenPrev(c, "o1", 7, a.Fh, 1)
		r.How = "GUARDED"
		x.do(r)
		r = rOpenPrev(c, "o1", 8, a.Fh, 1)
		r.Claim = "PREVDELEG"
		x.do(r)
		x.do(rOpenPrev(c, "o2", 1, a.Fh, 1)) // another owner has nothing to reclaim
		d := x.do(rDowngrade(a.Fh, p.T, p.Q+1, 9, 2))
		x.do(rSid("CLOSE", a.Fh, d.T, d.Q, 10))
		_, _ = b, c3
	}},
	{"unconfirmed-open-owner", func(x *sc) {
		c := x.client(1, 1)
		o, _ := x.e.do(rOpen(c, "o1", 7, "a", 3, "UNCHECKED"))
		x.do(rIO("READ", o.Fh, "reg", o.T, o.Q, false)) // not usable before OPEN_CONFIRM
		x.do(rSid("CLOSE", o.Fh, o.T, o.Q, 8))
		x.do(rLockNew(o.Fh, o.T, o.Q, 8, c, "l1", 1, "W", 0, 1))
		o2, _ := x.e.do(rOpen(c, "o1", 3, "b", 1, "UNCHECKED")) // re-initialises: first open is closed
		x.do(rSid("OPEN_CONFIRM", o.Fh, o.T, o.Q, 4))
		x.do(rSid("OPEN_CONFIRM", o2.Fh, o2.T, o2.Q, 5)) // wrong seqid
		oc := x.do(rSid("OPEN_CONFIRM", o2.Fh, o2.T, o2.Q, 4))
		x.do(rIO("READ", o2.Fh, "reg", oc.T, oc.Q, false))
		x.do(rSid("OPEN_CONFIRM", o2.Fh, oc.T, oc.Q, 5)) // confirming again just bumps
	}},
	{"unused-open-owner-expiry", func(x *sc) {
		c := x.client(1, 1)
		o, _ := x.e.do(rOpen(c, "o1", 1, "a", 3, "UNCHECKED")) // never confirmed
		p := x.openc(c, "o2", 1, "b", 1)
		x.do(rSid("CLOSE", p.Fh, p.T, p.Q, 3)) // o2 has only a closed file left
		for i := 0; i < 3; i++ {
			x.e.tick(4)
			x.do(rRenew(c))
		}
		// both open-owners are gone, the client is not
		x.do(rSid("OPEN_CONFIRM", o.Fh, o.T, o.Q, 2))
		x.do(rSid("CLOSE", p.Fh, p.T, p.Q, 3))
		n, _ := x.e.do(rOpen(c, "o2", 9, "b", 1, "NOCREATE")) // must be confirmed again
		x.do(rSid("OPEN_CONFIRM", n.Fh, n.T, n.Q, 10))
	}},
	{"lock-ranges-and-counts", func(x *sc) {
		c := x.client(1, 1)
		a := x.openc(c, "o1", 1, "a", 3)
		l := x.do(rLockNew(a.Fh, a.T, a.Q, 3, c, "l1", 1, "W", 0, nPos))
		seq := 2
		step := func(r Req) Rep {
			r.Lseq = seq
			rep := x.do(r)
			if completes(rep.St) {
				seq++
			}
			if rep.St == "OK" {
				l = rep
			}
			return rep
		}
		step(rLocku(a.Fh, l.T, l.Q, 0, 2, 3))     // split: two entries
		step(rLock(a.Fh, l.T, l.Q, 0, "R", 2, 3)) // three entries
		step(rLock(a.Fh, l.T, l.Q, 0, "W", 1, 4)) // merged back to one
		r := rLock(a.Fh, l.T, l.Q, 0, "W", 1, 1)
		r.Lenk = "zero"
		step(r)
		r = rLock(a.Fh, l.T, l.Q, 0, "W", 3, 4)
		r.Lenk = "ovf"
		step(r)
		r = rLocku(a.Fh, l.T, l.Q, 0, 3, 4)
		r.Lenk = "eof"
		step(r)
		r = rLock(a.Fh, l.T, l.Q, 0, "BAD", 3, 4)
		step(r)
		x.do(rRelease(c, "l1"))
		x.do(rLockt(a.Fh, c, "l1", "W", 0, nPos))
		x.do(rLockt(a.Fh, c, "l7", "R", 0, 1))
		r = rLockt(a.Fh, c, "l7", "R", 5, 6)
		r.Lenk = "eof"
		x.do(r)
		r = rLockt(a.Fh, c, "l7", "R", 4, 5)
		r.Lenk = "zero"
		x.do(r)
		step(rLocku(a.Fh, l.T, l.Q, 0, 0, nPos))
		x.do(rRelease(c, "l1"))
		x.do(rLock(a.Fh, l.T, l.Q, seq, "W", 0, 1)) // the state id is gone
	}},
	{"lock-owner-across-files-and-clients", func(x *sc) {
		c1, c2 := x.client(1, 1), x.client(2, 1)
		a := x.openc(c1, "o1", 1, "a", 3)
		b, _ := x.e.do(rOpen(c1, "o1", 3, "b", 3, "UNCHECKED"))
		la := x.do(rLockNew(a.Fh, a.T, a.Q, 4, c1, "l1", 1, "W", 0, 2))
		x.do(rLockNew(a.Fh, a.T, a.Q, 5, c1, "l1", 2, "W", 3, 4)) // already has state on this open: BAD_SEQID
		x.do(rLockNew(b.Fh, b.T, b.Q, 5, c1, "l1", 1, "W", 0, 2)) // known lock-owner, wrong lock seqid (a replay of la)
		lb := x.do(rLockNew(b.Fh, b.T, b.Q, 6, c1, "l1", 2, "W", 0, 2))
		x.do(rLockNew(b.Fh, b.T, b.Q, 7, c2, "l1", 1, "W", 4, 5)) // lock-owner of another client: INVAL
		o2 := x.openc(c2, "o1", 1, "a", 3)
		x.do(rLockNew(o2.Fh, o2.T, o2.Q, 3, c2, "l1", 1, "R", 1, 3)) // same name, other client: conflicts
		x.do(rLockt(a.Fh, c2, "l1", "R", 0, 1))
		x.do(rLockt(a.Fh, c1, "l1", "W", 0, nPos)) // own locks never conflict
		x.do(rLockt(a.Fh, c1, "l2", "W", 0, nPos)) // another owner of the same client does
		x.do(rLock(a.Fh, la.T, la.Q, 3, "W", 1, 5))
		x.do(rLock(b.Fh, lb.T, lb.Q, 4, "R", 1, 5))
		x.do(rLock(a.Fh, lb.T, lb.Q, 5, "R", 1, 5)) // lock state id of the other file
		x.do(rRelease(c1, "l1"))
		x.do(rSid("CLOSE", a.Fh, a.T, a.Q, 8)) // releases l1's locks on a only
		x.do(rLockt(a.Fh, c2, "l9", "W", 0, nPos))
		x.do(rLockt(b.Fh, c2, "l9", "W", 0, nPos))
		x.do(rRelease(c1, "l1"))
	}},
	{"close-with-io-in-flight", func(x *sc) {
		c := x.client(1, 1)
		a := x.openc(c, "o1", 1, "a", 3)
		_, id := x.e.do(rIO("READ", a.Fh, "reg", a.T, a.Q, true))
		cl := x.do(rSid("CLOSE", a.Fh, a.T, a.Q, 3)) // write bit closes, read bit stays
		x.do(rRemove("a"))
		b, _ := x.e.do(rOpen(c, "o1", 4, "b", 1, "UNCHECKED")) // finalizes the close
		x.do(rPutfh(a.Fh))
		x.e.tick(leaseTicks + 1)
		x.do(rRenew(0)) // client is held by the I/O
		x.e.finish(id)  // now the read bit closes
		x.do(rSid("CLOSE", b.Fh, b.T, b.Q, 5))
		_ = cl
	}},
	{"anonymous-io", func(x *sc) {
		c := x.client(1, 1)
		a := x.openc(c, "o1", 1, "a", 1)
		_, id := x.e.do(rIO("WRITE", a.Fh, "anon", 0, 0, true))
		_, id2 := x.e.do(rIO("READ", a.Fh, "byp", 0, 0, true))
		x.do(rSid("CLOSE", a.Fh, a.T, a.Q, 3))
		x.do(rRemove("a"))
		x.e.finish(id)
		x.do(rIO("READ", a.Fh, "anon", 0, 0, false)) // half-closed, unlinked, but a reader is inside
		x.e.finish(id2)
		x.do(rIO("READ", a.Fh, "anon", 0, 0, false)) // leaf is gone: STALE
		// (an anonymous SETATTR at this point dereferences a nil file in
		// pool_backed_file_allocator.go; not a property of this module)
		b := x.openc(c, "o2", 1, "b", 1)
		x.do(rIO("SETATTR", b.Fh, "anon", 0, 0, false))
		x.do(rIO("SETATTR", b.Fh, "byp", 0, 0, true))
		x.do(rIO("READ", a.Fh, "anonbad", 0, 0, false))
		x.do(rIO("READ", a.Fh, "bypbad", 0, 0, false))
		x.do(rIO("READ", 0, "anon", 0, 0, false))
		x.do(rIO("READ", -1, "anon", 0, 0, false))
		x.do(rSid("CLOSE", a.Fh, 0, 0, 4))
		r := rSid("CLOSE", a.Fh, 0, 0, 4)
		r.Sk = "anon"
		x.do(r)
		r.Sk = "byp"
		x.do(r)
	}},
	{"state-id-rules", func(x *sc) {
		c1, c2 := x.client(1, 1), x.client(2, 1)
		a := x.openc(c1, "o1", 1, "a", 3)
		b := x.openc(c2, "o1", 1, "b", 3)
		for _, op := range []string{"READ", "WRITE", "SETATTR"} {
			x.do(rIO(op, a.Fh, "reg", a.T, a.Q-1, false)) // old
			x.do(rIO(op, a.Fh, "reg", a.T, a.Q+1, false)) // future
			x.do(rIO(op, b.Fh, "reg", a.T, a.Q, false))   // other file
			x.do(rIO(op, -1, "reg", a.T, a.Q, false))
			x.do(rIO(op, a.Fh, "stale", a.T, a.Q, false))
			x.do(rIO(op, a.Fh, "reg", 77, 1, false))
			x.do(rIO(op, a.Fh, "reg", a.T, a.Q, false))
		}
		l := x.do(rLockNew(a.Fh, a.T, a.Q, 3, c1, "l1", 1, "W", 0, 1))
		x.do(rLockNew(b.Fh, a.T, a.Q, 4, c1, "l2", 1, "W", 0, 1))   // open state id with the other file
		x.do(rLockNew(a.Fh, a.T, a.Q-1, 4, c1, "l2", 1, "W", 2, 3)) // old: advances the seqid
		x.do(rLockNew(a.Fh, a.T, a.Q, 5, c1, "l2", 1, "W", 2, 3))
		x.do(rLock(b.Fh, l.T, l.Q, 2, "W", 2, 3))
		x.do(rLock(a.Fh, l.T, l.Q+1, 2, "W", 2, 3))
		x.do(rLock(a.Fh, l.T, l.Q-1, 2, "W", 2, 3))
		x.do(rLocku(a.Fh, a.T, a.Q, 3, 0, 1))  // an open state id is no lock state id
		x.do(rSid("CLOSE", a.Fh, l.T, l.Q, 6)) // and vice versa
		x.do(rDowngrade(b.Fh, a.T, a.Q, 6, 1))
		x.do(rSid("OPEN_CONFIRM", a.Fh, a.T, a.Q+1, 6))
		r := rSid("CLOSE", a.Fh, a.T, a.Q, 6)
		r.Sk = "stale"
		x.do(r)
		x.do(rSid("CLOSE", a.Fh, a.T, a.Q, 6))
	}},
	{"open-variants", func(x *sc) {
		c := x.client(1, 1)
		x.do(rOpen(c, "o1", 1, "a", 3, "NOCREATE"))
		x.do(rOpen(c, "o1", 2, "a", 3, "EXCLUSIVE"))
		x.do(rOpen(c, "o1", 3, "a", 3, "EXCLUSIVE"))
		x.do(rOpen(c, "o1", 4, "a", 3, "GUARDED"))
		x.do(rOpen(0, "o1", 4, "a", 3, "GUARDED"))
		r := rOpen(c, "o1", 5, "a", 3, "UNCHECKED")
		r.Share = 0
		x.do(r)
		r.Share, r.Seq, r.Deny = 3, 6, 2
		x.do(r)
		r.Seq, r.Deny = 7, 9
		x.do(r)
		r.Seq, r.Deny, r.Claim = 8, 0, "DCUR"
		x.do(r)
		r.Seq, r.Claim = 9, "DPREV"
		x.do(r)
		r.Seq, r.Claim, r.Fh = 10, "NULL", -1
		x.do(r) // NOFILEHANDLE does not advance the seqid
		r.Fh = 0
		o := x.do(r)
		r.Seq, r.Fh = 11, o.Fh
		x.do(r) // NOTDIR
		// same seqid, other file name: the code answers from the replay cache
		r2 := rOpen(c, "o1", 11, "b", 1, "UNCHECKED")
		x.do(r2)
	}},
	{"open-owner-with-open-file-is-never-unused", func(x *sc) {
		// An open-owner whose last request was a CLOSE but that still has
		// files open is not forgotten, however long it sends no
		// sequenced request, as long as its client keeps the lease.
		c := x.client(1, 1)
		keepAlive := func(reads ...Req) {
			for i := 0; i < 4; i++ {
				x.e.tick(4)
				if i%2 == 0 || len(reads) == 0 {
					x.do(rRenew(c))
				} else {
					for _, r := range reads {
						x.do(r)
					}
				}
			}
		}
		// o1: two files, one is closed, one stays open
		a := x.openc(c, "o1", 1, "a", 3)
		b, _ := x.e.do(rOpen(c, "o1", 3, "b", 3, "UNCHECKED"))
		x.do(rSid("CLOSE", a.Fh, a.T, a.Q, 4))
		// o2: three files and a lock-owner file on one of those that stay open
		p := x.openc(c, "o2", 1, "a", 1)
		q, _ := x.e.do(rOpen(c, "o2", 3, "b", 3, "UNCHECKED"))
		r, _ := x.e.do(rOpen(c, "o2", 4, "c", 2, "UNCHECKED"))
		l := x.do(rLockNew(q.Fh, q.T, q.Q, 5, c, "l1", 1, "W", 0, 2))
		x.do(rSid("CLOSE", p.Fh, p.T, p.Q, 6))
		// o3: its only file is closed (control: this one is forgotten)
		u := x.openc(c, "o3", 1, "c", 1)
		x.do(rSid("CLOSE", u.Fh, u.T, u.Q, 3))
		keepAlive(rIO("READ", b.Fh, "reg", b.T, b.Q, false))
		// 16 ticks later, lease renewed every 4: everything that is open still is
		x.do(rIO("READ", b.Fh, "reg", b.T, b.Q, false))
		x.do(rIO("WRITE", q.Fh, "reg", q.T, q.Q, false))
		x.do(rIO("WRITE", q.Fh, "reg", l.T, l.Q, false))
		x.do(rIO("WRITE", r.Fh, "reg", r.T, r.Q, false))
		x.do(rLockt(q.Fh, c, "l2", "W", 0, nPos)) // l1's lock is still there
		x.do(rSid("CLOSE", a.Fh, a.T, a.Q, 4))    // o1 sent nothing since: still a retransmission of its CLOSE
		x.do(rSid("CLOSE", u.Fh, u.T, u.Q, 3))    // o3 is gone, its closed state id with it
		n, _ := x.e.do(rOpen(c, "o3", 4, "c", 1, "NOCREATE"))
		x.do(rSid("OPEN_CONFIRM", n.Fh, n.T, n.Q, 5)) // o3 has to be confirmed again
		// the open-owners go on where they were
		x.do(rSid("CLOSE", b.Fh, b.T, b.Q, 5))
		x.do(rLock(q.Fh, l.T, l.Q, 2, "W", 3, 4))
		keepAlive()
		x.do(rIO("WRITE", r.Fh, "reg", r.T, r.Q, false))
		x.do(rSid("CLOSE", q.Fh, q.T, q.Q, 7))
		x.do(rSid("CLOSE", r.Fh, r.T, r.Q, 8))
	}},
	{"failed-initial-lock-leaves-no-lock-state", func(x *sc) {
		// The first LOCK of a lock-owner on a file (open_to_lock_owner)
		// fails: no lock state id was issued, so nothing may be left
		// behind for (lock-owner, file); the client retries with the open
		// state id and is granted the lock once nothing conflicts.
		cl, cm := x.client(1, 1), x.client(2, 1)
		a := x.openc(cl, "o1", 1, "a", 3)
		b, _ := x.e.do(rOpen(cl, "o1", 3, "b", 3, "UNCHECKED"))
		c3, _ := x.e.do(rOpen(cl, "o1", 4, "c", 3, "UNCHECKED"))
		mb := x.openc(cm, "o1", 1, "b", 3)
		x.do(rLockNew(a.Fh, a.T, a.Q, 5, cl, "l1", 1, "W", 0, 2)) // l1 is known to the server (lock state on a)
		m := x.do(rLockNew(mb.Fh, mb.T, mb.Q, 3, cm, "l1", 1, "W", 0, 1))
		x.do(rLockNew(b.Fh, b.T, b.Q, 6, cl, "l1", 2, "W", 0, 3)) // denied: M holds [0,1) of b
		x.do(rLockt(b.Fh, cl, "l1", "W", 0, 3))                   // the test says so too
		x.do(rLocku(mb.Fh, m.T, m.Q, 2, 0, 1))
		x.do(rLockt(b.Fh, cl, "l1", "W", 0, 3))                         // no conflict any more
		lb := x.do(rLockNew(b.Fh, b.T, b.Q, 7, cl, "l1", 3, "W", 0, 3)) // so the retry is granted
		x.do(rLock(b.Fh, lb.T, lb.Q, 4, "W", 4, 5))
		// another kind of failure: a bad range, on a third file
		r := rLockNew(c3.Fh, c3.T, c3.Q, 8, cl, "l1", 5, "W", 1, 1)
		r.Lenk = "zero"
		x.do(r)
		x.do(rLockt(c3.Fh, cl, "l1", "W", 0, nPos))
		lc := x.do(rLockNew(c3.Fh, c3.T, c3.Q, 9, cl, "l1", 6, "W", 1, 2))
		x.do(rLocku(c3.Fh, lc.T, lc.Q, 7, 1, 2))
		// control: the first file of a lock-owner that the server does not know yet
		x.do(rLockNew(mb.Fh, mb.T, mb.Q, 4, cm, "l2", 1, "R", 0, 4)) // denied: L holds [0,3) W of b
		x.do(rLocku(b.Fh, lb.T, lb.Q+1, 8, 0, nPos))
		x.do(rLockNew(mb.Fh, mb.T, mb.Q, 5, cm, "l2", 1, "R", 0, 4)) // granted; l2 starts over with any lock seqid
		x.do(rRelease(cl, "l1"))                                     // locks held on a
		x.do(rSid("CLOSE", b.Fh, b.T, b.Q, 10))
		x.do(rSid("CLOSE", c3.Fh, c3.T, c3.Q, 11))
	}},
	{"foreign-lock-owner", func(x *sc) {
		// an open state id is honoured only for lock-owners of the client it was issued to
		c1, c2 := x.client(1, 1), x.client(2, 1)
		a := x.openc(c1, "o1", 1, "a", 3)
		b := x.openc(c2, "o1", 1, "a", 3)
		x.do(rLockNew(a.Fh, a.T, a.Q, 3, c2, "l5", 1, "W", 4, 5)) // c1's open state id, lock-owner of c2
		x.do(rLockNew(a.Fh, a.T, a.Q, 4, 0, "l5", 1, "W", 4, 5))  // ... of a client that does not exist
		x.do(rLockt(a.Fh, c1, "l9", "W", 0, nPos))                // nothing is locked
		x.do(rLockNew(b.Fh, b.T, b.Q, 3, c2, "l5", 1, "W", 4, 5)) // c2's own open state id
		x.do(rLockNew(a.Fh, a.T, a.Q, 5, c1, "l5", 1, "R", 4, 5)) // same name, c1: another owner, conflicts
	}},
	{"replay-after-rejected-request", func(x *sc) {
		// a rejected request (other seqid, or the same seqid with another
		// operation) leaves the cached reply alone: the retransmission
		// that follows is still answered from it
		c := x.client(1, 1)
		ro := rOpen(c, "o1", 1, "a", 3, "UNCHECKED")
		o := x.do(ro)
		rc := rSid("OPEN_CONFIRM", o.Fh, o.T, o.Q, 2)
		oc := x.do(rc)
		x.do(rSid("CLOSE", o.Fh, oc.T, oc.Q, 5)) // skipped seqids
		x.do(rDowngrade(o.Fh, oc.T, oc.Q, 2, 1)) // same seqid, other operation
		x.do(rc)                                 // retransmission of OPEN_CONFIRM
		rl := rLockNew(o.Fh, oc.T, oc.Q, 3, c, "l1", 1, "W", 0, 2)
		l := x.do(rl)
		x.do(rLockNew(o.Fh, oc.T, oc.Q, 9, c, "l2", 1, "W", 3, 4))
		x.do(rOpen(c, "o1", 7, "b", 3, "UNCHECKED"))
		x.do(rSid("CLOSE", o.Fh, oc.T, oc.Q, 3))
		x.do(rl)
		rl2 := rLock(o.Fh, l.T, l.Q, 2, "R", 3, 5)
		l2 := x.do(rl2)
		x.do(rLocku(o.Fh, l2.T, l2.Q, 7, 0, 1)) // skipped lock seqid
		x.do(rLocku(o.Fh, l2.T, l2.Q, 2, 0, 1)) // same lock seqid, other operation
		x.do(rLock(o.Fh, l2.T, l2.Q, 0, "R", 0, 1))
		x.do(rl2)
		rd := rDowngrade(o.Fh, oc.T, oc.Q, 4, 1)
		d := x.do(rd)
		x.do(rSid("CLOSE", o.Fh, d.T, d.Q, 4))
		x.do(rSid("OPEN_CONFIRM", o.Fh, d.T, d.Q, 9))
		x.do(rd)
		rcl := rSid("CLOSE", o.Fh, d.T, d.Q, 5)
		x.do(rcl)
		x.do(rOpen(c, "o1", 9, "a", 1, "NOCREATE"))
		x.do(rSid("OPEN_CONFIRM", o.Fh, d.T, d.Q+1, 5))
		x.do(rcl)
		x.do(rOpen(c, "o1", 6, "a", 1, "NOCREATE")) // finalizes the close
		x.do(rcl)                                   // now an old seqid
	}},
	{"seqid-wrap", func(x *sc) {
		// open-owner and lock-owner seqids wrap from 2^32-1 (written -1) to 1, never 0
		c := x.client(1, 1)
		ro := rOpen(c, "o1", -2, "a", 3, "UNCHECKED")
		o := x.do(ro)
		x.do(ro)
		rc := rSid("OPEN_CONFIRM", o.Fh, o.T, o.Q, -1)
		oc := x.do(rc)
		x.do(rc)
		x.do(rDowngrade(o.Fh, oc.T, oc.Q, 0, 1))  // 0 is never the next seqid
		x.do(rDowngrade(o.Fh, oc.T, oc.Q, -2, 1)) // an old one
		rl := rLockNew(o.Fh, oc.T, oc.Q, 1, c, "l1", -1, "W", 0, 2)
		l := x.do(rl)
		x.do(rl)
		x.do(rc) // 2^32-1 is an old seqid now
		x.do(rLock(o.Fh, l.T, l.Q, 0, "W", 3, 4))
		rl2 := rLock(o.Fh, l.T, l.Q, 1, "W", 3, 4)
		l2 := x.do(rl2)
		x.do(rl2)
		x.do(rLocku(o.Fh, l2.T, l2.Q, 2, 0, nPos))
		rd := rDowngrade(o.Fh, oc.T, oc.Q, 2, 1)
		d := x.do(rd)
		x.do(rd)
		x.do(rSid("CLOSE", o.Fh, d.T, d.Q, 3))
		// a lock-owner whose first seqid is 2^32-1
		b := x.openc(c, "o2", -1, "b", 3)
		lb := x.do(rLockNew(b.Fh, b.T, b.Q, 2, c, "l2", -2, "R", 0, 1))
		lb = x.do(rLock(b.Fh, lb.T, lb.Q, -1, "R", 1, 2))
		x.do(rLock(b.Fh, lb.T, lb.Q, 0, "R", 2, 3))
		x.do(rLock(b.Fh, lb.T, lb.Q, 1, "R", 2, 3))
	}},
	{"open-in-flight-retransmitted", func(x *sc) {
		// the retransmission of an OPEN arrives while the original is
		// still opening the file: it waits and completes with the
		// original's result; so do other requests of the open-owner
		c1, c2 := x.client(1, 1), x.client(2, 1)
		a := x.openc(c1, "o1", 1, "a", 1)
		b := x.openc(c2, "o1", 1, "a", 3)
		// reclaim-type OPEN (upgrade to read/write) held inside the leaf
		rp := rOpenPrev(c1, "o1", 3, a.Fh, 3)
		rp.Gate = true
		_, id := x.e.do(rp)
		rp.Gate = false
		x.do(rp)                                                  // retransmission: waits
		x.do(rp)                                                  // and another one
		x.do(rIO("READ", a.Fh, "reg", a.T, a.Q, false))           // I/O does not wait
		x.do(rLockNew(b.Fh, b.T, b.Q, 3, c2, "l1", 1, "W", 0, 2)) // other clients are served
		x.e.tick(6)
		x.do(rRenew(c2))
		x.e.tick(6)
		x.do(rRenew(c2)) // c1 is held by its OPEN: its lease does not run out
		n, _ := x.e.do(rSetclientid(1, 2))
		x.do(rConfirm(n.Cid, n.Verf)) // DELAY: c1 cannot be replaced now
		u := x.e.finish(id)           // the original completes, then the two retransmissions
		x.do(rIO("WRITE", a.Fh, "reg", u.T, u.Q, false))
		x.do(rp)
		// OPEN by name of an existing file, held; a CLOSE of the same open-owner waits
		rn := rOpen(c1, "o1", 4, "a", 3, "NOCREATE")
		rn.Gate = true
		_, id = x.e.do(rn)
		x.do(rSid("CLOSE", a.Fh, u.T, u.Q+1, 5)) // state id and seqid after the OPEN: waits, then closes
		x.e.finish(id)
		x.do(rn) // an old seqid by now
		// held again; the retransmission differs (other share access): same seqid and
		// operation, other arguments
		a2 := x.openc(c1, "o2", 1, "a", 1)
		rq := rOpenPrev(c1, "o2", 3, a2.Fh, 2)
		rq.Gate = true
		_, id = x.e.do(rq)
		rq2 := rOpenPrev(c1, "o2", 3, a2.Fh, 1)
		x.do(rq2)
		x.e.finish(id)
		// an OPEN that fails while it is in flight (the file handle has gone stale
		// for the leaf... not possible here); one whose result is an error from the cache
		re := rOpenPrev(c1, "o2", 4, a2.Fh, 3)
		re.Claim = "PREVDELEG"
		x.do(re)
		x.do(re)
	}},
	{"last-byte-locks", func(x *sc) {
		// offset 2^64-1: the last byte is a byte like any other; a server
		// may refuse a range that consists of it alone
		c1, c2 := x.client(1, 1), x.client(2, 1)
		a := x.openc(c1, "o1", 1, "a", 3)
		b := x.openc(c2, "o1", 1, "a", 3)
		last := func(r Req, lenk string) Req {
			r.S, r.E, r.Lenk = nPos, nPos, lenk
			return r
		}
		l1 := x.do(last(rLockNew(a.Fh, a.T, a.Q, 3, c1, "l1", 1, "W", 0, 0), "eof"))
		seq1, lseq1 := 4, 2
		if l1.St != "OK" {
			// refused: establish the lock-owner with another range
			l1 = x.do(rLockNew(a.Fh, a.T, a.Q, seq1, c1, "l1", lseq1, "R", 0, 1))
			seq1, lseq1 = seq1+1, lseq1+1
		}
		x.do(last(rLockt(a.Fh, c2, "l1", "W", 0, 0), "eof")) // conflict iff c1 holds the last byte
		x.do(last(rLockt(a.Fh, c2, "l1", "R", 0, 0), "one")) // length 1 at 2^64-1: INVAL
		l2 := x.do(last(rLockNew(b.Fh, b.T, b.Q, 3, c2, "l1", 1, "W", 0, 0), "eof"))
		seq2, lseq2 := 4, 2
		if l2.St != "OK" {
			l2 = x.do(rLockNew(b.Fh, b.T, b.Q, seq2, c2, "l1", lseq2, "R", 0, 1))
			seq2, lseq2 = seq2+1, lseq2+1
		}
		// through end of file from just before the last byte: covers it
		r := rLock(a.Fh, l1.T, l1.Q, lseq1, "W", nPos-1, nPos-1)
		r.Lenk = "eof"
		if rep := x.do(r); rep.St == "OK" {
			l1 = rep
		}
		lseq1++
		x.do(last(rLockt(a.Fh, c2, "l1", "R", 0, 0), "eof"))
		r = last(rLock(b.Fh, l2.T, l2.Q, lseq2, "R", 0, 0), "eof")
		if rep := x.do(r); rep.St == "OK" {
			l2 = rep
		}
		lseq2++
		r = rLockt(a.Fh, c2, "l1", "R", nPos-2, nPos-2)
		r.Lenk = "eof"
		x.do(r)
		// unlock the last byte alone, then everything
		r = last(rLocku(a.Fh, l1.T, l1.Q, lseq1, 0, 0), "eof")
		if rep := x.do(r); rep.St == "OK" {
			l1 = rep
		}
		lseq1++
		x.do(last(rLocku(a.Fh, l1.T, l1.Q, lseq1, 0, 0), "one"))
		lseq1++
		r = rLocku(a.Fh, l1.T, l1.Q, lseq1, 0, 0)
		r.Lenk = "eof"
		x.do(r)
		x.do(last(rLockt(a.Fh, c1, "l3", "W", 0, 0), "eof"))
		r = rLock(b.Fh, l2.T, l2.Q, lseq2, "W", nPos-1, nPos-1)
		r.Lenk = "eof"
		x.do(r)
		x.do(rRelease(c1, "l1"))
		x.do(rRelease(c2, "l1"))
		_, _ = seq1, seq2
	}},
}

// TestScenarios: scripted histories for the special cases.
func TestScenarios(t *testing.T) {
	tr := common.NewTrace("trace.ndjson")
	defer tr.Close()
	names := []string{}
	for i, s := range scenarios {
		e := newEnv(tr, i, common.Seed()*1000+int64(i))
		s.run(&sc{e: e})
		e.end()
		names = append(names, s.name)
	}
	common.WriteJSON("meta.json", map[string]any{"scenarios": names})
}

// TestFindings: histories around defects that were found with this module.
func TestFindings(t *testing.T) {
	tr := common.NewTrace("trace.ndjson")
	defer tr.Close()
	// One lock-owner that asks for lock state on one file through two
	// open-owners of its client. Byte-range locks belong to the
	// lock-owner, so the second LOCK with open_to_lock_owner is refused
	// (BAD_SEQID: the existing lock state id must be used). A server
	// that creates a second lock state and counts locks per lock state
	// unlocks the whole file for the owner when the first open is closed
	// and then finds that its count does not add up (panic "Failed to
	// release locks").
	e := newEnv(tr, 0, common.Seed()*1000+500)
	x := &sc{e: e}
	c := x.client(1, 1)
	a := x.openc(c, "o1", 1, "a", 3)
	b := x.openc(c, "o2", 1, "a", 3)
	l := x.do(rLockNew(a.Fh, a.T, a.Q, 3, c, "l1", 1, "W", 0, 1))
	x.do(rLockNew(b.Fh, b.T, b.Q, 3, c, "l1", 2, "W", 2, 3))
	x.do(rLock(a.Fh, l.T, l.Q, 2, "W", 2, 3)) // the existing lock state id works (unless a second one was created)
	x.do(rLockt(a.Fh, c, "l2", "W", 0, nPos))
	x.do(rSid("CLOSE", a.Fh, a.T, a.Q, 4))
	x.do(rLockt(a.Fh, c, "l2", "W", 0, nPos)) // the owner's locks went with the open they were made through
	x.do(rLockNew(b.Fh, b.T, b.Q, 4, c, "l1", 3, "W", 2, 3))
	x.do(rSid("CLOSE", b.Fh, b.T, b.Q, 5))
	e.end()

	// The same through lease expiry and with a third open-owner.
	e = newEnv(tr, 1, common.Seed()*1000+501)
	x = &sc{e: e}
	c = x.client(1, 1)
	a = x.openc(c, "o1", 1, "a", 3)
	b = x.openc(c, "o2", 1, "a", 1)
	d := x.openc(c, "o3", 1, "a", 2)
	x.do(rLockNew(b.Fh, b.T, b.Q, 3, c, "l1", 1, "R", 0, 2))
	x.do(rLockNew(a.Fh, a.T, a.Q, 3, c, "l1", 2, "W", 1, 3))
	x.do(rLockNew(d.Fh, d.T, d.Q, 3, c, "l1", 2, "W", 4, 5))
	x.do(rLockNew(d.Fh, d.T, d.Q, 4, c, "l2", 1, "W", 4, 5)) // another lock-owner may
	x.do(rRelease(c, "l1"))
	e.end()
}

// simEvent is one step of a behaviour generated by TLC from NFS40.tla.
type simEvent struct {
	K   string `json:"k"`
	Req Req    `json:"req"`
	ID  int    `json:"id"`
	D   int    `json:"d"`
}

// TestReplay: spec -> code. Replays behaviours generated by `tlc
// -simulate` (specs/NFS40Sim.tla) on the real server.
func TestReplay(t *testing.T) {
	dir := common.Env("VERIF_BEH", "")
	files, _ := filepath.Glob(filepath.Join(dir, "beh_*.ndjson"))
	sort.Strings(files)
	tr := common.NewTrace("trace.ndjson")
	defer tr.Close()
	for i, f := range files {
		data, err := os.ReadFile(f)
		if err != nil {
			t.Fatal(err)
		}
		e := newEnv(tr, i, common.Seed()*1000+int64(i))
		// The model numbers the requests it holds in flight 1, 2, ..; the
		// real server may complete one of them at once (or park another
		// request), so the ids of the driver are mapped.
		inFlight, realID := 0, map[int]int{}
		for _, ln := range strings.Split(string(data), "\n") {
			if strings.TrimSpace(ln) == "" {
				continue
			}
			var ev simEvent
			if err := json.Unmarshal([]byte(ln), &ev); err != nil {
				t.Fatalf("%s: %v", f, err)
			}
			switch ev.K {
			case "op":
				e.do(ev.Req)
			case "iostart":
				inFlight++
				if rep, id := e.do(ev.Req); id > 0 && rep.St == "INFLIGHT" {
					realID[inFlight] = id
				}
			case "ioend":
				if id, ok := realID[ev.ID]; ok {
					if _, ok := e.pending[id]; ok {
						e.finish(id)
					}
				}
			case "tick":
				e.tick(ev.D)
			}
		}
		e.end()
	}
	common.WriteJSON("meta.json", map[string]any{"behaviours": len(files)})
}
