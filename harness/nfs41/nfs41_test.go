package nfs41

import (
	"fmt"
	"math/rand"
	"testing"
	"testing/synctest"

	"github.com/buildbarn/go-xdr/pkg/protocols/nfsv4"

	"verif/harness/common"
)

// ---------------------------------------------------------------------
// A script: one trace against one fresh server.

type script struct {
	e       *env
	clients []*clientC
	csBase  map[uint64]uint32
	dead    bool // the real code panicked; stop the trace
	hung    bool // a duplicate of a request in flight never returned
	helds   []*heldCall
}

func newScript(tr *common.Trace, no int, name string, names []string) *script {
	return &script{e: newEnv(tr, no, name, common.Seed()*100003+int64(no), names), csBase: map[uint64]uint32{}}
}

// register performs EXCHANGE_ID and, if confirm is set, CREATE_SESSION.
func (s *script) register(c *clientC, confirm bool) {
	if s.dead {
		return
	}
	r, pan := s.e.exchangeID(c.own, c.ver, s.csBase)
	if pan {
		s.dead = true
		return
	}
	if !r.ok {
		return
	}
	if !c.have || c.cid != r.cid {
		c.cid, c.have = r.cid, true
		c.csNext = r.seq
		c.sess = nil
		c.forget()
	}
	if !r.confirmed {
		c.csNext = r.seq
	}
	if confirm {
		s.newSession(c, c.csNext)
	}
}

func (s *script) newSession(c *clientC, seq uint32) *sessC {
	if s.dead || !c.have {
		return nil
	}
	r, pan := s.e.createSession(c.cid, true, seq, s.csBase[c.cid])
	if pan {
		s.dead = true
		return nil
	}
	if !r.ok {
		return nil
	}
	if seq == c.csNext {
		c.csNext = seq + 1
	}
	for _, ss := range c.sess {
		if ss.id == r.sess {
			return ss
		}
	}
	ss := &sessC{id: r.sess}
	for i := range ss.slots {
		ss.slots[i].next = 1
	}
	c.sess = append(c.sess, ss)
	return ss
}

func (s *script) client(own string, ver int) *clientC {
	c := newClient(own, ver)
	s.clients = append(s.clients, c)
	s.register(c, true)
	return c
}

// do sends a new request on slot 0 of the client's first session.
func (s *script) do(c *clientC, ops ...*Op) *nfsv4.Compound4res {
	return s.doOn(c, 0, 0, true, ops...)
}

func (s *script) doOn(c *clientC, sessNo, slot int, cache bool, ops ...*Op) *nfsv4.Compound4res {
	if s.dead || sessNo >= len(c.sess) {
		return nil
	}
	ss := c.sess[sessNo]
	sl := &ss.slots[slot]
	seq := sl.next
	res := s.e.runSeq(ss.id, uint32(slot), seq, cache, ops, true)
	if res == nil {
		s.dead = true
		return nil
	}
	if len(res.Resarray) > 0 {
		switch resopStatus(res.Resarray[0]) {
		case nfsv4.NFS4_OK:
			sl.next = seq + 1
			sl.last = &sentReq{seq: seq, cache: cache, ops: ops}
			c.track(s.e, ops, res)
		case nfsv4.NFS4ERR_TOO_MANY_OPS:
			// The slot's sequence ID is not consumed.
		case nfsv4.NFS4ERR_BADSESSION:
			// The client learns that the session is gone (destroyed, or
			// its lease ran out) and will have to register again.
			c.sess = append(append([]*sessC{}, c.sess[:sessNo]...), c.sess[sessNo+1:]...)
		}
	}
	return res
}

// resend sends a COMPOUND with an explicit slot sequence number; it is
// logged as a retransmission / out-of-order request.
func (s *script) resend(c *clientC, sessNo, slot int, seq uint32, cache bool, ops ...*Op) *nfsv4.Compound4res {
	if s.dead || sessNo >= len(c.sess) {
		return nil
	}
	res := s.e.runSeq(c.sess[sessNo].id, uint32(slot), seq, cache, ops, false)
	if res == nil {
		s.dead = true
	}
	return res
}

// finish: all clients vanish, the clock passes the lease, one more
// request triggers the server's bookkeeping, and the state is logged.
func (s *script) finish() {
	if s.dead || s.e.stuck {
		return
	}
	s.e.advance(leaseTicks + 2)
	if !s.e.trigger() {
		s.dead = true
		return
	}
	s.e.snapshot("final")
}

// ---------------------------------------------------------------------
// Operation constructors.

const (
	shR  = nfsv4.OPEN4_SHARE_ACCESS_READ
	shW  = nfsv4.OPEN4_SHARE_ACCESS_WRITE
	shRW = nfsv4.OPEN4_SHARE_ACCESS_BOTH
)

var (
	curSid    = sid{kind: "cur"}
	anonSid   = sid{kind: "anon"}
	bypassSid = sid{kind: "bypass"}
)

func putroot() *Op           { return &Op{Name: "PUTROOTFH"} }
func putfh(fh []byte) *Op    { return &Op{Name: "PUTFH", FH: fh} }
func getfh() *Op             { return &Op{Name: "GETFH"} }
func savefh() *Op            { return &Op{Name: "SAVEFH"} }
func restorefh() *Op         { return &Op{Name: "RESTOREFH"} }
func lookup(name string) *Op { return &Op{Name: "LOOKUP", Nm: name} }
func openName(oo, name string, share uint32, how string) *Op {
	return &Op{Name: "OPEN", OO: oo, Nm: name, Share: share, How: how, Claim: "NULL"}
}
func openFH(oo string, share uint32, claim string) *Op {
	return &Op{Name: "OPEN", OO: oo, Share: share, How: "NOCREATE", Claim: claim}
}
func downgrade(s sid, share uint32) *Op { return &Op{Name: "OPEN_DOWNGRADE", Sid: s, Share: share} }
func closeOp(s sid) *Op                 { return &Op{Name: "CLOSE", Sid: s} }
func lockNew(open sid, lo, lt string, s, e int) *Op {
	return &Op{Name: "LOCK", NewO: true, Sid2: open, LO: lo, LT: lt, RK: "range", S: s, E: e}
}
func lockMore(lock sid, lt string, s, e int) *Op {
	return &Op{Name: "LOCK", Sid: lock, LT: lt, RK: "range", S: s, E: e}
}
func lockt(lo, lt string, s, e int) *Op {
	return &Op{Name: "LOCKT", LO: lo, LT: lt, RK: "range", S: s, E: e}
}
func locku(lock sid, s, e int) *Op {
	return &Op{Name: "LOCKU", Sid: lock, LT: "W", RK: "range", S: s, E: e}
}
func freeSid(s sid) *Op              { return &Op{Name: "FREE_STATEID", Sid: s} }
func testSids(s ...sid) *Op          { return &Op{Name: "TEST_STATEID", Sids: s} }
func read(s sid) *Op                 { return &Op{Name: "READ", Sid: s, Off: 2, Cnt: 4} }
func write(s sid, data string) *Op   { return &Op{Name: "WRITE", Sid: s, Off: 1, Data: []byte(data)} }
func setsize(s sid, size uint64) *Op { return &Op{Name: "SETATTR", Sid: s, Size: size} }
func remove(name string) *Op         { return &Op{Name: "REMOVE", Nm: name} }
func rename(old, new string) *Op     { return &Op{Name: "RENAME", Nm: old, Nm2: new} }

// firstOpen returns the client's open of the given open-owner on the
// file with the given handle.
func (c *clientC) open(oo string, fh []byte) *openC {
	for _, o := range c.opens {
		if o.oo == oo && string(o.fh) == string(fh) {
			return o
		}
	}
	return &openC{oo: oo, fh: fh, sid: sid{kind: "reg", other: 9999, seq: 1}}
}

func (c *clientC) lock(oo, lo string, fh []byte) *lockC {
	for _, l := range c.locks {
		if l.oo == oo && l.lo == lo && string(l.fh) == string(fh) {
			return l
		}
	}
	return &lockC{oo: oo, lo: lo, fh: fh, sid: sid{kind: "reg", other: 9998, seq: 1}}
}

func (s *script) fh(n int) []byte { return s.e.handleOfTok(fmt.Sprintf("h%d", n)) }

// ---------------------------------------------------------------------
// Scenario scripts: one per special case.

type scenario struct {
	name string
	run  func(s *script)
}

var scenarios = []scenario{
	{"basic-open-close", func(s *script) {
		a := s.client("A", 1)
		s.do(a, putroot(), openName("o1", "a", shR, "NOCREATE"), getfh())
		s.do(a, putfh(s.fh(1)), read(a.open("o1", s.fh(1)).sid))
		s.do(a, putfh(s.fh(1)), write(a.open("o1", s.fh(1)).sid, "xy"))
		s.do(a, putroot(), openName("o1", "a", shW, "NOCREATE"), getfh())
		s.do(a, putfh(s.fh(1)), write(a.open("o1", s.fh(1)).sid, "xy"))
		s.do(a, putfh(s.fh(1)), downgrade(a.open("o1", s.fh(1)).sid, shW))
		s.do(a, putfh(s.fh(1)), read(a.open("o1", s.fh(1)).sid))
		s.do(a, putfh(s.fh(1)), closeOp(a.open("o1", s.fh(1)).sid))
		s.do(a, putfh(s.fh(1)), read(anonSid), write(bypassSid, "q"), setsize(anonSid, 3))
	}},
	{"create-modes", func(s *script) {
		a := s.client("A", 1)
		s.do(a, putroot(), openName("o1", "c", shRW, "NOCREATE"))
		s.do(a, putroot(), openName("o1", "c", shRW, "GUARDED"), getfh())
		s.do(a, putroot(), openName("o1", "c", shR, "GUARDED"))
		s.do(a, putroot(), openName("o2", "c", shW, "UNCHECKED"), getfh())
		s.do(a, putroot(), openName("o2", "a", shR, "UNCHECKED_TRUNC"), getfh())
		s.do(a, putroot(), openName("o2", "b", shR, "EXCLUSIVE4_1"))
		s.do(a, putroot(), openName("o2", "b", shR, "EXCLUSIVE4"))
		s.do(a, putroot(), &Op{Name: "OPEN", OO: "o1", Nm: "b", Share: 0, How: "NOCREATE", Claim: "NULL"})
		s.do(a, putroot(), &Op{Name: "OPEN", OO: "o1", Nm: "b", Share: shR, Deny: 1, How: "NOCREATE", Claim: "NULL"})
		s.do(a, putroot(), &Op{Name: "OPEN", OO: "o1", Nm: "b", Share: shR, Deny: 7, How: "NOCREATE", Claim: "NULL"})
		s.do(a, putroot(), &Op{Name: "OPEN", OO: "o1", Nm: "b", Share: shR | nfsv4.OPEN4_SHARE_ACCESS_WANT_NO_DELEG, How: "NOCREATE", Claim: "NULL"}, getfh())
		s.do(a, putfh(s.fh(2)), openFH("o1", shW, "FH"))
		s.do(a, putfh(s.fh(2)), openFH("o1", shW, "PREVIOUS"))
		s.do(a, putfh(s.fh(2)), openFH("o3", shW, "PREVIOUS"))
		s.do(a, putfh(s.fh(2)), openFH("o1", shW, "PREVIOUS_DELEG"))
		s.do(a, putfh(s.fh(2)), openFH("o1", shW, "DELEGATE_CUR"))
		s.do(a, putfh(s.fh(2)), openFH("o1", shW, "DELEGATE_PREV"))
		s.do(a, putroot(), openFH("o1", shW, "FH"))
		s.do(a, openFH("o1", shW, "FH"))
		s.do(a, putfh(s.fh(1)), openName("o1", "a", shR, "NOCREATE"))
		s.do(a, putfh(s.fh(1)), &Op{Name: "OPEN", OO: "o1", Share: shR, How: "GUARDED", Claim: "FH"})
	}},
	{"current-stateid", func(s *script) {
		a := s.client("A", 1)
		s.do(a, putroot(), openName("o1", "a", shRW, "NOCREATE"), read(curSid), write(curSid, "zz"),
			lockNew(curSid, "l1", "W", 0, 2), closeOp(curSid))
		s.do(a, putroot(), openName("o1", "a", shRW, "NOCREATE"), lockNew(curSid, "l1", "W", 0, 2), locku(curSid, 0, 1), read(curSid))
		s.do(a, putroot(), openName("o1", "a", shRW, "NOCREATE"), downgrade(curSid, shR), closeOp(curSid))
		s.do(a, putroot(), read(curSid))
		s.do(a, putfh(s.fh(1)), closeOp(curSid))
		s.do(a, putroot(), openName("o2", "b", shR, "NOCREATE"), savefh(), putfh(s.fh(1)), restorefh(), closeOp(curSid))
	}},
	{"stateid-checks", func(s *script) {
		a := s.client("A", 1)
		b := s.client("B", 1)
		s.do(a, putroot(), openName("o1", "a", shR, "NOCREATE"), getfh())
		s.do(a, putroot(), openName("o1", "b", shRW, "NOCREATE"), getfh())
		s.do(b, putroot(), openName("o1", "a", shRW, "NOCREATE"), getfh())
		oa := a.open("o1", s.fh(1))
		ob := a.open("o1", s.fh(2))
		s.do(a, putroot(), openName("o1", "a", shW, "NOCREATE"), getfh()) // seq 2
		old := oa.sid
		old.seq--
		fut := oa.sid
		fut.seq++
		zero := oa.sid
		zero.seq = 0
		junk := oa.sid
		junk.kind = "junk"
		s.do(a, putfh(s.fh(1)), read(old))
		s.do(a, putfh(s.fh(1)), read(fut))
		s.do(a, putfh(s.fh(1)), read(zero))
		s.do(a, putfh(s.fh(1)), read(junk))
		s.do(a, putfh(s.fh(2)), read(oa.sid)) // wrong file
		s.do(a, putfh(s.fh(1)), read(ob.sid)) // wrong file
		s.do(b, putfh(s.fh(1)), read(ob.sid)) // other client's id (same other value as B's own!)
		s.do(a, read(oa.sid))                 // no file handle
		s.do(a, putroot(), read(oa.sid))      // directory
		s.do(a, putfh(s.fh(1)), closeOp(old))
		s.do(a, putfh(s.fh(1)), downgrade(fut, shR))
		s.do(a, putfh(s.fh(1)), lockNew(old, "l1", "R", 0, 1))
		s.do(a, putfh(s.fh(1)), lockNew(oa.sid, "l1", "R", 0, 1))
		la := a.lock("o1", "l1", s.fh(1))
		// the same checks for a lock state ID
		s.do(a, putfh(s.fh(1)), lockMore(la.sid, "R", 1, 2)) // seq 2
		oldL, futL := la.sid, la.sid
		oldL.seq--
		futL.seq++
		s.do(a, putfh(s.fh(1)), locku(oldL, 0, 1))
		s.do(a, putfh(s.fh(1)), lockMore(futL, "R", 2, 3))
		s.do(a, putfh(s.fh(1)), read(oldL))
		s.do(a, putfh(s.fh(2)), locku(la.sid, 0, 1)) // wrong file
		s.do(a, putfh(s.fh(2)), lockMore(la.sid, "R", 2, 3))
		s.do(a, putfh(s.fh(2)), read(la.sid))
		s.do(a, locku(la.sid, 0, 1))                 // no file handle
		s.do(b, putfh(s.fh(1)), locku(la.sid, 0, 1)) // other client
		s.do(b, putfh(s.fh(1)), read(la.sid))
		s.do(a, freeSid(futL))
		s.do(a, testSids(oa.sid, old, fut, zero, junk, la.sid, oldL, futL, anonSid, bypassSid, sid{kind: "reg", other: 777, seq: 1}))
		s.do(a, putfh(s.fh(1)), closeOp(la.sid))     // lock id where an open id is needed
		s.do(a, putfh(s.fh(1)), locku(oa.sid, 0, 1)) // open id where a lock id is needed
		s.do(a, freeSid(oa.sid))
		s.do(a, putfh(s.fh(1)), downgrade(oa.sid, shRW|4))
		s.do(a, putfh(s.fh(1)), &Op{Name: "OPEN_DOWNGRADE", Sid: oa.sid, Share: shR, Deny: 1})
		s.do(a, putfh(s.fh(1)), closeOp(oa.sid))
		s.do(a, putfh(s.fh(1)), read(oa.sid)) // closed
		s.do(a, putfh(s.fh(1)), read(la.sid)) // lock state gone with the open
		s.do(a, testSids(oa.sid, la.sid))
	}},
	{"unlink-while-open", func(s *script) {
		a := s.client("A", 1)
		b := s.client("B", 1)
		s.do(a, putroot(), openName("o1", "a", shRW, "NOCREATE"), getfh())
		s.do(b, putroot(), remove("a"))
		s.do(b, putroot(), lookup("a"))
		s.do(b, putfh(s.fh(1)), read(anonSid))
		s.do(b, putfh(s.fh(1)), openFH("o1", shR, "FH"))
		s.do(a, putfh(s.fh(1)), write(a.open("o1", s.fh(1)).sid, "live"))
		s.do(a, putroot(), openName("o2", "a", shRW, "UNCHECKED"), getfh()) // new file, same name
		s.do(b, putfh(s.fh(1)), closeOp(b.open("o1", s.fh(1)).sid))
		s.do(a, putfh(s.fh(1)), closeOp(a.open("o1", s.fh(1)).sid))
		s.do(a, putfh(s.fh(1)), read(anonSid)) // now really gone
		s.do(a, putroot(), savefh(), rename("b", "a"))
		s.do(a, putfh(s.fh(4)), read(a.open("o2", s.fh(4)).sid)) // replaced by rename, still open
		s.do(a, putroot(), remove("zz"))
		s.do(a, putroot(), savefh(), rename("zz", "b"))
	}},
	{"lock-owner-identity-F1", func(s *script) {
		a := s.client("A", 1)
		s.do(a, putroot(), openName("o1", "a", shRW, "NOCREATE"), getfh())
		s.do(a, putroot(), openName("o2", "a", shRW, "NOCREATE"), getfh())
		s.do(a, putfh(s.fh(1)), lockNew(a.open("o1", s.fh(1)).sid, "L", "W", 0, 2))
		s.do(a, putfh(s.fh(1)), lockNew(a.open("o2", s.fh(1)).sid, "L", "W", 1, 3))
	}},
	{"lock-owner-identity-same-open", func(s *script) {
		a := s.client("A", 1)
		b := s.client("B", 1)
		s.do(a, putroot(), openName("o1", "a", shRW, "NOCREATE"), getfh())
		s.do(a, putroot(), openName("o1", "b", shRW, "NOCREATE"), getfh())
		s.do(b, putroot(), openName("o1", "a", shRW, "NOCREATE"), getfh())
		s.do(a, putfh(s.fh(1)), lockNew(a.open("o1", s.fh(1)).sid, "L", "W", 0, 2))
		s.do(a, putfh(s.fh(1)), lockNew(a.open("o1", s.fh(1)).sid, "L", "W", 1, 3)) // new_lock_owner again
		s.do(a, putfh(s.fh(1)), lockt("L", "W", 0, 4))
		s.do(a, putfh(s.fh(1)), lockt("M", "W", 0, 4))
		s.do(b, putfh(s.fh(1)), lockt("L", "R", 0, 4)) // same name, other client
		s.do(b, putfh(s.fh(1)), lockNew(b.open("o1", s.fh(1)).sid, "L", "R", 2, 4))
		s.do(b, putfh(s.fh(1)), lockNew(b.open("o1", s.fh(1)).sid, "L", "R", 3, 4))
		s.do(a, putfh(s.fh(2)), lockNew(a.open("o1", s.fh(2)).sid, "L", "W", 0, 4)) // other file, same owner
		s.do(a, putfh(s.fh(2)), lockt("L", "W", 0, 4))
		s.do(a, putfh(s.fh(1)), closeOp(a.open("o1", s.fh(1)).sid))
		s.do(b, putfh(s.fh(1)), lockMore(b.lock("o1", "L", s.fh(1)).sid, "W", 0, 4))
	}},
	{"free-stateid-F8", func(s *script) {
		a := s.client("A", 1)
		s.do(a, putroot(), openName("o1", "a", shRW, "NOCREATE"), getfh())
		s.do(a, putfh(s.fh(1)), lockNew(a.open("o1", s.fh(1)).sid, "l1", "W", 0, 2))
		l := a.lock("o1", "l1", s.fh(1))
		s.do(a, freeSid(l.sid))
		s.do(a, putfh(s.fh(1)), locku(l.sid, 0, 1))
		s.do(a, freeSid(l.sid))
		s.do(a, putfh(s.fh(1)), locku(l.sid, 1, 4))
		old := l.sid
		old.seq--
		s.do(a, freeSid(old))
		s.do(a, freeSid(l.sid))
		s.do(a, freeSid(l.sid))
		s.do(a, putfh(s.fh(1)), lockNew(a.open("o1", s.fh(1)).sid, "l1", "W", 0, 2))
	}},
	{"lock-range-edges", func(s *script) {
		a := s.client("A", 1)
		b := s.client("B", 1)
		s.do(a, putroot(), openName("o1", "a", shRW, "NOCREATE"), getfh())
		s.do(b, putroot(), openName("o1", "a", shR, "NOCREATE"), getfh())
		oa, ob := a.open("o1", s.fh(1)), b.open("o1", s.fh(1))
		s.do(a, putfh(s.fh(1)), &Op{Name: "LOCK", NewO: true, Sid2: oa.sid, LO: "l1", LT: "W", RK: "len0", S: 1, E: 1})
		s.do(a, putfh(s.fh(1)), &Op{Name: "LOCK", NewO: true, Sid2: oa.sid, LO: "l1", LT: "W", RK: "overflow", S: 1, E: 4})
		s.do(a, putfh(s.fh(1)), &Op{Name: "LOCK", NewO: true, Sid2: oa.sid, LO: "l1", LT: "BAD", RK: "range", S: 1, E: 2})
		s.do(a, putfh(s.fh(1)), &Op{Name: "LOCK", NewO: true, Sid2: oa.sid, LO: "l1", LT: "WW", RK: "exact", S: 2, E: 4})
		s.do(b, putfh(s.fh(1)), &Op{Name: "LOCKT", LO: "l1", LT: "R", RK: "range", S: 3, E: 4})
		s.do(b, putfh(s.fh(1)), &Op{Name: "LOCKT", LO: "l1", LT: "RW", RK: "range", S: 0, E: 2})
		s.do(b, putfh(s.fh(1)), &Op{Name: "LOCKT", LO: "l1", LT: "R", RK: "len0", S: 0, E: 0})
		s.do(b, putfh(s.fh(1)), &Op{Name: "LOCKT", LO: "l1", LT: "R", RK: "overflow", S: 2, E: 4})
		s.do(b, putfh(s.fh(1)), &Op{Name: "LOCKT", LO: "l1", LT: "BAD", RK: "range", S: 0, E: 1})
		s.do(b, putroot(), lockt("l1", "R", 0, 1))
		s.do(b, lockt("l1", "R", 0, 1))
		s.do(b, putfh(s.fh(2)), lockt("l1", "W", 0, 4)) // file not open by anyone
		s.do(b, putfh(s.fh(1)), lockNew(ob.sid, "l1", "R", 0, 4))
		s.do(b, putfh(s.fh(1)), lockNew(ob.sid, "l1", "R", 0, 2))
		la := a.lock("o1", "l1", s.fh(1))
		s.do(a, putfh(s.fh(1)), &Op{Name: "LOCKU", Sid: la.sid, LT: "W", RK: "len0", S: 2, E: 2})
		s.do(a, putfh(s.fh(1)), &Op{Name: "LOCKU", Sid: la.sid, LT: "W", RK: "overflow", S: 2, E: 2})
		s.do(a, putfh(s.fh(1)), &Op{Name: "LOCKU", Sid: la.sid, LT: "BAD", RK: "range", S: 3, E: 4})
		s.do(b, putfh(s.fh(1)), lockMore(b.lock("o1", "l1", s.fh(1)).sid, "R", 3, 4))
		s.do(a, putfh(s.fh(1)), lockMore(la.sid, "R", 0, 3))
		s.do(a, putfh(s.fh(1)), lockMore(la.sid, "W", 0, 1))
	}},
	{"lock-very-last-byte", func(s *script) {
		// Offset 2^64-1 with length all ones is exactly the last byte; a
		// range "through end of file" covers it too. Two owners must
		// never both be granted it unless both locks are shared (a
		// server may refuse such ranges altogether).
		a := s.client("A", 1)
		b := s.client("B", 1)
		s.do(a, putroot(), openName("o1", "a", shRW, "NOCREATE"), getfh())
		s.do(b, putroot(), openName("o1", "a", shRW, "NOCREATE"), getfh())
		oa, ob := a.open("o1", s.fh(1)), b.open("o1", s.fh(1))
		last := func(o *Op, rk string) *Op { o.RK, o.S, o.E = rk, nPos, nPos; return o }
		s.do(a, putfh(s.fh(1)), lockNew(oa.sid, "l1", "W", 0, nPos)) // [0, end of file]
		s.do(b, putfh(s.fh(1)), last(lockt("l1", "W", 0, 0), "last"))
		s.do(b, putfh(s.fh(1)), last(lockNew(ob.sid, "l1", "W", 0, 0), "last"))
		s.do(b, putfh(s.fh(1)), last(lockNew(ob.sid, "l1", "W", 0, 0), "last1"))
		s.do(b, putfh(s.fh(1)), last(lockt("l1", "R", 0, 0), "last1"))
		la := a.lock("o1", "l1", s.fh(1))
		s.do(a, putfh(s.fh(1)), last(locku(la.sid, 0, 0), "last"))
		s.do(a, putfh(s.fh(1)), locku(la.sid, 0, nPos))
		// nobody holds anything: the last byte alone, two owners
		s.do(a, putfh(s.fh(1)), last(lockMore(la.sid, "W", 0, 0), "last"))
		s.do(b, putfh(s.fh(1)), last(lockNew(ob.sid, "l1", "W", 0, 0), "last"))
		s.do(b, putfh(s.fh(1)), last(lockNew(ob.sid, "l2", "R", 0, 0), "last"))
		s.do(a, putfh(s.fh(1)), last(lockt("l9", "R", 0, 0), "last"))
		s.do(a, putfh(s.fh(1)), last(locku(la.sid, 0, 0), "last"))
		// shared locks on the last byte by both
		s.do(a, putfh(s.fh(1)), last(lockMore(la.sid, "R", 0, 0), "last"))
		s.do(b, putfh(s.fh(1)), last(lockNew(ob.sid, "l1", "R", 0, 0), "last"))
		// up to, but not including, the last byte
		s.do(a, putfh(s.fh(1)), &Op{Name: "LOCK", Sid: la.sid, LT: "W", RK: "exact", S: 1, E: nPos})
		s.do(b, putfh(s.fh(1)), last(lockNew(ob.sid, "l2", "W", 0, 0), "last"))
		s.do(b, putfh(s.fh(1)), lockNew(ob.sid, "l2", "W", 0, 1))
		s.do(a, putfh(s.fh(1)), closeOp(oa.sid))
		s.do(b, putfh(s.fh(1)), lockNew(ob.sid, "l2", "W", 0, nPos))
	}},
	{"downgrade-with-lock-owner", func(s *script) {
		a := s.client("A", 1)
		s.do(a, putroot(), openName("o1", "a", shRW, "NOCREATE"), getfh())
		oa := a.open("o1", s.fh(1))
		s.do(a, putfh(s.fh(1)), lockNew(oa.sid, "l1", "W", 0, 1))
		s.do(a, putfh(s.fh(1)), downgrade(oa.sid, shR))
		la := a.lock("o1", "l1", s.fh(1))
		s.do(a, putfh(s.fh(1)), write(la.sid, "w"))                       // lock state still entitles to write
		s.do(a, putfh(s.fh(1)), write(oa.sid, "w"))                       // the open does not
		s.do(a, putroot(), openName("o1", "a", shW, "NOCREATE"), getfh()) // upgrade again
		s.do(a, putfh(s.fh(1)), downgrade(oa.sid, shW))
		s.do(a, putfh(s.fh(1)), read(la.sid))
		s.do(a, putfh(s.fh(1)), locku(la.sid, 0, 1))
		s.do(a, freeSid(la.sid))
		s.do(a, putfh(s.fh(1)), closeOp(oa.sid))
	}},
	{"downgrade-while-locked-then-upgrade", func(s *script) {
		// The lock-owner file alone keeps the write share after the
		// downgrade; the upgrade must treat its leaf open as redundant.
		a := s.client("A", 1)
		s.do(a, putroot(), openName("o1", "a", shRW, "NOCREATE"), getfh())
		oa := a.open("o1", s.fh(1))
		s.do(a, putfh(s.fh(1)), lockNew(oa.sid, "l1", "W", 0, 2))
		s.do(a, putfh(s.fh(1)), downgrade(oa.sid, shR))
		s.do(a, putfh(s.fh(1)), openFH("o1", shW, "FH"))
		s.do(a, putfh(s.fh(1)), closeOp(oa.sid))
		// the same with the read bit, by name, and with FREE_STATEID in between
		s.do(a, putroot(), openName("o2", "b", shRW, "NOCREATE"), getfh())
		ob := a.open("o2", s.fh(2))
		s.do(a, putfh(s.fh(2)), lockNew(ob.sid, "l2", "R", 1, 3))
		s.do(a, putfh(s.fh(2)), downgrade(ob.sid, shW))
		s.do(a, putroot(), openName("o2", "b", shR, "NOCREATE"), getfh())
		lb := a.lock("o2", "l2", s.fh(2))
		s.do(a, putfh(s.fh(2)), locku(lb.sid, 0, 4))
		s.do(a, freeSid(lb.sid))
		s.do(a, putfh(s.fh(2)), downgrade(ob.sid, shR))
		s.do(a, putfh(s.fh(2)), closeOp(ob.sid))
	}},
	{"reregistration", func(s *script) {
		a := s.client("A", 1)
		b := s.client("B", 1)
		s.do(a, putroot(), openName("o1", "a", shRW, "NOCREATE"), getfh())
		s.do(b, putroot(), openName("o1", "a", shR, "NOCREATE"), getfh())
		s.do(a, putfh(s.fh(1)), lockNew(a.open("o1", s.fh(1)).sid, "l1", "W", 0, 4))
		oldSess := a.sess[0].id
		oldOpen := a.open("o1", s.fh(1)).sid
		a2 := newClient("A", 2)
		s.clients = append(s.clients, a2)
		s.register(a2, false) // unconfirmed: the old incarnation keeps its state
		s.do(a, putfh(s.fh(1)), read(a.open("o1", s.fh(1)).sid))
		s.register(a, false)          // EXCHANGE_ID of the confirmed incarnation
		s.newSession(a2, a2.csNext+1) // misordered
		s.newSession(a2, a2.csNext-1) // replay of "nothing"
		s.newSession(a2, a2.csNext)   // confirms: old incarnation is discarded
		s.newSession(a2, a2.csNext-1) // replay: same session again
		s.e.runSeq(oldSess, 0, 9, true, []*Op{putroot()}, false)
		s.do(a2, putfh(s.fh(1)), read(oldOpen))
		s.do(b, putfh(s.fh(1)), lockNew(b.open("o1", s.fh(1)).sid, "l1", "R", 0, 4))
		s.e.destroyClientID(a2.cid, true)
		s.e.destroySession(a2.sess[0].id, true)
		s.e.destroySession(a2.sess[0].id, true)
		s.e.destroyClientID(a2.cid, true)
		s.e.destroyClientID(a2.cid, true)
		s.e.destroyClientID(b.cid, true)
		s.e.createSession(12345, false, 1, 0)
		s.do(b, putfh(s.fh(1)), closeOp(b.open("o1", s.fh(1)).sid))
		s.e.destroySession(b.sess[0].id, true)
		s.e.destroyClientID(b.cid, true)
	}},
	{"lease-expiry", func(s *script) {
		a := s.client("A", 1)
		b := s.client("B", 1)
		s.do(a, putroot(), openName("o1", "a", shRW, "NOCREATE"), getfh())
		s.do(a, putfh(s.fh(1)), lockNew(a.open("o1", s.fh(1)).sid, "l1", "W", 0, 4))
		s.do(b, putroot(), openName("o1", "a", shR, "NOCREATE"), getfh())
		s.e.advance(6)
		s.do(b, putfh(s.fh(1)), lockt("l9", "R", 0, 1))
		s.e.advance(6) // A is now past its lease, B is not
		s.do(b, putfh(s.fh(1)), lockNew(b.open("o1", s.fh(1)).sid, "l1", "R", 0, 4))
		s.do(a, putfh(s.fh(1)), read(a.open("o1", s.fh(1)).sid))
		s.register(a, true)
		s.do(a, putroot(), openName("o1", "a", shRW, "NOCREATE"), getfh())
		s.do(a, putfh(s.fh(1)), lockNew(a.open("o1", s.fh(1)).sid, "l1", "W", 0, 1))
	}},
	{"retransmissions", func(s *script) {
		a := s.client("A", 1)
		open := []*Op{putroot(), openName("o1", "a", shR, "NOCREATE"), getfh()}
		s.doOn(a, 0, 0, true, open...)
		s.resend(a, 0, 0, 1, true, open...)                                                           // identical, cached
		s.resend(a, 0, 0, 1, true, open...)                                                           // again
		s.resend(a, 0, 0, 1, true, putroot(), getfh())                                                // different content (shorter)
		s.resend(a, 0, 0, 1, true, putroot(), openName("o1", "a", shR, "NOCREATE"), getfh(), getfh()) // longer
		s.resend(a, 0, 0, 1, true, putroot(), getfh(), getfh())                                       // same length, other operations
		s.resend(a, 0, 0, 1, true, putroot(), openName("o1", "b", shW, "NOCREATE"), getfh())          // same shape, other arguments
		s.resend(a, 0, 0, 3, true, open...)                                                           // ahead
		s.resend(a, 0, 0, 0, true, open...)                                                           // behind
		s.resend(a, 0, 5, 1, true, open...)                                                           // bad slot
		s.resend(a, 0, 0, 1, true, open...)                                                           // the rejected requests left the cached reply alone
		up := []*Op{putroot(), openName("o1", "a", shW, "NOCREATE"), getfh()}
		s.doOn(a, 0, 0, false, up...) // not cached (3 results)
		s.resend(a, 0, 0, 2, false, up...)
		s.resend(a, 0, 0, 1, true, open...) // the one before: behind now
		one := []*Op{putroot()}
		s.doOn(a, 0, 0, false, one...) // small replies are always cached
		s.resend(a, 0, 0, 3, false, one...)
		fail := []*Op{putroot(), lookup("nope"), getfh()}
		s.doOn(a, 0, 0, false, fail...) // failed at the second operation
		s.resend(a, 0, 0, 4, false, fail...)
		s.resend(a, 0, 0, 4, false, putroot()) // shorter than the cached failure
		s.doOn(a, 0, 1, true, putfh(s.fh(1)), closeOp(a.open("o1", s.fh(1)).sid))
		s.resend(a, 0, 1, 1, true, putfh(s.fh(1)), closeOp(a.open("o1", s.fh(1)).sid))
		many := []*Op{}
		for i := 0; i < maxOps; i++ {
			many = append(many, putroot())
		}
		s.doOn(a, 0, 0, true, many...)       // too many operations
		s.resend(a, 0, 0, 4, false, fail...) // the cache entry was dropped
		s.doOn(a, 0, 0, true, putroot(), &Op{Name: "SEQUENCE"})
		s.do(a, getfh())
	}},
	{"create-session-retransmissions", func(s *script) {
		// CREATE_SESSION has a replay cache of its own (one reply per
		// client incarnation).
		a := s.client("A", 1)
		s.do(a, putroot(), openName("o1", "a", shRW, "NOCREATE"), getfh())
		s.newSession(a, a.csNext-1) // retransmission: the same session again, no new one
		s.newSession(a, a.csNext-1)
		s.newSession(a, a.csNext+1) // ahead
		s.newSession(a, a.csNext-2) // behind
		s.newSession(a, a.csNext-1) // the rejected requests left the cached reply alone
		s.newSession(a, a.csNext)   // a second session
		s.newSession(a, a.csNext-1) // its retransmission
		s.newSession(a, a.csNext-2) // the first reply is no longer cached
		s.doOn(a, 1, 0, true, putfh(s.fh(1)), read(a.open("o1", s.fh(1)).sid))
		if len(a.sess) > 1 {
			s.e.destroySession(a.sess[1].id, true)
		}
		s.newSession(a, a.csNext-1) // retransmission after its session was destroyed: the cached reply
		s.do(a, putfh(s.fh(1)), closeOp(a.open("o1", s.fh(1)).sid))
		b := newClient("B", 1)
		s.clients = append(s.clients, b)
		s.register(b, false)
		s.newSession(b, b.csNext-1) // "retransmission" of a CREATE_SESSION that never happened
		s.newSession(b, b.csNext+1)
		s.newSession(b, b.csNext)
		s.newSession(b, b.csNext-1)
	}},
	{"two-lofs-same-owner-probe", func(s *script) {
		a := s.client("A", 1)
		b := s.client("B", 1)
		s.do(a, putroot(), openName("o1", "a", shRW, "NOCREATE"), getfh())
		s.do(a, putroot(), openName("o2", "a", shRW, "NOCREATE"), getfh())
		s.do(b, putroot(), openName("o1", "a", shRW, "NOCREATE"), getfh())
		s.do(a, putfh(s.fh(1)), lockNew(a.open("o1", s.fh(1)).sid, "L", "W", 0, 1))
		s.do(a, putfh(s.fh(1)), lockNew(a.open("o2", s.fh(1)).sid, "L", "W", 2, 3))
		l := a.lock("o1", "L", s.fh(1))
		s.do(a, putfh(s.fh(1)), closeOp(a.open("o1", s.fh(1)).sid)) // takes the shared lock state and all of L's locks along
		s.do(b, putfh(s.fh(1)), lockt("x", "W", 0, 4))
		s.do(a, putfh(s.fh(1)), locku(l.sid, 2, 3)) // through the shared lock state after its open was closed
		s.do(a, testSids(l.sid))
		s.do(a, putfh(s.fh(1)), lockNew(a.open("o2", s.fh(1)).sid, "L", "W", 1, 2)) // new lock state, now under o2
		s.do(b, putfh(s.fh(1)), lockt("x", "W", 0, 4))
		s.do(a, putfh(s.fh(1)), closeOp(a.open("o2", s.fh(1)).sid))
		s.do(b, putfh(s.fh(1)), lockt("x", "W", 0, 4))
	}},
	{"two-lofs-close-other-first", func(s *script) {
		// The open through which the second LOCK came is closed first:
		// the lock state (and every lock of L) stays with the first open.
		a := s.client("A", 1)
		b := s.client("B", 1)
		s.do(a, putroot(), openName("o1", "a", shRW, "NOCREATE"), getfh())
		s.do(a, putroot(), openName("o2", "a", shRW, "NOCREATE"), getfh())
		s.do(b, putroot(), openName("o1", "a", shRW, "NOCREATE"), getfh())
		s.do(a, putfh(s.fh(1)), lockNew(a.open("o1", s.fh(1)).sid, "L", "W", 0, 1))
		s.do(a, putfh(s.fh(1)), lockNew(a.open("o2", s.fh(1)).sid, "L", "W", 2, 3))
		s.do(a, putfh(s.fh(1)), closeOp(a.open("o2", s.fh(1)).sid))
		s.do(b, putfh(s.fh(1)), lockt("x", "W", 0, 1))
		s.do(b, putfh(s.fh(1)), lockt("x", "W", 2, 3))
		s.do(b, putfh(s.fh(1)), lockt("x", "W", 1, 2))
		l := a.lock("o1", "L", s.fh(1))
		s.do(a, putfh(s.fh(1)), locku(l.sid, 2, 3))
		s.do(b, putfh(s.fh(1)), lockNew(b.open("o1", s.fh(1)).sid, "L", "W", 2, 4))
		s.do(a, putfh(s.fh(1)), closeOp(a.open("o1", s.fh(1)).sid))
		s.do(b, putfh(s.fh(1)), lockNew(b.open("o1", s.fh(1)).sid, "L", "W", 0, 4))
	}},
	{"shared-lock-state-lease-expiry", func(s *script) {
		a := s.client("A", 1)
		b := s.client("B", 1)
		s.do(a, putroot(), openName("o1", "a", shRW, "NOCREATE"), getfh())
		s.do(a, putroot(), openName("o2", "a", shRW, "NOCREATE"), getfh())
		s.do(b, putroot(), openName("o1", "a", shR, "NOCREATE"), getfh())
		s.do(a, putfh(s.fh(1)), lockNew(a.open("o1", s.fh(1)).sid, "L", "W", 0, 1))
		s.do(a, putfh(s.fh(1)), lockNew(a.open("o2", s.fh(1)).sid, "L", "W", 2, 3))
		s.do(a, putfh(s.fh(1)), lockNew(a.open("o2", s.fh(1)).sid, "M", "R", 1, 2)) // M only through o2
		s.e.advance(6)
		s.do(b, putfh(s.fh(1)), lockt("x", "W", 0, 4))
		s.e.advance(6) // A is past its lease, B is not
		s.do(b, putfh(s.fh(1)), lockNew(b.open("o1", s.fh(1)).sid, "L", "W", 0, 4))
	}},
	{"shared-lock-state-merge", func(s *script) {
		// The LOCK that comes through the second open merges the ranges
		// that the lock-owner took through the first one: the number of
		// table entries goes down, in the one shared lock state.
		a := s.client("A", 1)
		b := s.client("B", 1)
		s.do(a, putroot(), openName("o1", "a", shRW, "NOCREATE"), getfh())
		s.do(a, putroot(), openName("o2", "a", shRW, "NOCREATE"), getfh())
		s.do(b, putroot(), openName("o1", "a", shRW, "NOCREATE"), getfh())
		o1, o2 := a.open("o1", s.fh(1)), a.open("o2", s.fh(1))
		s.do(a, putfh(s.fh(1)), lockNew(o1.sid, "L", "W", 0, 1))
		l := a.lock("o1", "L", s.fh(1))
		s.do(a, putfh(s.fh(1)), lockMore(l.sid, "W", 2, 3))
		s.do(a, putfh(s.fh(1)), lockNew(o2.sid, "L", "W", 0, 4)) // three entries become one
		s.do(a, putfh(s.fh(1)), locku(l.sid, 1, 2))              // and two again
		s.do(a, freeSid(l.sid))
		s.do(b, putfh(s.fh(1)), lockt("x", "R", 1, 2))
		s.do(b, putfh(s.fh(1)), lockt("x", "R", 0, 1))
		s.do(a, putfh(s.fh(1)), closeOp(o2.sid))
		s.do(b, putfh(s.fh(1)), lockt("x", "R", 2, 4))
		s.do(a, putfh(s.fh(1)), closeOp(o1.sid))
		s.do(b, putfh(s.fh(1)), lockNew(b.open("o1", s.fh(1)).sid, "L", "W", 0, 4))
	}},
	{"shared-lock-state-free-stateid", func(s *script) {
		a := s.client("A", 1)
		s.do(a, putroot(), openName("o1", "a", shR, "NOCREATE"), getfh()) // the first open can only read
		s.do(a, putroot(), openName("o2", "a", shRW, "NOCREATE"), getfh())
		o1, o2 := a.open("o1", s.fh(1)), a.open("o2", s.fh(1))
		s.do(a, putfh(s.fh(1)), lockNew(o1.sid, "L", "R", 0, 1))
		s.do(a, putfh(s.fh(1)), lockNew(o2.sid, "L", "W", 2, 3))
		l := a.lock("o1", "L", s.fh(1))
		s.do(a, putfh(s.fh(1)), read(l.sid))
		s.do(a, putfh(s.fh(1)), write(l.sid, "w")) // the lock state has the share reservation of the open it was created under
		s.do(a, freeSid(l.sid))                    // locks held
		s.do(a, putfh(s.fh(1)), locku(l.sid, 0, 1))
		s.do(a, freeSid(l.sid)) // still one lock, taken through o2
		s.do(a, putfh(s.fh(1)), locku(l.sid, 0, 4))
		s.do(a, freeSid(l.sid))
		s.do(a, testSids(l.sid))
		s.do(a, putfh(s.fh(1)), lockNew(o2.sid, "L", "W", 2, 3)) // new lock state, under o2
		s.do(a, putfh(s.fh(1)), closeOp(o1.sid))
		l2 := a.lock("o2", "L", s.fh(1))
		s.do(a, putfh(s.fh(1)), write(l2.sid, "w"))
		s.do(a, putfh(s.fh(1)), locku(l2.sid, 2, 3))
		s.do(a, putfh(s.fh(1)), closeOp(o2.sid))
	}},
}

// runGuarded runs a scenario script. The scripts index into what earlier
// replies yielded; if the server answered differently (or panicked) such an
// access may fail. That is logged, never judged here.
func runGuarded(s *script, sc scenario) {
	defer func() {
		if r := recover(); r != nil && !s.dead {
			s.e.tr.Emit(common.Ev{"ev": "anomaly", "what": fmt.Sprint("scenario script could not continue: ", r)})
			s.dead = true
		}
	}()
	sc.run(s)
}

func runScenario(tr *common.Trace, no int, sc scenario) {
	s := newScript(tr, no, sc.name, []string{"a", "b"})
	runGuarded(s, sc)
	s.finish()
}

// TestScenarios runs the scripted special cases. VERIF_SCEN selects one.
func TestScenarios(t *testing.T) {
	tr := common.NewTrace("trace.ndjson")
	defer tr.Close()
	only := common.Env("VERIF_SCEN", "")
	for i, sc := range scenarios {
		if only != "" && only != sc.name {
			continue
		}
		runScenario(tr, i, sc)
	}
}

var _ = synctest.Wait
var _ = rand.Int
