package vfsdir

import (
	"fmt"
	"math/rand"

	"github.com/buildbarn/bb-remote-execution/pkg/filesystem/virtual"
	"github.com/buildbarn/bb-storage/pkg/filesystem"
	"github.com/buildbarn/bb-storage/pkg/filesystem/path"

	"verif/harness/common"
)

// op is one call to be made on the real hierarchy.
type op struct {
	Op     string
	D      int
	N      string
	D2     int
	N2     string
	A, B   bool
	C      int    // leaf id (link)
	K      string // kind (mknod), what (setattr)
	T      string // symlink target
	Ck     uint64
	Page   int
	Sid    int
	First  bool
	Ch     []child
	Rm     map[int]bool // filter: callbacks whose remover is invoked
	StopAt int          // filter: callback at which the filter returns false (0: never)
}

func (o op) String() string {
	return fmt.Sprintf("%s d=%d n=%q d2=%d n2=%q a=%v b=%v c=%d k=%s ck=%d page=%d ch=%v", o.Op, o.D, o.N, o.D2, o.N2, o.A, o.B, o.C, o.K, o.Ck, o.Page, o.Ch)
}

func (w *world) emit(ev any) {
	if w.tr != nil {
		switch e := ev.(type) {
		case common.Ev:
			w.tr.Emit(e)
		case call:
			w.tr.Emit(common.Ev{"ev": e.Ev, "op": e.Op, "d": e.D, "n": e.N, "d2": e.D2, "n2": e.N2, "a": e.A, "b": e.B,
				"c": e.C, "k": e.K, "t": e.T, "ck": e.Ck, "page": e.Page, "sid": e.Sid, "first": e.First, "new": e.New,
				"ch": e.Ch, "st": e.St, "ret": e.Ret, "ci": e.Ci, "ci2": e.Ci2, "list": e.List, "list2": e.List2,
				"more": e.More, "oak": e.Oak, "ochg": e.Ochg, "cb": e.Cb, "rm": e.Rm, "proj": e.Proj, "leaves": e.Leaves})
		}
	}
}

func normCh(ch []child) []child {
	out := []child{}
	for _, c := range ch {
		c.Sub = normCh(c.Sub)
		out = append(out, c)
	}
	return out
}

var fileTypes = map[string]filesystem.FileType{
	"fifo": filesystem.FileTypeFIFO, "socket": filesystem.FileTypeSocket,
	"symlink": filesystem.FileTypeSymlink, "chr": filesystem.FileTypeCharacterDevice,
	"blk": filesystem.FileTypeBlockDevice,
}

// do performs one call, projects the state and emits the event. It
// returns the event; w.broken is set if the real code panicked.
func (w *world) do(o op) (c call) {
	c = call{Ev: "call", Op: o.Op, D: o.D, N: o.N, D2: o.D2, N2: o.N2, A: o.A, B: o.B, C: o.C, K: o.K, T: o.T,
		Ck: o.Ck, Page: o.Page, Sid: o.Sid, First: o.First, New: -1, Ch: normCh(o.Ch), St: "?", Ochg: -1,
		Ret: ret{K: "none", C: -1}, List: []ent{}, List2: []ent{}, Cb: []cbRec{}, Rm: []int{},
		Proj: []dirProj{}, Leaves: []leafProj{}}
	defer func() {
		if r := recover(); r != nil {
			w.broken = true
			w.emit(common.Ev{"ev": "panic", "msg": fmt.Sprint(r), "call": o.String()})
		}
	}()
	d := w.dirs[o.D]
	var rawList, rawList2 []rawEnt
	var retDir virtual.PrepopulatedDirectory
	var retLeaf virtual.Leaf
	var a virtual.Attributes
	ci := func(x virtual.ChangeInfo) [2]uint64 { return [2]uint64{x.Before, x.After} }
	takeChild := func(dir virtual.Directory, leaf virtual.Leaf) {
		if dir != nil {
			retDir, _ = dir.(virtual.PrepopulatedDirectory)
		} else {
			retLeaf = leaf
		}
	}
	keepLeaf := -1
	enterKnown := true
	switch o.Op {
	case "lookup":
		// o.A: also ask for the change id (as an NFSv4 client does), which
		// makes the real code lock the child directory.
		mask := leafMask
		if o.A {
			mask |= virtual.AttributesMaskChangeID
		}
		ch, s := d.VirtualLookup(ctx, comp(o.N), mask, &a)
		c.St = statusName(s)
		if s == virtual.StatusOK {
			dir, leaf := ch.GetPair()
			takeChild(dir, leaf)
			c.Oak = kindOf(a.GetFileType())
			if o.A && dir != nil {
				c.Ochg = int(a.GetChangeID())
			}
		}
	case "lookupchild":
		ch, err := d.LookupChild(comp(o.N))
		c.St = errName(err)
		if err == nil {
			dir, leaf := ch.GetPair()
			if dir != nil {
				retDir = dir
			} else {
				retLeaf = leaf
			}
		}
	case "mkdir":
		nd, x, s := d.VirtualMkdir(ctx, comp(o.N), &virtual.Attributes{}, leafMask, &a)
		c.St, c.Ci = statusName(s), ci(x)
		if s == virtual.StatusOK {
			c.New = w.bindDir(nd.(virtual.PrepopulatedDirectory), -1)
			c.Ret = ret{K: "d", C: c.New}
		}
	case "mknod":
		attrs := (&virtual.Attributes{}).SetFileType(fileTypes[o.K])
		want := -1
		if o.K == "symlink" {
			attrs.SetSymlinkTarget(path.UNIXFormat.NewParser(o.T))
			want = w.symLeaf(o.T)
			c.New = want
		}
		l, x, s := d.VirtualMknod(ctx, comp(o.N), attrs, leafMask, &a)
		c.St, c.Ci = statusName(s), ci(x)
		if s == virtual.StatusOK {
			id, _ := w.bindLeaf(l, want)
			if o.K != "symlink" {
				c.New = id
			}
			c.Ret = ret{K: w.leafKind[id], C: id}
		}
	case "link":
		x, s := d.VirtualLink(ctx, comp(o.N), w.leafObj[o.C], leafMask, &a)
		c.St, c.Ci = statusName(s), ci(x)
		keepLeaf = o.C
	case "open":
		var ca *virtual.Attributes
		if o.A {
			ca = (&virtual.Attributes{}).SetPermissions(virtual.PermissionsRead | virtual.PermissionsWrite)
		}
		var eo *virtual.OpenExistingOptions
		if o.B {
			eo = &virtual.OpenExistingOptions{Truncate: o.K == "trunc"}
		}
		l, _, x, s := d.VirtualOpenChild(ctx, comp(o.N), virtual.ShareMaskRead, ca, eo, leafMask, &a)
		c.St, c.Ci = statusName(s), ci(x)
		if s == virtual.StatusOK {
			id, isNew := w.bindLeaf(l, -1)
			if isNew {
				c.New = id
			}
			c.Ret = ret{K: w.leafKind[id], C: id}
			l.VirtualClose(virtual.ShareMaskRead)
		}
	case "vremove":
		x, s := d.VirtualRemove(ctx, comp(o.N), o.A, o.B)
		c.St, c.Ci = statusName(s), ci(x)
	case "rename":
		x, y, s := d.VirtualRename(ctx, comp(o.N), w.dirs[o.D2], comp(o.N2))
		c.St, c.Ci, c.Ci2 = statusName(s), ci(x), ci(y)
	case "readdir":
		r := pageReporter{cap: o.Page, locked: o.A}
		mask := virtual.AttributesMaskFileType | virtual.AttributesMaskInodeNumber
		if o.A {
			mask |= virtual.AttributesMaskChangeID
		}
		s := d.VirtualReadDir(ctx, o.Ck, mask, &r)
		c.St, c.More = statusName(s), r.more
		rawList = r.ents
		for _, e := range r.ents {
			w.cookies[o.D] = append(w.cookies[o.D], e.cookie)
		}
	case "setattr":
		in := &virtual.Attributes{}
		switch o.K {
		case "size":
			in.SetSizeBytes(0)
		case "owner":
			in.SetOwnerUserID(1)
		default:
			in.SetPermissions(virtual.PermissionsRead | virtual.PermissionsWrite | virtual.PermissionsExecute)
		}
		c.St = statusName(d.VirtualSetAttributes(ctx, in, leafMask, &a))
	case "remove":
		c.St = errName(d.Remove(comp(o.N)))
	case "removeall":
		c.St = errName(d.RemoveAll(comp(o.N)))
	case "clear":
		c.St = errName(d.RemoveAllChildren(o.A))
	case "create":
		o.Ch = w.assignIDs(o.Ch)
		c.Ch = normCh(o.Ch)
		children, err := w.instantiate(o.Ch)
		if err != nil {
			panic(fmt.Sprintf("driver could not create initial children: %v", err))
		}
		err = d.CreateChildren(children, o.A)
		c.St = errName(err)
		if err == nil {
			for _, x := range o.Ch {
				if x.K == "d" {
					w.expect(o.D, x.N, x.C)
					w.pendOf[x.C] = x.Sub
				}
			}
		} else {
			// The directory did not take ownership: drop the leaves again.
			for _, x := range o.Ch {
				if x.K != "d" {
					_, leaf := children[comp(x.N)].GetPair()
					leaf.Unlink()
					if x.K != "symlink" {
						// never entered the hierarchy: not an object of the history
						w.leafDead[x.C] = true
						delete(w.leafObj, x.C)
					}
				}
			}
		}
	case "enter":
		nd, err := d.CreateAndEnterPrepopulatedDirectory(comp(o.N))
		c.St = errName(err)
		if err == nil {
			// named after the scan: it may be a lazily created
			// directory with a reserved id
			retDir = nd
			_, enterKnown = w.dirID[nd]
		}
	case "listall":
		ds, ls, err := d.LookupAllChildren()
		c.St = errName(err)
		for _, e := range ds {
			rawList = append(rawList, rawEnt{name: e.Name.String(), kind: "d", dir: e.Child})
		}
		for _, e := range ls {
			rawList2 = append(rawList2, rawEnt{name: e.Name.String(), kind: "?", leaf: e.Child})
		}
	case "readdirbulk":
		infos, err := d.ReadDir()
		c.St = errName(err)
		for _, fi := range infos {
			c.List = append(c.List, ent{N: fi.Name().String(), K: kindOf(fi.Type()), C: -1})
		}
	case "filter":
		i := 0
		type rawCb struct {
			lazy int
			leaf virtual.LinkableLeaf
		}
		var cbs []rawCb
		err := d.FilterChildren(func(node virtual.InitialChild, remove virtual.ChildRemover) bool {
			i++
			dir, leaf := node.GetPair()
			if dir != nil {
				id := -1
				if f, ok := dir.(*fetcher); ok {
					id = f.id
				}
				cbs = append(cbs, rawCb{lazy: id})
			} else {
				cbs = append(cbs, rawCb{leaf: leaf})
			}
			if o.Rm[i] {
				if err := remove(); err != nil {
					c.Rm = append(c.Rm, -i)
				} else {
					c.Rm = append(c.Rm, i)
				}
			}
			if i == o.StopAt {
				c.More = true
				return false
			}
			return true
		})
		c.St = errName(err)
		for _, cb := range cbs {
			if cb.leaf != nil {
				id, _ := w.bindLeaf(cb.leaf, -1)
				c.Cb = append(c.Cb, cbRec{T: "leaf", C: id})
			} else {
				c.Cb = append(c.Cb, cbRec{T: "lazy", C: cb.lazy})
			}
		}
	default:
		panic("driver: unknown op " + o.Op)
	}
	ps, ls := w.project(o.D, o.D2)
	if rawList != nil {
		c.List = w.resolve(rawList)
	}
	if rawList2 != nil {
		c.List2 = w.resolve(rawList2)
		for i := range c.List2 {
			c.List2[i].K = w.leafKind[c.List2[i].C]
		}
	}
	if retDir != nil {
		c.Ret = ret{K: "d", C: w.bindDir(retDir, -1)}
		if !enterKnown {
			c.New = c.Ret.C
		}
	} else if retLeaf != nil {
		id, _ := w.bindLeaf(retLeaf, -1)
		c.Ret = ret{K: w.leafKind[id], C: id}
	}
	c.Proj, c.Leaves = ps, ls
	w.emit(c)
	w.housekeeping(ps, ls, keepLeaf)
	return c
}

// assignIDs reserves ids for the children of a template (c < 0).
func (w *world) assignIDs(ch []child) []child {
	out := []child{}
	for _, c := range ch {
		if c.C < 0 {
			switch c.K {
			case "d":
				c.C = w.reserveDir()
			case "symlink":
				c.C = w.symLeaf(c.T)
			default:
				c.C = w.reserveLeaf()
			}
		}
		c.Sub = w.assignIDs(c.Sub)
		out = append(out, c)
	}
	return out
}

// jump tells the validator the complete current state; used after a
// prefix of calls was replayed silently (it was validated before).
func (w *world) jump() {
	type dump struct {
		ID      int     `json:"id"`
		Deleted bool    `json:"deleted"`
		Lazy    bool    `json:"lazy"`
		Chg     uint64  `json:"chg"`
		Ents    []ent   `json:"ents"`
		Pend    []child `json:"pend"`
	}
	type leafDump struct {
		ID    int    `json:"id"`
		K     string `json:"k"`
		Links uint32 `json:"links"`
		T     string `json:"t"`
	}
	ds := []dump{}
	for id, d := range w.dirs {
		if d == nil {
			continue
		}
		st := w.state(id)
		x := dump{ID: id, Deleted: st.IsDeleted, Lazy: st.IsLazy, Chg: st.ChangeID, Ents: []ent{}, Pend: normCh(w.pendOf[id])}
		if !st.IsLazy {
			x.Pend = []child{}
		}
		for _, e := range st.ListEntries {
			y := ent{N: e.Name.String(), Ck: e.Cookie + 1}
			if e.Directory != nil {
				y.K, y.C = "d", w.bindDir(e.Directory, -1)
			} else {
				y.C, _ = w.bindLeaf(e.Leaf, -1)
				y.K = w.leafKind[y.C]
			}
			x.Ents = append(x.Ents, y)
		}
		ds = append(ds, x)
	}
	targets := map[int]string{}
	for t, id := range w.symID {
		targets[id] = t
	}
	ls := []leafDump{}
	for _, id := range w.allLeafIDs() {
		var a virtual.Attributes
		w.leafObj[id].VirtualGetAttributes(ctx, leafMask, &a)
		links := a.GetLinkCount()
		if w.leafKind[id] == "symlink" {
			links = 0
		}
		ls = append(ls, leafDump{ID: id, K: w.leafKind[id], Links: links, T: targets[id]})
	}
	w.emit(common.Ev{"ev": "jump", "ci": w.ci, "hid": w.hid, "alloc": w.alloc, "dirs": ds, "leaves": ls})
}

func (w *world) allLeafIDs() []int {
	out := []int{}
	for id := 0; id < w.nextLeaf; id++ {
		if _, ok := w.leafObj[id]; ok && w.leafSeen[id] {
			out = append(out, id)
		}
	}
	return out
}

// reset starts a new trace.
func (w *world) reset(trace int) {
	ps, ls := w.project()
	w.emit(common.Ev{"ev": "reset", "trace": trace, "ci": w.ci, "hid": w.hid, "alloc": w.alloc, "proj": ps, "leaves": ls})
}

// ---------------------------------------------------------------------
// Helpers that look at the real state without changing it.

func (w *world) state(id int) virtual.VerifDirectoryState {
	return w.dirs[id].(verifDir).VerifState()
}

// subtree returns the ids of the directories reachable from top through
// instantiated entries (top included).
func (w *world) subtree(top int) map[int]bool {
	seen := map[int]bool{}
	todo := []int{top}
	for len(todo) > 0 {
		id := todo[0]
		todo = todo[1:]
		if seen[id] {
			continue
		}
		seen[id] = true
		for _, e := range w.state(id).ListEntries {
			if e.Directory != nil {
				if cid, ok := w.dirID[e.Directory]; ok {
					todo = append(todo, cid)
				}
			}
		}
	}
	return seen
}

// cyclic tells whether rename d/n -> d2 would move a directory into its
// own subtree.
func (w *world) cyclic(d int, n string, d2 int) bool {
	for _, e := range w.state(d).ListEntries {
		same := e.Name.String() == n
		if w.ci {
			same = lower(e.Name.String()) == lower(n)
		}
		if same && e.Directory != nil {
			if cid, ok := w.dirID[e.Directory]; ok {
				return w.subtree(cid)[d2]
			}
		}
	}
	return false
}

func lower(s string) string {
	b := []byte(s)
	for i, c := range b {
		if c >= 'A' && c <= 'Z' {
			b[i] = c + 32
		}
	}
	return string(b)
}

func (w *world) liveDirs() []int {
	out := []int{}
	for _, id := range w.active() {
		if !w.state(id).IsDeleted {
			out = append(out, id)
		}
	}
	return out
}

func (w *world) leafIDs() []int {
	out := []int{}
	for id := 0; id < w.nextLeaf; id++ {
		if _, ok := w.leafObj[id]; ok && w.leafSeen[id] {
			out = append(out, id)
		}
	}
	return out
}

// ---------------------------------------------------------------------
// Random calls.

var allNames = []string{"a", "A", "b", "B", "c", "_h"}

type session struct {
	on   bool
	d    int
	ck   uint64
	page int
}

type gen struct {
	w       *world
	rng     *rand.Rand
	sess    [2]session
	revisit int // directory whose contents were just removed wholesale, or -1
}

func (g *gen) name() string { return allNames[g.rng.Intn(len(allNames))] }

// nameIn prefers a name that exists in directory d (possibly spelled in
// the other case), so that calls on existing entries are frequent.
func (g *gen) nameIn(d int) string {
	if es := g.w.state(d).ListEntries; len(es) > 0 && g.rng.Intn(4) > 0 {
		n := es[g.rng.Intn(len(es))].Name.String()
		if g.rng.Intn(5) == 0 {
			for _, m := range allNames {
				if m != n && lower(m) == lower(n) {
					return m
				}
			}
		}
		return n
	}
	return g.name()
}

func (g *gen) dir() int {
	act := g.w.active()
	if g.rng.Intn(4) > 0 {
		if live := g.w.liveDirs(); len(live) > 0 {
			return live[g.rng.Intn(len(live))]
		}
	}
	return act[g.rng.Intn(len(act))]
}

// children makes a description of 1..3 initial children with reserved ids.
func (g *gen) children(depth int) []child {
	n := 1 + g.rng.Intn(3)
	if depth > 0 {
		n = g.rng.Intn(3)
	}
	used := map[string]bool{}
	out := []child{}
	for len(out) < n {
		name := g.name()
		if used[lower(name)] {
			continue
		}
		used[lower(name)] = true
		switch k := g.rng.Intn(10); {
		case k < 4:
			out = append(out, child{N: name, K: "file", C: g.w.reserveLeaf(), Sub: []child{}})
		case k < 6:
			t := []string{"t0", "t1"}[g.rng.Intn(2)]
			out = append(out, child{N: name, K: "symlink", C: g.w.symLeaf(t), T: t, Sub: []child{}})
		default:
			sub := []child{}
			if depth < 2 && g.rng.Intn(2) == 0 {
				sub = g.children(depth + 1)
			}
			out = append(out, child{N: name, K: "d", C: g.w.reserveDir(), Sub: sub})
		}
	}
	return out
}

// next produces the next random call.
func (g *gen) next() op {
	w, r := g.w, g.rng
	if g.revisit > 0 && r.Intn(2) == 0 {
		// look again at a directory that was just emptied
		d := g.revisit
		g.revisit = 0
		return []op{{Op: "lookup", D: d, N: g.name(), A: r.Intn(2) == 0}, {Op: "readdir", D: d, Page: 3, Sid: -1, A: r.Intn(2) == 0}, {Op: "listall", D: d}}[r.Intn(3)]
	}
	g.revisit = 0
	for {
		d := g.dir()
		o := op{D: d, N: g.name()}
		existing := g.nameIn(d)
		many := len(w.liveDirs()) > 7
		k := r.Intn(100)
		if many && k < 40 {
			k = 78 // removeall
		}
		switch {
		case k < 8:
			o.Op = "mkdir"
		case k < 20:
			o.Op = "open"
			switch r.Intn(5) {
			case 0:
				o.B, o.N = true, existing
			case 1:
				o.A, o.B = true, true
				if r.Intn(2) == 0 {
					o.N = existing
				}
			case 2:
				o.B, o.K, o.N = true, "trunc", existing
			default:
				o.A = true
			}
		case k < 27:
			o.Op, o.K = "mknod", []string{"fifo", "fifo", "socket", "symlink", "symlink", "symlink", "chr", "blk"}[r.Intn(8)]
			if o.K == "symlink" {
				o.T = []string{"t0", "t1"}[r.Intn(2)]
			}
		case k < 34:
			ids := w.leafIDs()
			if len(ids) == 0 {
				continue
			}
			o.Op, o.C = "link", ids[r.Intn(len(ids))]
			if r.Intn(3) > 0 && len(ids) > 3 {
				o.C = ids[len(ids)-1-r.Intn(3)]
			}
		case k < 40:
			o.Op = []string{"lookup", "lookup", "lookupchild"}[r.Intn(3)]
			o.N = existing
			o.A = o.Op == "lookup" && r.Intn(2) == 0
		case k < 49:
			o.Op = "vremove"
			o.N = existing
			switch r.Intn(4) {
			case 0:
				o.A = true
			case 1:
				o.B = true
			default:
				o.A, o.B = true, true
			}
		case k < 62:
			o.Op, o.D2, o.N2 = "rename", g.dir(), g.name()
			o.N = existing
			if r.Intn(3) == 0 {
				o.D2 = o.D
			}
			if r.Intn(2) == 0 {
				o.N2 = g.nameIn(o.D2)
			}
			if w.cyclic(o.D, o.N, o.D2) {
				continue
			}
		case k < 65:
			o.Op, o.Page, o.A = "readdir", 1+r.Intn(3), r.Intn(2) == 0
			if cs := w.cookies[d]; len(cs) > 0 && r.Intn(4) > 0 {
				o.Ck = cs[r.Intn(len(cs))]
				if r.Intn(8) == 0 {
					o.Ck += uint64(r.Intn(3))
				}
			}
			o.Sid = -1
		case k < 75:
			sid := r.Intn(2)
			s := &g.sess[sid]
			if !s.on {
				*s = session{on: true, d: d, ck: 0, page: 1 + r.Intn(3)}
				o.First = true
			}
			o.Op, o.D, o.Ck, o.Page, o.Sid, o.A = "readdir", s.d, s.ck, s.page, sid, r.Intn(2) == 0
		case k < 77:
			o.Op, o.K = "setattr", []string{"size", "owner", "other"}[r.Intn(3)]
		case k < 80:
			o.Op = []string{"remove", "removeall", "removeall"}[r.Intn(3)]
			o.N = existing
		case k < 82:
			o.Op, o.A = "clear", r.Intn(4) == 0
			g.revisit = d
			if d == 0 && o.A && r.Intn(4) > 0 {
				continue
			}
		case k < 90:
			o.Op, o.A, o.Ch = "create", r.Intn(2) == 0, g.children(0)
		case k < 93:
			o.Op = "enter"
		case k < 96:
			o.Op = []string{"listall", "readdirbulk"}[r.Intn(2)]
		default:
			o.Op, o.Rm = "filter", map[int]bool{}
			for i := 1; i <= 12; i++ {
				if r.Intn(3) == 0 {
					o.Rm[i] = true
				}
			}
			if r.Intn(3) == 0 {
				o.StopAt = 1 + r.Intn(4)
			}
		}
		return o
	}
}

// after updates the listing sessions with the reply of a page.
func (g *gen) after(o op, c call) {
	if o.Op == "readdir" && o.Sid >= 0 {
		s := &g.sess[o.Sid]
		if !c.More || len(c.List) == 0 {
			s.on = false
		} else {
			s.ck = c.List[len(c.List)-1].Ck
		}
	}
}
