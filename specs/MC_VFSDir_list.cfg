SPECIFICATION Spec
CONSTANTS
  NameOrder <- NamesABC
  HiddenNames = {"c"}
  MaxDirs = 2
  MaxLeaves = 2
  SymLeaf = 1
  InitCI = FALSE
  InitHid = TRUE
  Ops = {"open", "mkdir", "vremove", "rename", "link", "listing"}
  AllowSubtreeRename = FALSE
INVARIANTS
  C13_MapListAgreement
  C13_DeletedIsEmpty
  C13_DeletedAcceptsNothing
  C13_LinkCounts
  C13_Tree
  C13_Pagination
PROPERTIES
  C13_ChangeCounter
  C13_CookiesStable
  C13_DeletedForever
VIEW
  View
CHECK_DEADLOCK FALSE
