SPECIFICATION TraceSpec
CONSTANTS
  Owners = {"o1", "o2", "o3"}
  N = 6
INVARIANTS
  VerdictOK
  C20_Exclusion
  NonconfReport
POSTCONDITION Accepted
CHECK_DEADLOCK FALSE
