"""C11 — execution timeouts fire, compensated but bounded
(reference model SuspClock.tla; real code pkg/clock/suspendable_clock.go,
pkg/blobstore/suspending_blob_access.go, pkg/cas/suspending_directory_fetcher.go,
timeout handling of pkg/builder/local_build_executor.go)."""
import json

from lib import vlib

DEPS = ["SuspClock.tla"]
TRACE = "SuspClockTrace.tla"
TCFG = "Trace_SuspClock.cfg"


def _stats(path, into):
    """Event statistics of a trace file (vacuity guard: how often each kind
    of event / each way of ending was actually exercised)."""
    seen_done = set()
    trace = 0
    for ln in vlib.read_lines(path):
        try:
            e = json.loads(ln)
        except Exception:
            continue
        ev = e.get("ev")
        into[ev] = into.get(ev, 0) + 1
        if ev == "reset":
            trace += 1
            seen_done = set()
        elif ev == "obs":
            for r in e["objs"]:
                if r["done"] and r["id"] not in seen_done:
                    seen_done.add(r["id"])
                    k = "ended:%s:%s" % (r["kind"], r["err"])
                    into[k] = into.get(k, 0) + 1


def _drive(ctx, binary, test, label, env, timeout=1200, tlc_timeout=5400):
    out = ctx.sub(label)
    rc, o = vlib.run_driver(binary, test, out, ctx.seed, env=env, timeout=timeout)
    if rc != 0:
        raise vlib.Infra("suspclock driver %s failed:\n%s" % (test, o[-3000:]))
    path = out + "/trace.ndjson"
    vlib.validate_traces(ctx, path, TRACE, TCFG, DEPS, label,
                         classify=vlib.classify_for(ctx.prop), timeout=tlc_timeout, max_failures=3)
    ctx.cov["samples"] += vlib.sample_lines(path, 4)
    _stats(path, ctx.cov.setdefault("event_counts", {}))
    return out


def run(ctx):
    quick = ctx.quick()
    # 1. design check: the re-arm loop of the model satisfies the timing
    #    equations on every timeline of the bounded configuration(s)
    vlib.design_check(ctx, "SuspClock.tla", "MC_SuspClock.cfg", [], timeout=1800, workers=2, heap="2g")
    if not quick:
        vlib.design_check(ctx, "SuspClock.tla", "MC_SuspClock_two.cfg", [], timeout=3600, workers=3, heap="4g")
        vlib.design_check(ctx, "SuspClock.tla", "MC_SuspClock_deep.cfg", [], timeout=3600, workers=3, heap="4g")

    # 2. the real clock and wrappers, judged by the same equations
    binary = vlib.go_build_test(ctx, "suspclock")
    e = _drive(ctx, binary, "TestEnumerate", "enum",
               {"VERIF_ENUM_PLAN": "3:1:2:6:2,4:2:3:4:3" if quick
                else "3:1:2:9:2,4:2:3:6:3,2:1:0:6:3,5:3:1:6:3,1:1:4:5:3,6:2:3:8:2"})
    meta = json.load(open(e + "/meta.json"))
    # the real localBuildExecutor on top of the same clock: Action.timeout ->
    # cancellation of the command, DEADLINE_EXCEEDED, virtual_execution_duration
    x = _drive(ctx, binary, "TestExecutor", "executor",
               {"VERIF_EXEC_PLAN": "3:1:2:4,2:1:1:3" if quick else "3:1:2:6,4:2:3:5,2:1:0:4,1:1:3:4"})
    xmeta = json.load(open(x + "/meta.json"))
    w = _drive(ctx, binary, "TestWrappers", "wrappers", {})
    wmeta = json.load(open(w + "/meta.json"))
    _drive(ctx, binary, "TestRandom", "random",
           {"VERIF_N": 100 if quick else 1500, "VERIF_STEPS": 45 if quick else 60})

    ctx.assumptions += [
        "base clock is punctual: a base timer is delivered at the instant it is due (events at one instant are unordered); late delivery by the OS is not modelled",
        "time advances in whole milliseconds of a harness-owned clock; 1 tick = 1000 ms",
        "timeoutThreshold > 0 (bb_worker passes 100 ms)",
    ]
    return vlib.finish(
        ctx,
        rule="TLC proves on the bounded model of the re-arm loop (every timeline of ticks, nested suspend/resume, timer and "
             "deadline delivery, cancel) that expiry happens only with unsuspended elapsed in (timeout-threshold, timeout] or at "
             "wall = timeout+maximum, that nothing runs past either bound, and that the reported duration is the unsuspended "
             "time. The real SuspendableClock runs over a harness-owned base clock (timers fire only when the driver fires "
             "them, synctest quiescence after every step): every suspension pattern over H unit intervals x both orders at "
             "each instant, seeded random timelines with 3 concurrent contexts/timers, nested suspenders and storage "
             "operations, and every method x backend reply x buffer use of SuspendingBlobAccess / SuspendingDirectoryFetcher "
             "over gated backends; and the real localBuildExecutor with that clock and a fake runner (every suspension pattern x "
             "every instant at which the command ends by itself or is cancelled by the worker): the context the command is "
             "given is judged like any other context against Action.timeout, the ExecuteResponse must be DEADLINE_EXCEEDED iff "
             "the clock ended the command and virtual_execution_duration must be the unsuspended time it ran. TLC recomputes the unsuspended integral from the logged events and evaluates the model's "
             "equations on every observation (Done, Err, UnsuspendedDurationKey) and the suspend/resume bracketing of every "
             "storage operation.",
        explanation="timing equations of suspendable_clock.go and suspend/resume bracketing of the suspending wrappers",
        exhaustive=True,
        extra={"enumeration": meta, "wrapper_scenarios": wmeta, "executor": xmeta},
    )


def replay(ctx, path):
    vlib.validate_traces(ctx, path, TRACE, TCFG, DEPS, "replay", classify=vlib.classify_for(ctx.prop))
    return vlib.finish(ctx, rule="replay of a saved trace", explanation="replay")
