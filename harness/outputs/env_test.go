// Package outputs drives the real OutputHierarchy (NewOutputHierarchy,
// CreateParentDirectories, UploadOutputs) against a real virtual build
// directory and an in-memory CAS, decodes what it reported into plain
// records and writes them as NDJSON; specs/OutputHierarchyTrace.tla judges
// (property C10).
//
// This file: the environment (fakes, the virtual build directory set up the
// way cmd/bb_worker and localBuildExecutor do it), population of the tree
// through the VFS API, and the independent walk that records what exists.
package outputs

import (
	"context"
	"crypto/sha256"
	"encoding/hex"
	"fmt"
	"os"
	"sort"
	"strings"
	"sync"
	"syscall"

	remoteexecution "github.com/bazelbuild/remote-apis/build/bazel/remote/execution/v2"
	"github.com/buildbarn/bb-remote-execution/pkg/builder"
	"github.com/buildbarn/bb-remote-execution/pkg/cas"
	"github.com/buildbarn/bb-remote-execution/pkg/filesystem/pool"
	"github.com/buildbarn/bb-remote-execution/pkg/filesystem/virtual"
	"github.com/buildbarn/bb-storage/pkg/blobstore"
	"github.com/buildbarn/bb-storage/pkg/blobstore/buffer"
	"github.com/buildbarn/bb-storage/pkg/blobstore/slicing"
	"github.com/buildbarn/bb-storage/pkg/clock"
	"github.com/buildbarn/bb-storage/pkg/digest"
	"github.com/buildbarn/bb-storage/pkg/filesystem"
	"github.com/buildbarn/bb-storage/pkg/filesystem/path"
	"github.com/buildbarn/bb-storage/pkg/random"
	"github.com/buildbarn/bb-storage/pkg/util"

	"google.golang.org/grpc/codes"
	"google.golang.org/grpc/status"
	"google.golang.org/protobuf/proto"
)

// ---------------------------------------------------------------------
// Content alphabet. Content ids are what the specification compares;
// the bytes are only known here.

var contents = [][]byte{
	[]byte(""),
	[]byte("x"),
	[]byte("yy"),
	[]byte("the quick brown fox jumps over the lazy dog, twice over a sector boundary"),
}

func cidOfBytes(b []byte) string {
	for i, c := range contents {
		if string(c) == string(b) {
			return fmt.Sprintf("c%d", i)
		}
	}
	return "u:" + hex.EncodeToString(b)
}

func hashOf(b []byte) string {
	h := sha256.Sum256(b)
	return hex.EncodeToString(h[:])
}

// cidOfDigest maps a reported digest to a content id ("c<i>") if it is
// the SHA-256 digest (hash and size) of a known content.
func cidOfDigest(d *remoteexecution.Digest) string {
	if d == nil {
		return "nil"
	}
	for i, c := range contents {
		if d.Hash == hashOf(c) && d.SizeBytes == int64(len(c)) {
			return fmt.Sprintf("c%d", i)
		}
	}
	h := d.Hash
	if len(h) > 8 {
		h = h[:8]
	}
	return fmt.Sprintf("d:%s/%d", h, d.SizeBytes)
}

// ---------------------------------------------------------------------
// In-memory CAS.

type fakeCAS struct {
	mu    sync.Mutex
	blobs map[string][]byte // hash-size -> data
	puts  int
	bad   []string // puts whose data did not hash to the digest
}

func newFakeCAS() *fakeCAS { return &fakeCAS{blobs: map[string][]byte{}} }

func casKey(hash string, size int64) string { return fmt.Sprintf("%s-%d", hash, size) }

func (c *fakeCAS) GetCapabilities(ctx context.Context, instanceName digest.InstanceName) (*remoteexecution.ServerCapabilities, error) {
	return &remoteexecution.ServerCapabilities{CacheCapabilities: &remoteexecution.CacheCapabilities{}}, nil
}

func (c *fakeCAS) Get(ctx context.Context, d digest.Digest) buffer.Buffer {
	c.mu.Lock()
	defer c.mu.Unlock()
	if b, ok := c.blobs[casKey(d.GetHashString(), d.GetSizeBytes())]; ok {
		return buffer.NewValidatedBufferFromByteSlice(append([]byte(nil), b...))
	}
	return buffer.NewBufferFromError(status.Errorf(codes.NotFound, "blob %s not found", d))
}

func (c *fakeCAS) GetFromComposite(ctx context.Context, parentDigest, childDigest digest.Digest, slicer slicing.BlobSlicer) buffer.Buffer {
	return buffer.NewBufferFromError(status.Error(codes.Unimplemented, "GetFromComposite"))
}

func (c *fakeCAS) Put(ctx context.Context, d digest.Digest, b buffer.Buffer) error {
	data, err := b.ToByteSlice(1 << 24)
	if err != nil {
		return err
	}
	c.mu.Lock()
	defer c.mu.Unlock()
	c.puts++
	if hashOf(data) != d.GetHashString() || int64(len(data)) != d.GetSizeBytes() {
		// A blob stored under a digest that is not its own is not
		// retrievable under its content's digest: record, do not store.
		c.bad = append(c.bad, d.String())
		return nil
	}
	c.blobs[casKey(d.GetHashString(), d.GetSizeBytes())] = data
	return nil
}

func (c *fakeCAS) FindMissing(ctx context.Context, digests digest.Set) (digest.Set, error) {
	c.mu.Lock()
	defer c.mu.Unlock()
	sb := digest.NewSetBuilder(len(digests.Items()))
	for _, d := range digests.Items() {
		if _, ok := c.blobs[casKey(d.GetHashString(), d.GetSizeBytes())]; !ok {
			sb.Add(d)
		}
	}
	return sb.Build(), nil
}

func (c *fakeCAS) lookup(d *remoteexecution.Digest) ([]byte, bool) {
	if d == nil {
		return nil, false
	}
	c.mu.Lock()
	defer c.mu.Unlock()
	b, ok := c.blobs[casKey(d.Hash, d.SizeBytes)]
	return b, ok
}

func (c *fakeCAS) putRaw(data []byte) *remoteexecution.Digest {
	c.mu.Lock()
	defer c.mu.Unlock()
	h := hashOf(data)
	c.blobs[casKey(h, int64(len(data)))] = data
	return &remoteexecution.Digest{Hash: h, SizeBytes: int64(len(data))}
}

var _ blobstore.BlobAccess = (*fakeCAS)(nil)

// ---------------------------------------------------------------------
// In-memory block device for the file pool.

type memBlockDevice struct {
	mu   sync.Mutex
	data []byte
}

func (d *memBlockDevice) ReadAt(p []byte, off int64) (int, error) {
	d.mu.Lock()
	defer d.mu.Unlock()
	if off < 0 || off+int64(len(p)) > int64(len(d.data)) {
		return 0, syscall.EIO
	}
	return copy(p, d.data[off:]), nil
}

func (d *memBlockDevice) WriteAt(p []byte, off int64) (int, error) {
	d.mu.Lock()
	defer d.mu.Unlock()
	if off < 0 || off+int64(len(p)) > int64(len(d.data)) {
		return 0, syscall.ENOSPC
	}
	return copy(d.data[off:], p), nil
}

func (d *memBlockDevice) Sync() error  { return nil }
func (d *memBlockDevice) Close() error { return nil }

// ---------------------------------------------------------------------
// Error logger that remembers what the file system complained about.

type collectingErrorLogger struct {
	mu   sync.Mutex
	errs []string
}

func (l *collectingErrorLogger) Log(err error) {
	l.mu.Lock()
	l.errs = append(l.errs, err.Error())
	l.mu.Unlock()
}

var _ util.ErrorLogger = (*collectingErrorLogger)(nil)

// ---------------------------------------------------------------------
// Abstract trees the harness wants to exist.

// node is one entry of a tree description.
//
//	kind: "file" | "dir" | "symlink" | "fifo" | "socket" | "absent" | "hardlink"
//
// "absent" only has a meaning in a produced tree (the command removes
// whatever is there). Directories in a produced tree are merged with
// what exists; every other kind replaces it. A "hardlink" is a second
// name for the regular file `target` in the same directory (if there is
// no such file, nothing is created).
//
// style says how a file comes into being on the virtual file system:
//
//	0  created with its final permissions, written once
//	1  created without x, written with two separate opens, then chmod
//	2  written under a temporary name and renamed into place
type node struct {
	kind     string
	exec     bool
	content  int
	style    int
	target   string
	children map[string]*node
}

func fileN(exec bool, content int) *node { return &node{kind: "file", exec: exec, content: content} }
func fileS(exec bool, content, style int) *node {
	return &node{kind: "file", exec: exec, content: content, style: style}
}
func symN(target string) *node { return &node{kind: "symlink", target: target} }
func dirN(kv ...any) *node {
	n := &node{kind: "dir", children: map[string]*node{}}
	for i := 0; i+1 < len(kv); i += 2 {
		n.children[kv[i].(string)] = kv[i+1].(*node)
	}
	return n
}

func sortedNames(m map[string]*node) []string {
	out := make([]string, 0, len(m))
	for k := range m {
		out = append(out, k)
	}
	sort.Strings(out)
	return out
}

// describe renders a tree description compactly (for meta / debugging).
func (n *node) describe() string {
	switch n.kind {
	case "file":
		x := "-"
		if n.exec {
			x = "x"
		}
		return fmt.Sprintf("f%s%d%s", x, n.content, []string{"", "'", "\""}[n.style%3])
	case "hardlink":
		return "h(" + n.target + ")"
	case "symlink":
		return "l(" + n.target + ")"
	case "dir":
		parts := []string{}
		for _, k := range sortedNames(n.children) {
			parts = append(parts, k+":"+n.children[k].describe())
		}
		return "{" + strings.Join(parts, ",") + "}"
	}
	return n.kind
}

// entry is one line of an observed tree (flat form, the form the
// specification works with).
type entry struct {
	Path   []string `json:"path"`
	Kind   string   `json:"kind"` // file | dir | symlink | special
	Exec   bool     `json:"exec"`
	Target string   `json:"target"`
	Cid    string   `json:"cid"`
}

// ---------------------------------------------------------------------
// The environment of one case.

type env struct {
	cas       *fakeCAS
	df        digest.Function
	logger    *collectingErrorLogger
	ctx       context.Context
	inputRoot builder.BuildDirectory // what OutputHierarchy is given

	// virtual backend
	top      virtual.PrepopulatedDirectory
	inputVFS virtual.PrepopulatedDirectory // the input root, VFS side

	// native backend (native_test.go)
	nativeBase string
	nativeRoot string
	nativeTop  builder.BuildDirectory
}

func digestFunction() digest.Function {
	return digest.MustNewFunction("", remoteexecution.DigestFunction_SHA256)
}

func backgroundContext() context.Context { return context.Background() }

var (
	actionComponent    = path.MustNewComponent("action")
	inputRootComponent = path.MustNewComponent("root")
)

// newEnv builds bb_worker's virtual build directory stack: in-memory
// prepopulated directory, pool-backed files, handle allocators, symlink
// factory; then (as localBuildExecutor does) a per-action directory with
// hooks installed and an input root directory inside, optionally merged
// lazily from a Directory stored in the CAS.
func newEnv(pre *node, lazy bool) (*env, error) {
	e := &env{
		cas:    newFakeCAS(),
		df:     digestFunction(),
		logger: &collectingErrorLogger{},
		ctx:    backgroundContext(),
	}
	handleAllocator := virtual.NewFUSEHandleAllocator(random.FastThreadSafeGenerator)
	defaultAttributesSetter := func(requested virtual.AttributesMask, attributes *virtual.Attributes) {}
	const sectorSize, sectorCount = 32, 2048
	filePool := pool.NewBlockDeviceBackedFilePool(
		&memBlockDevice{data: make([]byte, sectorSize*sectorCount)},
		pool.NewBitmapSectorAllocator(sectorCount),
		sectorSize)
	e.top = virtual.NewInMemoryPrepopulatedDirectory(
		virtual.NewHandleAllocatingFileAllocator(
			virtual.NewPoolBackedFileAllocator(pool.EmptyFilePool, e.logger, defaultAttributesSetter, virtual.NoNamedAttributesFactory),
			handleAllocator),
		virtual.NewErrorSymlinkFactory(status.Error(codes.PermissionDenied, "Symlink outside build directory")),
		e.logger,
		handleAllocator,
		sort.Sort,
		func(s string) bool { return false },
		clock.SystemClock,
		virtual.CaseSensitiveComponentNormalizer,
		defaultAttributesSetter,
		virtual.NoNamedAttributesFactory,
	)
	symlinkFactory := virtual.NewHandleAllocatingSymlinkFactory(
		virtual.NewBaseSymlinkFactory(defaultAttributesSetter),
		handleAllocator.New(),
		path.LocalFormat,
	)
	characterDeviceFactory := virtual.NewHandleAllocatingCharacterDeviceFactory(
		virtual.BaseCharacterDeviceFactory,
		handleAllocator.New(),
	)
	buildDirectory := builder.NewVirtualBuildDirectory(
		e.top,
		cas.NewBlobAccessDirectoryFetcher(e.cas, 1<<20, 1<<20),
		e.cas,
		symlinkFactory,
		characterDeviceFactory,
		handleAllocator,
		defaultAttributesSetter,
		clock.SystemClock,
	)
	if err := buildDirectory.Mkdir(actionComponent, 0o777); err != nil {
		return nil, err
	}
	actionDirectory, err := buildDirectory.EnterBuildDirectory(actionComponent)
	if err != nil {
		return nil, err
	}
	actionDirectory.InstallHooks(filePool, e.logger)
	if err := actionDirectory.Mkdir(inputRootComponent, 0o777); err != nil {
		return nil, err
	}
	e.inputRoot, err = actionDirectory.EnterBuildDirectory(inputRootComponent)
	if err != nil {
		return nil, err
	}
	// The VFS side of the same directory.
	c1, err := e.top.LookupChild(actionComponent)
	if err != nil {
		return nil, err
	}
	d1, _ := c1.GetPair()
	c2, err := d1.LookupChild(inputRootComponent)
	if err != nil {
		return nil, err
	}
	e.inputVFS, _ = c2.GetPair()

	if pre != nil && len(pre.children) > 0 {
		if lazy {
			rootDigest := e.storeDirectory(pre)
			dg, err := e.df.NewDigestFromProto(rootDigest)
			if err != nil {
				return nil, err
			}
			if err := e.inputRoot.MergeDirectoryContents(e.ctx, e.logger, dg, nil); err != nil {
				return nil, err
			}
		} else {
			if err := e.apply(e.inputVFS, pre); err != nil {
				return nil, err
			}
		}
	}
	return e, nil
}

// storeDirectory stores a tree description as REv2 Directory messages
// (and its files) in the CAS and returns the digest of the root.
func (e *env) storeDirectory(n *node) *remoteexecution.Digest {
	var d remoteexecution.Directory
	for _, name := range sortedNames(n.children) {
		c := n.children[name]
		switch c.kind {
		case "file":
			d.Files = append(d.Files, &remoteexecution.FileNode{
				Name:         name,
				Digest:       e.cas.putRaw(contents[c.content]),
				IsExecutable: c.exec,
			})
		case "dir":
			d.Directories = append(d.Directories, &remoteexecution.DirectoryNode{
				Name:   name,
				Digest: e.storeDirectory(c),
			})
		case "symlink":
			d.Symlinks = append(d.Symlinks, &remoteexecution.SymlinkNode{Name: name, Target: c.target})
		default:
			panic("input roots hold files, directories and symlinks only")
		}
	}
	data, err := proto.MarshalOptions{Deterministic: true}.Marshal(&d)
	if err != nil {
		panic(err)
	}
	return e.cas.putRaw(data)
}

func vfsErr(op string, name path.Component, s virtual.Status) error {
	return fmt.Errorf("%s %q: virtual status %d", op, name.String(), int(s))
}

// apply makes the directory look like the description, the way a command
// running on the FUSE/NFS mount would: through the Virtual* methods.
func (e *env) apply(d virtual.PrepopulatedDirectory, n *node) error {
	names := sortedNames(n.children)
	// Hard links last: what they link to has to exist.
	sort.SliceStable(names, func(i, j int) bool {
		return n.children[names[i]].kind != "hardlink" && n.children[names[j]].kind == "hardlink"
	})
	for _, nameStr := range names {
		c := n.children[nameStr]
		name := path.MustNewComponent(nameStr)
		if c.kind == "dir" {
			existing, err := d.LookupChild(name)
			if err == nil {
				if sub, _ := existing.GetPair(); sub != nil {
					if err := e.apply(sub, c); err != nil {
						return err
					}
					continue
				}
			}
		}
		// Everything else replaces what is there.
		if err := d.RemoveAll(name); err != nil && err != syscall.ENOENT {
			return fmt.Errorf("remove %q: %w", nameStr, err)
		}
		switch c.kind {
		case "absent":
		case "dir":
			var out virtual.Attributes
			if _, _, s := d.VirtualMkdir(e.ctx, name, (&virtual.Attributes{}).SetPermissions(virtual.PermissionsRead|virtual.PermissionsWrite|virtual.PermissionsExecute), 0, &out); s != virtual.StatusOK {
				return vfsErr("mkdir", name, s)
			}
			created, err := d.LookupChild(name)
			if err != nil {
				return err
			}
			sub, _ := created.GetPair()
			if err := e.apply(sub, c); err != nil {
				return err
			}
		case "file":
			if err := e.createFile(d, name, c); err != nil {
				return err
			}
		case "hardlink":
			var out virtual.Attributes
			target, s := d.VirtualLookup(e.ctx, path.MustNewComponent(c.target), virtual.AttributesMaskFileType, &out)
			if s != virtual.StatusOK {
				continue
			}
			if _, leaf := target.GetPair(); leaf != nil && out.GetFileType() == filesystem.FileTypeRegularFile {
				if _, s := d.VirtualLink(e.ctx, name, leaf, 0, &virtual.Attributes{}); s != virtual.StatusOK {
					return vfsErr("link", name, s)
				}
			}
		case "symlink":
			var out virtual.Attributes
			attr := (&virtual.Attributes{}).SetFileType(filesystem.FileTypeSymlink).SetSymlinkTarget(path.UNIXFormat.NewParser(c.target))
			if _, _, s := d.VirtualMknod(e.ctx, name, attr, 0, &out); s != virtual.StatusOK {
				return vfsErr("symlink", name, s)
			}
		case "fifo", "socket":
			var out virtual.Attributes
			ft := filesystem.FileTypeFIFO
			if c.kind == "socket" {
				ft = filesystem.FileTypeSocket
			}
			if _, _, s := d.VirtualMknod(e.ctx, name, (&virtual.Attributes{}).SetFileType(ft), 0, &out); s != virtual.StatusOK {
				return vfsErr("mknod", name, s)
			}
		default:
			return fmt.Errorf("unknown node kind %q", c.kind)
		}
	}
	return nil
}

var temporaryName = path.MustNewComponent("tmp~")

// createFile creates one regular file the way node.style says.
func (e *env) createFile(d virtual.PrepopulatedDirectory, name path.Component, c *node) error {
	finalPerm := virtual.PermissionsRead | virtual.PermissionsWrite
	if c.exec {
		finalPerm |= virtual.PermissionsExecute
	}
	createPerm, createName := finalPerm, name
	switch c.style {
	case 1:
		createPerm = virtual.PermissionsRead | virtual.PermissionsWrite
	case 2:
		createName = temporaryName
	}
	data := contents[c.content]
	first := data
	if c.style == 1 {
		first = data[:len(data)/2]
	}
	var out virtual.Attributes
	leaf, _, _, s := d.VirtualOpenChild(e.ctx, createName, virtual.ShareMaskWrite, (&virtual.Attributes{}).SetPermissions(createPerm), nil, 0, &out)
	if s != virtual.StatusOK {
		return vfsErr("create", createName, s)
	}
	if len(first) > 0 {
		if n, s := leaf.VirtualWrite(e.ctx, first, 0); s != virtual.StatusOK || n != len(first) {
			return vfsErr("write", createName, s)
		}
	}
	leaf.VirtualClose(virtual.ShareMaskWrite)
	switch c.style {
	case 1:
		// Append the rest through a second open, then chmod.
		leaf2, _, _, s := d.VirtualOpenChild(e.ctx, name, virtual.ShareMaskWrite, nil, &virtual.OpenExistingOptions{}, 0, &out)
		if s != virtual.StatusOK {
			return vfsErr("reopen", name, s)
		}
		rest := data[len(first):]
		if len(rest) > 0 {
			if n, s := leaf2.VirtualWrite(e.ctx, rest, uint64(len(first))); s != virtual.StatusOK || n != len(rest) {
				return vfsErr("append", name, s)
			}
		}
		leaf2.VirtualClose(virtual.ShareMaskWrite)
		if s := leaf2.VirtualSetAttributes(e.ctx, (&virtual.Attributes{}).SetPermissions(finalPerm), 0, &virtual.Attributes{}); s != virtual.StatusOK {
			return vfsErr("chmod", name, s)
		}
	case 2:
		if _, _, s := d.VirtualRename(e.ctx, temporaryName, d, name); s != virtual.StatusOK {
			return vfsErr("rename", name, s)
		}
	}
	return nil
}

// walk records everything that exists below d, using the directory's own
// listing and the leaves' attributes (not the UploadableDirectory methods
// the code under test goes through). File contents are read back.
func (e *env) walk(d virtual.PrepopulatedDirectory, prefix []string, out *[]entry) error {
	dirs, leaves, err := d.LookupAllChildren()
	if err != nil {
		return err
	}
	for _, de := range dirs {
		p := append(append([]string(nil), prefix...), de.Name.String())
		*out = append(*out, entry{Path: p, Kind: "dir"})
		if err := e.walk(de.Child, p, out); err != nil {
			return err
		}
	}
	for _, le := range leaves {
		p := append(append([]string(nil), prefix...), le.Name.String())
		var a virtual.Attributes
		le.Child.VirtualGetAttributes(e.ctx, virtual.AttributesMaskFileType|virtual.AttributesMaskPermissions|virtual.AttributesMaskSizeBytes|virtual.AttributesMaskSymlinkTarget, &a)
		en := entry{Path: p}
		switch a.GetFileType() {
		case filesystem.FileTypeRegularFile:
			en.Kind = "file"
			if perm, ok := a.GetPermissions(); ok && perm&virtual.PermissionsExecute != 0 {
				en.Exec = true
			}
			size, _ := a.GetSizeBytes()
			buf := make([]byte, size)
			if size > 0 {
				if s := le.Child.VirtualOpenSelf(e.ctx, virtual.ShareMaskRead, &virtual.OpenExistingOptions{}, 0, &virtual.Attributes{}); s != virtual.StatusOK {
					return vfsErr("open", le.Name, s)
				}
				n, _, s := le.Child.VirtualRead(e.ctx, buf, 0)
				le.Child.VirtualClose(virtual.ShareMaskRead)
				if s != virtual.StatusOK {
					return vfsErr("read", le.Name, s)
				}
				buf = buf[:n]
			}
			en.Cid = cidOfBytes(buf)
		case filesystem.FileTypeSymlink:
			en.Kind = "symlink"
			if t, ok := a.GetSymlinkTarget(); ok {
				b, sw := path.EmptyBuilder.Join(path.VoidScopeWalker)
				if err := path.Resolve(t, sw); err != nil {
					return err
				}
				en.Target = b.GetUNIXString()
			}
		default:
			en.Kind = "special"
		}
		*out = append(*out, en)
	}
	return nil
}

func (e *env) observe() ([]entry, error) {
	out := []entry{}
	if e.nativeRoot != "" {
		err := walkNative(e.nativeRoot, nil, &out)
		return out, err
	}
	err := e.walk(e.inputVFS, nil, &out)
	return out, err
}

// produce lets the "command" leave the described tree behind.
func (e *env) produce(n *node) error {
	if e.nativeRoot != "" {
		return applyNative(e.nativeRoot, n)
	}
	return e.apply(e.inputVFS, n)
}

// release frees everything the case allocated.
func (e *env) release() {
	if e.nativeRoot != "" {
		e.inputRoot.Close()
		e.nativeTop.Close()
		os.RemoveAll(e.nativeBase)
		return
	}
	e.top.RemoveAllChildren(true)
}
