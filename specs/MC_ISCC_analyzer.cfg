SPECIFICATION AnalyzerSpec
CONSTANTS
  Digests = {d1}
  Threads = {t1}
  NoDigest = NoDigest
  MaxGets = 0
  MaxUpd = 0
  WritesPerRead = 3
  VersionRules = {"cur+1"}
  WriteGuards = {2}
  ReuseSlots = TRUE
  EagerFinish = FALSE
  RecordHist = FALSE
  MaxN = 3
  MaxT = 2
INVARIANTS
  C07_ChoiceWellFormed
  C07_ExpectedWithinTimeout
  C07_RetryOnce
  C07_HandleReleasedOnce
  C07_LearnedIsDirty
CHECK_DEADLOCK FALSE
