----------------------------- MODULE SuspClock -----------------------------
(***************************************************************************)
(* Reference model of pkg/clock/suspendable_clock.go (property C11).       *)
(*                                                                         *)
(* A SuspendableClock decorates a base clock.  Storage reads bracket       *)
(* themselves with Suspend()/Resume() (nested, from several readers).  A   *)
(* "deadline object" is either a context made by NewContextWithTimeout(d)  *)
(* or a timer made by NewTimer(d); both are implemented by the same loop   *)
(* of re-armed base timers plus one base deadline at d + MaxSusp:          *)
(*                                                                         *)
(*   final := unsuspended(now) + d ; arm base timer(d)                     *)
(*   on base timer:  d := final - unsuspended(now)                         *)
(*                   if d < Threshold then expire else arm base timer(d)   *)
(*   on base deadline (start + d + MaxSusp): expire                        *)
(*   on cancel by the caller: done, err = Canceled                         *)
(*                                                                         *)
(* Time is in integer units.  The base clock is punctual: time does not    *)
(* advance past an instant at which a base timer of a running object is    *)
(* due until that timer has been delivered; what happens *at* one instant  *)
(* (suspend, resume, cancel, delivery of several timers) is unordered.     *)
(*                                                                         *)
(* The ghost variable trueU is the integral of time during which nobody    *)
(* held a suspension; the timing equations are stated over it, never over  *)
(* the implementation's bookkeeping (unsuspStart / totalUnsusp).           *)
(***************************************************************************)
EXTENDS Integers, FiniteSets

CONSTANTS Objs,        \* identities of deadline objects
          Suspenders,  \* identities of storage readers
          MaxNest,     \* how often one reader may nest Suspend()
          Timeouts,    \* set of timeouts that may be requested
          MaxSusp,     \* maximumSuspension (maximum compensation)
          Threshold,   \* timeoutThreshold (> 0)
          Horizon      \* the model stops the base clock here

ASSUME Threshold > 0 /\ MaxSusp >= 0

-----------------------------------------------------------------------------
(* The timing equations of property C11.  thr = threshold, ms = maximum    *)
(* compensation, t = requested timeout, u = unsuspended time elapsed since *)
(* creation, w = wall-clock time elapsed since creation.  They are         *)
(* parametric so that SuspClockTrace.tla evaluates the very same           *)
(* operators on what the real code was observed to do.                     *)

\* Expiry is permitted only once the unsuspended budget is used up (to
\* within one threshold: the code does not re-arm for less than that), or
\* once timeout + maximum compensation of wall-clock time has passed.
MayExpire(thr, ms, t, u, w) == (u > t - thr) \/ (w >= t + ms)

\* With every due base timer delivered, an object that still runs has
\* neither used up its unsuspended budget nor reached the wall-clock bound.
MustBeDone(ms, t, u, w) == (u >= t) \/ (w >= t + ms)

\* Never, not even between becoming due and delivery, is a bound exceeded.
WithinBounds(ms, t, u, w) == (u <= t) /\ (w <= t + ms)

\* What a finished context reports as UnsuspendedDurationKey.
ReportedOK(reported, u) == reported = u

\* The base-timer duration the loop must ask for when it re-arms.
Rearm(t, u) == t - u

-----------------------------------------------------------------------------
VARIABLES now,          \* base clock
          holds,        \* [Suspenders -> 0..MaxNest]  nesting per reader
          susp,         \* suspensionCount
          unsuspStart,  \* unsuspensionStart
          totalUnsusp,  \* totalUnsuspended
          trueU,        \* ghost: integral of time with susp = 0
          obj           \* [Objs -> record], see NoObj

vars == <<now, holds, susp, unsuspStart, totalUnsusp, trueU, obj>>

NoObj == [st |-> "none", t |-> 0, start |-> 0, startU |-> 0, initial |-> 0,
          final |-> 0, due |-> 0, deadline |-> 0, reported |-> 0,
          doneU |-> 0, doneW |-> 0]

Done == {"expired", "maxed", "cancelled"}

\* getTotalUnsuspendedNow / getTotalUnsuspendedWithTime
TotalNow == totalUnsusp + (IF susp = 0 THEN now - unsuspStart ELSE 0)
TotalWithTime(at) ==
  totalUnsusp + (IF susp = 0 /\ at > unsuspStart THEN at - unsuspStart ELSE 0)

UElapsed(c) == trueU - obj[c].startU
WElapsed(c) == now - obj[c].start

Init ==
  /\ now = 0 /\ holds = [s \in Suspenders |-> 0] /\ susp = 0
  /\ unsuspStart = 0 /\ totalUnsusp = 0 /\ trueU = 0
  /\ obj = [c \in Objs |-> NoObj]

\* No base timer / base deadline of a running object is due.
NothingDue ==
  \A c \in Objs : obj[c].st = "running" => (obj[c].due > now /\ obj[c].deadline > now)

Tick ==
  /\ now < Horizon
  /\ NothingDue
  /\ now' = now + 1
  /\ trueU' = IF susp = 0 THEN trueU + 1 ELSE trueU
  /\ UNCHANGED <<holds, susp, unsuspStart, totalUnsusp, obj>>

Suspend(s) ==
  /\ holds[s] < MaxNest
  /\ holds' = [holds EXCEPT ![s] = @ + 1]
  /\ susp' = susp + 1
  /\ totalUnsusp' = IF susp = 0 THEN totalUnsusp + (now - unsuspStart) ELSE totalUnsusp
  /\ UNCHANGED <<now, unsuspStart, trueU, obj>>

Resume(s) ==
  /\ holds[s] > 0
  /\ holds' = [holds EXCEPT ![s] = @ - 1]
  /\ susp' = susp - 1
  /\ unsuspStart' = IF susp = 1 THEN now ELSE unsuspStart
  /\ UNCHANGED <<now, totalUnsusp, trueU, obj>>

\* NewContextWithTimeout(d) / NewTimer(d): the goroutine computes `initial`
\* under the lock taken by the caller, hence one step.
New(c, d) ==
  /\ obj[c].st = "none"
  /\ obj' = [obj EXCEPT ![c] =
       [st |-> "running", t |-> d, start |-> now, startU |-> trueU,
        initial |-> TotalNow, final |-> TotalNow + d, due |-> now + d,
        deadline |-> now + d + MaxSusp, reported |-> 0, doneU |-> 0, doneW |-> 0]]
  /\ UNCHANGED <<now, holds, susp, unsuspStart, totalUnsusp, trueU>>

Finish(c, st, rep) ==
  obj' = [obj EXCEPT ![c].st = st, ![c].reported = rep,
                     ![c].doneU = UElapsed(c), ![c].doneW = WElapsed(c)]

\* Delivery of the armed base timer.
TimerFire(c) ==
  /\ obj[c].st = "running"
  /\ obj[c].due <= now
  /\ LET cur == TotalWithTime(now)
         d   == obj[c].final - cur
     IN IF d < Threshold
        THEN Finish(c, "expired", cur - obj[c].initial)
        ELSE obj' = [obj EXCEPT ![c].due = now + d]
  /\ UNCHANGED <<now, holds, susp, unsuspStart, totalUnsusp, trueU>>

\* The base deadline at start + d + MaxSusp.
DeadlineFire(c) ==
  /\ obj[c].st = "running"
  /\ obj[c].deadline <= now
  /\ Finish(c, "maxed", TotalNow - obj[c].initial)
  /\ UNCHANGED <<now, holds, susp, unsuspStart, totalUnsusp, trueU>>

\* The command finished (cancel function) or the parent was cancelled.
Cancel(c) ==
  /\ obj[c].st = "running"
  /\ Finish(c, "cancelled", TotalNow - obj[c].initial)
  /\ UNCHANGED <<now, holds, susp, unsuspStart, totalUnsusp, trueU>>

Next ==
  \/ Tick
  \/ \E s \in Suspenders : Suspend(s) \/ Resume(s)
  \/ \E c \in Objs : \/ \E d \in Timeouts : New(c, d)
                     \/ TimerFire(c) \/ DeadlineFire(c) \/ Cancel(c)

Spec == Init /\ [][Next]_vars

-----------------------------------------------------------------------------
(* Properties.                                                             *)

RECURSIVE SumHolds(_)
SumHolds(S) == IF S = {} THEN 0 ELSE LET s == CHOOSE x \in S : TRUE IN holds[s] + SumHolds(S \ {s})

TypeOK ==
  /\ now \in 0 .. Horizon
  /\ holds \in [Suspenders -> 0 .. MaxNest]
  /\ susp \in 0 .. (MaxNest * Cardinality(Suspenders))
  /\ \A c \in Objs : obj[c].st \in {"none", "running"} \cup Done

\* Resume never without Suspend; the count is the number of open brackets.
C11_SuspCount == susp >= 0 /\ susp = SumHolds(Suspenders)

\* The bookkeeping of the clock is the integral of unsuspended time.
C11_AccountingExact == TotalNow = trueU

\* A command is not cancelled by the timeout before its unsuspended budget
\* is used up (to within one threshold) unless the wall-clock bound hit.
C11_NoEarlyTimeout ==
  \A c \in Objs : obj[c].st \in {"expired", "maxed"} =>
    MayExpire(Threshold, MaxSusp, obj[c].t, obj[c].doneU, obj[c].doneW)

\* The same as a step property: the step that expires an object happens in
\* a state in which expiry is permitted.
C11_ExpiryStep ==
  [][\A c \in Objs :
       (obj[c].st = "running" /\ obj'[c].st \in {"expired", "maxed"}) =>
         MayExpire(Threshold, MaxSusp, obj[c].t, UElapsed(c), WElapsed(c))]_vars

\* Timeouts fire: a running object is within both bounds, and strictly
\* inside them once every due base timer has been delivered.
C11_TimeoutFires ==
  \A c \in Objs : obj[c].st = "running" =>
    /\ WithinBounds(MaxSusp, obj[c].t, UElapsed(c), WElapsed(c))
    /\ NothingDue => ~MustBeDone(MaxSusp, obj[c].t, UElapsed(c), WElapsed(c))

\* timeout + maximum compensation bounds the wall-clock time of whatever
\* was ended by the clock; expiry through the timer loop lies in the
\* window (timeout - threshold, timeout] of unsuspended time.
C11_WallBound ==
  \A c \in Objs : obj[c].st \in {"expired", "maxed"} =>
    obj[c].doneW <= obj[c].t + MaxSusp /\ obj[c].doneU <= obj[c].t

C11_ExpiredWindow ==
  \A c \in Objs : obj[c].st = "expired" =>
    obj[c].t - Threshold < obj[c].doneU /\ obj[c].doneU <= obj[c].t

\* The reported duration is the unsuspended time the command ran, however
\* it ended.
C11_ReportedDuration ==
  \A c \in Objs : obj[c].st \in Done => ReportedOK(obj[c].reported, obj[c].doneU)

\* The duration the loop asks of the base clock is always the remaining
\* unsuspended budget at the instant of arming, and worth a timer.
C11_RearmIsRemainingBudget ==
  [][\A c \in Objs :
       (obj[c].st = "running" /\ obj'[c].st = "running" /\ obj'[c].due # obj[c].due) =>
         /\ obj'[c].due - now = Rearm(obj[c].t, UElapsed(c))
         /\ obj'[c].due - now >= Threshold]_vars
=============================================================================
