SPECIFICATION TraceSpec
CONSTANTS
  MaxParked = 0
  NoLock = "none"
  LockIds = {"unused"}
INVARIANTS
  VerdictOK
  C14_Balance
  Report
POSTCONDITION Accepted
CHECK_DEADLOCK FALSE
