------------------------ MODULE ByteRangeLocksTrace ------------------------
(***************************************************************************)
(* Validates traces recorded from the real ByteRangeLockSet against        *)
(* ByteRangeLocks.tla.  Every line is consumed; `verdict` says whether the *)
(* real code's reply / list is the one the reference model prescribes.     *)
(***************************************************************************)
EXTENDS ByteRangeLocks, Json, TLC, TLCExt

TraceLog == ndJsonDeserialize("trace.ndjson")

VARIABLES l,        \* next line of TraceLog
          verdict,  \* "ok" or the reason the last consumed line is wrong
          nonconf   \* number of lines whose list was not in canonical form

tvars == <<held, reply, l, verdict, nonconf>>

Line == TraceLog[l]
IsEvent(e) == l <= Len(TraceLog) /\ Line.ev = e /\ l' = l + 1

TypeOfGo(t) == IF t = "S" THEN "S" ELSE IF t = "X" THEN "X" ELSE "N"

EntrySet(es) == {es[i] : i \in 1 .. Len(es)}

\* Entries must be well-formed ranges within the byte domain.
WellFormed(es) ==
  \A i \in 1 .. Len(es) :
    /\ es[i].start \in 0 .. N /\ es[i].end \in 0 .. N /\ es[i].start < es[i].end
    /\ es[i].owner \in Owners /\ es[i].type \in Types

\* No owner holds a byte twice.
SingleValued(es) ==
  \A i, j \in 1 .. Len(es) :
    (i # j /\ es[i].owner = es[j].owner) =>
      (es[i].end <= es[j].start \/ es[j].end <= es[i].start)

Den(es) ==
  [b \in Bytes |-> [o \in Owners |->
     IF \E i \in 1 .. Len(es) : es[i].owner = o /\ es[i].start <= b /\ b < es[i].end
     THEN (CHOOSE t \in Types : \E i \in 1 .. Len(es) :
             es[i].owner = o /\ es[i].start <= b /\ b < es[i].end /\ es[i].type = t)
     ELSE "N"]]

Sorted(es) == \A i \in 1 .. (Len(es) - 1) : es[i].start <= es[i + 1].start

TInit == Init /\ l = 1 /\ verdict = "ok" /\ nonconf = 0

\* Start of a new trace: the lock set was re-initialised.
TReset ==
  /\ IsEvent("reset")
  /\ held' = NoLocks /\ reply' = [kind |-> "init"]
  /\ verdict' = "ok" /\ UNCHANGED nonconf

\* The driver re-established a state that an earlier validated trace
\* reached (used by the exhaustive transition enumeration).
TJump ==
  /\ IsEvent("jump")
  /\ LET es == Line.entries IN
       /\ verdict' = IF WellFormed(es) /\ SingleValued(es) THEN "ok" ELSE "jump:illformed"
       /\ held' = IF WellFormed(es) /\ SingleValued(es) THEN Den(es) ELSE NoLocks
  /\ reply' = [kind |-> "init"]
  /\ UNCHANGED nonconf

TSet ==
  /\ IsEvent("set")
  /\ LET o == Line.o  s == Line.s  e == Line.e  t == TypeOfGo(Line.t)
         es == Line.entries
         want == Apply(held, o, s, e, t)
     IN
       /\ held' = want
       /\ reply' = [kind |-> "set", delta |-> Line.delta]
       /\ verdict' =
            IF t \in Types /\ Conflicts(held, o, s, e, t) THEN "set:driver-called-set-on-conflict"
            ELSE IF ~WellFormed(es) THEN "set:illformed-entry"
            ELSE IF ~SingleValued(es) THEN "set:owner-holds-byte-twice"
            ELSE IF Den(es) # want THEN "set:list-does-not-denote-table"
            ELSE IF Line.delta # Len(es) - Line.before THEN "set:delta"
            ELSE "ok"
       /\ nonconf' = IF WellFormed(es) /\ (EntrySet(es) # Canon(want) \/ ~Sorted(es) \/ Len(es) # Cardinality(Canon(want)))
                     THEN nonconf + 1 ELSE nonconf

TTest ==
  /\ IsEvent("test")
  /\ LET o == Line.o  s == Line.s  e == Line.e  t == TypeOfGo(Line.t)
         want == Conflicts(held, o, s, e, t)
         by == Line.by
     IN
       /\ reply' = [kind |-> "test", denied |-> Line.denied]
       /\ verdict' =
            IF Line.denied # want THEN "test:denied-flag"
            ELSE IF Line.denied /\
                    ~( /\ by.owner \in Owners /\ by.owner # o
                       /\ by.type \in Types
                       /\ (by.type = "X" \/ t = "X")
                       /\ \E b \in Bytes : /\ s <= b /\ b < e /\ by.start <= b /\ b < by.end
                                           /\ held[b][by.owner] = by.type )
                 THEN "test:reported-lock-not-conflicting"
            ELSE "ok"
  /\ UNCHANGED <<held, nonconf>>

\* The real code panicked.
TPanic ==
  /\ IsEvent("panic")
  /\ verdict' = "panic"
  /\ UNCHANGED <<held, reply, nonconf>>

TNext == TReset \/ TJump \/ TSet \/ TTest \/ TPanic

TraceSpec == TInit /\ [][TNext]_tvars

-----------------------------------------------------------------------------
VerdictOK == verdict = "ok"

\* All lines were consumed (infrastructure sanity; a rejection shows up as
\* VerdictOK or an invariant being violated, never as a short run).
Accepted ==
  /\ TLCGet("stats").diameter - 1 = Len(TraceLog)
  /\ PrintT(<<"TRACE_ACCEPTED", Len(TraceLog)>>)

NonconfReport == (l <= Len(TraceLog)) \/ PrintT(<<"NONCONF", nonconf>>)
=============================================================================
