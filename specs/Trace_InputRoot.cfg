SPECIFICATION TraceSpec
CONSTANTS
  ActionIds = {"a0", "a1", "a2"}
  InvalidNames = {"", ".", "..", "a/b", "/", "bin:610062"}
INVARIANTS
  C17_Fidelity
  C17_Errors
  C17_Immutable
  VerdictOK
POSTCONDITION Accepted
CHECK_DEADLOCK FALSE
